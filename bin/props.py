# Per-property configuration of bin/check.
TRUSTED_COMMON = [
    'Coq 8.16.1 kernel + vm_compute (no native_compute); full .vo build through coq_makefile',
    'no Axiom/Parameter/Admitted in coq/ (grep gate on every run)',
    'correspondence harness (Go generators, runner, canonicaliser, Cases printer) in /verif/harness',
    'extractor harness/cmd/extract (go/ast) producing coq/Gen/*.v from /repo on every run',
    'Go runtime/stdlib and third-party libraries are modelled, not verified (DESIGN.md section 4)',
]

PROPS = {
    'C01': dict(
        harness='c01', props='Props/C01.v', models=['Model/Latch.v'],
        trusted=['ingester and FormatReader enter the theorems as Section variables (any behaviour); '
                 'the built-in classification tables are extracted from the seven IsContinuableError bodies',
                 'validity of the JSON bytes is json.Marshal output (stdlib), asserted on every returned slice by the harness'],
        assumptions=['ing_raw_on_success: an ingester returns a raw record whenever it reports success '
                     '(proved for the built-in ingester; required of caller-supplied ones)'],
    ),
    'C07': dict(
        harness='c07', props='Props/C07.v', models=['Model/Edi.v'],
        trusted=['go-corelib strs.ByteIndexWithEsc/ByteSplitWithEsc/ByteUnescape and the parts of Go bytes.Index/bytes.Split they fall back to are transcribed by hand from go-corelib@v0.0.14 (outside /repo); tied to the code by the correspondence cases only',
                 'the byte-stream scanner (bufio.Scanner + ios.NewScannerByDelim3, 128-byte initial buffer, growth) is modelled as the pure function scan_tokens (cut after every unescaped segment delimiter, drop what follows the last one) and ignore_crlf (two ios.BytesReplacingReader) as strip_crlf; chunking/buffer growth is property C09; the harness feeds segments longer than the initial buffer through full/half/one-byte readers so a slicing fault at growth fails the oracle',
                 'the segment hierarchy machine of ediReader is property C05; here the full reader runs over one non-group segment declaration (min 0, max unbounded)',
                 'utf8.DecodeRune as transcribed in Base/Utf8.v; rune/segment counters and error message texts are not modelled'],
        assumptions=['cfg_ok (edi_roundtrip, edi_elem_nodes): delimiters in use and the release character are non-empty, start with pairwise distinct ASCII bytes, and none of those first bytes occurs at a later position of any of them',
                     'segs_ok: segment name non-empty (not CR/LF-only when the segment delimiter is); without a release character no data byte starts a delimiter; with ignore_crlf no CR/LF in data or delimiters; with LF as segment delimiter no value or delimiter ends a segment with CR',
                     'input ends with a segment delimiter (what follows the last one is dropped: DESIGN section 6 F8, property C05)'],
    ),
}
