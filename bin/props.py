# Per-property configuration of bin/check.
TRUSTED_COMMON = [
    'Coq 8.16.1 kernel + vm_compute (no native_compute); full .vo build through coq_makefile',
    'no Axiom/Parameter/Admitted in coq/ (grep gate on every run)',
    'correspondence harness (Go generators, runner, canonicaliser, Cases printer) in /verif/harness',
    'extractor harness/cmd/extract (go/ast) producing coq/Gen/*.v from /repo on every run',
    'Go runtime/stdlib and third-party libraries are modelled, not verified (DESIGN.md section 4)',
]

PROPS = {
    'C01': dict(
        harness='c01', props='Props/C01.v', models=['Model/Latch.v'],
        trusted=['ingester and FormatReader enter the theorems as Section variables (any behaviour); '
                 'the built-in classification tables are extracted from the seven IsContinuableError bodies',
                 'validity of the JSON bytes is json.Marshal output (stdlib), asserted on every returned slice by the harness'],
        assumptions=['ing_raw_on_success: an ingester returns a raw record whenever it reports success '
                     '(proved for the built-in ingester; required of caller-supplied ones)'],
    ),
    'C04': dict(
        harness='c04', props='Props/C04.v', models=['Base/Tree.v', 'Model/Stream.v'],
        trusted=['encoding/xml and encoding/json tokenisers: the token stream is a function of the document (checked per case: '
                 'the tokens an independent decoder returns equal xevents/jevents of the document rebuilt from them)',
                 'antchfx/xpath engine: for targets of the class its result is sel pm pred (path predicate on the element-name chain, '
                 'final predicates on the candidate subtree); validated per case against idr.MatchAll on the fully loaded document',
                 'XML namespace resolution (space2prefix) is outside the model: tokens carry the resolved prefix/URI',
                 'engine behaviour the model follows because both evaluations (streaming and whole document) go through the same engine: '
                 'a non-initial "//" step and ".//x" include the context node itself; MatchAll results are read as a set in document order '
                 '(the engine returns duplicates and its own order for "//a//b"); generated predicates keep filtered steps x[..] out of the '
                 'LEFT operand of and/or (antchfx/xpath v1.1.11 evaluates the right operand on a moved context there)'],
        assumptions=['xml_no_doc_target: the path part does not select the XML document node itself (targets "." and "/" make the '
                     'XML reader deliver the top-level elements instead)',
                     'releases are of the node the last Read returned (or absent)'],
    ),
    'C17': dict(
        harness='c17', props='Props/C17.v', models=['Base/Tree.v', 'Model/Stream.v'],
        trusted=['reachable-tree size is measured by the harness through RawRecord().Raw().(*idr.Node) and parent links (public API)',
                 'record-at-a-time readers (hierarchy reader, EDI, fixed-length, old csv) enter through the small attach/filter/release '
                 'model flat_run; the XML/JSON stream readers through the C04 reader models',
                 'Go garbage collection of detached nodes is outside the model (a detached subtree is unreachable from the root)'],
        assumptions=['no_separator_text (XML): no character data between the records (F7 is the known finding outside this guard)',
                     'the repeated part consists of target records under a fixed set of ancestors; records of non-target declarations '
                     'and wrappers that are not themselves on the target path stay attached by design'],
    ),
}
