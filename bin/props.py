# Per-property configuration of bin/check.
TRUSTED_COMMON = [
    'Coq 8.16.1 kernel + vm_compute (no native_compute); full .vo build through coq_makefile',
    'no Axiom/Parameter/Admitted in coq/ (grep gate on every run)',
    'correspondence harness (Go generators, runner, canonicaliser, Cases printer) in /verif/harness',
    'extractor harness/cmd/extract (go/ast) producing coq/Gen/*.v from /repo on every run',
    'Go runtime/stdlib and third-party libraries are modelled, not verified (DESIGN.md section 4)',
]

PROPS = {
    'C01': dict(
        harness='c01', props='Props/C01.v', models=['Model/Latch.v'],
        trusted=['ingester and FormatReader enter the theorems as Section variables (any behaviour); '
                 'the built-in classification tables are extracted from the seven IsContinuableError bodies',
                 'validity of the JSON bytes is json.Marshal output (stdlib), asserted on every returned slice by the harness'],
        assumptions=['ing_raw_on_success: an ingester returns a raw record whenever it reports success '
                     '(proved for the built-in ingester; required of caller-supplied ones)'],
    ),
    'C11': dict(
        harness='c11', props='Props/C11.v', models=['Base/Tree.v', 'Model/Nav.v'],
        trusted=['antchfx/xpath v1.1.11 (the expression engine) enters the theorems as an arbitrary deterministic program over the '
                 'NodeNavigator interface (free structure prog: observe / move / Copy / MoveTo over a register file of navigators); '
                 'the engine itself is run, not modelled, by the end-to-end comparison (its optional NamespaceURL side interface, used '
                 'only by namespace-uri(), is outside the interface and outside the generated expressions)',
                 'reference binding antchfx/xmlquery v1.3.1: navigator transcribed from query.go. Its parser output is normalised by the '
                 'harness to the XPath data model (DeclarationNode removed; CharDataNode retyped TextNode, because v1.3.1 types all '
                 'character data CharDataNode and its navigator returns "" as their value)',
                 'repaired reference (harness fixNav = model run_dom true): xmlquery navigator with Value() of the document node = its '
                 'InnerText (Q1) and MoveToRoot() resetting the attribute index (Q2); proved identical to xmlquery as it is on every '
                 'execution that does not hit Q1/Q2 (repair_conservative); the harness counts the evaluations in which the repair was active',
                 'XML tokenisation (encoding/xml) and the construction of both trees are outside C11 (C08); every Coq case checks that the '
                 'tree idr.NewXMLStreamReader built equals to_idr of the DOM xmlquery built'],
        assumptions=['dom_wfb: only element nodes carry attributes (XML)',
                     'scope: documents without comment / processing-instruction nodes (the IDR does not represent them)',
                     'nav_programs_agree (xmlquery as it is) carries the named guard ref_ok: the execution on the reference performs neither '
                     'Value() on the document node nor MoveToRoot() on an attribute position (xmlquery v1.3.1 defects Q1/Q2, witnesses in '
                     'nav_programs_agree_unguarded_refuted; on both the IDR follows the XPath data model); nav_programs_agree_repaired has no guard',
                     'namespace prefixes are compared as strings (xpath v1.1.11 name tests use Prefix(), not the namespace URI); each URI is '
                     'bound to one prefix in generated documents (guard of known finding F11, which xmlquery shares: both parsers use one '
                     'global URI->prefix map, so F11 is invisible to this oracle; corpus cases f11-*)'],
    ),
}
