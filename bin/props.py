# Per-property configuration of bin/check.
TRUSTED_COMMON = [
    'Coq 8.16.1 kernel + vm_compute (no native_compute); full .vo build through coq_makefile',
    'no Axiom/Parameter/Admitted in coq/ (grep gate on every run)',
    'correspondence harness (Go generators, runner, canonicaliser, Cases printer) in /verif/harness',
    'extractor harness/cmd/extract (go/ast) producing coq/Gen/*.v from /repo on every run',
    'Go runtime/stdlib and third-party libraries are modelled, not verified (DESIGN.md section 4)',
]

PROPS = {
    'C01': dict(
        harness='c01', props='Props/C01.v', models=['Model/Latch.v'],
        trusted=['ingester and FormatReader enter the theorems as Section variables (any behaviour); '
                 'the built-in classification tables are extracted from the seven IsContinuableError bodies',
                 'validity of the JSON bytes is json.Marshal output (stdlib), asserted on every returned slice by the harness'],
        assumptions=['ing_raw_on_success: an ingester returns a raw record whenever it reports success '
                     '(proved for the built-in ingester; required of caller-supplied ones)'],
    ),
    'C10': dict(
        harness='c10', props='Props/C10.v', models=['Model/Pipeline.v'],
        trusted=['evaluator (ParseNode), json.Marshal, MD5/UUIDv3 and idr.JSONify2-encoding enter the theorems as Section variables; the node ID allocator (counter, sync.Pool as arbitrary-choice schedule, recycle) is modelled and its uniqueness invariant proved'],
        assumptions=['eval_cache_transparent (C02): the per-record transform memo does not change ParseNode results', 'eval_id_renaming (C02): ParseNode results are invariant under injective renaming of node IDs', 'eval_caches_sound (C13 ingredients expr_cache_pure / js_isolation (C20) / node_json_fresh): from any cache state satisfying CInv the result equals the one with empty caches and CInv is kept; CInv_mono', 'content_stable_per_id (guard, DESIGN section 6 F6): the node-JSON cache is only consulted for nodes of the record itself', 'reader model: flat record lists under one parent with a fixed envelope; EDI/csv2/fixedlength2 occurrence counters are outside the model'],
    ),
    'C13': dict(
        harness='c13', props='Props/C13.v', models=['Model/Pipeline.v'],
        trusted=['evaluator (ParseNode), json.Marshal, MD5/UUIDv3 and idr.JSONify2-encoding enter the theorems as Section variables; the node ID allocator (counter, sync.Pool as arbitrary-choice schedule, recycle) is modelled and its uniqueness invariant proved'],
        assumptions=['eval_cache_transparent (C02): the per-record transform memo does not change ParseNode results', 'eval_id_renaming (C02): ParseNode results are invariant under injective renaming of node IDs', 'eval_caches_sound (C13 ingredients expr_cache_pure / js_isolation (C20) / node_json_fresh): from any cache state satisfying CInv the result equals the one with empty caches and CInv is kept; CInv_mono', 'content_stable_per_id (guard, DESIGN section 6 F6): the node-JSON cache is only consulted for nodes of the record itself', 'reader model: flat record lists under one parent with a fixed envelope; EDI/csv2/fixedlength2 occurrence counters are outside the model'],
    ),
    'C15': dict(
        harness='c15', props='Props/C15.v', models=['Model/Pipeline.v'],
        trusted=['evaluator (ParseNode), json.Marshal, MD5/UUIDv3 and idr.JSONify2-encoding enter the theorems as Section variables; the node ID allocator (counter, sync.Pool as arbitrary-choice schedule, recycle) is modelled and its uniqueness invariant proved'] + ['H (MD5) injective: collisions excluded (DESIGN section 4)'],
        assumptions=['eval_cache_transparent (C02): the per-record transform memo does not change ParseNode results', 'eval_id_renaming (C02): ParseNode results are invariant under injective renaming of node IDs', 'eval_caches_sound (C13 ingredients expr_cache_pure / js_isolation (C20) / node_json_fresh): from any cache state satisfying CInv the result equals the one with empty caches and CInv is kept; CInv_mono', 'content_stable_per_id (guard, DESIGN section 6 F6): the node-JSON cache is only consulted for nodes of the record itself', 'reader model: flat record lists under one parent with a fixed envelope; EDI/csv2/fixedlength2 occurrence counters are outside the model'] + ['eval_hash_renaming (C02): results invariant under injective renaming of declaration hashes',
                          'XML checksum canon outside the F12 guard (attributes of text-only elements, text beside element children) is refuted: xml_checksum_refuted'],
    ),
}
