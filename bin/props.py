# Per-property configuration of bin/check.
TRUSTED_COMMON = [
    'Coq 8.16.1 kernel + vm_compute (no native_compute); full .vo build through coq_makefile',
    'no Axiom/Parameter/Admitted in coq/ (grep gate on every run)',
    'correspondence harness (Go generators, runner, canonicaliser, Cases printer) in /verif/harness',
    'extractor harness/cmd/extract (go/ast) producing coq/Gen/*.v from /repo on every run',
    'Go runtime/stdlib and third-party libraries are modelled, not verified (DESIGN.md section 4)',
]

PROPS = {
    'C01': dict(
        harness='c01', props='Props/C01.v', models=['Model/Latch.v'],
        trusted=['ingester and FormatReader enter the theorems as Section variables (any behaviour); '
                 'the built-in classification tables are extracted from the seven IsContinuableError bodies',
                 'validity of the JSON bytes is json.Marshal output (stdlib), asserted on every returned slice by the harness'],
        assumptions=['ing_raw_on_success: an ingester returns a raw record whenever it reports success '
                     '(proved for the built-in ingester; required of caller-supplied ones)'],
    ),
    'C20': dict(
        harness='c20', props='Props/C20.v', models=['Model/Js.v'],
        trusted=['goja (parser, interpreter, ToValue/Export, property semantics of the global object) is modelled, not verified: '
                 'a compiled script is an arbitrary function of the globals it can see; the fresh global object enters as a table '
                 '(own names with configurable flag, inherited names) read off the real runtime on every run and checked against rt_wf',
                 'sync.Pool = arbitrary choice among pooled items or New, items may vanish at any time; hashicorp LRU transcribed (move-to-front, evict oldest)',
                 'idr.JSONify2 is a function of the node content at the time of the call (the harness computes it through a probe custom func)'],
        assumptions=['rt_wf: a configurable own global is writable and no own global name is also inherited (checked on the real table in every case)',
                     'content_stable_per_id (named guard of node_json_fresh / js_calls_as_alone): a node ID\'s content does not change while its JSON may be cached; '
                     'FALSE for ancestors of streamed records - known finding F6, witness node_json_refuted, corpus f6_ancestor_node.json',
                     'scripts do not assign or declare globals (excluded by the property; by type in the model)',
                     'the enumeration order of the global object\'s properties is not observable by scripts (gmap is extensional)'],
    ),
}
