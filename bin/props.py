# Per-property configuration of bin/check.
TRUSTED_COMMON = [
    'Coq 8.16.1 kernel + vm_compute (no native_compute); full .vo build through coq_makefile',
    'no Axiom/Parameter/Admitted in coq/ (grep gate on every run)',
    'correspondence harness (Go generators, runner, canonicaliser, Cases printer) in /verif/harness',
    'extractor harness/cmd/extract (go/ast) producing coq/Gen/*.v from /repo on every run',
    'Go runtime/stdlib and third-party libraries are modelled, not verified (DESIGN.md section 4)',
]

PROPS = {
    'C01': dict(
        harness='c01', props='Props/C01.v', models=['Model/Latch.v'],
        trusted=['ingester and FormatReader enter the theorems as Section variables (any behaviour); '
                 'the built-in classification tables are extracted from the seven IsContinuableError bodies',
                 'validity of the JSON bytes is json.Marshal output (stdlib), asserted on every returned slice by the harness'],
        assumptions=['ing_raw_on_success: an ingester returns a raw record whenever it reports success '
                     '(proved for the built-in ingester; required of caller-supplied ones)'],
    ),
    'C05': dict(
        harness='c05', props='Props/C05.v', models=['Model/Hier.v', 'Model/HierSpec.v'],
        trusted=['leaf matchers enter machine_eq_spec as a Section variable (any matcher that takes between 1 and all of the '
                 'remaining units); the csv2/fixedlength2 rows and header/footer matchers and the EDI name matcher are instances',
                 'idr node linking is modelled as commit-on-completion (Model/Hier.v header); the delivered subtrees are compared '
                 'with the implementation on every case',
                 'tokenisation (lines, csv records, EDI segments) is outside this property: units are what the tokenizers deliver'],
        assumptions=['machine_eq_spec is proved for every fuel with which the run reaches a terminal result (..._partial); '
                     'that run_fuel iterations always suffice (hier_terminates) is only swept over a small scope and '
                     'checked on every correspondence case',
                     'max >= 1 for every declaration (not enforced by validation: finding F17)',
                     'EDI: no_root_repeat (known finding F14) and input ends with a segment terminator (known finding F8)'],
    ),
}
