# Per-property configuration of bin/check.
TRUSTED_COMMON = [
    'Coq 8.16.1 kernel + vm_compute (no native_compute); full .vo build through coq_makefile',
    'no Axiom/Parameter/Admitted in coq/ (grep gate on every run)',
    'correspondence harness (Go generators, runner, canonicaliser, Cases printer) in /verif/harness',
    'extractor harness/cmd/extract (go/ast) producing coq/Gen/*.v from /repo on every run',
    'Go runtime/stdlib and third-party libraries are modelled, not verified (DESIGN.md section 4)',
]

PROPS = {
    'C01': dict(
        harness='c01', props='Props/C01.v', models=['Model/Latch.v'],
        trusted=['ingester and FormatReader enter the theorems as Section variables (any behaviour); '
                 'the built-in classification tables are extracted from the seven IsContinuableError bodies',
                 'validity of the JSON bytes is json.Marshal output (stdlib), asserted on every returned slice by the harness'],
        assumptions=['ing_raw_on_success: an ingester returns a raw record whenever it reports success '
                     '(proved for the built-in ingester; required of caller-supplied ones)'],
    ),
    'C20': dict(
        harness='c20', props='Props/C20.v', models=['Model/Js.v'],
        trusted=['goja (parser, interpreter, ToValue/Export, property semantics of the global object) is modelled, not verified: '
                 'a compiled script is an arbitrary function of the globals it can see; the fresh global object enters as a table '
                 '(own names with configurable flag, inherited names) read off the real runtime on every run and checked against rt_wf',
                 'sync.Pool = arbitrary choice among pooled items or New, items may vanish at any time; hashicorp LRU transcribed (move-to-front, evict oldest)',
                 'idr.JSONify2 is a function of the node content at the time of the call (the harness computes it through a probe custom func)'],
        assumptions=['rt_wf: a configurable own global is writable and no own global name is also inherited (checked on the real table in every case)',
                     'content_stable_per_id (named guard of node_json_fresh / js_calls_as_alone): a node ID\'s content does not change while its JSON may be cached; '
                     'FALSE for ancestors of streamed records - known finding F6, witness node_json_refuted, corpus f6_ancestor_node.json',
                     'scripts do not assign or declare globals (excluded by the property; by type in the model)',
                     'the enumeration order of the global object\'s properties is not observable by scripts (gmap is extensional)'],
    ),
    'C14': dict(
        harness='c14', props='Props/C14.v', models=['Model/Js.v', 'Model/Conc.v'], harness_timeout=1500,
        trusted=['PARTIAL BY NATURE: the theorems quantify over all interleavings of ATOMIC actions on the shared state '
                 '(sync.Pool Get/Put, atomic.AddInt64, LRU Get/Add - hashicorp LRU is internally locked); that the Go code performs '
                 'these accesses atomically (data-race freedom in the Go memory model sense) is ASSUMED by the model and validated, '
                 'not proved, by running the same concurrent workload as a child process built with `go build -race` on every check',
                 'a goroutine = a list of operations (node alloc/release, cacheable xpath query, javascript call), each a sequence of atomic '
                 'actions with local steps in between; xpath.Compile / goja.Compile / expression evaluation enter as arbitrary functions',
                 'schema_readonly is a fact about the model (no action writes h_schema); on the Go side it is compared through '
                 'transform.VerifDeclDump + a reflective deep dump of the format runtime before/after every concurrent mix'],
        assumptions=['atomicity of the listed actions (validated under the race detector: any "WARNING: DATA RACE" is an oracle failure)',
                     'rt_wf r (see C20); op_wf: both iterations of a call\'s arg map range over its keys',
                     'node content is fixed when the node is created and not changed while it is live (content_stable_per_id of C20: built into the operation vocabulary)',
                     'hid_ok: the initial shared state satisfies the invariant (empty caches and pools do)'],
    ),
}
