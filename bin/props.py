# Per-property configuration of bin/check.
TRUSTED_COMMON = [
    'Coq 8.16.1 kernel + vm_compute (no native_compute); full .vo build through coq_makefile',
    'no Axiom/Parameter/Admitted in coq/ (grep gate on every run)',
    'correspondence harness (Go generators, runner, canonicaliser, Cases printer) in /verif/harness',
    'extractor harness/cmd/extract (go/ast) producing coq/Gen/*.v from /repo on every run',
    'Go runtime/stdlib and third-party libraries are modelled, not verified (DESIGN.md section 4)',
]

PROPS = {
    'C01': dict(
        harness='c01', props='Props/C01.v', models=['Model/Latch.v'],
        trusted=['ingester and FormatReader enter the theorems as Section variables (any behaviour); '
                 'the built-in classification tables are extracted from the seven IsContinuableError bodies',
                 'validity of the JSON bytes is json.Marshal output (stdlib), asserted on every returned slice by the harness'],
        assumptions=['ing_raw_on_success: an ingester returns a raw record whenever it reports success '
                     '(proved for the built-in ingester; required of caller-supplied ones)'],
    ),
    'C11': dict(
        harness='c11', props='Props/C11.v', models=['Base/Tree.v', 'Model/Nav.v'],
        trusted=['antchfx/xpath v1.1.11 (the expression engine) enters the theorems as an arbitrary deterministic program over the '
                 'NodeNavigator interface (free structure prog: observe / move / Copy / MoveTo over a register file of navigators); '
                 'the engine itself is run, not modelled, by the end-to-end comparison',
                 'reference binding antchfx/xmlquery v1.3.1: navigator transcribed from query.go; its parser output is normalised by the '
                 'harness to the XPath data model (DeclarationNode removed, CharDataNode retyped TextNode) and the two navigator '
                 'defects of the reference (Value() of the document node is "", MoveToRoot() keeps the attribute index) are excluded '
                 'by the named guard ref_ok and demonstrated by the _refuted theorems',
                 'XML tokenisation (encoding/xml) and the construction of both trees are outside C11 (C08); every case checks that the '
                 'tree idr.NewXMLStreamReader built equals to_idr of the DOM'],
        assumptions=['dom_wfb: only element nodes carry attributes (XML)',
                     'scope: documents without comment / processing-instruction nodes (the IDR does not represent them)',
                     'ref_ok: the execution on the reference performs neither Value() on the document node nor MoveToRoot() on an '
                     'attribute position (xmlquery v1.3.1 defects Q1/Q2; on both the IDR follows the XPath data model)',
                     'namespace prefixes are compared as strings (xpath v1.1.11 name tests use Prefix(), not the namespace URI); each URI '
                     'bound to one prefix in generated documents (guard of known finding F11, which both parsers share)'],
    'C08': dict(
        harness='c08', props='Props/C08.v', models=['Model/Json.v', 'Model/Xml.v'],
        trusted=['encoding/json Decoder.Token and encoding/xml Decoder.Token/RawToken are modelled as the token stream determined by the document (jtokens / xtokens, incl. the namespace translation of encoding/xml); the harness reads the same text with its own decoder and the model is compared against that stream on every case',
                 'strconv.FormatFloat(v,\'f\',-1,64) / ParseFloat enter the theorems as Section variables; the harness supplies them as a table computed with strconv and asserts the round trip on every number',
                 'the partially built idr.Node tree is modelled as the stack of open nodes (append-only construction; justified by the C12 refinement to the abstract tree)'],
        assumptions=['jwf: object keys pairwise distinct at every level (duplicate keys are folded into an array by the converter; encoding/json keeps the last)',
                     'float_roundtrip: strconv.ParseFloat(strconv.FormatFloat(v,\'f\',-1,64)) = v for the numbers of the value (asserted by the harness on every number)',
                     'ns_wf (xml_prefix_in_scope only): Namespaces-in-XML well-formedness of the names used (prefixes bound in scope to non-empty URIs, xmlns/xml not redeclared, no URI literally "xmlns", no prefixed attribute / unprefixed element named "xmlns")',
                     'uri_single_prefix (xml_prefix_in_scope only): no namespace URI is bound to two different prefixes in the document - known finding F11 outside it (xml_prefix_refuted)'],
    ),
}
