# Per-property configuration of bin/check.
TRUSTED_COMMON = [
    'Coq 8.16.1 kernel + vm_compute (no native_compute); full .vo build through coq_makefile',
    'no Axiom/Parameter/Admitted in coq/ (grep gate on every run)',
    'correspondence harness (Go generators, runner, canonicaliser, Cases printer) in /verif/harness',
    'extractor harness/cmd/extract (go/ast) producing coq/Gen/*.v from /repo on every run',
    'Go runtime/stdlib and third-party libraries are modelled, not verified (DESIGN.md section 4)',
]

PROPS = {
    'C01': dict(
        harness='c01', props='Props/C01.v', models=['Model/Latch.v'],
        trusted=['ingester and FormatReader enter the theorems as Section variables (any behaviour); '
                 'the built-in classification tables are extracted from the seven IsContinuableError bodies',
                 'validity of the JSON bytes is json.Marshal output (stdlib), asserted on every returned slice by the harness'],
        assumptions=['ing_raw_on_success: an ingester returns a raw record whenever it reports success '
                     '(proved for the built-in ingester; required of caller-supplied ones)'],
    ),
    'C03': dict(
        harness='c03', props='Props/C03.v', models=['Model/Safety.v'],
        trusted=['PARTIAL BY NATURE: panics and hangs inside gojsonschema, antchfx/xpath, goja, encoding/json, encoding/xml, '
                 'encoding/csv, regexp and golang.org/x/text are not expressible in the model; for them harness/cmd/c03 is a search '
                 'engine only (recover() + watchdog over mutated schemas and damaged inputs) and the absence of findings there is not proved',
                 'json.Decoder token grammar (inside an object a string key or "}" is expected, inside an array a value or "]"; '
                 'any number of top-level values) enters json_stream_cursor_no_panic as the hypothesis dec_accepts',
                 'encoding/csv: a Reader.Read call with a usable delimiter consumes at least one physical line or returns io.EOF '
                 '(Section hypothesis span_ok of csv_delim_progress); its validDelim is transcribed by hand (stdcsv_valid_delim)',
                 'reflect.Value.Call / Type.In / Type.Elem / AssignableTo are modelled over an abstract type universe (Model/Safety.v section 1)',
                 'the readers themselves (hierarchy reader, stream readers, csv/fixed-length, EDI) are modelled under C04..C07; '
                 'read_terminates_bound takes their progress property as a Section hypothesis',
                 'Gen/Safety.v: isValidDelimiter of csv and csv2 (and whether validateFileDecl applies it), JSON-schema bounds, extracted on every run'],
        assumptions=['sig_ok: the first parameter of a registered custom function accepts *transformctx.Ctx (registration is caller code, outside the claim)',
                     'guards of the known findings (KNOWN_FINDINGS.txt, property C03): int_plain, xd_no_null, tpl_small, groups_small, xpath_plain, js_export_total; '
                     'the main generators stay inside them, the recorded inputs are replayed from replays/corpus/C03 on every run',
                     'read bound: a finite input of n bytes reaches a terminal result within n+2 Reads (the constant the harness enforces)'],
    ),
}
