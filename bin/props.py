# Per-property configuration of bin/check.
TRUSTED_COMMON = [
    'Coq 8.16.1 kernel + vm_compute (no native_compute); full .vo build through coq_makefile',
    'no Axiom/Parameter/Admitted in coq/ (grep gate on every run)',
    'correspondence harness (Go generators, runner, canonicaliser, Cases printer) in /verif/harness',
    'extractor harness/cmd/extract (go/ast) producing coq/Gen/*.v from /repo on every run',
    'Go runtime/stdlib and third-party libraries are modelled, not verified (DESIGN.md section 4)',
]

PROPS = {
    'C01': dict(
        harness='c01', props='Props/C01.v', models=['Model/Latch.v'],
        trusted=['ingester and FormatReader enter the theorems as Section variables (any behaviour); '
                 'the built-in classification tables are extracted from the seven IsContinuableError bodies',
                 'validity of the JSON bytes is json.Marshal output (stdlib), asserted on every returned slice by the harness'],
        assumptions=['ing_raw_on_success: an ingester returns a raw record whenever it reports success '
                     '(proved for the built-in ingester; required of caller-supplied ones)'],
    ),
    'C18': dict(
        harness='c18', props='Props/C18.v', models=['Model/Encoding.v'],
        trusted=['the name -> decoder map (supportedEncodingMappings), the default/fallback name of WrapEncoding and the order '
                 'StripBOM(WrapEncoding(input)) are extracted from header/header.go and schema.go into Gen/Encoding.v on every run',
                 'golang.org/x/text charmap decoders are modelled as bytewise table decoders; their 2x256 table entries are '
                 'observed through WrapEncoding and compared with the model tables (written from the Unicode mapping files) on every run',
                 'bufio.Reader.ReadRune / UnreadRune inside ios.StripBOM are modelled by utf8.DecodeRune on the whole input (Base/Utf8.v); '
                 'validated with one-byte, data+EOF and random chunk readers',
                 'the format readers are not modelled here: equality of Read transcripts is decided on the Go side '
                 '(transcript(bytes, X) == transcript(utf8_of_X(bytes), utf-8)) for the seven formats'],
        assumptions=[],
    ),
}
