# Per-property configuration of bin/check.
TRUSTED_COMMON = [
    'Coq 8.16.1 kernel + vm_compute (no native_compute); full .vo build through coq_makefile',
    'no Axiom/Parameter/Admitted in coq/ (grep gate on every run)',
    'correspondence harness (Go generators, runner, canonicaliser, Cases printer) in /verif/harness',
    'extractor harness/cmd/extract (go/ast) producing coq/Gen/*.v from /repo on every run',
    'Go runtime/stdlib and third-party libraries are modelled, not verified (DESIGN.md section 4)',
]

PROPS = {
    'C01': dict(
        harness='c01', props='Props/C01.v', models=['Model/Latch.v'],
        trusted=['ingester and FormatReader enter the theorems as Section variables (any behaviour); '
                 'the built-in classification tables are extracted from the seven IsContinuableError bodies',
                 'validity of the JSON bytes is json.Marshal output (stdlib), asserted on every returned slice by the harness'],
        assumptions=['ing_raw_on_success: an ingester returns a raw record whenever it reports success '
                     '(proved for the built-in ingester; required of caller-supplied ones)'],
    ),
    'C02': dict(
        harness='c02', props='Props/C02.v',
        models=['Model/Value.v', 'Model/XPathFrag.v', 'Model/Decl.v', 'Model/Eval.v'],
        trusted=['the xpath engine, custom functions, custom_parse functions and external properties enter the theorems as Section variables '
                 '(any deterministic functions); the model is RUN with the fragment evaluator Model/XPathFrag.v and the functions the harness registers',
                 'strings.TrimSpace, strconv.ParseInt/ParseBool and (for plain decimal literals of <= 15 digits) ParseFloat / %v are transcribed in Model/Value.v; '
                 'encoding/json (Marshal of the result) is stdlib, observed as decoded values',
                 'resultTypeConversion table and resolveKind order are extracted into Gen/Conv.v on every run'],
        assumptions=['node IDs of one record tree are pairwise distinct (C12), custom functions are deterministic in (node, arguments)',
                     'wf_b: the validated declaration tree has the shape validate produces (checked on every dumped tree)'],
    ),
}
