# Per-property configuration of bin/check.
TRUSTED_COMMON = [
    'Coq 8.16.1 kernel + vm_compute (no native_compute); full .vo build through coq_makefile',
    'no Axiom/Parameter/Admitted in coq/ (grep gate on every run)',
    'correspondence harness (Go generators, runner, canonicaliser, Cases printer) in /verif/harness',
    'extractor harness/cmd/extract (go/ast) producing coq/Gen/*.v from /repo on every run',
    'Go runtime/stdlib and third-party libraries are modelled, not verified (DESIGN.md section 4)',
]

PROPS = {
    'C01': dict(
        harness='c01', props='Props/C01.v', models=['Model/Latch.v'],
        trusted=['ingester and FormatReader enter the theorems as Section variables (any behaviour); '
                 'the built-in classification tables are extracted from the seven IsContinuableError bodies',
                 'validity of the JSON bytes is json.Marshal output (stdlib), asserted on every returned slice by the harness'],
        assumptions=['ing_raw_on_success: an ingester returns a raw record whenever it reports success '
                     '(proved for the built-in ingester; required of caller-supplied ones)'],
    ),
    'C06': dict(
        harness='c06', props='Props/C06.v', models=['Model/Csv.v', 'Model/Fixed.v', 'Model/Delim.v'],
        trusted=['encoding/csv.Reader (as configured by both csv readers), bufio.Reader.ReadLine / ios.ByteReadLine, utf8.DecodeRune, '
                 'strings.TrimSpace, strings.Join and regexp matching are modelled from their sources, not verified; the correspondence '
                 'runs compare the model with the real readers and the csv model with encoding/csv on every generated table',
                 'regular expressions enter the theorems as an arbitrary match function; the executable model covers `^literal` and `literal`'],
        assumptions=[],
    ),
}
