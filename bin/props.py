# Per-property configuration of bin/check.
TRUSTED_COMMON = [
    'Coq 8.16.1 kernel + vm_compute (no native_compute); full .vo build through coq_makefile',
    'no Axiom/Parameter/Admitted in coq/ (grep gate on every run)',
    'correspondence harness (Go generators, runner, canonicaliser, Cases printer) in /verif/harness',
    'extractor harness/cmd/extract (go/ast) producing coq/Gen/*.v from /repo on every run',
    'Go runtime/stdlib and third-party libraries are modelled, not verified (DESIGN.md section 4)',
]

PROPS = {
    'C01': dict(
        harness='c01', props='Props/C01.v', models=['Model/Latch.v'],
        trusted=['ingester and FormatReader enter the theorems as Section variables (any behaviour); '
                 'the built-in classification tables are extracted from the seven IsContinuableError bodies',
                 'validity of the JSON bytes is json.Marshal output (stdlib), asserted on every returned slice by the harness'],
        assumptions=['ing_raw_on_success: an ingester returns a raw record whenever it reports success '
                     '(proved for the built-in ingester; required of caller-supplied ones)'],
    ),
    'C12': dict(
        harness='c12', props='Props/C12.v', models=['Model/Heap.v'],
        trusted=['sync.Pool enters as an arbitrary-choice multiset: Get may return any pooled node or call New; '
                 'the pool choice is an explicit argument of the create step and every theorem quantifies over it',
                 'sync/atomic.AddInt64 is one atomic step (ids_unique_par quantifies over all interleavings of such steps); '
                 'int64 wrap-around after 2^63 acquisitions is outside the model (IDs are Z)',
                 'the Go allocator never reuses the address of a node that is still referenced (the harness keeps every node alive)'],
        assumptions=['API preconditions (pre_b): AddChild(p, n) - p live, n a live detached root, p not in the tree of n; '
                     'RemoveAndReleaseTree(n) - n live (not released before)'],
    ),
}
