# Per-property configuration of bin/check.
TRUSTED_COMMON = [
    'Coq 8.16.1 kernel + vm_compute (no native_compute); full .vo build through coq_makefile',
    'no Axiom/Parameter/Admitted in coq/ (grep gate on every run)',
    'correspondence harness (Go generators, runner, canonicaliser, Cases printer) in /verif/harness',
    'extractor harness/cmd/extract (go/ast) producing coq/Gen/*.v from /repo on every run',
    'Go runtime/stdlib and third-party libraries are modelled, not verified (DESIGN.md section 4)',
]

import glob as _glob, os as _os

# One file per property: bin/props.d/<ID>.py holds a single dict expression with the keys
# harness, props, models, trusted, assumptions (and optionally harness_timeout).
PROPS = {}
for _f in sorted(_glob.glob(_os.path.join(_os.path.dirname(_os.path.abspath(__file__)), 'props.d', 'C*.py'))):
    PROPS[_os.path.basename(_f)[:-3]] = eval(open(_f).read())
