# Per-property configuration of bin/check.
TRUSTED_COMMON = [
    'Coq 8.16.1 kernel + vm_compute (no native_compute); full .vo build through coq_makefile',
    'no Axiom/Parameter/Admitted in coq/ (grep gate on every run)',
    'correspondence harness (Go generators, runner, canonicaliser, Cases printer) in /verif/harness',
    'extractor harness/cmd/extract (go/ast) producing coq/Gen/*.v from /repo on every run',
    'Go runtime/stdlib and third-party libraries are modelled, not verified (DESIGN.md section 4)',
]

PROPS = {
    'C01': dict(
        harness='c01', props='Props/C01.v', models=['Model/Latch.v'],
        trusted=['ingester and FormatReader enter the theorems as Section variables (any behaviour); '
                 'the built-in classification tables are extracted from the seven IsContinuableError bodies',
                 'validity of the JSON bytes is json.Marshal output (stdlib), asserted on every returned slice by the harness'],
        assumptions=['ing_raw_on_success: an ingester returns a raw record whenever it reports success '
                     '(proved for the built-in ingester; required of caller-supplied ones)'],
    ),
    'C09': dict(
        harness='c09', props='Props/C09.v', models=['Model/Chunk.v'],
        trusted=['encoding/csv, encoding/json, encoding/xml decoders (they sit on bufio) are assumed chunk-invariant; '
                 'the theorems cover the omniparser / go-corelib / bufio layers below them, the implementation-side '
                 'metamorphic oracle covers the whole stack for all seven formats',
                 'bufio.Reader, bufio.Scanner, go-corelib ios (StripBOM, BytesReplacingReader, ByteReadLine, NewScannerByDelim3) and the '
                 'x/text charmap decoder are transcribed from their sources into Model/Chunk.v and compared with the real code on every run'],
        assumptions=['no 100 consecutive empty reads ((0, nil)) from the input reader (bufio gives up with io.ErrNoProgress)'],
    ),
    'C16': dict(
        harness='c16', props='Props/C16.v', models=['Model/Chunk.v', 'Model/Fault.v'],
        trusted=['stdlib decoders (encoding/csv|json|xml) return the error of their input reader after a prefix of the fault-free tokens (error transparency)',
                 'classification tables are extracted from the seven IsContinuableError bodies (Gen/Continuable.v)'],
        assumptions=['the fault is a non-EOF error that persists (the same error forever, or one error once and another one forever)'],
    ),
}
