# Per-property configuration of bin/check.
TRUSTED_COMMON = [
    'Coq 8.16.1 kernel + vm_compute (no native_compute); full .vo build through coq_makefile',
    'no Axiom/Parameter/Admitted in coq/ (grep gate on every run)',
    'correspondence harness (Go generators, runner, canonicaliser, Cases printer) in /verif/harness',
    'extractor harness/cmd/extract (go/ast) producing coq/Gen/*.v from /repo on every run',
    'Go runtime/stdlib and third-party libraries are modelled, not verified (DESIGN.md section 4)',
]

PROPS = {
    'C01': dict(
        harness='c01', props='Props/C01.v', models=['Model/Latch.v'],
        trusted=['ingester and FormatReader enter the theorems as Section variables (any behaviour); '
                 'the built-in classification tables are extracted from the seven IsContinuableError bodies',
                 'validity of the JSON bytes is json.Marshal output (stdlib), asserted on every returned slice by the harness'],
        assumptions=['ing_raw_on_success: an ingester returns a raw record whenever it reports success '
                     '(proved for the built-in ingester; required of caller-supplied ones)'],
    ),
    'C18': dict(
        harness='c18', props='Props/C18.v', models=['Model/Encoding.v'],
        trusted=['the name -> decoder map (supportedEncodingMappings), the default/fallback name of WrapEncoding and the order '
                 'StripBOM(WrapEncoding(input)) are extracted from header/header.go and schema.go into Gen/Encoding.v on every run',
                 'golang.org/x/text charmap decoders are modelled as bytewise table decoders; their 2x256 table entries are '
                 'observed through WrapEncoding and compared with the model tables (written from the Unicode mapping files) on every run',
                 'ios.StripBOM: bufio.Reader.ReadRune (fill loop + utf8.FullRune) is transcribed (fill_until, full_rune) and proved equal, '
                 'for every split of the stream into reads, to utf8.DecodeRune on the whole stream (bom_split_across_reads); UnreadRune = '
                 'put the rune back; I/O errors of the source are out of scope here (C16); validated with one-byte, data+EOF and random chunk readers',
                 'the format readers are not modelled here: equality of Read transcripts is decided on the Go side '
                 '(transcript(bytes, X) == transcript(utf8_of_X(bytes), utf-8)) for the seven formats'],
        assumptions=[],
    ),
    'C19': dict(
        harness='c19', props='Props/C19.v', models=['Model/Time.v'],
        trusted=['textual parsing and formatting (times.SmartParse, time.Parse, time.Format, strconv) are not modelled: the model starts '
                 'from the abstract parse result (time value + has-zone flag) the harness obtains by calling the same parser, and ends at '
                 'the projected output (wall reading, printed offset, number) the harness reads back with time.Parse(RFC3339)',
                 'zone behaviour (offset in force at an instant, offset time.Date settles on for a wall reading) is universally quantified '
                 'in the theorems (Section variables) and supplied per case from Go\'s time package for the correspondence',
                 'int64 arithmetic of datetime.go is written with explicit wrap-around (wrap64); Go / and % as Z.quot / Z.rem; '
                 'time.Unix normalisation transcribed from the Go source',
                 'the property oracle (same instant / same wall reading / exact Unix time) is evaluated on the Go side with time.Date, '
                 'Time.In, Time.ZoneBounds and math/big'],
        assumptions=['minute_aligned: the instant read back from RFC3339 text equals the input instant only where the zone offset is a '
                     'whole number of minutes (known finding: sub-minute local-mean-time offsets; rfc3339_same_instant_refuted)',
                     'wall reading of the result within years 1..9999 (known finding: year 10000 is printed with five digits)',
                     'date_consistent: a zone-less reading bound to a zone keeps its reading except inside a forward clock change '
                     '(time.Date normalises it) - generators start from instants, so such readings arise only in the dedicated gap cases',
                     'explicit layouts with zone abbreviations (MST) are outside the guard: time.Parse gives unknown abbreviations offset 0'],
    ),
}
