# bin/check configuration of property C02 (a single dict expression)
{'harness': 'c02',
 'props': 'Props/C02.v',
 'models': ['Model/Value.v', 'Model/XPathFrag.v', 'Model/Decl.v', 'Model/Eval.v'],
 'trusted': ['PROVED (Props/C02.v, all closed under the global context): eval_matches_spec (for every accepted schema: '
             'validate ds = VOk top -> eval_spec ds = eval_nocache top, the documented evaluation written from '
             'doc/transforms.md + doc/xpath.md on the declarations as authored), emitted_value_is_documented (the same '
             'with the transform cache on), eval_cache_transparent / caches_invisible_eval / eval_id_renaming, '
             'validate_wf, validate_expand, validate_terminates, validate_no_duplicate_children (F28 class), '
             'eval_order_independent / spec_order_independent, normalize_laws, print_trimmed, fqdn_key_roundtrip, '
             'corner theorems, and the refutations of the pre-fix code (F2, F3, F19, F20, F28)',
             'EXTRACTED from /repo on every run and used by the model / re-proved over: Gen/Conv.v '
             '(resultTypeConversion table, resolveKind order, the conv* helper bodies pinned) and Gen/EvalShape.v '
             '(conjuncts of xpathQueryNeeded, parts of the transform cache key, '
             'statement order of validateDecl, sort key of validateObject / no sort in validateArray and '
             'validateCustomFunc, nil -> reflect.Zero and AssignableTo in prepArgValues, the statement lists of '
             'normalizeAndSaveValue / checkToSave, the kinds of isEmpty, normalizeAndReturnValue pinned); theorems '
             'normalize_matches_source, source_shape, sibling_fqdn_order stop checking when a shape changes',
             'COMPARED ONLY (correspondence + Go-side oracles, no theorem): that validate / ParseNode of the Go code '
             'compute what Model/Decl.v / Model/Eval.v transcribe (check_case: validate ds = dumped tree, wf_b, hash '
             'classes, eval cached / uncached / eval_spec = observed Read); the xpath fragment evaluator against '
             'antchfx; javascript / many-records / cast streams (Go oracles only); float64 beyond 15 significant '
             'digits, Inf / NaN / hex floats (Go-side cast oracle only)',
             'the xpath engine, custom functions, custom_parse functions and external properties enter the theorems as '
             'Section variables (any deterministic functions); strings.TrimSpace, strconv.ParseInt/ParseBool and '
             'ParseFloat / %v for decimal literals (<= 15 digits, exponents, Go-syntax underscores) are transcribed '
             'in Model/Value.v; encoding/json (Marshal of the result) is stdlib, observed as decoded values'],
 'assumptions': ['node IDs of one record tree are pairwise distinct (C12); custom functions are deterministic in '
                 '(node, arguments)',
                 'decl_nodup: an object of transform_declarations lists each field name once (it is unmarshalled '
                 'into a Go map)',
                 'fexists name = true -> fsigs name <> None: the functions validation accepts are the registered ones',
                 'the xpath engine returns nodes of the record tree']}
