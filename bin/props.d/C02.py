# bin/check configuration of property C02 (a single dict expression)
{'harness': 'c02',
 'props': 'Props/C02.v',
 'models': ['Model/Value.v', 'Model/XPathFrag.v', 'Model/Decl.v', 'Model/Eval.v'],
 'trusted': ['the xpath engine, custom functions, custom_parse functions and external properties enter the '
             'theorems as Section variables (any deterministic functions); the model is RUN with the '
             'fragment evaluator Model/XPathFrag.v and the functions the harness registers',
             'strings.TrimSpace, strconv.ParseInt/ParseBool and (for plain decimal literals of <= 15 digits) '
             'ParseFloat / %v are transcribed in Model/Value.v; encoding/json (Marshal of the result) is '
             'stdlib, observed as decoded values',
             'resultTypeConversion table and resolveKind order are extracted into Gen/Conv.v on every run'],
 'assumptions': ['node IDs of one record tree are pairwise distinct (C12), custom functions are '
                 'deterministic in (node, arguments)',
                 'wf_b: the validated declaration tree has the shape validate produces (checked on every '
                 'dumped tree)']}
