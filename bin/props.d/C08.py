# bin/check configuration of property C08 (a single dict expression)
{'harness': 'c08',
 'props': 'Props/C08.v',
 'models': ['Model/Json.v', 'Model/Xml.v'],
 'trusted': ['encoding/json Decoder.Token and encoding/xml Decoder.Token/RawToken are modelled as the token '
             'stream determined by the document (jtokens / xtokens, incl. the namespace translation of '
             'encoding/xml); the harness reads the same text with its own decoder and the model is compared '
             'against that stream on every case (CharsetReader = x/net charset.NewReaderLabel, the documented '
             'charset handling; documents with a declared non-UTF-8 encoding are generated as bytes)',
             "strconv.FormatFloat(v,'f',-1,64) / ParseFloat enter the theorems as Section variables; the "
             'harness supplies them as a table computed with strconv and asserts the round trip on every '
             'number',
             'state shared between conversions/readers is checked on the Go side only: every case converts a '
             'probe document first and changes the results, then converts its own tree, changes the results, '
             'converts again (fresh values); copy results handed to a mutating javascript custom_func, record '
             'after record; pairs/triples of XML readers interleaved on one goroutine must return what each '
             'returns alone (xml_readers_independent is the model side)',
             'documents after a FAILED document (good, good2, bad, good, good2 with the ingester\'s Read/Release '
             'protocol, targets . / /* /*/*, JSON and XML) must give the records they gave before it; the run '
             'ends at the first such failure because the process-wide node pool is then damaged',
             'the partially built idr.Node tree is modelled as the stack of open nodes (append-only '
             'construction; justified by the C12 refinement to the abstract tree)'],
 'assumptions': ['jwf: object keys pairwise distinct at every level (duplicate keys are folded into an array '
                 'by the converter; encoding/json keeps the last)',
                 "float_roundtrip: strconv.ParseFloat(strconv.FormatFloat(v,'f',-1,64)) = v for the numbers "
                 'of the value (asserted by the harness on every number)',
                 'ns_wf (xml_prefix_in_scope only): Namespaces-in-XML well-formedness of the names used '
                 '(prefixes bound in scope to non-empty URIs, xmlns/xml not redeclared, no URI literally '
                 '"xmlns", no prefixed attribute / unprefixed element named "xmlns")',
                 'lastwins_ok (xml_prefix_in_scope only): at every element / prefixed attribute the '
                 "reader's document-wide last-declaration-wins URI->prefix map holds the prefix written "
                 'there (decidable on the document; its complement is the known class F11, '
                 'xml_prefix_refuted); xml_prefix_in_scope_single states the same under uri_single_prefix']}
