# bin/check configuration of property C08 (a single dict expression)
{'harness': 'c08',
 'props': 'Props/C08.v',
 'models': ['Model/Json.v', 'Model/Xml.v'],
 'trusted': ['PROVED over the model (Props/C08.v, 18 theorems, no axioms): reader builds jtree for every '
             'value; converter = jfold on every value (repeated keys folded), = identity for distinct keys '
             '(round trip, copy); null/[]/{}/""/booleans unconditionally; XML: token view of the tree = '
             'tokens consumed for EVERY token list; per-token theorems (CharData incl. empty -> one text '
             'node, consecutive CharData stay separate, comments/PIs/directives ignored, EndElement creates '
             'no node, StartElement -> one AttributeNode per attribute in order with one text child); tree = '
             'reference DOM under ns_wf and lastwins_ok (and under uri_single_prefix); F11 refuted outside; '
             'interleaved readers and document sequences are independent in the model',
             'EXTRACTED from /repo on every run (coq/Gen/C08Facts.v by harness/cmd/extract/gen_c08.go; '
             'c08_extracted_facts ties them to the model): JSONType flag values (idr/jsonnode.go), '
             "addTextChild table incl. FormatFloat(v,'f',-1,64) and ParseFloat(_,64) (idr/jsonreader.go, "
             'idr/marshal2.go), JSON root node, the xml.Decoder construction and every setting changed on it '
             '(CharsetReader = x/net/html/charset.NewReaderLabel, nothing else) and the initial space2prefix '
             'table (idr/xmlreader.go)',
             'COMPARED ONLY (model vs implementation on every case, and Go-side oracles): encoding/json '
             'Decoder.Token and encoding/xml Decoder.Token/RawToken are modelled as the token stream '
             'determined by the document (jtokens / xtokens incl. the namespace translation of '
             'encoding/xml); the harness reads the same bytes with its own decoder (CharsetReader = '
             'charset.NewReaderLabel; declared non-UTF-8 encodings generated as bytes)',
             'COMPARED ONLY: strconv.FormatFloat / ParseFloat enter the theorems as Section variables; the '
             'harness supplies them as a table computed with strconv and asserts the round trip on every '
             'number (boundary literals every run)',
             'GO-SIDE ORACLES ONLY (state shared between conversions/readers, sizes the Coq cases cannot '
             'carry): freshness of returned values (probe, mutate, reconvert), copy handed to a mutating '
             'javascript record after record, interleaved XML readers vs solo runs, good,bad,good document '
             'sequences with the Read/Release protocol (node pool - C12), records with 12k-26k leaves, bytes '
             'of Transform.Read valid JSON and unchanged after later Reads, JSON/XML documents given as '
             'iso-8859-1 / windows-1252 bytes through parser_settings.encoding vs the same document '
             'converted with the standard code page',
             'the partially built idr.Node tree is modelled as the stack of open nodes (append-only '
             'construction; justified by the C12 refinement to the abstract tree)'],
 'assumptions': ['jwf (json_roundtrip / copy_roundtrip only): object keys pairwise distinct at every level; '
                 'WITHOUT it json_convert_fold gives the exact result (jfold: repeated names folded into an '
                 'array; encoding/json keeps the last)',
                 "float_roundtrip: strconv.ParseFloat(strconv.FormatFloat(v,'f',-1,64)) = v for the numbers "
                 'of the value (asserted by the harness on every number; the call shapes are extracted)',
                 'ns_wf (xml_prefix_in_scope only): Namespaces-in-XML well-formedness of the names used '
                 '(prefixes bound in scope to non-empty URIs, xmlns/xml not redeclared, no URI literally '
                 '"xmlns", no prefixed attribute / unprefixed element named "xmlns")',
                 "lastwins_ok (xml_prefix_in_scope only): at every element / prefixed attribute the reader's "
                 'document-wide last-declaration-wins URI->prefix map holds the prefix written there '
                 '(decidable on the document; its complement is the known class F11, xml_prefix_refuted); '
                 'xml_prefix_in_scope_single states the same under uri_single_prefix',
                 'xml_docs_independent / xml_readers_independent: the node pool hands out nodes '
                 'indistinguishable from new ones (C12); checked on the implementation by the sequence and '
                 'interleaving oracles'],
 'level_text': 'Coq theorems over the transcribed JSON and XML stream readers (stack machines over the '
               'decoder token streams) and the node-to-value converter of marshal2.go: tree construction and '
               'round trip for every JSON value (induction over values; repeated keys characterised exactly '
               'by jfold), faithfulness of the XML tree to every token list (machine invariant) with '
               'per-token theorems, and equality with the reference DOM for every document inside ns_wf and '
               'lastwins_ok (invariant over the threaded namespace map); constants, the value-token table '
               'and the xml.Decoder settings are extracted from the source on every run; tied to the code by '
               'a correspondence check that runs model and implementation on generated documents inside Coq, '
               'plus Go-side oracles for process-wide state.',
 'level_note': 'Trusted: Coq kernel/vm_compute, the Go harness and extractor, encoding/json / encoding/xml / '
               'strconv / x/net charset as the reference decoders; strconv enters as Section variables; no '
               'axioms (Print Assumptions: closed). Known finding F11 outside lastwins_ok.',
 'technique': 'machine-checked proof in Coq 8.16 (structural induction, machine invariants, refinement to a '
              'reference DOM) + model/implementation correspondence + extracted constants and tables + '
              'Go-side sequence/interleaving oracles'}
