# bin/check configuration of property C09 (a single dict expression)
{'harness': 'c09',
 'props': 'Props/C09.v',
 'models': ['Model/Chunk.v'],
 'trusted': ['encoding/csv, encoding/json, encoding/xml decoders (they sit on bufio) are assumed '
             'chunk-invariant; the theorems cover the omniparser / go-corelib / bufio layers below them, the '
             'implementation-side metamorphic oracle covers the whole stack for all seven formats',
             'bufio.Reader, bufio.Scanner, go-corelib ios (StripBOM, BytesReplacingReader, ByteReadLine, '
             'NewScannerByDelim3) and the x/text charmap decoder are transcribed from their sources into '
             'Model/Chunk.v and compared with the real code on every run'],
 'assumptions': ['no 100 consecutive empty reads ((0, nil)) from the input reader (bufio gives up with '
                 'io.ErrNoProgress)']}
