# bin/check configuration of property C09 (a single dict expression)
{'assumptions': ['no 100 consecutive empty reads ((0, nil)) from the input reader (bufio gives up with '
                 'io.ErrNoProgress)'],
 'harness': 'c09',
 'models': ['Model/Chunk.v'],
 'props': 'Props/C09.v',
 'trusted': ['encoding/csv, encoding/json, encoding/xml decoders (they sit on bufio) are assumed '
             'chunk-invariant; the theorems cover every omniparser / go-corelib / bufio / x-text layer below '
             'them (source, charmap decoder, StripBOM, bufio.Reader, ByteReadLine, BytesReplacingReader (any '
             'token / replacement), bufio.Scanner with the split function) and the complete fixed-length and '
             'EDI stacks; the implementation-side metamorphic oracle covers the whole stack for all seven '
             'formats',
             'bufio.Reader, bufio.Scanner, go-corelib ios (StripBOM, BytesReplacingReader, ByteReadLine, '
             'NewScannerByDelim3), strs.ByteIndexWithEsc and the x/text transform.Reader + charmap decoder '
             'are transcribed from their sources into Model/Chunk.v and compared with the real code on every '
             'run']}
