# bin/check configuration of property C10 (a single dict expression)
{'harness': 'c10',
 'props': 'Props/C10.v',
 'models': ['Model/Pipeline.v', 'Model/Eval.v', 'Model/Js.v'],
 'trusted': ['evaluator (ParseNode), json.Marshal, MD5/UUIDv3 and idr.JSONify2-encoding enter the theorems '
             'as Section variables; the node ID allocator (counter, sync.Pool as arbitrary-choice schedule, '
             'recycle) is modelled and its uniqueness invariant proved'],
 'assumptions': ['eval_cache_transparent (C02): the per-record transform memo does not change ParseNode '
                 'results',
                 'eval_id_renaming (C02): ParseNode results are invariant under injective renaming of node '
                 'IDs',
                 'eval_caches_sound (C13 ingredients expr_cache_pure / js_isolation (C20) / '
                 'node_json_fresh): from any cache state satisfying CInv the result equals the one with '
                 'empty caches and CInv is kept; CInv_mono',
                 'content_stable_per_id (guard, DESIGN section 6 F6): the node-JSON cache is only consulted '
                 'for nodes of the record itself',
                 'reader model: flat record lists under one parent with a fixed envelope; '
                 'EDI/csv2/fixedlength2 occurrence counters are outside the model',
                 'with the C02 evaluator (Proofs/PipelineC02.v: *_c02 theorems) the evaluator hypotheses '
                 'eval_cache_transparent / eval_id_renaming / eval_caches_sound are discharged; what remains '
                 'assumed there is query_valid (the xpath engine returns nodes of the tree it runs on) and '
                 'determinism of engine, externals and custom functions',
                 '*_js theorems (Proofs/PipelineJs.v): evaluator-side caches = C20 jsstate, hypotheses '
                 'discharged from C20 + C02; modelling variables jscalls / js_of / matches / cf_of and the '
                 'pipeline-level F6 guard (jscalls_wf, jscalls_stable) remain',
                 'F29 guard wherever JavaScript enters (the *_js theorems): scripts create no global '
                 'bindings - no top-level let/const/class/var/function, no implicit globals, no mutation of '
                 'built-ins (known finding F29, witnesses under replays/corpus/C13/f29_*.json)',
                 'NOT proved (compared only): record independence for the hierarchical readers (csv2 / '
                 "fixedlength2 / EDI occurrence counters) - the composition with C05's machine "
                 '(deliveries(A++B) = deliveries(A) ++ deliveries(B) at an instance boundary) is not done; '
                 'the flat-record model of Model/Pipeline.v and the Go transcript algebra cover those '
                 'formats only observationally; target-filter evaluation per record (MatchAny as a pure '
                 'function of the record, C10-r42 class) is covered by the Go oracle only']}
