# bin/check configuration of property C18 (a single dict expression)
{'harness': 'c18',
 'props': 'Props/C18.v',
 'models': ['Model/Encoding.v'],
 'trusted': ['EXTRACTED on every run (Gen/Encoding.v, harness/cmd/extract/gen_encoding.go): the name -> '
             'decoder map supportedEncodingMappings, the default and fallback names of WrapEncoding, and the '
             'order of StripBOM / WrapEncoding in schema.go NewTransform (dataflow from the input parameter '
             'to NewIngester); an unknown decoder or shape makes the extraction fail and with it every '
             'theorem of Props/C18.v',
             'PROVED over the model (all byte strings, all three encodings): pipeline X bytes = pipeline '
             'utf-8 (standard conversion) and is total (encoding_transparent); decoding is a bytewise '
             'homomorphism and independent of chunking (decode_app, decode_chunk_invariant); every byte of a '
             "code-page input becomes exactly one rune, the code page's, in order, the result is well-formed "
             'UTF-8 and nothing is dropped, the last byte included (decode_one_rune_per_byte, '
             'decode_last_byte_kept); exactly the five unassigned windows-1252 bytes become U+FFFD '
             '(windows1252_unassigned_bytes); neither code page contains U+FEFF (bom_not_in_range); the '
             'utf-8 / default path is the identity minus at most one leading mark on every byte string incl. '
             'ill-formed ones and EF BF BD (utf8_path_is_identity, strip_bom_exact, bom_stripped_once, '
             'utf8_without_bom_untouched, leading_bom_only_if_doubled, codepage_never_stripped); StripBOM '
             'through bufio.Reader (ReadRune fill loop, utf8.FullRune transcribed) gives the same result for '
             'every split of the stream into reads (bom_split_across_reads, pipeline_split_invariant)',
             "COMPARED on every run (correspondence, not proved): the contents of x/text's charmap tables "
             'for ISO8859_1 and Windows1252 (2x256 runes observed through WrapEncoding = the model tables '
             'written from the Unicode mapping files; tables_match_impl makes check_case a complete '
             'comparison); the stream NewTransform hands to the ingester (PipeCase / SegPipeCase: short and '
             'long inputs, boundaries at k*4096, pure-ASCII heads, BOM variants; SplitCase: the bufio fill '
             "model on one-byte / chunked / data+EOF sources); x/text transform.Reader's buffering is not "
             "modelled beyond 'bytewise'",
             'GO-SIDE ORACLE only (format readers are not modelled in C18): transcript(bytes, X) == '
             'transcript(utf8_of_X(bytes), utf-8) for the seven formats incl. multi-line fixedlength2/csv2 '
             'records, XML prolog encoding labels, long inputs, interleaved transforms; I/O errors of the '
             'source are out of scope (C16)'],
 'assumptions': [],
 'level_text': 'Coq theorems over a Gallina transcription of header.go WrapEncoding + schema.go NewTransform '
               '+ ios.StripBOM (bufio ReadRune loop) + the bytewise charmap decoder, for all byte strings / '
               'all splits into reads / all three encodings; the decoder map and the stage order are '
               're-extracted from the source on every run; tied to the code by a correspondence check that '
               'evaluates the model inside Coq on the streams real NewTransform calls hand to an ingester, '
               'and by a Go-side transcript oracle over the seven formats.',
 'level_note': 'Trusted: Coq kernel/vm_compute, the Go harness and extractor; x/text charmap tables are '
               'compared (2x256) not proved; no axioms (Print Assumptions: closed).',
 'technique': 'machine-checked proof in Coq 8.16 (induction over byte strings and read splits, finite sweeps '
              'over the 256 byte values) + extracted decoder map / stage order + model/implementation '
              'correspondence'}
