# bin/check configuration of property C18 (a single dict expression)
{'harness': 'c18',
 'props': 'Props/C18.v',
 'models': ['Model/Encoding.v'],
 'trusted': ['the name -> decoder map (supportedEncodingMappings), the default/fallback name of WrapEncoding '
             'and the order StripBOM(WrapEncoding(input)) are extracted from header/header.go and schema.go '
             'into Gen/Encoding.v on every run',
             'golang.org/x/text charmap decoders are modelled as bytewise table decoders; their 2x256 table '
             'entries are observed through WrapEncoding and compared with the model tables (written from the '
             'Unicode mapping files) on every run',
             'ios.StripBOM: bufio.Reader.ReadRune (fill loop + utf8.FullRune) is transcribed (fill_until, '
             'full_rune) and proved equal, for every split of the stream into reads, to utf8.DecodeRune on '
             'the whole stream (bom_split_across_reads); UnreadRune = put the rune back; I/O errors of the '
             'source are out of scope here (C16); validated with one-byte, data+EOF and random chunk readers',
             'long inputs (non-ASCII bytes at and across every offset around k*4096, the size of the '
             "bufio.Reader inside ios.StripBOM and of x/text's transform buffers) are compared as streams "
             'for all three encodings with a small-read and a ReadAll consumer, and as Read transcripts for '
             'the formats',
             'the format readers are not modelled here: equality of Read transcripts is decided on the Go '
             'side (transcript(bytes, X) == transcript(utf8_of_X(bytes), utf-8)) for the seven formats',
             'round-3 classes: XML documents carrying their own prolog encoding label under every '
             'parser_settings.encoding; long inputs with a pure-ASCII head of k*4096(+0..8) bytes and the '
             'first byte >= 0x80 only later (up to the last byte); two transforms of one encoding alive at '
             'the same time (same Schema / two Schemas, random switch points) must each give their solo '
             'transcript',
             'round-4 class: records spanning several lines (fixedlength2 / csv2: fixed row count, '
             'header/footer delimited, blank lines in between), inputs of 4..14 KB with bytes >= 0x80 in '
             'every record, whole and chunked sources: transcript(bytes, X) vs transcript(utf8(bytes), '
             'utf-8)'],
 'assumptions': []}
