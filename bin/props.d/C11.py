# bin/check configuration of property C11 (a single dict expression)
{'harness': 'c11',
 'props': 'Props/C11.v',
 'models': ['Base/Tree.v', 'Model/Nav.v'],
 'trusted': ['antchfx/xpath v1.1.11 (the expression engine) enters the theorems as an arbitrary '
             'deterministic program over the NodeNavigator interface (free structure prog: observe / move / '
             'Copy / MoveTo over a register file of navigators); the engine itself is run, not modelled, by '
             'the end-to-end comparison',
             'reference binding antchfx/xmlquery v1.3.1: navigator transcribed from query.go; its parser '
             'output is normalised by the harness to the XPath data model (DeclarationNode removed, '
             'CharDataNode retyped TextNode) and the two navigator defects of the reference (Value() of the '
             'document node is "", MoveToRoot() keeps the attribute index) are excluded by the named guard '
             'ref_ok and demonstrated by the _refuted theorems',
             'XML tokenisation (encoding/xml) and the construction of both trees are outside C11 (C08); '
             'every case checks that the tree idr.NewXMLStreamReader built equals to_idr of the DOM'],
 'assumptions': ['dom_wfb: only element nodes carry attributes (XML)',
                 'scope: documents without comment / processing-instruction nodes (the IDR does not '
                 'represent them)',
                 'ref_ok: the execution on the reference performs neither Value() on the document node nor '
                 'MoveToRoot() on an attribute position (xmlquery v1.3.1 defects Q1/Q2; on both the IDR '
                 'follows the XPath data model)',
                 'namespace prefixes are compared as strings (xpath v1.1.11 name tests use Prefix(), not the '
                 'namespace URI); each URI bound to one prefix in generated documents (guard of known '
                 'finding F11, which both parsers share)']}
