# bin/check configuration of property C11 (a single dict expression)
{'harness': 'c11',
 'props': 'Props/C11.v',
 'models': ['Base/Tree.v', 'Model/Nav.v'],
 'trusted': ['PROVED over the model (Props/C11.v, 31 theorems, no axioms): step simulation and whole-program '
             'agreement of the two navigators (any program, any document, any start node); the guard ref_ok '
             'is decidable (ref_okb_spec) and is exactly the two defects of the reference '
             '(obs_differ_only_at_Q1 / Q1_characterised, moves_differ_only_at_Q2 / Q2_characterised); names '
             'seen by the engine (name_of_element, name_of_attribute, name_test_agree, '
             'bare_name_test_element); attribute positions (attr_walk_document_order, attr_position_refuses, '
             'attr_parent_is_owner); the idr/query.go wrappers as repaired by fix 3036423 (N11) over ANY '
             'iterator, with yieldsNodeSet as a parameter (match_all_is_the_iteration both directions for '
             'node-set queries, match_all_no_adjacent_self for any query, match_all_non_node_set_true: '
             'terminates with exactly [context node] on the never ending iteration of a true non node-set '
             'query, non_node_set_true_single_any, match_all_old_never_returns / match_all_old_refuted for '
             'the loop before the repair, match_single_classification, match_single_on_panic, '
             'match_single_consistent_with_match_all, match_any_spec); no panic / no invalid position',
             'EXTRACTED from idr/navigator.go on every run (harness/cmd/extract/gen_nav.go -> '
             'coq/Gen/NavShape.v, tied by navigator_shape_extracted): the NodeType switch as a table (with '
             'the xpath.NodeType iota values of antchfx/xpath v1.1.11), the attribute guard at the head of '
             'MoveToChild/MoveToFirst/MoveToNext/MoveToPrevious, Value() = nav.cur.InnerText(); everything '
             'else of navigator.go, node.go InnerText and query.go is transcribed by hand',
             'COMPARED ONLY (correspondence / Go oracle, no theorem): that the hand transcription matches '
             'the Go code - every Coq case replays real runs of both navigators through the model '
             'interpreters (fx as run), evaluates ref_okb and demands equal traces when it holds, walks the '
             'attribute axis of the OBSERVED tree from every node (check_attr_axis), and replays '
             'MatchAll/MatchSingle/MatchAny over the iteration idr.QueryIter was seen to produce '
             '(check_wcase); the xpath engine itself (antchfx/xpath v1.1.11: run, never modelled; enters the '
             'theorems as an arbitrary program over the NodeNavigator interface resp. an arbitrary '
             'iterator); the expression cache of go-corelib (sequences of near-identical queries vs '
             'DisableXPathCache); node pooling (documents read after an earlier document was streamed and '
             'released; root links nil)',
             'reference binding antchfx/xmlquery v1.3.1: navigator transcribed from query.go; parser output '
             'normalised by the harness to the XPath data model (DeclarationNode removed; CharDataNode '
             'retyped TextNode; empty text nodes kept); repaired reference (harness fixNav = model run_dom '
             'true) proved identical to xmlquery as it is on every execution outside Q1/Q2 '
             '(repair_conservative)',
             'XML tokenisation (encoding/xml) and the construction of both trees are outside the theorems '
             '(C08); every document is checked node by node for equal shape of the two trees, every Coq case '
             'checks tree_eqb (to_idr DOM) (observed IDR tree); one document in five is in a declared '
             'single-byte encoding (ISO-8859-1, latin1, us-ascii, windows-1252/1254, iso-8859-9/-15) with '
             'bytes 0x80..0xFF in text and attribute values: both parsers decode through '
             'charset.NewReaderLabel and must produce the same characters'],
 'assumptions': ['dom_wfb: only element nodes carry attributes (XML)',
                 'scope: documents without comment / processing-instruction nodes (the IDR does not '
                 'represent them)',
                 'nav_programs_agree (xmlquery as it is) carries the named guard ref_ok (no Value() on the '
                 'document node, no MoveToRoot() on an attribute position: xmlquery v1.3.1 defects Q1/Q2, '
                 'proved to be the only differences); nav_programs_agree_repaired has no guard',
                 'namespace prefixes are compared as strings (xpath v1.1.11 name tests use Prefix(), not the '
                 'namespace URI; namespace-uri() goes through an optional side interface outside '
                 'NodeNavigator); each URI bound to one prefix in generated documents (guard of known '
                 'finding F11, which xmlquery shares)',
                 'wrappers: the iterator is abstract (state + step yielding a node / end / panic) and '
                 "yieldsNodeSet(exp) is a boolean parameter of the expression; that the engine's iterator "
                 'over a true non node-set query yields the context node for ever (loops_on) is observed on '
                 'every run (wrap:iterator-yields-context-node-for-ever), not proved of the engine']}
