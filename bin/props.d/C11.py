# bin/check configuration of property C11 (a single dict expression)
{'harness': 'c11',
 'props': 'Props/C11.v',
 'models': ['Base/Tree.v', 'Model/Nav.v'],
 'trusted': ['antchfx/xpath v1.1.11 (the expression engine) enters the theorems as an arbitrary '
             'deterministic program over the NodeNavigator interface (free structure prog: observe / move / '
             'Copy / MoveTo over a register file of navigators); the engine itself is run, not modelled, by '
             'the end-to-end comparison (its optional NamespaceURL side interface, used only by '
             'namespace-uri(), is outside the interface and outside the generated expressions)',
             'reference binding antchfx/xmlquery v1.3.1: navigator transcribed from query.go. Its parser '
             'output is normalised by the harness to the XPath data model (DeclarationNode removed; '
             'CharDataNode retyped TextNode, because v1.3.1 types all character data CharDataNode and its '
             'navigator returns "" as their value); empty text nodes (from <![CDATA[]]>) are kept',
             'repaired reference (harness fixNav = model run_dom true): xmlquery navigator with Value() of '
             'the document node = its InnerText (Q1) and MoveToRoot() resetting the attribute index (Q2); '
             'proved identical to xmlquery as it is on every execution that does not hit Q1/Q2 '
             '(repair_conservative); the harness counts the evaluations in which the repair was active',
             'XML tokenisation (encoding/xml) and the construction of both trees are outside the theorems '
             '(C08); every document is checked node by node for equal shape of the two trees (a difference '
             'is reported with an xpath-level witness such as count(//node())), and every Coq case checks '
             'that the tree idr.NewXMLStreamReader built equals to_idr of the DOM xmlquery built',
             'the string API (idr.MatchAll / MatchSingle over the process-wide compiled-expression cache of '
             'go-corelib) is not modelled: it is exercised by sequences of near-identical expressions in one '
             'process and compared with DisableXPathCache, MatchSingle and the reference on every query',
             'node pooling (sync.Pool behind idr.CreateNode / Release) is not modelled in C11 (C12 owns it): '
             'it is exercised by sequences of documents in one process - an earlier document streamed with a '
             'record-level target and released, free-standing nodes created and released - before the '
             'document under comparison is read; the document node of every IDR tree is checked for nil '
             'Parent/PrevSibling/NextSibling and probed through the sibling / preceding / following moves '
             'and axes'],
 'assumptions': ['dom_wfb: only element nodes carry attributes (XML)',
                 'scope: documents without comment / processing-instruction nodes (the IDR does not '
                 'represent them)',
                 'nav_programs_agree (xmlquery as it is) carries the named guard ref_ok: the execution on '
                 'the reference performs neither Value() on the document node nor MoveToRoot() on an '
                 'attribute position (xmlquery v1.3.1 defects Q1/Q2, witnesses in '
                 'nav_programs_agree_unguarded_refuted; on both the IDR follows the XPath data model); '
                 'nav_programs_agree_repaired has no guard',
                 'namespace prefixes are compared as strings (xpath v1.1.11 name tests use Prefix(), not the '
                 'namespace URI); each URI is bound to one prefix in generated documents (guard of known '
                 'finding F11, which xmlquery shares: both parsers use one global URI->prefix map, so F11 is '
                 'invisible to this oracle; corpus cases f11-*)']}
