# bin/check configuration of property C19 (a single dict expression)
{'harness': 'c19',
 'props': 'Props/C19.v',
 'models': ['Model/Int64.v', 'Model/Time.v'],
 'trusted': ['EXTRACTED on every run (Gen/DateTime.v, harness/cmd/extract/gen_time.go, from '
             'customfuncs/datetime.go): the two zone steps of parseDateTime (guards, OverwriteTZ/ConvertTZ, '
             'where hasTZ is set), the unit strings SECOND / MILLISECOND, the arithmetic expression of each '
             'unit in DateTimeToEpoch and EpochToDateTimeRFC3339 translated into int64-with-wrap-around '
             'terms (to_epoch_expr / from_epoch_expr), base 10 of FormatInt/ParseInt, the default zone UTC; '
             'Model/Time.v is defined over these, so every theorem is about the source as it is now; an '
             'unrecognised shape makes the extraction fail and with it only Props/C19.v',
             'PROVED (all instants of years 1..9999, all zone behaviours - off_of_instant / off_of_wall are '
             'universally quantified): epoch_seconds_exact, epoch_millis_exact (no int64 wrap; = '
             'floor(ns/10^6)), from_epoch_exact (negative counts included), epoch_roundtrip, '
             'epoch_roundtrip_inverse, epoch_functions_invert; parse_date_time_is_decision_table / '
             'layout_path_decision_table (the transcribed parseDateTime = the documented table for '
             'zone-in-input or layoutTZ x fromTZ/toTZ empty, blank, unloadable, zone); tz_logic_instant / '
             'tz_logic_wall / tz_logic_bind; rfc3339_same_instant, rfc3339_same_instant_iff (F23: the text '
             'denotes the input instant IFF the offset is a whole number of minutes), '
             'rfc3339_within_seconds_part, epoch_to_date_time_text; empty_in_empty_out, unparsable_is_error, '
             'unparsable_strict_member_fails_record, lenient_or_parsable_record_delivered; '
             'extracted_epoch_units',
             'COMPARED on every run (correspondence): all four functions on ~8 000 generated calls '
             '(check_case: RfcCase, LayoutCase, ToEpochCase, FromEpochCase, SchemaCase) - the model starts '
             'from the abstract parse result the harness obtains from the same parser (times.SmartParse / '
             "time.Parse) and from zone offsets supplied per case by Go's time package, and ends at the "
             'projected output (wall reading, printed offset, number, member present / record failed)',
             'NOT MODELLED (Go oracle / trusted): textual parsing and formatting (times.SmartParse pattern '
             "table, time.Parse, time.Format, strconv), time.Date's choice of offset for a wall reading "
             '(enters as off_of_wall), the transform layer beyond ignore_error / empty members '
             '(member_outcome, record_outcome); the oracle (same instant / same wall reading / exact Unix '
             "time / Go's own RFC3339 text) is evaluated with time.Date, Time.In, Time.ZoneBounds, math/big",
             "round-5 classes in the generators: the tz database's legacy zone names (MST, HST, EST fixed; "
             'EST5EDT, CST6CDT, MST7MDT, PST8PDT, WET, CET, MET, EET rule zones; GMT, Etc/GMT+5, Etc/GMT-14, '
             'Etc/GMT+12) next to America/Denver and Pacific/Honolulu, as fromTZ / toTZ / tz / -suffix over '
             'all instant classes; call SEQUENCES in one process: the same (text, layout) of '
             'dateTimeLayoutToRFC3339 under both layoutTZ values in either order and repeated, every call '
             'judged as if made alone'],
 'assumptions': ['minute_aligned (known finding F23) is not an assumption any more but characterised: '
                 'rfc3339_same_instant_iff; outside it rfc3339_within_seconds_part holds and is checked '
                 "against Go's own Format",
                 'wall reading of the result within years 1..9999 (known finding F24: year 10000 is printed '
                 'with five digits) - guard of the generators only',
                 'date_consistent: a zone-less reading bound to a zone keeps its reading except inside a '
                 'forward clock change (time.Date normalises it); hypothesis of the last clause of '
                 'tz_logic_bind only',
                 'zone abbreviations in explicit layouts mean what time.Parse makes of them in this process '
                 '(offset 0 unless Local knows them) - the oracle follows the documented time.Parse reading'],
 'level_text': 'Coq theorems over a Gallina model of customfuncs/datetime.go whose arithmetic expressions, '
               'unit strings and zone-step structure are re-extracted from the source on every run: exact '
               'and invertible epoch conversions without int64 wrap for every instant of years 1..9999, '
               'parseDateTime as a proved decision table for every zone behaviour, the RFC3339 text '
               'characterised exactly (F23 as an iff); tied to the code by a correspondence check that '
               'evaluates the model inside Coq on real calls of the four registered custom functions '
               "(directly and through schemas) and by a Go-side oracle using Go's own time arithmetic.",
 'level_note': 'Trusted: Coq kernel/vm_compute, the Go harness and extractor, Go time/strconv and go-corelib '
               'SmartParse for text <-> time value; zone behaviour is universally quantified in the '
               'theorems; no axioms (Print Assumptions: closed).',
 'technique': 'machine-checked proof in Coq 8.16 (lia over Z with explicit int64 wrap-around, case analysis '
              'of the decision table) + expressions/branch structure extracted from the source + '
              'model/implementation correspondence'}
