# bin/check configuration of property C19 (a single dict expression)
{'harness': 'c19',
 'props': 'Props/C19.v',
 'models': ['Model/Time.v'],
 'trusted': ['textual parsing and formatting (times.SmartParse, time.Parse, time.Format, strconv) are not '
             'modelled: the model starts from the abstract parse result (time value + has-zone flag) the '
             'harness obtains by calling the same parser, and ends at the projected output (wall reading, '
             'printed offset, number) the harness reads back with time.Parse(RFC3339)',
             'zone behaviour (offset in force at an instant, offset time.Date settles on for a wall reading) '
             "is universally quantified in the theorems (Section variables) and supplied per case from Go's "
             'time package for the correspondence',
             'int64 arithmetic of datetime.go is written with explicit wrap-around (wrap64); Go / and % as '
             'Z.quot / Z.rem; time.Unix normalisation transcribed from the Go source',
             'the property oracle (same instant / same wall reading / exact Unix time) is evaluated on the '
             'Go side with time.Date, Time.In, Time.ZoneBounds and math/big',
             'schema-level stream: the four functions called through xml/json/csv schemas (custom_func '
             'directly and through a template) with lenient (ignore_error) and strict members side by side '
             'in both name orders on valid / empty / unparsable values; every member must behave as the '
             'function called on its own (Model: member_outcome / record_outcome; theorem '
             'unparsable_strict_member_fails_record); epoch strings are decimal only (zero-padded, signed, '
             '0x/0b/0o/_ forms)',
             'round-4 classes: ONE Schema with 2..4 transforms (sequential and alive at once) whose zone / '
             "unit arguments come from each transform's own ExternalProperties; explicit layouts with zone "
             'abbreviations (MST, RFC1123, UnixDate ...) checked against time.Parse(layout, text) as '
             'documented, for every layoutTZ flag / layout combination (flag true: fromTZ ignored; flag '
             "false: the text's wall reading is bound to fromTZ else toTZ); one object with 64 distinct "
             '(fromTZ, toTZ) members on one node. Not covered: collisions of a 32-bit declaration digest '
             'between two particular declarations (C19-r43) - found only by luck at this level; the id '
             'source is pinned elsewhere (extractor)'],
 'assumptions': ['minute_aligned: the instant read back from RFC3339 text equals the input instant only '
                 'where the zone offset is a whole number of minutes (known finding F23: sub-minute '
                 'local-mean-time offsets; rfc3339_same_instant_refuted). Outside that guard nothing is '
                 "skipped: rfc3339_within_seconds_part proves, and the harness checks against Go's own "
                 't.In(loc).Format(time.RFC3339), that the printed reading is exact, the printed offset is '
                 'the zone offset with its seconds part cut off toward zero (sign, hours, minutes kept) and '
                 'the instant denoted is off by that seconds part only (< 60 s); zones/eras with offsets '
                 'strictly between -01:00 and 00:00 are taken from a scan of the installed zone database',
                 'wall reading of the result within years 1..9999 (known finding: year 10000 is printed with '
                 'five digits)',
                 'date_consistent: a zone-less reading bound to a zone keeps its reading except inside a '
                 'forward clock change (time.Date normalises it) - generators start from instants, so such '
                 'readings arise only in the dedicated gap cases',
                 'explicit layouts with zone abbreviations (MST) are outside the guard: time.Parse gives '
                 'unknown abbreviations offset 0']}
