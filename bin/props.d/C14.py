# bin/check configuration of property C14 (a single dict expression)
{'harness': 'c14',
 'props': 'Props/C14.v',
 'models': ['Model/Js.v', 'Model/Conc.v'],
 'harness_timeout': 1500,
 'trusted': ['PARTIAL BY NATURE: the theorems quantify over all interleavings of ATOMIC actions on the '
             'shared state (sync.Pool Get/Put, atomic.AddInt64, LRU Get/Add - hashicorp LRU is internally '
             'locked); that the Go code performs these accesses atomically (data-race freedom in the Go '
             'memory model sense) is ASSUMED by the model and validated, not proved, by running the same '
             'concurrent workload as a child process built with `go build -race` on every check',
             'a goroutine = a list of operations (node alloc/release, cacheable xpath query, javascript '
             'call), each a sequence of atomic actions with local steps in between; xpath.Compile / '
             'goja.Compile / expression evaluation enter as arbitrary functions',
             'schema_readonly is a fact about the model (no action writes h_schema); on the Go side it is '
             'compared through transform.VerifDeclDump + a reflective deep dump of the format runtime '
             'before/after every concurrent mix'],
 'assumptions': ['atomicity of the listed actions (validated under the race detector: any "WARNING: DATA '
                 'RACE" is an oracle failure)',
                 "rt_wf r (see C20); op_wf: both iterations of a call's arg map range over its keys",
                 'node content is fixed when the node is created and not changed while it is live '
                 '(content_stable_per_id of C20: built into the operation vocabulary)',
                 'hid_ok: the initial shared state satisfies the invariant (empty caches and pools do)']}
