# bin/check configuration of property C14 (a single dict expression)
{'harness': 'c14',
 'props': 'Props/C14.v',
 'models': ['Model/Js.v', 'Model/Conc.v'],
 'harness_timeout': 1500,
 'trusted': ['PROVED over the model (Props/C14.v, 9 theorems): every atomic action preserves the invariant (atomic_actions_preserve_inv); each '
             "goroutine's outputs under ANY schedule among ANY other goroutines equal its outputs alone and are a function of its own operations "
             '(interleaving_invisible, interleaving_spec); NewSchema among any other goroutines returns the pure validation of its own arguments '
             '(new_schema_reads_args_only); no action writes schema data (schema_readonly); IDs from the counter are distinct / increasing '
             '(ids_unique_increasing); every step performs at most ONE action of the vocabulary [action] = exactly the accesses assumed atomic '
             '(gstep_one_action)',
             'EXTRACTED on every run (harness/cmd/extract/gen_pkgvars.go -> coq/Gen/PkgVars.v): all package-level `var`s of the library packages '
             "with kind and written-flag; process_state_accounted proves each is a component of the model's shared state, an unwritten switch/table, "
             'or an unwritten error value/scalar/function; shared_components_real proves the converse. A NEW package-level '
             'map/pool/cache/slice/counter makes the theorem stop checking (reported as no-failing-input-found unless an oracle finds an input)',
             'ASSUMED, validated by the -race child only: the actions of [action] are atomic (sync.Pool Get/Put, atomic.AddInt64, Get/Add of the '
             'internally locked hashicorp LRU); the Go memory model is not modelled',
             'COMPARED only (Go-side oracles, no theorem about the Go code): per-goroutine transcripts = solo transcripts (results, error texts, '
             'checksums) over shared Schema objects of all formats; VerifDeclDump + reflective dump of the format runtime unchanged since '
             'validation; node IDs handed out are pairwise distinct; cold-start concurrent NewSchema; check_case (Coq) re-checks the observed '
             'record-node IDs against the counter model',
             'xpath.Compile / goja.Compile / expression evaluation / schema validation enter the theorems as arbitrary functions; the '
             'xpath-expression and regexp caches live in go-corelib (outside the repository: not in Gen/PkgVars.v)'],
 'assumptions': ['atomicity of the listed actions (validated under the race detector: any "WARNING: DATA RACE" is an oracle failure)',
                 "rt_wf r (see C20); op_wf: both iterations of a call's arg map range over its keys",
                 'node content is fixed when the node is created and not changed while it is live (content_stable_per_id of C20: built into the '
                 'operation vocabulary)',
                 'hid_ok: the initial shared state satisfies the invariant (empty caches and pools do)',
                 'state reachable only through schema-shared declarations (per-Schema lazily written fields) is not a package-level variable: it is '
                 'covered by the declaration dump and the race child, not by process_state_accounted'],
 'level_text': 'proof (Coq): refinement of every interleaving of atomic actions to the sequential spec, for any number of goroutines (transforms and '
               "NewSchema calls); the process-wide variables of the sources are pinned to the model's shared state by an extracted fact; PARTIAL: "
               'atomicity of the listed actions (data-race freedom) is assumed and validated under the race detector, not proved'}
