# bin/check configuration of property C16 (a single dict expression)
{'harness': 'c16',
 'props': 'Props/C16.v',
 'models': ['Model/Chunk.v', 'Model/Fault.v'],
 'trusted': ['stdlib decoders (encoding/csv|json|xml) return the error of their input reader after a prefix '
             'of the fault-free tokens (error transparency)',
             'classification tables are extracted from the seven IsContinuableError bodies '
             '(Gen/Continuable.v)'],
 'assumptions': ['the fault is a non-EOF error that persists (the same error forever, or one error once and '
                 'another one forever)']}
