# bin/check configuration of property C16 (a single dict expression)
{'assumptions': ['the fault is a non-EOF error that persists (the same error forever, or one error once and '
                 'another one forever)'],
 'harness': 'c16',
 'models': ['Model/Chunk.v', 'Model/Fault.v'],
 'props': 'Props/C16.v',
 'trusted': ['PROVED (Coq, closed): classification level (every extracted wrapping site of every reader '
             'gives a class the ingester does not call continuable; any non-continuable reader error is '
             'terminal and sticky); byte level for all chunkings and fault tails (line reader and delimiter '
             'scanner never swallow a fault; fault_prefix_agrees against the untruncated input; per-layer '
             'bounds); format level for the old fixed-length reader, both envelope kinds, over all line '
             'sequences (by_rows: fatal within lines+1 Reads; by_header_footer: known finding F27 as an iff)',
             'EXTRACTED from /repo on every run: Gen/Continuable.v (the seven IsContinuableError bodies + '
             'the ingester) and Gen/FaultWrap.v (per reader and site: which constructor wraps a failed read '
             '- fatal type / latched r.readErr / io.EOF / other; whether fixedlength tests the end of input '
             'with err == io.EOF; what a line matching no header returns)',
             'COMPARED ONLY (check_case on real runs + the Go oracle): the reader logic above the byte level '
             'of csv, csv2, fixedlength2, EDI, JSON, XML (hierarchy reader, header skipping, xpath '
             'filtering); the old fixed-length reader model (fl_rows_run / hf_run) is both proved and '
             'compared with the real reader on every run',
             'stdlib decoders (encoding/csv|json|xml) return the error of their input reader after a prefix '
             'of the fault-free tokens (error transparency): assumed']}
