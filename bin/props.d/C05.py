# bin/check configuration of property C05 (a single dict expression)
{'assumptions': ['max >= 1 for every declaration (not enforced by validation: finding F17, max_zero_refuted)',
                 'EDI documented behaviour only inside no_root_repeat (known finding F14; outside it the '
                 'machine is proved equal to spec_repeat) and for input ending with a segment terminator '
                 '(known finding F8)'],
 'harness': 'c05',
 'models': ['Model/Hier.v', 'Model/HierSpec.v', 'Model/HierOcc.v'],
 'props': 'Props/C05.v',
 'trusted': ['PROVED over the hand-transcribed model (Model/Hier.v): hstep/edi_step = the documented '
             'recursive matcher (machine_eq_spec, edi_eq_spec_nested), EDI without any guard = the matcher '
             'with the top-level sequence repeated (edi_eq_repeat_spec, edi_eq_spec_iff: exact '
             'characterisation of finding F14), termination within run_fuel (hier_terminates, '
             'edi_terminates), the target filter is transparent (filter_transparent, '
             'edi_filter_transparent), units consumed strictly left to right (every_unit_consumed_or_error, '
             'terminal_position)',
             'PROVED over Model/HierLines.v (hand-transcribed readLine / MoreUnprocessedData / rows loop / '
             'header-footer loop of the csv2 and fixedlength2 readers): the matcher sees exactly the '
             'non-empty physical lines in order, read-ahead loses nothing, the header/footer loop computes '
             'the declarative window (lines_more_unprocessed, lines_rows_refine, lines_header_footer_refine, '
             'leaf_matchers_are_windows); this model is NOT run by check_case (its behaviour is compared '
             'only through whole runs: blank lines, long inputs, directed buffer-refill inputs, '
             'white-space-only lines)',
             'EXTRACTED (harness/cmd/extract/gen_occurs.go -> coq/Gen/Occurs.v): default min / max and '
             '"negative max = unbounded" of csv2, fixedlength2, EDI from the MinOccurs/MaxOccurs function '
             "bodies; occurs_defaults is proved over the generated rules and every generated schema's "
             'min/max as written is resolved by them in check_case (OC cases)',
             'leaf matchers enter the machine theorems as a Section variable (any matcher taking between 1 '
             'and all remaining units); header/footer regular expressions are evaluated per raw line with Go '
             'regexp in the harness (not through the library) and reach the model as a bit mask per unit '
             '(LPat)',
             'idr node linking is modelled as commit-on-completion; delivered subtrees are compared with the '
             'implementation on every case; the bufio copy discipline of fixedlength2 (linesBuf aliasing the '
             'reader buffer) is compared only (long / directed inputs), not modelled',
             'the FINAL_OUTPUT filter is an arbitrary predicate in filter_transparent; the correspondence '
             "uses the xpath .[not(.//f = 'X')] (antchfx/xpath, trusted)",
             'tokenisation (csv records, EDI segments, release characters) belongs to C06/C07; here such '
             'inputs go through the real readers and every unit must be consumed or reported']}
