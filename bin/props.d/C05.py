# bin/check configuration of property C05 (a single dict expression)
{'assumptions': ['max >= 1 for every declaration (not enforced by validation: finding F17)',
                 'EDI: no_root_repeat (known finding F14) and input ends with a segment terminator (known '
                 'finding F8)'],
 'harness': 'c05',
 'models': ['Model/Hier.v', 'Model/HierSpec.v'],
 'props': 'Props/C05.v',
 'trusted': ['leaf matchers enter machine_eq_spec as a Section variable (any matcher that takes between 1 '
             'and all of the remaining units); the csv2/fixedlength2 rows and header/footer matchers and the '
             'EDI name matcher are instances',
             'idr node linking is modelled as commit-on-completion (Model/Hier.v header); the delivered '
             'subtrees are compared with the implementation on every case',
             'tokenisation (lines, csv records, EDI segments) is outside this property: units are what the '
             'tokenizers deliver',
             'the FINAL_OUTPUT target filter enters filter_transparent as an arbitrary predicate on '
             "completed instances; the correspondence uses the xpath .[not(.//f = 'X')] (antchfx/xpath, "
             'trusted) over a flag column/element of every unit',
             'EDI release-character handling belongs to the tokenizer (C07); here inputs with escaped '
             'release characters and delimiters are fed through the real reader and every unit must be '
             'consumed or reported, with its unescaped text',
             'pattern cases: header/footer regular expressions are evaluated per raw line with Go '
             'regexp.MatchString in the harness (not through the library); the model sees a unit as the bit '
             'mask of the patterns its line matches (leaf LPat)']}
