# bin/check configuration of property C05 (a single dict expression)
{'harness': 'c05',
 'props': 'Props/C05.v',
 'models': ['Model/Hier.v', 'Model/HierSpec.v'],
 'trusted': ['leaf matchers enter machine_eq_spec as a Section variable (any matcher that takes between 1 '
             'and all of the remaining units); the csv2/fixedlength2 rows and header/footer matchers and the '
             'EDI name matcher are instances',
             'idr node linking is modelled as commit-on-completion (Model/Hier.v header); the delivered '
             'subtrees are compared with the implementation on every case',
             'tokenisation (lines, csv records, EDI segments) is outside this property: units are what the '
             'tokenizers deliver'],
 'assumptions': ['machine_eq_spec is proved for every fuel with which the run reaches a terminal result '
                 '(..._partial); that run_fuel iterations always suffice (hier_terminates) is only swept '
                 'over a small scope and checked on every correspondence case',
                 'max >= 1 for every declaration (not enforced by validation: finding F17)',
                 'EDI: no_root_repeat (known finding F14) and input ends with a segment terminator (known '
                 'finding F8)']}
