# bin/check configuration of property C12 (a single dict expression)
{'harness': 'c12',
 'props': 'Props/C12.v',
 'models': ['Model/Heap.v', 'Model/HeapReset.v', 'Model/HeapOpsGen.v', 'Model/HeapReaders.v',
            'Model/HeapReadersHier.v'],
 'trusted': ['extracted from idr/node.go on every run (coq/Gen/NodeReset.v, coq/Gen/NodeOps.v): the field list '
             'of Node, the assignments of reset(), and the bodies of AddChild and of RemoveAndReleaseTree up to '
             'its recycle call as pointer programs; the theorems tie the model to them '
             '(reset_source_is_blank, node_fields_modelled, add_child_source_is_model, unlink_source_is_model) '
             'and the case check replays histories with the extracted programs '
             '(case_check_runs_extracted_programs); a shape the extractor does not recognise, or a changed '
             'pointer update, stops these theorems from checking.  Trusted here: the interpreter of '
             'Model/HeapOpsGen.v (selector = load, assignment = store, nil/dangling dereference = panic) and '
             'the go/ast extractor',
             'still hand-transcribed and held to the implementation only by the correspondence check and the '
             'oracle: recycle (the child loop that saves NextSibling before the recursive call, reset, Put), '
             'CreateNode/CreateXMLNode/CreateJSONNode (Get, then the three payload assignments), '
             'and the order of calls the readers issue (Model/HeapReaders*.v)',
             'the reader bridge (xml/json/hier/edi_reader_respects_api, *_error_issues_no_call, '
             'read_after_terminal_touches_nothing) is relative to the reader models of '
             'Model/Stream.v and Model/Hier.v (validated against the implementation by C04/C05/C17); the columns of a '
             'record and the xpath decisions enter as arbitrary functions',
             'sync.Pool enters as an arbitrary-choice multiset: Get may return any pooled node or call New; '
             'the pool choice is an explicit argument of the create step and every theorem quantifies over '
             'it',
             'sync/atomic.AddInt64 is one atomic step (ids_unique_par quantifies over all interleavings of '
             'such steps); int64 wrap-around after 2^63 acquisitions is outside the model (IDs are Z)',
             'the Go allocator never reuses the address of a node that is still referenced (the harness '
             'keeps every node alive)'],
 'assumptions': ['API preconditions (pre_b): AddChild(p, n) - p live, n a live detached root, p not in the '
                 'tree of n; RemoveAndReleaseTree(n) - n live (not released before).  '
                 'add_child_source_is_model / unlink_source_is_model / reset_source_is_blank assume nothing: '
                 'every heap, every argument']}
