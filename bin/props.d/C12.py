# bin/check configuration of property C12 (a single dict expression)
{'harness': 'c12',
 'props': 'Props/C12.v',
 'models': ['Model/Heap.v', 'Model/HeapReaders.v', 'Model/HeapReadersHier.v'],
 'trusted': ['the reader bridge (xml/json/hier/edi_reader_respects_api) is relative to the reader models of '
             'Model/Stream.v and Model/Hier.v (validated against the implementation by C04/C05/C17); the columns of a '
             'record and the xpath decisions enter as arbitrary functions',
             'sync.Pool enters as an arbitrary-choice multiset: Get may return any pooled node or call New; '
             'the pool choice is an explicit argument of the create step and every theorem quantifies over '
             'it',
             'sync/atomic.AddInt64 is one atomic step (ids_unique_par quantifies over all interleavings of '
             'such steps); int64 wrap-around after 2^63 acquisitions is outside the model (IDs are Z)',
             'the Go allocator never reuses the address of a node that is still referenced (the harness '
             'keeps every node alive)'],
 'assumptions': ['API preconditions (pre_b): AddChild(p, n) - p live, n a live detached root, p not in the '
                 'tree of n; RemoveAndReleaseTree(n) - n live (not released before)']}
