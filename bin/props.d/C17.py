# bin/check configuration of property C17 (a single dict expression)
{'harness': 'c17',
 'props': 'Props/C17.v',
 'models': ['Base/Tree.v', 'Gen/StreamSplit.v', 'Model/Stream.v'],
 'trusted': ['reachable size is measured by the harness after every Read during which the format reader returned a node (transformed or failed with '
             'a continuable error; the node is taken from the logging FileFormat wrapper of vh, a public extension point, and for transformed '
             'records it is checked to be RawRecord().Raw()): the tree under the root found through Parent links, and the closure over '
             'Parent/FirstChild/LastChild/PrevSibling/NextSibling',
             'record-at-a-time readers (hierarchy reader, EDI, fixed-length, old csv) enter through the small attach/filter/release model flat_run; '
             'the XML/JSON stream readers through the C04 reader models',
             'Go garbage collection of detached nodes is outside the model (a detached subtree is unreachable from the root)',
             'retention outside the node tree (reader-internal buffers) is not in the model: it is checked on the implementation only, by a '
             'live-heap oracle (runtime.GC + MemStats.HeapAlloc, minimum of three samples, every 1/16 of a 4*10^4 (quick) / 3*10^5 (thorough) record '
             'run after a warm-up; last third vs first third, slack 256 KB / 2 MB; goroutine stack memory (MemStats.StackInuse) is sampled from a '
             'second goroutine while Reads are in progress, slack 4 MB, with one unbroken run of 10^5 filter-rejected records per format; observed '
             'noise on the unchanged tree: under 10 KB)',
             'EXTRACTED on every run (gen_stream.go -> Gen/StreamSplit.v): transform/parse.go xpathMatchFlags (a dynamic xpath is queried with '
             'idr.DisableXPathCache, and the two xpath queries are made directly in querySingleNodeFromXPath / parseArray) and idr/query.go '
             'loadXPathExpr (that flag compiles without touching the cache); dynamic_xpaths_store_nothing / cache_only_static are proved over them; '
             'the set of cached expression texts is read from caches.XPathExprCache before and after a run with per-record distinct xpath_dynamic '
             'and compared with the model (C17XPath cases)',
             'PROVED (all inputs): retained = fixed part + the delivered record for XML (under ancestors, no separator text), JSON (root array, '
             'object values / arrays below nested objects), record-at-a-time readers incl. group/child-record targets; rejected records - runs of '
             'any length - leave the stream readers and the flat reader in the state they were in (xml/json_rejected_restores, '
             'rejected_run_leaves_nothing); release timing is irrelevant',
             'COMPARED ONLY: live heap and goroutine stack memory (retention outside the node tree), positional stream filters (outside the target '
             'class; checked through the attach/filter/release abstraction)'],
 'assumptions': ['no_separator_text (XML): no character data between the records (F7 is the known finding outside this guard)',
                 'the repeated part consists of target records under a fixed set of ancestors; records of non-target declarations and wrappers that '
                 'are not themselves on the target path stay attached by design'],
 'level_text': 'Coq theorems over the same reader models as C04 and a small attach/filter/release model of the record-at-a-time readers: what is '
               'reachable from the k-th delivered record is a fixed part plus that record, for every k, every number of records, every filter '
               'outcome (runs of rejections of any length restore the state exactly), every Release timing; the xpath expression cache stores '
               'nothing for computed xpaths (facts extracted from the source on every run); tied to the code by measuring the reachable node graph '
               '(all five links) at every reader delivery through the public Transform API for all seven formats and comparing with the model; '
               'retention outside the node tree is checked on the implementation by live-heap and stack-memory oracles over long inputs.',
 'level_note': 'Trusted: Coq kernel/vm_compute, the Go harness and extractor, the Go runtime memory statistics; no axioms (Print Assumptions: '
               'closed). F7 (XML character data between records) is the registered known finding outside the guard no_separator_text.',
 'technique': 'machine-checked proof in Coq 8.16 (induction over record lists and ancestor chains, state-restoration invariants) + '
              'model/implementation correspondence + heap/stack measurement + extracted call shapes'}
