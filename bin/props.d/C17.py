# bin/check configuration of property C17 (a single dict expression)
{'harness': 'c17',
 'props': 'Props/C17.v',
 'models': ['Base/Tree.v', 'Model/Stream.v'],
 'trusted': ['reachable size is measured by the harness after every Read during which the format reader returned a node '
             '(transformed or failed with a continuable error; the node is taken from the logging FileFormat wrapper of vh, '
             'a public extension point, and for transformed records it is checked to be RawRecord().Raw()): the tree under the '
             'root found through Parent links, and the closure over Parent/FirstChild/LastChild/PrevSibling/NextSibling',
             'record-at-a-time readers (hierarchy reader, EDI, fixed-length, old csv) enter through the '
             'small attach/filter/release model flat_run; the XML/JSON stream readers through the C04 reader '
             'models',
             'Go garbage collection of detached nodes is outside the model (a detached subtree is '
             'unreachable from the root)',
             'retention outside the node tree (reader-internal buffers) is not in the model: it is checked on the implementation only, '
             'by a live-heap oracle (runtime.GC + MemStats.HeapAlloc, minimum of three samples, every 1/16 of a 4*10^4 (quick) / '
             '3*10^5 (thorough) record run after a warm-up; last third vs first third, slack 256 KB / 2 MB; goroutine stack memory (MemStats.StackInuse) is sampled from a second goroutine while Reads are in progress, slack 4 MB, with one unbroken run of 10^5 filter-rejected records per format; observed noise on the '
             'unchanged tree: under 10 KB)'],
 'assumptions': ['no_separator_text (XML): no character data between the records (F7 is the known finding '
                 'outside this guard)',
                 'the repeated part consists of target records under a fixed set of ancestors; records of '
                 'non-target declarations and wrappers that are not themselves on the target path stay '
                 'attached by design']}
