# bin/check configuration of property C17 (a single dict expression)
{'harness': 'c17',
 'props': 'Props/C17.v',
 'models': ['Base/Tree.v', 'Model/Stream.v'],
 'trusted': ['reachable-tree size is measured by the harness through RawRecord().Raw().(*idr.Node) and '
             'parent links (public API)',
             'record-at-a-time readers (hierarchy reader, EDI, fixed-length, old csv) enter through the '
             'small attach/filter/release model flat_run; the XML/JSON stream readers through the C04 reader '
             'models',
             'Go garbage collection of detached nodes is outside the model (a detached subtree is '
             'unreachable from the root)'],
 'assumptions': ['no_separator_text (XML): no character data between the records (F7 is the known finding '
                 'outside this guard)',
                 'the repeated part consists of target records under a fixed set of ancestors; records of '
                 'non-target declarations and wrappers that are not themselves on the target path stay '
                 'attached by design']}
