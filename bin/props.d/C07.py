# bin/check configuration of property C07 (a single dict expression)
{'harness': 'c07',
 'props': 'Props/C07.v',
 'models': ['Model/Edi.v'],
 'trusted': ['PROVED over the model (25 theorems, Props/C07.v): ByteIndexWithEsc / ByteSplitWithEsc / '
             'ByteUnescape specifications for ALL byte strings; the round trip (edi_roundtrip, '
             'edi_elem_nodes, edi_full_roundtrip) for every configuration with cfg_ok and all logical '
             'segments; rawSegToNode for ALL raw segments and declaration lists (seg_to_node_spec, never a '
             'panic, fatal result last); the accounting of every input byte for ALL configurations and '
             'inputs (edi_tokens_cover, edi_tokens_complete under its guard, edi_trailing_refuted = F8); the '
             'terminal class of the EDI errors (edi_errors_terminal); the gap between cfg_ok and schema '
             'validation (edi_validation_gap)',
             'EXTRACTED from /repo on every run and used by the model and the proofs (an unrecognised shape '
             'or a changed value makes the C07 theorems stop checking; nothing else imports these files): '
             'Gen/EdiConsts.v (scannerFlags: EOF not a delimiter, delimiter kept in the token; '
             'ReaderBufSize); Gen/EdiShape.v (readToken cuts the segment delimiter by length; the LF rule: '
             'delimiter literal, suffix literal, bytes dropped; the blank runes of runeCountAndHasOnlyCRLF; '
             'the byte sequences ignore_crlf replaces by nothing, their order, and that nothing else wraps '
             'the input in NewNonValidatingReader; the constructors hence classes of the '
             'missing-segment-name / missing-element / wrapped reader errors; the use-the-default condition '
             'of rawSegToNode; the default component index of Elem.compIndex; minLength / required of the '
             'five delimiter strings in ediFileDeclaration.json); Gen/Continuable.v (IsContinuableError of '
             'the EDI reader and of the ingester)',
             'TRANSCRIBED BY HAND, compared only (correspondence cases: 1500 per quick run, every model '
             'function a theorem talks about is evaluated by check_case: nv_read_all, full_results / '
             'seg_to_node, edi_encode, exp_seg, exp_full, the extracted classes): go-corelib '
             'strs.ByteIndexWithEsc/ByteSplitWithEsc/ByteUnescape and the parts of Go '
             'bytes.Index/bytes.Split they fall back to (go-corelib@v0.0.14 lives outside /repo); the loop '
             'structure of readToken (element -> repetition -> component splitting, ElemIndex/CompIndex '
             'numbering) and of rawSegToNode',
             'MODELLED AS PURE FUNCTIONS: the byte-stream scanner (bufio.Scanner + ios.NewScannerByDelim3, '
             'buffer growth) is scan_tokens, ios.BytesReplacingReader is strip_seqs; chunking / buffer '
             'growth is property C09 (the harness feeds segments longer than the initial buffer through '
             'full/half/one-byte readers); the segment hierarchy machine of ediReader is property C05 (here: '
             'one non-group segment declaration, min 0, max unbounded); utf8.DecodeRune as transcribed in '
             'Base/Utf8.v; rune/segment counters and message texts are not modelled',
             'CALL SEQUENCES exercised by the harness (oracle per reader): readers run alone '
             '(NonValidatingReader.Read repeated after io.EOF must stay io.EOF); two or three readers alive '
             'at once taking turns after an earlier input ran to EOF; one FileDecl value reused with changed '
             'delimiters across cases (mutated in place, or copied and changed); sources that deliver in '
             'full / half / one-byte reads or hand the final bytes over together with io.EOF '
             '(iotest.DataErrReader). The model is per reader (pure function of configuration and input): '
             'state shared between readers is outside the theorems and covered by these runs only'],
 'assumptions': ['cfg_ok (edi_roundtrip, edi_elem_nodes, edi_full_roundtrip, unescape_escape): the '
                 'delimiters in use and the release character are non-empty byte strings whose first rune '
                 'utf8.DecodeRune decodes and is not U+FFFD (any valid UTF-8 string not starting with U+FFFD '
                 'qualifies; ASCII first bytes are the corollaries *_ascii), their first bytes are pairwise '
                 'distinct, none of those first bytes occurs at a later position of any of them (tail_clean; '
                 'Example tail_clean_needed shows a configuration outside it losing a segment), and with LF '
                 'as segment delimiter the release character does not end with CR',
                 'segx_ok: >= 1 element / repetition / component (exactly one where the delimiter is '
                 'absent); segment name non-empty; without a release character no data byte equals the first '
                 'byte of a delimiter; a CR before the delimiter and blank lines only where the CR/LF rules '
                 'eat them (LF resp. CR/LF-only segment delimiter); with LF as segment delimiter the last '
                 'value does not end with CR and, if it is empty, the delimiter standing before it does not '
                 '(no_cr_end, a condition on the logical values; edi_roundtrip_enc keeps the more general '
                 'condition on the encoding); with a CR/LF-only segment delimiter the name has a non-CR/LF '
                 'byte',
                 'the input (after ignore_crlf stripping, if configured) is edi_encode of the segments, '
                 'hence ends with a segment delimiter; in general what follows the last terminator is '
                 'dropped (edi_trailing_refuted = DESIGN section 6 F8; edi_tokens_cover accounts for every '
                 'other byte of every input; edi_tokens_complete holds under the guard "the input is a '
                 'sequence of terminated segments")',
                 'edi_tokens_cover / edi_tokens_complete / strip_crlf_spec need no cfg_ok: any configuration '
                 'with non-empty segment and element delimiters',
                 'cfg_ok is NOT enforced by schema validation (the JSON schema only demands non-empty '
                 'strings): edi_validation_gap exhibits an accepted configuration (element delimiter "*?", '
                 'release character "?") that loses a segment; recorded as a gap, not repaired',
                 'seg_to_node_spec, full_results_total, full_results_fatal_last, edi_errors_terminal need no '
                 'hypothesis at all'],
 'level_text': 'Coq theorems over a Gallina model of go-corelib '
               'ByteIndexWithEsc/ByteSplitWithEsc/ByteUnescape, NonValidatingReader.Read/readToken and '
               'rawSegToNode: specifications of the three escape-aware primitives for all byte strings; the '
               'round trip tokenise(edi_encode) = logical (ElemIndex, CompIndex, data) and unescape = data '
               'for every non-overlapping delimiter configuration (any decodable first rune, single- or '
               'multi-byte) and all logical segments incl. the CR/LF rules; declared element lookup / '
               'default / empty_if_missing / fatal for all declaration lists and all raw segments; '
               'accounting of every input byte for all configurations and inputs with the F8 witness; error '
               'classes tied to the extracted IsContinuableError table. Constants, flags, error constructors '
               'and the shape of the delimiter stripping are regenerated from the source on every run '
               '(Gen/EdiConsts.v, Gen/EdiShape.v) and the theorems are re-proved over them; the model is '
               'tied to /repo by a correspondence check that runs edi.NewNonValidatingReader and '
               'edi.NewReader and the model (vm_compute inside coqc) on the same generated bytes, and the '
               'round-trip oracle is evaluated on the implementation for every case.',
 'level_note': 'Trusted: Coq kernel + vm_compute, the Go harness and extractor; go-corelib and the Go stdlib '
               'pieces are transcribed by hand and compared only; scanner / replacing readers as pure '
               'functions (C09), hierarchy machine (C05). No axioms (Print Assumptions: closed). cfg_ok is '
               'stronger than what schema validation enforces (edi_validation_gap).'}
