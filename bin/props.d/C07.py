# bin/check configuration of property C07 (a single dict expression)
{'harness': 'c07',
 'props': 'Props/C07.v',
 'models': ['Model/Edi.v'],
 'trusted': ['go-corelib strs.ByteIndexWithEsc/ByteSplitWithEsc/ByteUnescape and the parts of Go '
             'bytes.Index/bytes.Split they fall back to are transcribed by hand from go-corelib@v0.0.14 '
             '(outside /repo); tied to the code by the correspondence cases only',
             'the byte-stream scanner (bufio.Scanner + ios.NewScannerByDelim3, 128-byte initial buffer, '
             'growth) is modelled as the pure function scan_tokens (cut after every unescaped segment '
             'delimiter, drop what follows the last one) and ignore_crlf (two ios.BytesReplacingReader) as '
             'strip_crlf; the two scanner flags and ReaderBufSize are extracted from edi/reader.go on every '
             'run (Gen/EdiConsts.v; scan_tokens and its proof depend on them); chunking/buffer growth is '
             'property C09; the harness feeds segments longer than the initial buffer through '
             'full/half/one-byte readers so a slicing fault at growth fails the oracle',
             'the segment hierarchy machine of ediReader is property C05; here the full reader runs over one '
             'non-group segment declaration (min 0, max unbounded)',
             'utf8.DecodeRune as transcribed in Base/Utf8.v; rune/segment counters and error message texts '
             'are not modelled'],
 'assumptions': ['cfg_ok (edi_roundtrip, edi_elem_nodes, edi_full_roundtrip, unescape_escape): the '
                 'delimiters in use and the release character are non-empty byte strings whose first rune '
                 'utf8.DecodeRune decodes and is not U+FFFD (any valid UTF-8 string not starting with U+FFFD '
                 'qualifies; ASCII first bytes are the corollaries *_ascii), their first bytes are pairwise '
                 'distinct, none of those first bytes occurs at a later position of any of them (tail_clean; '
                 'Example tail_clean_needed shows a configuration outside it losing a segment), and with LF '
                 'as segment delimiter the release character does not end with CR',
                 'segx_ok: >= 1 element / repetition / component (exactly one where the delimiter is '
                 'absent); segment name non-empty; without a release character no data byte equals the first '
                 'byte of a delimiter; a CR before the delimiter and blank lines only where the CR/LF rules '
                 'eat them (LF resp. CR/LF-only segment delimiter); with LF as segment delimiter the last '
                 'value does not end with CR and, if it is empty, the delimiter standing before it does not '
                 '(no_cr_end, a condition on the logical values; edi_roundtrip_enc keeps the more general '
                 'condition on the encoding); with a CR/LF-only segment delimiter the name has a non-CR/LF '
                 'byte',
                 'the input (after ignore_crlf stripping, if configured) is edi_encode of the segments, '
                 'hence ends with a segment delimiter; in general what follows the last terminator is '
                 'dropped (edi_trailing_refuted = DESIGN section 6 F8; edi_tokens_cover accounts for every '
                 'other byte of every input; edi_tokens_complete holds under the guard "the input is a '
                 'sequence of terminated segments")',
                 'segment delimiter non-empty (schema minLength 1)',
                 'edi_tokens_cover / edi_tokens_complete / strip_crlf_spec need no cfg_ok: any configuration '
                 'with non-empty segment and element delimiters']}
