# bin/check configuration of property C06 (a single dict expression)
{'harness': 'c06',
 'props': 'Props/C06.v',
 'models': ['Model/Csv.v', 'Model/Fixed.v', 'Model/Delim.v', 'Model/DelimPack.v'],
 'trusted': ['encoding/csv.Reader (as configured by both csv readers), bufio.Reader.ReadLine / '
             'ios.ByteReadLine, utf8.DecodeRune, strings.TrimSpace, strings.Join and regexp matching are '
             'modelled from their sources, not verified; the correspondence runs compare the model with the '
             'real readers and the csv model with encoding/csv on every generated table',
             'regular expressions enter the theorems as an arbitrary match function; the executable model '
             'covers `^literal` and `literal`'],
 'assumptions': []}
