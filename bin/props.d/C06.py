# bin/check configuration of property C06 (a single dict expression)
{'harness': 'c06',
 'props': 'Props/C06.v',
 'models': ['Model/Csv.v', 'Model/Fixed.v', 'Model/Delim.v', 'Model/DelimPack.v'],
 'trusted': ['PROVED over the models (Props/C06.v): csv round trip for every valid delimiter and table incl. '
             'replace_double_quotes; old csv: column fidelity, delivery order, every header_row_index / data_row_index '
             '(physical-line jump), header rejection incl. a header line the decoder fails on, input failure fatal at once (N10); '
             'csv2: buffer index arithmetic, rows based and header/footer records, delivery order over any call sequence; '
             'fixed-length: rune slice spec (any bytes, valid UTF-8 re-encoding, huge lengths), ByteReadLine fragment joining '
             '(every terminated line of any length; F22 exactly), only empty lines ignored, old reader: first matching line wins, '
             'by_rows / by_header_footer Reads; fixedlength2: no stale buffer reference, column fidelity and delivery order over any call sequence',
             'EXTRACTED on every run (coq/Gen/CsvCfg.v, harness/cmd/extract/gen_csvcfg.go): the encoding/csv.Reader settings both '
             'NewReader functions assign (Comma = first rune of the delimiter, FieldsPerRecord, LazyQuotes, TrimLeadingSpace, '
             'ReuseRecord, Comment) and the replace_double_quotes byte pair; Model.Csv.csv_next runs the transcription only for '
             'that configuration, so a change of the settings breaks every csv theorem (csv_reader_configuration)',
             'MODELLED from source, compared only (correspondence runs, every generated table also against encoding/csv itself): '
             'encoding/csv readLine/readRecord for the extracted configuration, bufio.Reader.ReadLine with its 4096-byte buffer, '
             'ios.ByteReadLine, utf8.DecodeRune/EncodeRune (Base/Utf8.v), strings.TrimSpace (exact for valid UTF-8), strings.Join',
             'regular expressions enter the theorems as an arbitrary match function; the executable model covers `^literal` and `literal`',
             'the hierarchy reader above the csv2 / fixedlength2 record readers is C05\'s subject: theorems quantify over every call '
             'sequence; the correspondence runs use the flat (no groups) instance transcribed in Model/Delim.v'],
 'assumptions': ['f22_guard (known finding F22): read_line = ideal line reader needs "the text contains an LF or the unterminated '
                 'last line is shorter than the 4096-byte buffer"; fixed_last_line_refuted / read_line_unterminated_exact state the loss',
                 'the input source never returns data together with io.EOF (bytes/strings readers, files)']}
