# bin/check configuration of property C03 (a single dict expression)
{'harness': 'c03',
 'props': 'Props/C03.v',
 'models': ['Model/Safety.v'],
 'trusted': ['PARTIAL BY NATURE: panics and hangs inside gojsonschema, antchfx/xpath, goja, encoding/json, '
             'encoding/xml, encoding/csv, regexp and golang.org/x/text are not expressible in the model; for '
             'them harness/cmd/c03 is a search engine only (recover() + watchdog over mutated schemas and '
             'damaged inputs) and the absence of findings there is not proved',
             'json.Decoder token grammar (inside an object a string key or "}" is expected, inside an array '
             'a value or "]"; any number of top-level values) enters json_stream_cursor_no_panic as the '
             'hypothesis dec_accepts',
             'encoding/csv: a Reader.Read call with a usable delimiter consumes at least one physical line '
             'or returns io.EOF (Section hypothesis span_ok of csv_delim_progress); its validDelim is '
             'transcribed by hand (stdcsv_valid_delim)',
             'reflect.Value.Call / Type.In / Type.Elem / AssignableTo are modelled over an abstract type '
             'universe (Model/Safety.v section 1)',
             'the readers themselves (hierarchy reader, stream readers, csv/fixed-length, EDI) are modelled '
             'under C04..C07; read_terminates_bound takes their progress property as a Section hypothesis; '
             'hier_reads_bound / edi_reads_bound are closed instances over C05\'s machine = specification theorems '
             '(Proofs/HierTerm.v), inheriting C05\'s trusted base and, for EDI, its guard no_root_repeat (F14)',
             'Gen/Safety.v: isValidDelimiter of csv and csv2 (and whether validateFileDecl applies it), '
             'JSON-schema bounds, and whether each of the five ValidateSchema returns the json.Unmarshal error, '
             'extracted on every run',
             'antchfx/xpath evaluation enters query_wrappers_no_panic as an arbitrary outcome (panic or n nodes); '
             'goja export enters javascript_result_no_panic_partial as a five-way classification of the completion '
             'value (validated by the harness only)'],
 'assumptions': ['sig_ok: the first parameter of a registered custom function accepts *transformctx.Ctx '
                 '(registration is caller code, outside the claim)',
                 'guards of the known findings (KNOWN_FINDINGS.txt, property C03): tpl_small (N3), groups_small (N4), '
                 'js_no_map_set (N8); the main generators stay inside them, the recorded inputs are replayed from '
                 'replays/corpus/C03 on every run (N8 in a process of its own); the classes of the repaired N1, N2, N5, '
                 'N6, N7, N9, N10 are exercised by the generators (failing-reader runs use any header / data row index)',
                 'read bound: a finite input of n bytes reaches a terminal result within n+2 Reads (the '
                 'constant the harness enforces), also when the input reader fails persistently after those n bytes']}
