# bin/check configuration of property C03 (a single dict expression)
{'harness': 'c03',
 'props': 'Props/C03.v',
 'models': ['Model/Safety.v'],
 'trusted': ['PARTIAL BY NATURE: panics and hangs inside gojsonschema, antchfx/xpath, goja, encoding/json, '
             'encoding/xml, encoding/csv, regexp and golang.org/x/text are not expressible in the model; for them '
             'harness/cmd/c03 is a search engine only (recover() + watchdog + memory watchdog + supervisor process, '
             'random stream and deterministic sweeps) and the absence of findings there is not proved',
             'PROVED over hand-transcribed code (Model/Safety.v): custom_func invocation (invoke_no_panic), template '
             'expansion incl. null declarations (validate_terminates, validate_cycle_rejected), JSON stream cursor '
             '(json_stream_cursor_no_nil_deref unconditionally, json_stream_cursor_no_panic under the decoder '
             'grammar), removeLastFilterInXPath / removeTrailingFiltersInXPath (total; byte prefix on every valid '
             "UTF-8 string, using C06's byte sweeps), lineToColumnValue (fixed_slice_no_panic), the old csv reader "
             'Read/checkHeader/jumpTo at line level (csv_jump_terminates, csv_fault_reads_bound), the fixed-length '
             'by_rows reader (fixed_by_rows_reads_bound), the Read-count composition (reads_bound_generic, '
             "read_terminates_bound) with closed instances over C05's hierarchy machine (hier_reads_bound, "
             'edi_reads_bound)',
             'EXTRACTED on every run into Gen/Safety.v, theorems re-proved over it: isValidDelimiter of csv and csv2 '
             'and whether validateFileDecl applies it; JSON-schema bounds (delimiter length, rows / by_rows / '
             'start_pos / length minimum); whether each of the five ValidateSchema returns the json.Unmarshal error '
             '(rows_validated); whether SchemaValidate calls checkTopLevelKeys on the valid path '
             '(dup_keys_validated); the error-classification shapes of csv/reader.go (Read returns a latched readErr '
             'first, Read latches a non-ParseError, jumpTo fails out on a non-ParseError) and the condition of the '
             'raw-error return of fixedlength readByRowsEnvelope (csv_jump_terminates, csv_fault_reads_bound, '
             'fixed_by_rows_reads_bound)',
             'COMPARED ONLY (check_case on real runs, no theorem about the Go side): reflect.Value.Call / Type.In / '
             'Type.Elem / AssignableTo as modelled over an abstract type universe; encoding/csv validDelim as '
             'transcribed (stdcsv_valid_delim) and "a Read with a usable delimiter consumes >= 1 physical line" '
             '(hypothesis span_ok); the json.Decoder token grammar (hypothesis dec_accepts); string(runes)/[]rune '
             'round trip inside removeTrailingFiltersInXPath; gojsonschema integer / minimum semantics and '
             'json.Unmarshal into int (schema_int); the javascript result classification (js_result) and the xpath '
             'engine outcome (engine_res) are abstract classifications exercised by sweeps only',
             'NOT MODELLED here (other properties): the stream readers (C04), csv2 / fixedlength2 / EDI tokenisation '
             "and the hierarchy machine itself (C05..C07; reused through C05's machine = specification theorems), "
             'byte-level propagation of a source fault through bufio (C16 Model/Chunk.v); the fixed-length '
             'by_header_footer reader under a failing source (C16 known finding F27) and the json / xml readers '
             'under a failing source are covered by the failing-reader search only'],
 'assumptions': ['sig_ok: the first parameter of a registered custom function accepts *transformctx.Ctx '
                 '(registration is caller code, outside the claim)',
                 'guards of the known findings (KNOWN_FINDINGS.txt, property C03): tpl_small (N3), groups_small '
                 '(N4), js_no_map_set (N8); the main generators stay inside them, the recorded inputs are replayed '
                 'from replays/corpus/C03 on every run (N8 in a process of its own); the classes of the repaired N1, '
                 'N2, N5, N6, N7, N9, N10 are exercised by the generators (failing-reader runs use any header / data '
                 'row index)',
                 'javascript_result_no_panic_partial stays partial: a Map / Set containing itself overflows the '
                 "stack inside goja's own Export (N8); no Go-side repair exists short of replacing Value.Export, so "
                 'the guard js_no_map_set cannot be lifted',
                 'read bound: a finite input of n bytes reaches a terminal result within n+2 Reads (the constant the '
                 'harness enforces), also when the input reader fails persistently after those n bytes; proved at '
                 'line level (lines + 1 Reads) for old csv and fixed-length by_rows, at unit level (units + 1) for '
                 'csv2 / fixedlength2 / EDI without a failing source'],
 'level_text': 'Coq theorems (21, no axioms) over Gallina transcriptions of the self-contained panic / termination '
               'sites of omniparser and of two whole line-based readers, quantified over all inputs / signatures / '
               'declaration graphs / token sequences / failure patterns (induction and invariants), with the '
               'decision facts they depend on extracted from the Go source on every run; tied to the code by a '
               'correspondence check that replays real calls (transcribed pure functions, schema accept/reject, '
               'reader result sequences, Read counts) through the model inside Coq; plus a crash/hang search engine '
               '(random schema and input mutation, deterministic sweeps, failing input readers) for everything that '
               'lives in third-party code.',
 'level_note': 'Trusted: Coq kernel/vm_compute, the Go harness and extractor; stdlib and third-party behaviour '
               'enters as Section hypotheses or abstract classifications named in trusted_base; Print Assumptions: '
               'closed.',
 'technique': 'machine-checked proof in Coq 8.16 (induction over lists / fuel / declaration graphs, invariants for '
              'the JSON cursor and the readers) + extracted source facts + model/implementation correspondence + '
              'fuzzing with recover/watchdog'}
