# bin/check configuration of property C04 (a single dict expression)
{'harness': 'c04',
 'props': 'Props/C04.v',
 'models': ['Base/Tree.v', 'Model/Stream.v'],
 'trusted': ['encoding/xml and encoding/json tokenisers: the token stream is a function of the document '
             '(checked per case: the tokens an independent decoder returns equal xevents/jevents of the '
             'document rebuilt from them)',
             'antchfx/xpath engine: for targets of the class its result is sel pm pred (path predicate on '
             'the element-name chain, final predicates on the candidate subtree); validated per case against '
             'idr.MatchAll on the fully loaded document',
             'XML namespace resolution (space2prefix) is outside the model: tokens carry the resolved '
             'prefix/URI',
             'engine behaviour the model follows because both evaluations (streaming and whole document) go '
             'through the same engine: a non-initial "//" step and ".//x" include the context node itself; '
             'MatchAll results are read as a set in document order (the engine returns duplicates and its '
             'own order for "//a//b"); generated predicates keep filtered steps x[..] out of the LEFT '
             'operand of and/or (antchfx/xpath v1.1.11 evaluates the right operand on a moved context '
             'there)',
             'process-wide state shared by readers is not in the model (a reader model has none): checked on the implementation by '
             'the interleaving oracle - 2-3 readers alive at once on one goroutine, read alternately with random switch points, '
             'each must deliver what it delivers alone (same URI under different prefixes, and random XML/JSON pairs)',
             'namespace declarations on inner elements: the model takes the names as the reader resolves them (document-wide '
             'last-wins URI->prefix map, F11); stream vs whole-document selection is compared through the same resolution'],
 'assumptions': ['xml_no_doc_target: the path part does not select the XML document node itself (targets "." '
                 'and "/" make the XML reader deliver the top-level elements instead)',
                 'releases are of the node the last Read returned (or absent)']}
