# bin/check configuration of property C04 (a single dict expression)
{'harness': 'c04',
 'props': 'Props/C04.v',
 'models': ['Base/Tree.v', 'Gen/StreamSplit.v', 'Model/Stream.v'],
 'trusted': ['encoding/xml and encoding/json tokenisers: the token stream is a function of the document (checked per case: the tokens an independent '
             'decoder returns equal xevents/jevents of the document rebuilt from them)',
             'antchfx/xpath engine: for targets of the class its result is sel pm pred (path predicate on the element-name chain, final predicates '
             'on the candidate subtree); validated per case against idr.MatchAll on the fully loaded document',
             'XML namespace resolution (space2prefix) is outside the model: tokens carry the resolved prefix/URI',
             'engine behaviour the model follows because both evaluations (streaming and whole document) go through the same engine: a non-initial '
             '"//" step and ".//x" include the context node itself; MatchAll results are read as a set in document order (the engine returns '
             'duplicates and its own order for "//a//b"); generated predicates keep filtered steps x[..] out of the LEFT operand of and/or '
             '(antchfx/xpath v1.1.11 evaluates the right operand on a moved context there)',
             'process-wide state shared by readers is not in the model (a reader model has none): checked on the implementation by the interleaving '
             'oracle - 2-3 readers alive at once on one goroutine, read alternately with random switch points, each must deliver what it delivers '
             'alone (same URI under different prefixes, and random XML/JSON pairs)',
             'namespace declarations on inner elements: the model takes the names as the reader resolves them (document-wide last-wins URI->prefix '
             'map, F11); stream vs whole-document selection is compared through the same resolution',
             'EXTRACTED on every run (harness/cmd/extract/gen_stream.go -> coq/Gen/StreamSplit.v): the characters removeLastFilterInXPath reacts to '
             '(closing bracket tested first, the two quotes, the decrementing and the incrementing bracket), the loop shape and trim cutset of '
             'removeTrailingFiltersInXPath, which of the two functions New{XML,JSON}StreamReader applies and that the closing check is installed iff '
             'the texts differ; split_filter_sound / split_filter_readers are re-proved over these; an unrecognised shape makes Gen/StreamSplit.v '
             'uncompilable and all C04/C17 theorems stop checking',
             'PROVED (all inputs): stream = whole-document selection for XML and JSON (xml/json_stream_eq_select), outermost-then-filter = recursive '
             'spec, the split for every well-formed target, the attribute loop for every attribute list incl. empty values (xml_attribute_loop, '
             'xml_start_element), cur/stream bookkeeping restored after every element (xml_element_bookkeeping), the small-step invariant over '
             'arbitrary token sequences (stream_invariant_partial), independence of readers under every schedule (reader_independent, '
             'interleaved_eq_solo)',
             'COMPARED ONLY (no theorem): the public Transform API stream (ingester plumbing), deliveries under interleaving on the implementation, '
             'name resolution with re-bound prefixes',
             'union targets "alt | ... | main": without trailing filters inside the class (xml/json_stream_eq_select_union, split_filter_union; the '
             'correspondence runs the model with the disjunction of the branch predicates); WITH a trailing filter on the last branch the final '
             'predicate depends on the branch - outside the class of the theorems, COMPARED ONLY against the whole-document MatchAll selection in '
             'document order',
             'a fixed part of every run (replays/corpus/C04/plainpath_*.json, 19 cases): plain name paths of 3 and 4 steps, with and without a '
             'trailing filter, with and without Release, over XML and JSON documents whose targets sit under several parents and grand-parents '
             '(class of seeded change C04-r42); the random stream additionally aims 12% of its targets at plain paths of 3+ steps'],
 'assumptions': ['xml_no_doc_target: the path part does not select the XML document node itself (targets "." and "/" make the XML reader deliver the '
                 'top-level elements instead)',
                 'releases are of the node the last Read returned (or absent)',
                 'readers share no state (reader_independent is about the model; the interleaving oracle checks the implementation)'],
 'level_text': 'Coq theorems over a line-by-line model of idr/xmlreader.go and idr/jsonreader.go (zipper + stream pointer; candidate check on the '
               'whole tree, closing check by node identity, pruning, Release/Read prologue, the attribute loop turn by turn, JSON type flags): for '
               'every document, every target of the class (arbitrary path predicate on the name chain + arbitrary predicate on the subtree) and '
               'every Release pattern the deliveries equal the whole-document selection; the xpath split is proved on the concrete syntax over '
               'character classes and call shapes extracted from the source on every run; tied to the code by a correspondence check (same tokens, '
               'same target, deliveries and reachable sizes equal) and a Go-side oracle against idr.MatchAll, plus interleaved readers and the '
               'public Transform API.',
 'level_note': 'Trusted: Coq kernel/vm_compute, the Go harness and extractor, encoding/xml, encoding/json and the xpath engine (modelled for the '
               'class, validated per case); no axioms (Print Assumptions: closed).',
 'technique': 'machine-checked proof in Coq 8.16 (structural induction over documents, small-step invariant over arbitrary token sequences, schedule '
              'induction for interleaved readers) + model/implementation correspondence + extracted constants and call shapes'}
