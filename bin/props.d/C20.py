# bin/check configuration of property C20 (a single dict expression)
{'harness': 'c20',
 'props': 'Props/C20.v',
 'models': ['Model/Js.v'],
 'trusted': ['goja (parser, interpreter, ToValue/Export, property semantics of the global object) is '
             'modelled, not verified: a compiled script is an arbitrary function of the globals it can see; '
             'the fresh global object enters as a table (own names with configurable flag, inherited names) '
             'read off the real runtime on every run and checked against rt_wf',
             'sync.Pool = arbitrary choice among pooled items or New, items may vanish at any time; '
             'hashicorp LRU transcribed (move-to-front, evict oldest)',
             'idr.JSONify2 is a function of the node content at the time of the call (the harness computes '
             'it through a probe custom func)'],
 'assumptions': ['rt_wf: a configurable own global is writable and no own global name is also inherited '
                 '(checked on the real table in every case)',
                 "content_stable_per_id (named guard of node_json_fresh / js_calls_as_alone): a node ID's "
                 'content does not change while its JSON may be cached; FALSE for ancestors of streamed '
                 'records - known finding F6, witness node_json_refuted, corpus f6_ancestor_node.json',
                 'scripts do not assign or declare globals (excluded by the property; by type in the model)',
                 "the enumeration order of the global object's properties is not observable by scripts (gmap "
                 'is extensional)']}
