# bin/check configuration of property C20 (a single dict expression)
{'harness': 'c20',
 'props': 'Props/C20.v',
 'models': ['Model/Js.v'],
 'trusted': ['goja (parser, interpreter, ToValue/Export, property semantics of the global object) is modelled, not verified: a compiled script is an '
             'arbitrary function of the globals it can see; the fresh global object enters as a table (own names with configurable flag, inherited '
             'names) read off the real runtime on every run and checked against rt_wf',
             'sync.Pool = arbitrary choice among pooled items or New, items may vanish at any time; hashicorp LRU transcribed (move-to-front, evict '
             'oldest)',
             'idr.JSONify2 is a function of the node content at the time of the call (the harness computes it through a probe custom func)'],
 'assumptions': ['rt_wf: a configurable own global is writable and no own global name is also inherited (checked on the real table in every case)',
                 "content_stable_per_id (named guard of node_json_fresh / js_calls_as_alone): a node ID's content does not change while its JSON may "
                 'be cached; FALSE for ancestors of streamed records - known finding F6, witness node_json_refuted, corpus f6_ancestor_node.json',
                 "the enumeration order of the global object's properties is not observable by scripts (gmap is extensional)",
                 'scripts are functions of the visible globals (type [script]); scripts that CREATE global bindings (t = 0, var n = ..., as in the '
                 "documentation's examples) are outside the property by type: js_global_writers_refuted proves that isolation is false for the "
                 'generalised type [gscript] (the wipe removes arg names only); run_on_g_pure_script: the generalisation coincides with run_on on '
                 "the property's class"],
 'level_text': 'proof (Coq) of VM isolation, classification and cache soundness over a transcription of javascript.go, compared with the '
               'implementation on every run; F6 (stale _node for ancestors) is a known finding: node_json_fresh holds under the named guard '
               'content_stable_per_id, node_json_refuted is the witness'}
