# bin/check configuration of property C15 (a single dict expression)
{'harness': 'c15',
 'props': 'Props/C15.v',
 'models': ['Model/Pipeline.v', 'Model/Eval.v', 'Model/Json.v', 'Model/Js.v'],
 'trusted': ['evaluator (ParseNode), json.Marshal, MD5/UUIDv3 and idr.JSONify2-encoding enter the theorems '
             'as Section variables; the node ID allocator (counter, sync.Pool as arbitrary-choice schedule, '
             'recycle) is modelled and its uniqueness invariant proved',
             'H (MD5) injective: collisions excluded (DESIGN section 4)'],
 'assumptions': ['eval_cache_transparent (C02): the per-record transform memo does not change ParseNode '
                 'results',
                 'eval_id_renaming (C02): ParseNode results are invariant under injective renaming of node '
                 'IDs',
                 'eval_caches_sound (C13 ingredients expr_cache_pure / js_isolation (C20) / '
                 'node_json_fresh): from any cache state satisfying CInv the result equals the one with '
                 'empty caches and CInv is kept; CInv_mono',
                 'content_stable_per_id (guard, DESIGN section 6 F6): the node-JSON cache is only consulted '
                 'for nodes of the record itself',
                 'reader model: flat record lists under one parent with a fixed envelope; '
                 'EDI/csv2/fixedlength2 occurrence counters are outside the model',
                 'eval_hash_renaming (C02): results invariant under injective renaming of declaration hashes',
                 'XML checksum canon outside the F12 guard (attributes of text-only elements, text beside '
                 'element children) is refuted: xml_checksum_refuted',
                 'with the C02 evaluator (Proofs/PipelineC02.v: *_c02 theorems) the evaluator hypotheses '
                 'eval_cache_transparent / eval_id_renaming / eval_caches_sound are discharged; what remains '
                 'assumed there is query_valid (the xpath engine returns nodes of the tree it runs on) and '
                 'determinism of engine, externals and custom functions',
                 'canon_injective_json: numbers survive strconv (parsef (fmtf k) = k) and object keys are '
                 'pairwise distinct (the hypotheses of C08 json_roundtrip); canon_injective_xml: the F12 '
                 'guard xguard (no attributes on text-only elements, no text beside element children, '
                 'distinct child names or a same-name array without attributes); inter-element whitespace '
                 'text is outside the guard',
                 '*_js theorems (Proofs/PipelineJs.v): evaluator-side caches = C20 jsstate, hypotheses '
                 'discharged from C20 + C02; modelling variables jscalls / js_of / matches / cf_of and the '
                 'pipeline-level F6 guard (jscalls_wf, jscalls_stable) remain',
                 'extracted source fact Gen/DeclHash.v (decl_hash_injective): computeDeclHash keys its table '
                 'by the full declaration encoding AND stores a fresh-unique id (uuid.New or a counter) for '
                 'a new key - not a digest of the encoding; a change to either breaks the *_src obligations',
                 'F29 guard wherever JavaScript enters (the *_js theorems): scripts create no global '
                 'bindings - no top-level let/const/class/var/function, no implicit globals, no mutation of '
                 'built-ins (known finding F29, witnesses under replays/corpus/C13/f29_*.json)',
                 'PROVED + EXTRACTED: children_order_deterministic - the children (evaluation) order of an '
                 'object declaration is a function of the child set for every total comparison on pairwise '
                 'distinct keys; the sort key of validateObject is re-extracted on every run '
                 '(Gen/ChildrenOrder.v: `<` on the full fqdn); children_order_refuted for a non-injective '
                 'key (C15-r42 class); compared on real runs: C15Order cases (validated children lists '
                 'strictly increasing) and the repeated-load comparison of the validated tree',
                 'NOT proved: uniqueness of fqdns among the children of one object (JSON object keys unique '
                 '+ escaping of names) is assumed as NoDup (map key l); checksum canon injectivity for '
                 'JSON/XML/flat is proved, MD5/json.Marshal injectivity assumed']}
