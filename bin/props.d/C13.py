# bin/check configuration of property C13 (a single dict expression)
{'harness': 'c13',
 'props': 'Props/C13.v',
 'models': ['Model/Pipeline.v', 'Model/Eval.v', 'Model/Heap.v', 'Model/Js.v'],
 'trusted': ['evaluator (ParseNode), json.Marshal, MD5/UUIDv3 and idr.JSONify2-encoding enter the theorems '
             'as Section variables; the node ID allocator (counter, sync.Pool as arbitrary-choice schedule, '
             'recycle) is modelled and its uniqueness invariant proved'],
 'assumptions': ['eval_cache_transparent (C02): the per-record transform memo does not change ParseNode '
                 'results',
                 'eval_id_renaming (C02): ParseNode results are invariant under injective renaming of node '
                 'IDs',
                 'eval_caches_sound (C13 ingredients expr_cache_pure / js_isolation (C20) / '
                 'node_json_fresh): from any cache state satisfying CInv the result equals the one with '
                 'empty caches and CInv is kept; CInv_mono',
                 'content_stable_per_id (guard, DESIGN section 6 F6): the node-JSON cache is only consulted '
                 'for nodes of the record itself',
                 'reader model: flat record lists under one parent with a fixed envelope; '
                 'EDI/csv2/fixedlength2 occurrence counters are outside the model',
                 'with the C02 evaluator (Proofs/PipelineC02.v: *_c02 theorems) the evaluator hypotheses '
                 'eval_cache_transparent / eval_id_renaming / eval_caches_sound are discharged; what remains '
                 'assumed there is query_valid (the xpath engine returns nodes of the tree it runs on) and '
                 'determinism of engine, externals and custom functions',
                 'allocator bridge (Proofs/PipelineHeap.v): Model/Pipeline.v alloc is the abstraction '
                 'abs_alloc of the C12 heap machine (create / recycle simulate create_node / release; '
                 'reachable => AInv), so Inv is discharged for every C12-reachable state '
                 '(caches_invisible_c02_heap has no hidden-state and no evaluator hypothesis)',
                 'JavaScript composition (Proofs/PipelineJs.v, caches_invisible_js): evaluator-side caches = '
                 'C20 jsstate; eval_caches_sound / CInv_mono / memo transparency / ID renaming discharged '
                 'from C20 js_call_spec and C02 (plus oracle extensionality of the C02 evaluator, '
                 'Proofs/PipelineEvalExt.v); modelling variables left: jscalls (the JavaScript calls a '
                 'record issues, with jscalls_wf / jscalls_stable = the F6 guard at pipeline level), js_of / '
                 'matches / cf_of (invocation -> call -> Go value)',
                 'F29 guard (known finding F29): scripts create no global bindings - no top-level '
                 'let/const/class/var/function, no implicit globals, no mutation of built-ins. The '
                 "JavaScript VM pool only removes a call's args; C20's Model/Js.v excludes such scripts by "
                 'type (a script is a function of the globals it can see), js_guard / caches_invisible_js '
                 'inherit that; the generators stay inside the guard (scripts are expressions or IIFEs); '
                 'witnesses replays/corpus/C13/f29_a_toplevel_let.json, f29_b_global_var_counter.json '
                 '(replayed last in the harness process), model witness caches_invisible_refuted_globals',
                 'extracted source fact Gen/DeclHash.v (decl_hash_injective): computeDeclHash keys its table '
                 'by the full declaration encoding AND stores a fresh-unique id (uuid.New or a counter) for '
                 'a new key - not a digest of the encoding; a change to either breaks the *_src obligations',
                 'PROVED over the C02 evaluator model: cache_key_determines_result - equal cache keys (node '
                 'ID, declaration hash, xpathQueryNeeded) give equal results for all declaration kinds incl. '
                 'custom functions taking the node implicitly (C13-r41 class); key_without_node_refuted']}
