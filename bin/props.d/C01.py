# bin/check configuration of property C01 (a single dict expression)
{'harness': 'c01',
 'props': 'Props/C01.v',
 'models': ['Model/Latch.v'],
 'trusted': ['ingester and FormatReader enter the theorems as Section variables (any behaviour); the '
             'built-in classification tables are extracted from the seven IsContinuableError bodies',
             'extracted on every run (Gen/LatchShape.v, extractor trusted): the statements of transform.Read and '
             'transform.RawRecord of transform.go as a program over lastErr / lastRawRecord / the three results of '
             'ingester.Read(), the type-switch shape of errs.IsErrTransformFailed and the string-payload shape of '
             'errs.ErrTransformFailed; Model/LatchShape.v interprets the program (assignment, if/else, short-circuit '
             '&& ||, return; err.Error() on nil = panic) and latch_step_is_source_shape proves the hand-written model '
             'step equal to that interpretation in every state for every ingester result. The meaning given to the '
             'five statement forms and to nil comparison is the interpreter\'s, compared with the implementation '
             'only through the logged runs (check_case_src)',
             'identifying an error value as ErrTransformFailed (e_cls = CFailed) is the harness\'s own dynamic-type '
             'assertion, not the library predicate',
             'validity of the JSON bytes is json.Marshal output (stdlib), asserted on every returned slice '
             'by the harness'],
 'assumptions': ['ing_raw_on_success: an ingester returns a raw record whenever it reports success (proved '
                 'for the built-in ingester; required of caller-supplied ones); used by rawrecord_law and '
                 'src_rawrecord_law only - rawrecord_never_stale needs no hypothesis'],
 'level_text': 'PROVED in Coq for every ingester (Section variables) and every operation list (induction): the Read/RawRecord contract of the transcribed latch, the per-history facts bytes_only_on_success, failed_wraps_ingester_error, ingester_not_called_after_terminal, error_identity, rawrecord_never_stale, and the classification of the seven built-in formats. EXTRACTED from the source on every run: the statement programs of transform.Read / transform.RawRecord, the shape of errs.IsErrTransformFailed / ErrTransformFailed, the seven IsContinuableError tables; the model step is proved equal to the interpretation of the extracted statements, so an edit of those statements breaks a proof obligation. COMPARED ONLY (correspondence on logged runs of real Transforms, replayed inside Coq through both the model and the interpreter): the built-in ingester transcription, the meaning of the statement forms, error identity by Go ==, the number of ingester calls; JSON validity is asserted by the harness.',
 'level_note': 'Trusted: Coq kernel/vm_compute, the Go harness and extractor, stdlib json.Marshal for JSON validity; ingester enters as a Section variable; no axioms (Print Assumptions: closed).',
 'technique': 'machine-checked proof in Coq 8.16 (induction over call histories) + statement-level extraction of transform.go interpreted in Coq + model/implementation correspondence + extracted decision tables'}
