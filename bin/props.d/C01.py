# bin/check configuration of property C01 (a single dict expression)
{'harness': 'c01',
 'props': 'Props/C01.v',
 'models': ['Model/Latch.v'],
 'trusted': ['ingester and FormatReader enter the theorems as Section variables (any behaviour); the '
             'built-in classification tables are extracted from the seven IsContinuableError bodies',
             'validity of the JSON bytes is json.Marshal output (stdlib), asserted on every returned slice '
             'by the harness'],
 'assumptions': ['ing_raw_on_success: an ingester returns a raw record whenever it reports success (proved '
                 'for the built-in ingester; required of caller-supplied ones)'],
 'level_text': 'Coq theorems over the transcribed Read/RawRecord latch for every ingester (Section variables) and every operation list (induction), plus classification of the seven built-in formats over tables extracted from the source on every run; tied to the code by a correspondence check that replays logged ingester/reader results of real Transforms through the model inside Coq.',
 'level_note': 'Trusted: Coq kernel/vm_compute, the Go harness and extractor, stdlib json.Marshal for JSON validity; ingester enters as a Section variable; no axioms (Print Assumptions: closed).',
 'technique': 'machine-checked proof in Coq 8.16 (induction over call histories) + model/implementation correspondence + extracted decision tables'}
