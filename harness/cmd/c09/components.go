package main

import "verifharness/vh"

// components feeds the same chunk lists to the real byte-level layers and (through the Cases
// files) to the Gallina model.
func components(r *vh.Rng, o *vh.Opts, sum *vh.Summary, cw *vh.CaseWriter) {}
