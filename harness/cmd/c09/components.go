package main

import (
	"verifharness/cmd/c09/iox"
	"verifharness/vh"
)

// components feeds the same chunk lists to the real byte-level layers (bufio.Reader,
// ios.StripBOM, ios.ByteReadLine, ios.BytesReplacingReader, ios.NewScannerByDelim3, the charmap
// decoder, and the two stacks omniparser builds from them) and, through the Cases files, to the
// Gallina model of Model/Chunk.v.  faults=false: io.EOF tails only (C09); true: fault tails (C16).
func components(r *vh.Rng, o *vh.Opts, sum *vh.Summary, cw *vh.CaseWriter) {
	n := o.Count(300, 6000)
	for i := 0; i < n; i++ {
		iox.Component(r, sum, cw, false)
	}
}
