// c09: metamorphic oracle + model correspondence for property C09 (results do not depend on how
// the input reader delivers its bytes).
package main

import (
	"encoding/hex"
	"encoding/json"
	"fmt"
	"os"
	"path/filepath"
	"regexp"
	"sort"

	"verifharness/cmd/c09/iox"
	"verifharness/vh"
)

type caseDesc struct {
	Variant  string        `json:"variant"`
	Schema   string        `json:"schema"`
	InputHex string        `json:"input_hex"`
	A        iox.Schedule  `json:"schedule_a"`
	B        *iox.Schedule `json:"schedule_b,omitempty"`
}

type env struct {
	noMask   bool // corpus replay of F30: compare the unmasked texts
	hung     bool // a run did not return: stop generating, report what we have
	o        *vh.Opts
	sum      *vh.Summary
	variants []iox.Variant
	schemas  map[string]*vh.LoggedSchema
}

func (e *env) schemaOf(v iox.Variant) *vh.LoggedSchema {
	if ls, ok := e.schemas[v.Name]; ok {
		return ls
	}
	ls, err := vh.NewLoggedSchema("fx-"+v.Name, []byte(v.Schema), nil)
	if err != nil {
		e.sum.Fail("fixture schema for "+v.Name+" rejected by NewSchema", map[string]string{"variant": v.Name}, err.Error())
		ls = nil
	}
	e.schemas[v.Name] = ls
	return ls
}

var jsonLineRe = regexp.MustCompile(`before/near line \d+`)

// maskOf: guard json_line_masked (known finding F30): the JSON reader's "before/near line N" counts
// the lines the json decoder has read AHEAD, which depends on the delivery schedule; exactly that
// number is masked for JSON in the main stream.  Nothing else is masked, for any format.
func (e *env) maskOf(v iox.Variant) func(string) string {
	if e.noMask || v.FmtIdx != 5 {
		return nil
	}
	return func(t string) string { return jsonLineRe.ReplaceAllString(t, "before/near line N") }
}

// minPerRun: variant -> minimum number of inputs per run (quick and thorough).
var minPerRun = map[string]int{
	"edi+release":                 10, // release character + escaped delimiters, cuts between them
	"edi+multibyte-delim":         4,
	"edi+lf-delim-crlf-input":     3,
	"edi+nested-no-trailer":       3,
	"csv2+replacequotes":          10, // quote replacing reader, quotes in the last line, EOF with the last chunk
	"csv+replacequotes":           5,
	"csv+crlf-multiline":          5,
	"csv+crlf-multiline-skiprows": 4,
	"csv2+crlf-multiline":         4,
	"csv+latin1":                  5, // aligned tails
	"fixed-length+latin1":         5,
	"csv2+cp1252":                 3,
	"fixed-length+strings":        6, // special short lines
	"fixed-length+strings+crlf":   4,
	"fixedlength2+rows2":          3,
	"fixedlength2+rows3":          5,
	"fixedlength2+rows5":          3,
	"fixedlength2+headerfooter":   4,
	"fixed-length+headerfooter":   3,
	"xml+encdecl-iso-8859-1":      6,
	"xml+encdecl-windows-1252":    6,
	"xml":                         5, // prologs, trailing data
	"json":                        6, // trailing data
	"csv+bom":                     3,
	"edi+bom":                     3,
	"json+bom":                    2,
}

func maxReads(in []byte) int { return len(in)/2 + 12 }

func show(steps []iox.Step, around int) []iox.Step {
	lo, hi := around-2, around+3
	if lo < 0 {
		lo = 0
	}
	if hi > len(steps) {
		hi = len(steps)
	}
	return steps[lo:hi]
}

// checkInput runs one input under all schedules and compares every transcript with the one of
// the "whole" schedule.  Returns whether some schedule cuts inside a multi-byte unit.
func (e *env) checkInput(r *vh.Rng, v iox.Variant, in []byte, scheds []iox.Schedule, interior []int) (nontrivial bool, base []iox.Step) {
	ls := e.schemaOf(v)
	if ls == nil {
		return false, nil
	}
	inSet := map[int]bool{}
	for _, p := range interior {
		inSet[p] = true
	}
	vh.Current(e.o, caseDesc{v.Name, v.Schema, hex.EncodeToString(in), scheds[0], nil})
	base, _ = iox.Run(ls, v.FmtIdx, iox.NewChunkReader(in, scheds[0]), maxReads(in), 2)
	for _, s := range base {
		if s.Kind == "panic" || s.Kind == "hang" {
			e.sum.Fail("transform "+s.Kind+" ("+s.Txt+")", caseDesc{v.Name, v.Schema, hex.EncodeToString(in), scheds[0], nil}, nil)
			e.hung = e.hung || s.Kind == "hang"
			return false, base
		}
	}
	for _, sc := range scheds[1:] {
		for _, b := range sc.Boundaries(len(in)) {
			if inSet[b] {
				nontrivial = true
				e.sum.Hist("schedule-cuts-a-unit:" + sc.Name)
				break
			}
		}
		scc := sc
		vh.Current(e.o, caseDesc{v.Name, v.Schema, hex.EncodeToString(in), scheds[0], &scc})
		if e.hung {
			break
		}
		got, _ := iox.Run(ls, v.FmtIdx, iox.NewChunkReader(in, sc), maxReads(in), 2)
		if len(got) == 1 && got[0].Kind == "hang" {
			e.hung = true
		}
		if d := iox.FirstDiffT(base, got, e.maskOf(v)); d >= 0 {
			sc := sc
			e.sum.Fail(fmt.Sprintf("transcripts differ between schedules %q and %q of the same bytes (first difference at Read #%d)", scheds[0].Name, sc.Name, d+1),
				caseDesc{v.Name, v.Schema, hex.EncodeToString(in), scheds[0], &sc},
				map[string]interface{}{"first_diff_read": d + 1, "a": show(base, d), "b": show(got, d), "len_a": len(base), "len_b": len(got)})
			break
		}
	}
	return nontrivial, base
}

type corpusCase struct {
	Variant  string        `json:"variant"`
	InputHex string        `json:"input_hex"`
	A        *iox.Schedule `json:"schedule_a,omitempty"` // both given: exactly these two schedules
	B        *iox.Schedule `json:"schedule_b,omitempty"`
	Unmasked bool          `json:"unmasked,omitempty"` // compare the error texts without the json_line_masked guard
	Note     string        `json:"note"`
}

func (e *env) variant(name string) (iox.Variant, bool) {
	for _, v := range e.variants {
		if v.Name == name {
			return v, true
		}
	}
	return iox.Variant{}, false
}

func main() {
	o := vh.ParseOpts()
	r := vh.NewRng(o.Seed)
	sum := vh.NewSummary("C09", o,
		"inputs of the seven formats (x encodings, BOM, CRLF, release characters, quote replacing; well-formed and damaged) each run under 9 to 15 delivery schedules (whole, 1-byte, random, empty reads, EOF with data, cuts inside every multi-byte unit, first k lines in one chunk then byte-wise, cut right after the JSON/XML top-level value); multi-line fixedlength2 envelopes (rows 2/3/5, header/footer), JSON/XML with data after the top-level value; "+
			"non-trivial = at least one schedule puts a chunk boundary strictly inside a multi-byte unit (UTF-8 sequence, CR LF, BOM, multi-byte delimiter, release pair); distinct by (variant, input bytes)")
	e := &env{o: o, sum: sum, variants: iox.Variants(), schemas: map[string]*vh.LoggedSchema{}}
	cw := vh.NewCaseWriter(o, "C09", "Model.Chunk", "ccase", "check_case")
	cw.PerFile = 24

	// ---- replay of one recorded case ----
	if o.Replay != "" {
		var rp struct {
			Case caseDesc `json:"case"`
		}
		b, err := os.ReadFile(o.Replay)
		if err == nil {
			err = json.Unmarshal(b, &rp)
		}
		if err != nil {
			fmt.Println("cannot read replay:", err)
			os.Exit(2)
		}
		v, ok := e.variant(rp.Case.Variant)
		if !ok {
			fmt.Println("unknown variant", rp.Case.Variant)
			os.Exit(2)
		}
		in, _ := hex.DecodeString(rp.Case.InputHex)
		scheds := []iox.Schedule{rp.Case.A}
		if rp.Case.B != nil {
			scheds = append(scheds, *rp.Case.B)
		}
		for _, sc := range scheds {
			st, _ := iox.Run(e.schemaOf(v), v.FmtIdx, iox.NewChunkReader(in, sc), maxReads(in), 2)
			j, _ := json.Marshal(st)
			fmt.Printf("schedule %s: %s\n", sc.Name, j)
		}
		e.checkInput(r, v, in, scheds, nil)
		sum.Evaluations = 1
		sum.Write(o)
		return
	}

	// ---- corpus first ----
	if o.Corpus != "" {
		files, _ := filepath.Glob(filepath.Join(o.Corpus, "*.json"))
		sort.Strings(files)
		for _, f := range files {
			var cc corpusCase
			b, err := os.ReadFile(f)
			if err == nil {
				err = json.Unmarshal(b, &cc)
			}
			v, ok := e.variant(cc.Variant)
			if err != nil || !ok {
				sum.Fail("unreadable corpus case "+filepath.Base(f), nil, fmt.Sprint(err))
				continue
			}
			in, _ := hex.DecodeString(cc.InputHex)
			interior := iox.Interior(in, v.Tokens)
			scheds := iox.Schedules(r, in, interior)
			if cc.A != nil && cc.B != nil {
				scheds = []iox.Schedule{*cc.A, *cc.B}
			}
			e.noMask = cc.Unmasked
			nt, _ := e.checkInput(r, v, in, scheds, interior)
			e.noMask = false
			sum.Count("corpus:"+cc.Variant+":"+cc.InputHex, nt)
			sum.Hist("corpus")
		}
	}

	// ---- generated inputs x schedules ----
	total := o.Count(800, 12000)
	// every "directed" class gets a guaranteed minimum number of inputs per run, so that adding
	// variants can not dilute it (the rest of the run picks variants at random)
	var must []iox.Variant
	for _, v := range e.variants {
		for k := minPerRun[v.Name]; k > 0; k-- {
			must = append(must, v)
		}
	}
	for c := 0; c < total && !e.hung; c++ {
		v := e.variants[r.Pick(len(e.variants))]
		if c < len(must) {
			v = must[c]
		}
		for v.Fixed && len(v.Gen(r, 0)) > 8000 { // the 29 KB EDI sample is too heavy for 17 schedules in the quick tier
			v = e.variants[r.Pick(len(e.variants))]
		}
		gi := iox.GenInput2(r, v)
		in, kind := gi.In, gi.Kind
		interior := iox.Interior(in, v.Tokens)
		scheds := iox.Schedules2(r, in, interior, gi.Cuts)
		nt, base := e.checkInput(r, v, in, scheds, interior)
		if gi.TrailingNonWS && len(base) > 0 {
			// a complete JSON document followed by non-whitespace: must end in a fatal error
			// under every schedule (they are all equal to base here, or already reported)
			if k := base[len(base)-1].Kind; k == "eof" {
				e.sum.Fail("non-whitespace data after the top-level JSON value, yet the transform ended with a clean io.EOF",
					caseDesc{v.Name, v.Schema, hex.EncodeToString(in), scheds[0], nil}, map[string]interface{}{"transcript": show(base, len(base)-1)})
			} else {
				sum.Hist("trailing-data-ends:" + k)
			}
		}
		sum.Count(v.Name+":"+hex.EncodeToString(in), nt)
		sum.Hist("variant:" + v.Name)
		sum.Hist("input:" + kind)
		if len(base) > 0 {
			sum.Hist("last-result:" + base[len(base)-1].Kind)
		}
		sum.Hist(fmt.Sprintf("interior-positions:%s", bucket(len(interior))))
		if len(in) < 200 && len(interior) > 0 {
			sum.Sample(map[string]interface{}{"variant": v.Name, "input_hex": hex.EncodeToString(in), "schedules": scheds, "transcript": base})
		}
	}

	// ---- component level: real go-corelib / bufio layers vs the Gallina model ----
	components(r, o, sum, cw)

	cw.Flush()
	sum.CaseFiles = cw.Files
	sum.Write(o)
}

func bucket(n int) string {
	switch {
	case n == 0:
		return "0"
	case n < 5:
		return "1-4"
	case n < 50:
		return "5-49"
	default:
		return "50+"
	}
}
