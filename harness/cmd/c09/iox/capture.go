package iox

import (
	"bytes"
	"io"

	"github.com/jf-tech/omniparser"
	"github.com/jf-tech/omniparser/customfuncs"
	"github.com/jf-tech/omniparser/extensions/omniv21"
	v21 "github.com/jf-tech/omniparser/extensions/omniv21/customfuncs"
	"github.com/jf-tech/omniparser/extensions/omniv21/fileformat"
	"github.com/jf-tech/omniparser/extensions/omniv21/fileformat/csv"
	"github.com/jf-tech/omniparser/extensions/omniv21/fileformat/edi"
	"github.com/jf-tech/omniparser/extensions/omniv21/fileformat/fixedlength"
	csv2 "github.com/jf-tech/omniparser/extensions/omniv21/fileformat/flatfile/csv"
	fixedlength2 "github.com/jf-tech/omniparser/extensions/omniv21/fileformat/flatfile/fixedlength"
	fjson "github.com/jf-tech/omniparser/extensions/omniv21/fileformat/json"
	fxml "github.com/jf-tech/omniparser/extensions/omniv21/fileformat/xml"
	"github.com/jf-tech/omniparser/extensions/omniv21/transform"
	"github.com/jf-tech/omniparser/idr"
	"github.com/jf-tech/omniparser/schemahandler"
	"github.com/jf-tech/omniparser/transformctx"

	"verifharness/vh"
)

// Maker is what Run needs: vh.LoggedSchema and CapSchema both provide it.
type Maker interface {
	NewTransform(name string, input io.Reader) (omniparser.Transform, *vh.Log, error)
}

// CapSchema is a Schema (built-in omniv21 handler, public extension points only) that logs the
// FormatReader calls like vh.LoggedSchema and additionally keeps the FormatReader of the most
// recent Transform, so that C16 can call it directly after the Transform has become terminal.
type CapSchema struct {
	Schema omniparser.Schema
	cur    *vh.Log
	Last   fileformat.FormatReader
}

type capFormat struct {
	inner fileformat.FileFormat
	idx   int
	cs    *CapSchema
}

func (f *capFormat) ValidateSchema(format string, content []byte, decl *transform.Decl) (interface{}, error) {
	return f.inner.ValidateSchema(format, content, decl)
}

func (f *capFormat) CreateFormatReader(name string, input io.Reader, rt interface{}) (fileformat.FormatReader, error) {
	r, err := f.inner.CreateFormatReader(name, input, rt)
	if err != nil {
		return nil, err
	}
	if f.cs.cur != nil {
		f.cs.cur.FmtIdx = f.idx
	}
	f.cs.Last = r
	return &capReader{inner: r, log: f.cs.cur}, nil
}

type capReader struct {
	inner fileformat.FormatReader
	log   *vh.Log
}

func (r *capReader) Read() (*idr.Node, error) {
	n, err := r.inner.Read()
	ev := vh.ReaderEvent{Node: n, Err: err}
	if err != nil {
		ev.Cont = r.inner.IsContinuableError(err)
	}
	if r.log != nil {
		r.log.Reader = append(r.log.Reader, ev)
	}
	return n, err
}
func (r *capReader) Release(n *idr.Node)               { r.inner.Release(n) }
func (r *capReader) IsContinuableError(err error) bool { return r.inner.IsContinuableError(err) }
func (r *capReader) FmtErr(format string, args ...interface{}) error {
	return r.inner.FmtErr(format, args...)
}

func NewCapSchema(name string, schema []byte) (*CapSchema, error) {
	cs := &CapSchema{}
	ext := omniparser.Extension{
		CreateSchemaHandler: func(ctx *schemahandler.CreateCtx) (schemahandler.SchemaHandler, error) {
			inner := []fileformat.FileFormat{
				csv.NewCSVFileFormat(ctx.Name),
				csv2.NewCSVFileFormat(ctx.Name),
				edi.NewEDIFileFormat(ctx.Name),
				fixedlength.NewFixedLengthFileFormat(ctx.Name),
				fixedlength2.NewFixedLengthFileFormat(ctx.Name),
				fjson.NewJSONFileFormat(ctx.Name),
				fxml.NewXMLFileFormat(ctx.Name),
			}
			var wrapped []fileformat.FileFormat
			for i, f := range inner {
				wrapped = append(wrapped, &capFormat{inner: f, idx: i, cs: cs})
			}
			c2 := *ctx
			c2.CreateParams = &omniv21.CreateParams{CustomFileFormats: wrapped}
			return omniv21.CreateSchemaHandler(&c2)
		},
		CustomFuncs: customfuncs.Merge(customfuncs.CommonCustomFuncs, v21.OmniV21CustomFuncs),
	}
	s, err := omniparser.NewSchema(name, bytes.NewReader(schema), ext)
	if err != nil {
		return nil, err
	}
	cs.Schema = s
	return cs, nil
}

func (cs *CapSchema) NewTransform(name string, input io.Reader) (omniparser.Transform, *vh.Log, error) {
	l := &vh.Log{FmtIdx: -1}
	cs.cur = l
	cs.Last = nil
	t, err := cs.Schema.NewTransform(name, input, &transformctx.Ctx{})
	cs.cur = nil
	return t, l, err
}
