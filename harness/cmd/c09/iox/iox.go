// Package iox is shared by cmd/c09 and cmd/c16: delivery schedules and fault injection for
// io.Reader, fixture variants (encodings, BOM, CRLF, release characters, quote replacing) on top
// of vh.Fixtures, and the projected Read/RawRecord transcript of a Transform.
package iox

import (
	"bytes"

	"errors"
	"fmt"
	"golang.org/x/text/encoding/charmap"
	"io"
	"net"
	"os"
	"path/filepath"
	"sort"
	"strings"
	"time"
	"unicode/utf8"

	"github.com/jf-tech/omniparser/errs"

	"verifharness/vh"
)

// ---- delivery schedules --------------------------------------------------------------------

// Schedule says how a byte string is handed out by Read: Sizes[i] is what the i-th chunk offers
// (0 = an empty read returning (0, nil)); bytes left over after the last size come as one final
// chunk.  EOFWithLast makes the chunk that exhausts the data return io.EOF together with it.
type Schedule struct {
	Name        string `json:"name"`
	Sizes       []int  `json:"sizes"`
	EOFWithLast bool   `json:"eof_with_last"`
}

// ChunkReader delivers data according to a schedule.  A chunk larger than len(p) is delivered
// in pieces (a Read may return fewer bytes than the source has).
type ChunkReader struct {
	data  []byte
	sizes []int
	cur   int // bytes left of the current chunk
	have  bool
	eofL  bool
	Reads int
	// Delivered is the list of chunks actually returned (after clipping to len(p)).
	Delivered [][]byte
	Record    bool
}

func NewChunkReader(data []byte, s Schedule) *ChunkReader {
	return &ChunkReader{data: data, sizes: append([]int(nil), s.Sizes...), eofL: s.EOFWithLast}
}

func (c *ChunkReader) Read(p []byte) (int, error) {
	c.Reads++
	if len(c.data) == 0 {
		return 0, io.EOF
	}
	if !c.have {
		if len(c.sizes) > 0 {
			c.cur, c.sizes = c.sizes[0], c.sizes[1:]
		} else {
			c.cur = len(c.data)
		}
		if c.cur > len(c.data) {
			c.cur = len(c.data)
		}
		c.have = true
	}
	n := c.cur
	if n > len(p) {
		n = len(p)
	}
	copy(p, c.data[:n])
	if c.Record {
		c.Delivered = append(c.Delivered, append([]byte(nil), c.data[:n]...))
	}
	c.data = c.data[n:]
	c.cur -= n
	if c.cur == 0 {
		c.have = false
	}
	if len(c.data) == 0 && c.eofL {
		return n, io.EOF
	}
	return n, nil
}

// Cuts turns cut positions (strictly increasing, inside (0,len)) into a schedule.
func Cuts(name string, n int, cuts []int, eofWithLast bool) Schedule {
	s := Schedule{Name: name, EOFWithLast: eofWithLast}
	prev := 0
	for _, c := range cuts {
		if c <= prev || c >= n {
			continue
		}
		s.Sizes = append(s.Sizes, c-prev)
		prev = c
	}
	if n > prev {
		s.Sizes = append(s.Sizes, n-prev)
	}
	return s
}

// Boundaries returns the chunk boundary positions (in (0,len)) of a schedule over n bytes, as
// the source offers them.
func (s Schedule) Boundaries(n int) []int {
	var out []int
	pos := 0
	for _, k := range s.Sizes {
		if k == 0 {
			continue
		}
		pos += k
		if pos >= n {
			break
		}
		out = append(out, pos)
	}
	return out
}

// Interior returns the positions strictly inside a multi-byte unit of in: UTF-8 sequences of
// more than one byte, CR LF pairs, a leading BOM, and every occurrence of one of the extra
// multi-byte tokens (delimiters, release character + following byte).
func Interior(in []byte, tokens [][]byte) []int {
	mark := map[int]bool{}
	for i := 0; i < len(in); {
		r, sz := utf8.DecodeRune(in[i:])
		if r != utf8.RuneError && sz > 1 {
			for k := 1; k < sz; k++ {
				mark[i+k] = true
			}
		}
		if sz < 1 {
			sz = 1
		}
		i += sz
	}
	for i := 0; i+1 < len(in); i++ {
		if in[i] == '\r' && in[i+1] == '\n' {
			mark[i+1] = true
		}
	}
	if bytes.HasPrefix(in, []byte("\xef\xbb\xbf")) {
		mark[1], mark[2] = true, true
	}
	for _, t := range tokens {
		if len(t) < 2 {
			continue
		}
		for i := 0; i+len(t) <= len(in); i++ {
			if bytes.Equal(in[i:i+len(t)], t) {
				for k := 1; k < len(t); k++ {
					mark[i+k] = true
				}
			}
		}
	}
	var out []int
	for i := 1; i < len(in); i++ {
		if mark[i] {
			out = append(out, i)
		}
	}
	return out
}

// Schedules builds the schedule family of C09 for one input.
func Schedules(r *vh.Rng, in []byte, interior []int) []Schedule {
	return Schedules2(r, in, interior, nil)
}

// lineEnds returns the positions just after each '\n' (or '~' if there is no '\n').
func lineEnds(in []byte) []int {
	var out []int
	for i, c := range in {
		if c == '\n' && i+1 < len(in) {
			out = append(out, i+1)
		}
	}
	return out
}

// Schedules2 additionally takes cut positions of special interest (delivered as: everything up
// to the cut in one chunk, the rest in a later chunk / byte-wise).
func Schedules2(r *vh.Rng, in []byte, interior []int, cuts []int) []Schedule {
	out := schedules0(r, in, interior)
	n := len(in)
	// "the first k lines in one chunk, then byte-wise" (k small, and k anywhere in a long input):
	// buffered look-ahead lines followed by a refill inside a later line
	le := lineEnds(in)
	if len(le) > 0 {
		ks := []int{r.Pick(minI(len(le), 6)), r.Pick(minI(len(le), 6)), r.Pick(len(le)), r.Pick(len(le))}
		for j, k := range ks {
			p := le[k]
			s := Schedule{Name: "lines-then-bytes", Sizes: []int{p}, EOFWithLast: r.Chance(0.2)}
			if j%2 == 1 && p+2 < n {
				// ... or a few bytes into the following line
				s.Sizes[0] = p + 1 + r.Pick(minI(n-p-1, 12))
			}
			for b := 0; b < 400 && s.Sizes[0]+b < n; b++ {
				s.Sizes = append(s.Sizes, 1)
			}
			out = append(out, s)
		}
	}
	// a short first chunk, then empty reads, then the rest: empty reads in the middle of a prolog,
	// a header, a BOM ... (not only leading ones)
	for j := 0; j < 3 && n > 1; j++ {
		first := 1 + r.Pick(minI(n-1, pickInt(r, 3, 12, 40)))
		s := Schedule{Name: "prefix-empty-rest", Sizes: []int{first}}
		for e := r.Between(1, 3); e > 0; e-- {
			s.Sizes = append(s.Sizes, 0)
		}
		if r.Chance(0.5) && n-first > 2 {
			s.Sizes = append(s.Sizes, 1+r.Pick(minI(n-first-1, 20)), 0)
		}
		out = append(out, s)
	}
	// the last chunk(s) start at a line boundary and the final one carries io.EOF
	if len(le) > 0 {
		for _, p := range []int{le[len(le)-1], le[r.Pick(len(le))]} {
			s := Schedule{Name: "line-boundary-then-rest+eof", EOFWithLast: true}
			for left, pos := p, 0; left > 0; {
				k := 1 + r.Pick(pickInt(r, 50, 5000))
				if k > left {
					k = left
				}
				s.Sizes = append(s.Sizes, k)
				left -= k
				pos += k
			}
			out = append(out, s)
		}
	}
	for _, c := range cuts {
		if c <= 0 || c >= n {
			continue
		}
		out = append(out, Schedule{Name: "cut-after-top-level", Sizes: []int{c}})
		s := Schedule{Name: "cut-after-top-level+empties", Sizes: []int{c, 0, 0}, EOFWithLast: true}
		for b := c; b < n && b < c+50; b++ {
			s.Sizes = append(s.Sizes, 1)
		}
		out = append(out, s)
	}
	return out
}

func minI(a, b int) int {
	if a < b {
		return a
	}
	return b
}

func schedules0(r *vh.Rng, in []byte, interior []int) []Schedule {
	n := len(in)
	out := []Schedule{{Name: "whole"}}
	one := Schedule{Name: "1-byte"}
	for i := 0; i < n; i++ {
		one.Sizes = append(one.Sizes, 1)
	}
	out = append(out, one)
	rnd := Schedule{Name: "random"}
	for left := n; left > 0; {
		k := 1 + r.Pick(pickInt(r, 3, 17, 200, 5000))
		if k > left {
			k = left
		}
		rnd.Sizes = append(rnd.Sizes, k)
		left -= k
	}
	out = append(out, rnd)
	emp := Schedule{Name: "empty-reads", EOFWithLast: r.Chance(0.3)}
	for left := n; left > 0; {
		for e := r.Pick(4); e > 0; e-- {
			emp.Sizes = append(emp.Sizes, 0)
		}
		k := 1 + r.Pick(pickInt(r, 2, 9, 300))
		if k > left {
			k = left
		}
		emp.Sizes = append(emp.Sizes, k)
		left -= k
	}
	for e := r.Pick(4); e > 0; e-- {
		emp.Sizes = append(emp.Sizes, 0)
	}
	out = append(out, emp)
	out = append(out, Schedule{Name: "whole+eof", EOFWithLast: true})
	var cuts []int
	for left, pos := n, 0; left > 0; {
		k := 1 + r.Pick(pickInt(r, 4, 40, 4096))
		if k > left {
			k = left
		}
		pos += k
		left -= k
		cuts = append(cuts, pos)
	}
	out = append(out, Cuts("random+eof", n, cuts, true))
	out = append(out, Cuts("units", n, interior, r.Chance(0.5)))
	// every interior position plus a few random ones, with empty reads right at the unit cuts
	mix := Schedule{Name: "units+empties", EOFWithLast: r.Chance(0.5)}
	prev := 0
	for _, c := range interior {
		if r.Chance(0.2) && c-prev > 1 {
			m := prev + 1 + r.Pick(c-prev-1)
			mix.Sizes = append(mix.Sizes, m-prev)
			prev = m
		}
		mix.Sizes = append(mix.Sizes, c-prev)
		for e := r.Pick(3); e > 0; e-- {
			mix.Sizes = append(mix.Sizes, 0)
		}
		prev = c
	}
	out = append(out, mix)
	return out
}

func pickInt(r *vh.Rng, xs ...int) int { return xs[r.Pick(len(xs))] }

// ---- faults ----------------------------------------------------------------------------------

// FaultErr is a pointer-typed error (identity observable).
type FaultErr struct{ S string }

func (e *FaultErr) Error() string { return e.S }

// ValErr is a struct-typed (non-pointer) error value.
type ValErr struct {
	Op   string
	Code int
}

func (e ValErr) Error() string { return fmt.Sprintf("%s: code %d", e.Op, e.Code) }

// FaultKinds are the error VALUES a failing input reader is made to return: none of them is
// io.EOF, though several look like it to an errors.Is / text based test.
var FaultKinds = []string{"plain", "unexpected-eof", "wraps-eof", "path-error", "struct-value", "text-EOF", "wraps-unexpected-eof",
	"temporary", "timeout", "temporary+timeout", "deadline-exceeded", "wraps-temporary", "net-op-error", "wraps-net-op-error"}

// NetLikeErr looks like a net.Error: it claims to be temporary and/or a timeout.  A failing input
// reader that keeps returning it has failed all the same.
type NetLikeErr struct {
	S       string
	Temp    bool
	TimeOut bool
}

func (e *NetLikeErr) Error() string   { return e.S }
func (e *NetLikeErr) Temporary() bool { return e.Temp }
func (e *NetLikeErr) Timeout() bool   { return e.TimeOut }

// MakeFault builds a fresh error value of the given kind.
func MakeFault(kind string, n int) error {
	switch kind {
	case "unexpected-eof":
		return io.ErrUnexpectedEOF
	case "wraps-eof":
		return fmt.Errorf("read %d: %w", n, io.EOF)
	case "wraps-unexpected-eof":
		return fmt.Errorf("read %d: %w", n, io.ErrUnexpectedEOF)
	case "path-error":
		return &os.PathError{Op: "read", Path: fmt.Sprintf("/dev/input%d", n), Err: io.EOF}
	case "struct-value":
		return ValErr{Op: "read", Code: 5 + n}
	case "text-EOF":
		return errors.New("EOF")
	case "temporary":
		return &NetLikeErr{S: fmt.Sprintf("temporary failure %d", n), Temp: true}
	case "timeout":
		return &NetLikeErr{S: fmt.Sprintf("i/o timeout %d", n), TimeOut: true}
	case "temporary+timeout":
		return &NetLikeErr{S: fmt.Sprintf("i/o timeout (temporary) %d", n), Temp: true, TimeOut: true}
	case "deadline-exceeded":
		return os.ErrDeadlineExceeded
	case "wraps-temporary":
		return fmt.Errorf("read %d: %w", n, &NetLikeErr{S: "resource temporarily unavailable", Temp: true, TimeOut: true})
	case "net-op-error":
		return &net.OpError{Op: "read", Net: "tcp", Err: &NetLikeErr{S: "i/o timeout", Temp: true, TimeOut: true}}
	case "wraps-net-op-error":
		return fmt.Errorf("input %d: %w", n, &net.OpError{Op: "read", Net: "tcp", Err: os.ErrDeadlineExceeded})
	default:
		return &FaultErr{fmt.Sprintf("disk on fire %d", n)}
	}
}

// FaultReader returns data up to position Pos (through the inner schedule reader) and then an
// error: persistently the same one, or one error once and then another one persistently.
type FaultReader struct {
	inner      io.Reader
	left       int
	Once       bool
	WithData   bool // the first error is returned together with the last bytes before the fault
	First      error
	Then       error
	FaultCalls int // how many times an error was returned
}

func NewFaultReader(inner io.Reader, pos int, once bool) *FaultReader {
	return NewFaultReaderK(inner, pos, once, "plain", "plain")
}

// NewFaultReaderK: kind1 is the error returned first (only used when once), kind2 the persistent one.
func NewFaultReaderK(inner io.Reader, pos int, once bool, kind1, kind2 string) *FaultReader {
	f := &FaultReader{inner: inner, left: pos, Once: once, Then: MakeFault(kind2, 2)}
	f.First = f.Then
	if once {
		f.First = MakeFault(kind1, 1)
	}
	return f
}

func (f *FaultReader) Read(p []byte) (int, error) {
	if f.left == 0 {
		f.FaultCalls++
		if f.FaultCalls == 1 {
			return 0, f.First
		}
		return 0, f.Then
	}
	if len(p) > f.left {
		p = p[:f.left]
	}
	n, err := f.inner.Read(p)
	f.left -= n
	if err != nil {
		// the inner reader ended before the fault position: pass its EOF through
		return n, err
	}
	if f.left == 0 && f.WithData && n > 0 {
		f.FaultCalls++
		return n, f.First
	}
	return n, nil
}

// ---- fixture variants ----------------------------------------------------------------------

// Variant is a vh.Fixture specialised by encoding / line ends / BOM / format options.
type Variant struct {
	Name   string
	FmtIdx int
	Schema string
	Gen    func(r *vh.Rng, n int) []byte
	Tokens [][]byte // multi-byte units of this format (delimiters, escape pairs)
	// MultiLine: records span several lines that alias the bufio buffer: more large inputs
	MultiLine bool
	// OwnProlog: the generator writes its own XML prolog and wants its inputs mostly undamaged
	OwnProlog bool
	// Hier: hierarchical declarations (children, multi-line envelopes before a target): C16 picks these more often
	Hier bool
	// Fixed: the input is a fixed sample; C16 uses it undamaged and with more fault positions
	Fixed bool
	// FaultGuard (C16 only): if set, the main stream uses un-damaged inputs of this variant and only
	// fault positions for which it returns true (known finding F27 lives outside the guard).
	FaultGuard func(in []byte, pos int) bool
}

// hfGuard is the guard of known finding F27 (old fixed-length reader, by_header_footer): the fault
// is between lines, or the torn line still matches what the whole line matched (the fault is not
// inside the first three bytes "BEG"/"HDR" of a line that starts an envelope).
func hfGuard(in []byte, pos int) bool { return markerGuard("BEG", "HDR")(in, pos) }

func markerGuard(markers ...string) func(in []byte, pos int) bool {
	return func(in []byte, pos int) bool {
		if pos >= len(in) {
			return true
		}
		start := bytes.LastIndexByte(in[:pos], '\n') + 1
		off := pos - start
		line := in[start:]
		for _, m := range markers {
			if bytes.HasPrefix(line, []byte(m)) && off > 0 && off < len(m) {
				return false
			}
		}
		return true
	}
}

// hfGen generates header/footer envelopes with three-byte markers: an optional HDR line, then
// BEG / L1..Lk / END groups.
func hfGen(r *vh.Rng, n int) []byte {
	var sb strings.Builder
	if r.Chance(0.6) {
		sb.WriteString("HDRhead\n")
	}
	for k := 0; k < n; k++ {
		fmt.Fprintf(&sb, "BEG%s %s\n", pad(word(r), 6), pad(word(r), 4))
		for l, m := 1, r.Between(1, 3); l <= m; l++ {
			fmt.Fprintf(&sb, "L%d%s%s\n", l, pad(numOrBad(r), 5), pad(word(r), r.Between(0, 12)))
		}
		fmt.Fprintf(&sb, "END%s\n", pad(word(r), 6))
	}
	return []byte(sb.String())
}

// local copies of the vh fixture word generators
func word(r *vh.Rng) string {
	ws := []string{"x", "abc", "héllo", "a b", "Q9", "zz top", "日本", "", "0", "w"}
	return ws[r.Pick(len(ws))]
}

func numOrBad(r *vh.Rng) string {
	if r.Chance(0.1) {
		return r.PickStr("x1", "", "1.5", "--", "9z")
	}
	return fmt.Sprint(r.Between(-50, 5000))
}

func pad(s string, n int) string {
	rs := []rune(s)
	if len(rs) > n {
		return string(rs[:n])
	}
	return s + strings.Repeat(" ", n-len(rs))
}

func withEncoding(schema, enc string) string {
	return strings.Replace(schema, `"version": "omni.2.1",`, `"version": "omni.2.1", "encoding": "`+enc+`",`, 1)
}

func crlf(b []byte) []byte { return bytes.ReplaceAll(b, []byte("\n"), []byte("\r\n")) }

var bom = []byte("\xef\xbb\xbf")

// Variants returns, for each of the seven vh fixtures, the plain variant and variants with
// iso-8859-1 / windows-1252 decoding, a BOM, CRLF line ends, plus format specific ones: csv and
// csv2 with replace_double_quotes, EDI with a release character, EDI with a multi-byte segment
// delimiter and no CR/LF stripping, EDI with LF as segment delimiter over CRLF input.
func Variants() []Variant {
	var out []Variant
	for i, f := range vh.Fixtures() {
		f := f
		i := i
		out = append(out, Variant{Name: f.Format, FmtIdx: i, Schema: f.Schema, Gen: f.Gen})
		out = append(out, Variant{Name: f.Format + "+latin1", FmtIdx: i, Schema: withEncoding(f.Schema, "iso-8859-1"), Gen: f.Gen})
		out = append(out, Variant{Name: f.Format + "+cp1252", FmtIdx: i, Schema: withEncoding(f.Schema, "windows-1252"), Gen: f.Gen})
		out = append(out, Variant{Name: f.Format + "+bom", FmtIdx: i, Schema: f.Schema,
			Gen: func(r *vh.Rng, n int) []byte { return append(append([]byte(nil), bom...), f.Gen(r, n)...) }})
		out = append(out, Variant{Name: f.Format + "+crlf", FmtIdx: i, Schema: f.Schema,
			Gen: func(r *vh.Rng, n int) []byte { return crlf(f.Gen(r, n)) }})
		switch f.Format {
		case "csv":
			// rows to skip before the header and/or between the header and the first data row
			junk := func(r *vh.Rng, k int) string {
				var sb strings.Builder
				for ; k > 0; k-- {
					sb.WriteString(r.PickStr("# exported by tool\n", "do not, edit, by hand\n", "x\n", "q\"uote,in,junk\n", ",,\n"))
				}
				return sb.String()
			}
			body := func(r *vh.Rng, n int) []byte { return bytes.TrimPrefix(f.Gen(r, n), []byte("a,b,c\n")) }
			out = append(out, Variant{Name: "csv+skiprows-after-header", FmtIdx: i,
				Schema: strings.Replace(f.Schema, `"data_row_index": 2,`, `"data_row_index": 4,`, 1),
				Gen:    func(r *vh.Rng, n int) []byte { return append([]byte("a,b,c\n"+junk(r, 2)), body(r, n)...) }})
			out = append(out, Variant{Name: "csv+skiprows-header2-data5", FmtIdx: i,
				Schema: strings.Replace(strings.Replace(f.Schema, `"data_row_index": 2,`, `"data_row_index": 5,`, 1), `"header_row_index": 1,`, `"header_row_index": 2,`, 1),
				Gen:    func(r *vh.Rng, n int) []byte { return append([]byte(junk(r, 1)+"a,b,c\n"+junk(r, 2)), body(r, n)...) }})
			for _, dri := range []int{2, 4} {
				dri := dri
				out = append(out, Variant{Name: fmt.Sprintf("csv+noheader-data%d", dri), FmtIdx: i,
					Schema: strings.Replace(strings.Replace(f.Schema, `"data_row_index": 2,`, fmt.Sprintf(`"data_row_index": %d,`, dri), 1), `"header_row_index": 1,`, ``, 1),
					Gen:    func(r *vh.Rng, n int) []byte { return append([]byte(junk(r, dri-1)), body(r, n)...) }})
			}
			// CRLF line ends with quoted multi-line fields (CR LF inside the quotes), with and without rows to skip
			ml := func(r *vh.Rng, n int) string {
				var sb strings.Builder
				for k := 0; k < n; k++ {
					q := word(r)
					if r.Chance(0.6) {
						q = r.PickStr("zz\r\ntop", "line1\r\nline2\r\nline3", "\r\n", "a\r\n", "\r\nb", "x\ry", "héllo\r\n日本")
					}
					fmt.Fprintf(&sb, "%s,%s,\"%s\"\r\n", strings.ReplaceAll(word(r), " ", "_"), numOrBad(r), q)
					if r.Chance(0.1) {
						sb.WriteString("\r\n")
					}
				}
				return sb.String()
			}
			out = append(out, Variant{Name: "csv+crlf-multiline", FmtIdx: i, Schema: f.Schema,
				Gen: func(r *vh.Rng, n int) []byte { return []byte("a,b,c\r\n" + ml(r, n)) }})
			out = append(out, Variant{Name: "csv+crlf-multiline-skiprows", FmtIdx: i,
				Schema: strings.Replace(strings.Replace(f.Schema, `"data_row_index": 2,`, `"data_row_index": 5,`, 1), `"header_row_index": 1,`, `"header_row_index": 2,`, 1),
				Gen: func(r *vh.Rng, n int) []byte {
					return []byte("# exported\r\na,b,c\r\nskip,1,\"x\"\r\nskip,2,\"y\"\r\n" + ml(r, n))
				}})
			out = append(out, Variant{Name: "csv+replacequotes", FmtIdx: i,
				Schema: strings.Replace(f.Schema, `"delimiter": ",",`, `"delimiter": ",", "replace_double_quotes": true,`, 1), Gen: f.Gen})
		case "csv2":
			hfc := `{"parser_settings": { "version": "omni.2.1", "file_format_type": "csv2" }, "file_declaration": { "delimiter": "|", "records": [
  { "name": "H", "header": "^HDR", "min": 0, "max": 1 },
  { "name": "R", "header": "^BEG", "footer": "^END", "is_target": true, "columns": [
  {"name":"a","index":2,"line_pattern":"^BEG"}, {"name":"b","index":2,"line_pattern":"^L1"}, {"name":"c","index":2,"line_pattern":"^END"} ] } ] }, ` +
				`"transform_declarations": { "FINAL_OUTPUT": { "object": { "a": { "xpath": "a" }, "b": { "xpath": "b", "type": "int" }, "c": { "xpath": "c", "keep_empty_or_null": true } } } }}`
			out = append(out, Variant{Name: "csv2+headerfooter", FmtIdx: i, Schema: hfc,
				Gen: func(r *vh.Rng, n int) []byte {
					var sb strings.Builder
					if r.Chance(0.6) {
						sb.WriteString("HDR|head\n")
					}
					for k := 0; k < n; k++ {
						fmt.Fprintf(&sb, "BEG|%s\n", word(r))
						for l, m := 1, r.Between(1, 3); l <= m; l++ {
							fmt.Fprintf(&sb, "L%d|%s|%s\n", l, numOrBad(r), word(r))
						}
						fmt.Fprintf(&sb, "END|%s\n", word(r))
					}
					return []byte(sb.String())
				}})
			out = append(out, Variant{Name: "csv2+crlf-multiline", FmtIdx: i, Schema: f.Schema,
				Gen: func(r *vh.Rng, n int) []byte {
					var sb strings.Builder
					if r.Chance(0.7) {
						sb.WriteString("H|head\r\n")
					}
					for k := 0; k < n; k++ {
						q := word(r)
						if r.Chance(0.6) {
							q = "\"" + r.PickStr("zz\r\ntop", "l1\r\nl2\r\nl3", "\r\n", "a\r\n", "x\ry") + "\""
						}
						fmt.Fprintf(&sb, "R|%s|%s|%s\r\n", word(r), numOrBad(r), q)
					}
					return []byte(sb.String())
				}})
			out = append(out, Variant{Name: "csv2+replacequotes", FmtIdx: i,
				Schema: strings.Replace(f.Schema, `"delimiter": "|",`, `"delimiter": "|", "replace_double_quotes": true,`, 1),
				Gen: func(r *vh.Rng, n int) []byte {
					b := f.Gen(r, n)
					// sprinkle quotes
					for k := 0; k < len(b); k++ {
						if b[k] == ' ' && r.Chance(0.5) {
							b[k] = '"'
						}
					}
					// ... and always some in the last line
					b = append(b, fmt.Sprintf("R|q\"%s|%d|say \"%s\"", word(r), r.Between(1, 99), word(r))...)
					if r.Chance(0.6) {
						b = append(b, '\n')
					}
					return b
				}})
		case "fixed-length":
			// old fixed-length reader with by_header_footer envelopes
			hfo := `{"parser_settings": { "version": "omni.2.1", "file_format_type": "fixed-length" }, "file_declaration": { "envelopes": [
  { "name": "H", "by_header_footer": { "header": "^HDR", "footer": "^HDR" }, "not_target": true },
  { "name": "R", "by_header_footer": { "header": "^BEG", "footer": "^END" }, "columns": [
  {"name":"a","start_pos":4,"length":6,"line_pattern":"^BEG"}, {"name":"b","start_pos":3,"length":5,"line_pattern":"^L1"}, {"name":"c","start_pos":4,"length":6,"line_pattern":"^END"} ] } ] }, ` +
				`"transform_declarations": { "FINAL_OUTPUT": { "object": { "a": { "xpath": "a" }, "b": { "xpath": "b", "type": "int" }, "c": { "xpath": "c", "keep_empty_or_null": true } } } }}`
			// all columns strings: short / odd lines give visible records instead of a failed int conversion
			strs := `{"parser_settings": { "version": "omni.2.1", "file_format_type": "fixed-length" }, "file_declaration": { "envelopes": [ { "columns": [
  {"name":"a","start_pos":1,"length":6}, {"name":"b","start_pos":7,"length":5}, {"name":"c","start_pos":12,"length":6} ] } ] }, ` +
				`"transform_declarations": { "FINAL_OUTPUT": { "object": { "a": { "xpath": "a", "keep_empty_or_null": true, "no_trim": true }, "b": { "xpath": "b", "keep_empty_or_null": true }, "c": { "xpath": "c", "keep_empty_or_null": true } } } }}`
			out = append(out, Variant{Name: "fixed-length+strings", FmtIdx: i, Schema: strs, Gen: f.Gen})
			out = append(out, Variant{Name: "fixed-length+strings+crlf", FmtIdx: i, Schema: strs,
				Gen: func(r *vh.Rng, n int) []byte { return crlf(f.Gen(r, n)) }})
			out = append(out, Variant{Name: "fixed-length+headerfooter", FmtIdx: i, Schema: hfo, MultiLine: true, Gen: hfGen, FaultGuard: hfGuard})
		case "fixedlength2":
			// the same envelopes through the flatfile hierarchy reader (buffers lines; an unmatched line is "unexpected data")
			hf3 := `{"parser_settings": { "version": "omni.2.1", "file_format_type": "fixedlength2" }, "file_declaration": { "envelopes": [
  { "name": "H", "header": "^HDR", "min": 0, "max": 1 },
  { "name": "R", "header": "^BEG", "footer": "^END", "is_target": true, "columns": [
  {"name":"a","start_pos":4,"length":6,"line_pattern":"^BEG"}, {"name":"b","start_pos":3,"length":5,"line_pattern":"^L1"}, {"name":"c","start_pos":4,"length":6,"line_pattern":"^END"} ] } ] }, ` +
				`"transform_declarations": { "FINAL_OUTPUT": { "object": { "a": { "xpath": "a" }, "b": { "xpath": "b", "type": "int" }, "c": { "xpath": "c", "keep_empty_or_null": true } } } }}`
			out = append(out, Variant{Name: "fixedlength2+headerfooter3", FmtIdx: i, Schema: hf3, MultiLine: true, Gen: hfGen})
			// two-row envelopes: the first line of an envelope stays in linesBuf (aliasing the
			// bufio buffer unless copied) while the second one is read
			rows2 := `{"parser_settings": { "version": "omni.2.1", "file_format_type": "fixedlength2" }, "file_declaration": { "envelopes": [
  { "name": "R", "rows": 2, "is_target": true, "columns": [
  {"name":"a","start_pos":2,"length":6,"line_index":1}, {"name":"b","start_pos":8,"length":5,"line_index":1}, {"name":"c","start_pos":2,"length":6,"line_index":2} ] } ] }, ` +
				`"transform_declarations": { "FINAL_OUTPUT": { "object": { "a": { "xpath": "a" }, "b": { "xpath": "b", "type": "int" }, "c": { "xpath": "c", "keep_empty_or_null": true } } } }}`
			out = append(out, Variant{Name: "fixedlength2+rows2", FmtIdx: i, Schema: rows2, Gen: f.Gen})
			fo := `"transform_declarations": { "FINAL_OUTPUT": { "object": { "a": { "xpath": "a" }, "b": { "xpath": "b", "type": "int" }, "c": { "xpath": "c", "keep_empty_or_null": true }, "d": { "xpath": "d" } } } }}`
			for _, rows := range []int{3, 5} {
				rows := rows
				sch := fmt.Sprintf(`{"parser_settings": { "version": "omni.2.1", "file_format_type": "fixedlength2" }, "file_declaration": { "envelopes": [
  { "name": "R", "rows": %d, "is_target": true, "columns": [
  {"name":"a","start_pos":2,"length":6,"line_index":1}, {"name":"b","start_pos":8,"length":5,"line_index":2}, {"name":"c","start_pos":2,"length":6,"line_index":%d},
  {"name":"d","start_pos":13,"length":6,"line_index":1} ] } ] }, `, rows, rows) + fo
				out = append(out, Variant{Name: fmt.Sprintf("fixedlength2+rows%d", rows), FmtIdx: i, Schema: sch, MultiLine: true,
					Gen: func(r *vh.Rng, n int) []byte { return f.Gen(r, n*rows) }})
			}
			// header/footer envelopes with 1..4 body lines; columns come from the first, a middle and the last line
			hf := `{"parser_settings": { "version": "omni.2.1", "file_format_type": "fixedlength2" }, "file_declaration": { "envelopes": [
  { "name": "R", "header": "^B", "footer": "^E", "is_target": true, "columns": [
  {"name":"a","start_pos":2,"length":6,"line_pattern":"^B"}, {"name":"b","start_pos":3,"length":5,"line_pattern":"^L1"}, {"name":"c","start_pos":2,"length":6,"line_pattern":"^E"},
  {"name":"d","start_pos":9,"length":4,"line_pattern":"^B"} ] } ] }, ` + fo
			out = append(out, Variant{Name: "fixedlength2+headerfooter", FmtIdx: i, Schema: hf, MultiLine: true,
				Gen: func(r *vh.Rng, n int) []byte {
					var sb strings.Builder
					for k := 0; k < n; k++ {
						fmt.Fprintf(&sb, "B%s %s\n", pad(word(r), 6), pad(word(r), 4))
						for l, m := 1, r.Between(1, 4); l <= m; l++ {
							fmt.Fprintf(&sb, "L%d%s%s\n", l, pad(numOrBad(r), 5), pad(word(r), r.Between(0, 30)))
						}
						fmt.Fprintf(&sb, "E%s\n", pad(word(r), 6))
					}
					return []byte(sb.String())
				}})
		case "edi":
			rel := strings.Replace(f.Schema, `"ignore_crlf": true,`, `"ignore_crlf": true, "release_character": "?",`, 1)
			out = append(out, Variant{Name: "edi+release", FmtIdx: i, Schema: rel,
				Tokens: [][]byte{[]byte("?~"), []byte("?*"), []byte("??")},
				Gen: func(r *vh.Rng, n int) []byte {
					b := f.Gen(r, n)
					var o []byte
					for _, c := range b {
						if (c == ' ' || c == 'a' || c == 'z') && r.Chance(0.5) {
							o = append(o, []byte(r.PickStr("?~", "?*", "??", "???~", "?"))...)
							continue
						}
						o = append(o, c)
					}
					return o
				}})
			multi := strings.Replace(strings.Replace(f.Schema, `"ignore_crlf": true,`, ``, 1), `"segment_delimiter": "~"`, `"segment_delimiter": "¦\n"`, 1)
			out = append(out, Variant{Name: "edi+multibyte-delim", FmtIdx: i, Schema: multi,
				Tokens: [][]byte{[]byte("¦\n")},
				Gen: func(r *vh.Rng, n int) []byte {
					b := bytes.ReplaceAll(f.Gen(r, n), []byte("\n"), nil)
					return bytes.ReplaceAll(b, []byte("~"), []byte("¦\n"))
				}})
			lf := strings.Replace(strings.Replace(f.Schema, `"ignore_crlf": true,`, ``, 1), `"segment_delimiter": "~"`, `"segment_delimiter": "\n"`, 1)
			out = append(out, Variant{Name: "edi+lf-delim-crlf-input", FmtIdx: i, Schema: lf,
				Gen: func(r *vh.Rng, n int) []byte {
					b := bytes.ReplaceAll(f.Gen(r, n), []byte("\n"), nil)
					return bytes.ReplaceAll(b, []byte("~"), []byte("\r\n"))
				}})
		}
	}
	// XML documents that DECLARE a single-byte encoding (encoding/xml then switches to a charset
	// reader in the middle of the stream), several lines long, with records that fail to transform
	// (error texts carry "near line N") and sometimes a malformed tail
	for _, f := range vh.Fixtures() {
		if f.Format != "xml" {
			continue
		}
		for _, enc := range []string{"ISO-8859-1", "windows-1252"} {
			enc := enc
			out = append(out, Variant{Name: "xml+encdecl-" + strings.ToLower(enc), FmtIdx: 6, Schema: f.Schema, OwnProlog: true,
				Gen: func(r *vh.Rng, n int) []byte {
					var sb strings.Builder
					fmt.Fprintf(&sb, "<?xml version=\"1.0\" encoding=\"%s\"?>\n<r>\n", enc)
					bad := r.Pick(n + 1)
					for i := 0; i <= n; i++ {
						b := fmt.Sprint(r.Between(1, 999))
						if i == bad || r.Chance(0.2) {
							b = r.PickStr("x1", "1.5", "--", "")
						}
						fmt.Fprintf(&sb, "<n><a>%s</a>\n  <b>%s</b><c>caf\xe9 %s</c></n>\n", r.PickStr("x", "abc", "Q9"), b, r.PickStr("w", "zz", ""))
						if r.Chance(0.3) {
							sb.WriteString("\n\n")
						}
					}
					switch r.Pick(4) {
					case 0:
						sb.WriteString("<n><a>t</a><b>7</b>\n") // malformed tail: unclosed
					case 1:
						sb.WriteString("</r>\n<oops")
					default:
						sb.WriteString("</r>\n")
					}
					return []byte(sb.String())
				}})
		}
	}
	out = append(out, hierarchicalVariants()...)
	out = append(out, sampleVariants()...)
	return out
}

const foABC = `"transform_declarations": { "FINAL_OUTPUT": { "object": { "a": { "xpath": "a" }, "b": { "xpath": "b", "type": "int" }, "c": { "xpath": "c", "keep_empty_or_null": true }, "n": { "custom_func": { "name": "concat", "args": [ { "xpath": "K[1]/k", "keep_empty_or_null": true }, { "const": "/" }, { "xpath": "K[last()]/k", "keep_empty_or_null": true } ] } } } } }}`

// hierarchicalVariants: targets with optional / repeating children and NO mandatory trailer (an
// instance is only known complete when the next record shows up, and the end of the input is
// the only thing that closes the last one), and multi-line envelopes followed by a single-line
// target -- for EDI, csv2 and fixedlength2.
func hierarchicalVariants() []Variant {
	var out []Variant
	edi := `{"parser_settings": { "version": "omni.2.1", "file_format_type": "edi" }, "file_declaration": { "segment_delimiter": "~", "element_delimiter": "*", "ignore_crlf": true,
  "segment_declarations": [ { "name": "ORD", "is_target": true, "min": 0, "max": -1,
      "elements": [ {"name":"a","index":1}, {"name":"b","index":2}, {"name":"c","index":3,"default":""} ],
      "child_segments": [ { "name": "K", "min": 0, "max": -1, "elements": [ {"name":"k","index":1} ] } ] } ] }, ` + foABC
	out = append(out, Variant{Name: "edi+nested-no-trailer", FmtIdx: 2, Schema: edi, Hier: true,
		Gen: func(r *vh.Rng, n int) []byte {
			var sb strings.Builder
			for i := 0; i < n; i++ {
				fmt.Fprintf(&sb, "ORD*%s*%s*%s~", word(r), numOrBad(r), word(r))
				for k, m := 0, r.Between(0, 3); k < m; k++ {
					fmt.Fprintf(&sb, "K*%s~", word(r))
				}
				if r.Chance(0.3) {
					sb.WriteString("\n")
				}
			}
			return []byte(sb.String())
		}})
	csv2 := `{"parser_settings": { "version": "omni.2.1", "file_format_type": "csv2" }, "file_declaration": { "delimiter": "|", "records": [
  { "name": "R", "header": "^R", "is_target": true, "columns": [ {"name":"a","index":2}, {"name":"b","index":3}, {"name":"c","index":4} ],
    "child_records": [ { "name": "K", "header": "^K", "min": 0, "max": -1, "columns": [ {"name":"k","index":2} ] } ] } ] }, ` + foABC
	out = append(out, Variant{Name: "csv2+nested-no-trailer", FmtIdx: 1, Schema: csv2, Hier: true,
		Gen: func(r *vh.Rng, n int) []byte {
			var sb strings.Builder
			for i := 0; i < n; i++ {
				fmt.Fprintf(&sb, "R|%s|%s|%s\n", word(r), numOrBad(r), word(r))
				for k, m := 0, r.Between(0, 3); k < m; k++ {
					fmt.Fprintf(&sb, "K|%s\n", word(r))
				}
			}
			return []byte(sb.String())
		}})
	fl2 := `{"parser_settings": { "version": "omni.2.1", "file_format_type": "fixedlength2" }, "file_declaration": { "envelopes": [
  { "name": "R", "header": "^R", "is_target": true, "columns": [ {"name":"a","start_pos":2,"length":6}, {"name":"b","start_pos":8,"length":5}, {"name":"c","start_pos":13,"length":6} ],
    "child_envelopes": [ { "name": "K", "header": "^K", "min": 0, "max": -1, "columns": [ {"name":"k","start_pos":2,"length":6} ] } ] } ] }, ` + foABC
	out = append(out, Variant{Name: "fixedlength2+nested-no-trailer", FmtIdx: 4, Schema: fl2, Hier: true,
		Gen: func(r *vh.Rng, n int) []byte {
			var sb strings.Builder
			for i := 0; i < n; i++ {
				sb.WriteString("R" + pad(word(r), 6) + pad(numOrBad(r), 5) + pad(word(r), 6) + "\n")
				for k, m := 0, r.Between(0, 3); k < m; k++ {
					sb.WriteString("K" + pad(word(r), 6) + "\n")
				}
			}
			return []byte(sb.String())
		}})
	// a multi-line envelope (header/footer, or 3 rows) followed by a target that matches any single line
	foAB := `"transform_declarations": { "FINAL_OUTPUT": { "object": { "a": { "xpath": "a", "keep_empty_or_null": true }, "b": { "xpath": "b", "keep_empty_or_null": true } } } }}`
	for _, multi := range []struct{ name, decl string }{
		{"hf", `{ "name": "M", "header": "^BEG", "footer": "^END", "min": 0, "max": -1 }`},
		{"rows3", `{ "name": "M", "rows": 3, "min": 0, "max": 1 }`},
	} {
		sch := `{"parser_settings": { "version": "omni.2.1", "file_format_type": "fixedlength2" }, "file_declaration": { "envelopes": [ ` + multi.decl + `,
  { "name": "R", "is_target": true, "min": 0, "max": -1, "columns": [ {"name":"a","start_pos":1,"length":4}, {"name":"b","start_pos":5,"length":8} ] } ] }, ` + foAB
		rows3 := multi.name == "rows3"
		out = append(out, Variant{Name: "fixedlength2+multiline-then-single:" + multi.name, FmtIdx: 4, Schema: sch, MultiLine: true, Hier: true,
			Gen: func(r *vh.Rng, n int) []byte {
				var sb strings.Builder
				for i := 0; i < n; i++ {
					if (rows3 && i == 0) || (!rows3 && r.Chance(0.6)) {
						fmt.Fprintf(&sb, "BEG%s\n", pad(word(r), 6))
						body := r.Between(1, 3)
						if rows3 {
							body = 1
						}
						for l := 0; l < body; l++ {
							fmt.Fprintf(&sb, "L%d%s\n", l+1, pad(word(r), 8))
						}
						fmt.Fprintf(&sb, "END%s\n", pad(word(r), 4))
					} else {
						fmt.Fprintf(&sb, "r%s%s\n", pad(word(r), 3), pad(numOrBad(r), 8))
					}
				}
				return []byte(sb.String())
			}})
	}
	return out
}

// sampleVariants: the repo's own sample schemas and inputs (extensions/omniv21/samples), so that the
// fault sweep and the schedules also run over realistic hierarchical declarations.
func sampleVariants() []Variant {
	repo := os.Getenv("VERIF_REPO")
	if repo == "" {
		repo = "/repo"
	}
	var out []Variant
	for i, dir := range []string{"csv", "csv2", "edi", "fixedlength", "fixedlength2", "json", "xml"} {
		files, _ := filepath.Glob(filepath.Join(repo, "extensions/omniv21/samples", dir, "*.schema.json"))
		sort.Strings(files)
		for _, sf := range files {
			base := strings.TrimSuffix(sf, ".schema.json")
			ins, _ := filepath.Glob(base + ".input.*")
			if len(ins) != 1 {
				continue
			}
			schema, err1 := os.ReadFile(sf)
			input, err2 := os.ReadFile(ins[0])
			if err1 != nil || err2 != nil {
				continue
			}
			v := Variant{Name: "sample:" + dir + "/" + filepath.Base(base), FmtIdx: i, Schema: string(schema), Fixed: true,
				Gen: func(r *vh.Rng, n int) []byte { return append([]byte(nil), input...) }}
			if dir == "fixedlength" && strings.Contains(string(schema), "by_header_footer") {
				v.FaultGuard = markerGuard("A010", "V010", "Z001") // known finding F27
			}
			out = append(out, v)
		}
	}
	return out
}

// Input is a generated input with what the oracles need to know about it.
type Input struct {
	In   []byte
	Kind string
	// Cuts: positions of special interest for schedules (end of the JSON/XML top-level value,
	// end of the whitespace following it).
	Cuts []int
	// TrailingNonWS: the input is a complete, well-formed JSON document followed by something
	// that is not JSON whitespace: the transform must end with a fatal error, never io.EOF.
	TrailingNonWS bool
}

// GenInput produces an input of a variant: mostly small, sometimes large enough to roll the
// 4096-byte buffers over, sometimes with one very long line, then damaged by vh.Mutate.
func GenInput(r *vh.Rng, v Variant) (in []byte, kind string) {
	x := GenInput2(r, v)
	return x.In, x.Kind
}

// GenInputForFaults is GenInput2 for C16: variants with a FaultGuard get un-damaged inputs.
func GenInputForFaults(r *vh.Rng, v Variant) Input {
	if v.Fixed {
		return Input{In: v.Gen(r, 0), Kind: "sample"}
	}
	if v.FaultGuard == nil {
		x := GenInput2(r, v)
		// line based formats: a final unterminated line of 1-3 bytes (DOS EOF marker Ctrl-Z, a blank,
		// a letter ...): bufio.ReadLine hands it out with a nil error and consumes the read error
		// that came with it, so only the next read can surface a fault at the end of the data
		if (v.FmtIdx == 0 || v.FmtIdx == 1 || v.FmtIdx == 3 || v.FmtIdx == 4) && r.Chance(0.3) {
			if n := len(x.In); n > 0 && x.In[n-1] != '\n' {
				x.In = append(x.In, '\n')
			}
			x.In = append(x.In, r.PickStr("\x1a", "\x1a", " ", "x", "\x1a\x1a", "ab ", "\x00", "\x1a\r", "R")...)
			x.Kind += "+short-last-line"
		}
		return x
	}
	n, size := r.Between(0, 8), "small"
	if r.Chance(0.15) {
		n, size = r.Between(60, 200), "large"
	}
	return Input{In: v.Gen(r, n), Kind: size + "/wellformed(guard)"}
}

func GenInput2(r *vh.Rng, v Variant) Input {
	n := r.Between(0, 8)
	size := "small"
	pBig := 0.12
	if v.MultiLine {
		pBig = 0.3
	}
	if r.Chance(pBig) {
		n = r.Between(150, 420)
		if v.MultiLine {
			n = r.Between(60, 260)
		}
		size = "large"
	}
	in := v.Gen(r, n)
	// JSON / XML: data after the top-level value (a second value, a stray bracket, garbage, or
	// only whitespace), to be delivered in a later chunk than the closing bracket
	if (v.FmtIdx == 5 || v.FmtIdx == 6) && r.Chance(0.3) {
		x := Input{Kind: size + "/trailing"}
		ws := r.PickStr("", "", "\n", " \n\t ", "\r\n")
		var tr string
		if v.FmtIdx == 5 {
			tr = r.PickStr(`{"a":"x","b":"1","c":"y"}`, `[{"a":"x","b":"2","c":""}]`, "]", "}", "]]", "oops", ",", "null", "\"s\"", "7", "", " ", "\n\n")
		} else {
			tr = r.PickStr("<r><n><a>x</a><b>1</b><c>y</c></n></r>", "</r>", "<x/>", "garbage", "<!-- end of export -->", "<?pi x?>", "<", "&", "", "\n", "  \n")
		}
		x.Cuts = []int{len(in), len(in) + len(ws)}
		x.In = append(append(append([]byte(nil), in...), ws...), tr...)
		if v.FmtIdx == 5 && len(bytes.Trim([]byte(tr), " \t\r\n")) > 0 && v.Name != "json+latin1" && v.Name != "json+cp1252" {
			x.TrailingNonWS = true
		}
		if len(bytes.Trim([]byte(tr), " \t\r\n")) > 0 {
			x.Kind += "-nonws"
		} else {
			x.Kind += "-ws"
		}
		return x
	}
	// XML: unusual but legal prologs (version 1.1, standalone, encoding labels); whatever the
	// decoder makes of them must not depend on the delivery schedule
	if v.OwnProlog && r.Chance(0.7) {
		return Input{In: in, Kind: size + "/xml-encoding-declared"}
	}
	if v.FmtIdx == 6 && !v.OwnProlog && r.Chance(0.35) {
		pro := r.PickStr(`<?xml version="1.1"?>`, `<?xml version='1.1' encoding='utf-8'?>`, `<?xml version="1.0" encoding="UTF-8" standalone="yes"?>`,
			`<?xml version="1.0" encoding="ISO-8859-1"?>`, `<?xml version="1.1" standalone="no"?>`+"\n", `<?xml version="1.0"?>`+"\r\n<!-- c -->", `<?xml  version = "1.1" ?>`)
		off := 0
		if bytes.HasPrefix(in, bom) {
			off = 3
		}
		in = append(append(append([]byte(nil), in[:off]...), pro...), in[off:]...)
		x := Input{In: in, Kind: size + "/xml-prolog"}
		for j := 1; j < len(pro) && j < 40; j += 1 + r.Pick(6) {
			x.Cuts = append(x.Cuts, off+j)
		}
		return x
	}
	// charmap encodings: align the input so that a two-byte character of the DECODED stream
	// straddles a multiple of 4096 (the consumers' buffer size), at the very end of the input or in
	// the middle: a decoder that has to hold back half a character at the end of the caller's buffer
	if enc := encodingOf(v); enc != nil && (v.FmtIdx == 0 || v.FmtIdx == 1 || v.FmtIdx == 3 || v.FmtIdx == 4) && r.Chance(0.5) {
		return alignedTail(r, v, enc, in, size)
	}
	var cuts []int
	in, kind := vh.Mutate(r, in)
	// flat files: a 'special' short line (lone Ctrl-Z, NUL, blank, single character) in the middle
	pSpecial := 0.25
	if strings.Contains(v.Name, "+strings") {
		pSpecial = 0.6
	}
	if (v.FmtIdx == 0 || v.FmtIdx == 1 || v.FmtIdx == 3 || v.FmtIdx == 4) && r.Chance(pSpecial) {
		if le := lineEnds(in); len(le) > 0 {
			for k, m := 0, r.Between(1, 2); k < m; k++ {
				p := le[r.Pick(len(le))]
				sp := r.PickStr("\x1a", "\x1a", "\x00", " ", "x", "\x1a\x1a", "\x1a\r")
				in = append(append(append([]byte(nil), in[:p]...), (sp+"\n")...), in[p:]...)
				cuts = append(cuts, p+len(sp)+1, p+len(sp))
				le = lineEnds(in)
			}
			kind += "+special-line"
		}
	}
	if r.Chance(0.05) && len(in) > 0 {
		p := r.Pick(len(in))
		long := bytes.Repeat([]byte(r.PickStr("y", "é", "\r", "ab ")), pickInt(r, 4095, 4096, 4097, 8192, 9000))
		in = append(append(append([]byte(nil), in[:p]...), long...), in[p:]...)
		kind += "+longline"
	}
	// guard no_tail_hazard (known finding F22): the fixed-length line reader loses / keeps a final
	// unterminated line that fills the 4096-byte buffer exactly, depending on whether io.EOF comes
	// with the data.  The main stream stays inside the guard; the finding itself is replayed from
	// the corpus.
	if (v.FmtIdx == 3 || v.FmtIdx == 4) && LastLineHazard(in) {
		in = append(in, '\n')
		kind += "+terminated"
	}
	// guard of the scanner theorems (known finding F23): an EDI input must not end with exactly
	// bufio.MaxScanTokenSize undelimited bytes; the main stream stays far away from that
	if v.FmtIdx == 2 {
		tail := len(in) - 1 - bytes.LastIndexAny(in, "~\n")
		if tail >= 60000 {
			in = append(in, '~')
			kind += "+terminated"
		}
	}
	return Input{In: in, Kind: size + "/" + kind, Cuts: cuts}
}

func encodingOf(v Variant) *charmap.Charmap {
	switch {
	case strings.HasSuffix(v.Name, "+latin1"):
		return charmap.ISO8859_1
	case strings.HasSuffix(v.Name, "+cp1252"):
		return charmap.Windows1252
	}
	return nil
}

// alignedTail pads the input with filler lines so that its decoded length is k*4096+1+delta,
// delta in -2..2, and its last byte is 0xE9 (two bytes once decoded); optionally more data follows.
func alignedTail(r *vh.Rng, v Variant, enc *charmap.Charmap, in []byte, size string) Input {
	declen := func(b []byte) int {
		d, _ := enc.NewDecoder().Bytes(b)
		return len(d)
	}
	in = bytes.TrimRight(in, "\r\n")
	final := append(append([]byte(nil), in...), 0xE9)
	k := pickInt(r, 1, 1, 1, 2)
	delta := pickInt(r, 0, 0, 0, -1, 1, -2, 2)
	target := k*4096 + 1 + delta
	for target-declen(final) < 2 {
		target += 4096
	}
	need := target - declen(final)
	var filler []byte
	for need > 0 {
		n := need
		if n > 180 {
			n = 120 + r.Pick(60)
		}
		if need-n == 1 {
			n--
		}
		filler = append(filler, bytes.Repeat([]byte("y"), n-1)...)
		filler = append(filler, '\n')
		need -= n
	}
	p := bytes.IndexByte(final, '\n') + 1
	out := append(append(append([]byte(nil), final[:p]...), filler...), final[p:]...)
	kind := size + "/aligned-tail"
	if r.Chance(0.35) {
		more := bytes.TrimRight(v.Gen(r, 1), "\n")
		if i := bytes.LastIndexByte(more, '\n'); i >= 0 {
			more = more[i+1:]
		}
		out = append(append(out, '\n'), more...)
		out = append(out, '\n')
		kind = size + "/aligned-middle"
	}
	return Input{In: out, Kind: kind}
}

// ---- transcripts -----------------------------------------------------------------------------

// Step is the projection of one Read (plus RawRecord) result that C09 and C16 compare.
type Step struct {
	Kind  string `json:"kind"` // rec | failed | eof | fatal | other | newtransform-error | panic | hang
	JSON  string `json:"json,omitempty"`
	Sum   string `json:"sum,omitempty"`
	Err   error  `json:"-"`
	Txt   string `json:"txt,omitempty"` // message, for the replay file only; never compared
	Probe int    `json:"probe,omitempty"`
}

func (s Step) Key() string { return s.Kind + "|" + s.JSON + "|" + s.Sum }

// KeyT is Key plus the error text (C09: two schedules of the same bytes run the same code, so the
// full message must be identical too).  mask, if not nil, is applied to the text first.
func (s Step) KeyT(mask func(string) string) string {
	t := s.Txt
	if mask != nil {
		t = mask(t)
	}
	return s.Key() + "|" + t
}

// FirstDiffT is FirstDiff over KeyT.
func FirstDiffT(a, b []Step, mask func(string) string) int {
	for i := 0; i < len(a) || i < len(b); i++ {
		if i >= len(a) || i >= len(b) || a[i].KeyT(mask) != b[i].KeyT(mask) {
			return i
		}
	}
	return -1
}

func Classify(fmtIdx int, err error) string {
	switch {
	case err == io.EOF:
		return "eof"
	case errs.IsErrTransformFailed(err):
		return "failed"
	case vh.IsFatal(fmtIdx, err):
		return "fatal"
	default:
		return "other"
	}
}

var ErrHang = errors.New("watchdog: transform did not finish")

// Run drives a Transform over input until the first terminal result plus `tail` further Reads, at
// most maxReads Reads.  The whole run is under recover() and a watchdog.
func Run(ls Maker, fmtIdx int, input io.Reader, maxReads, tail int) (steps []Step, log *vh.Log) {
	return RunP(ls, fmtIdx, input, maxReads, tail, nil)
}

// RunP is Run with a probe that is sampled after NewTransform and after every Read (C16: how
// often the source has returned its fault so far).
func RunP(ls Maker, fmtIdx int, input io.Reader, maxReads, tail int, probe func() int) (steps []Step, log *vh.Log) {
	type res struct {
		steps []Step
		log   *vh.Log
	}
	pr := func(s Step) Step {
		if probe != nil {
			s.Probe = probe()
		}
		return s
	}
	ch := make(chan res, 1)
	go func() {
		var st []Step
		var lg *vh.Log
		defer func() {
			if p := recover(); p != nil {
				st = append(st, Step{Kind: "panic", Txt: fmt.Sprint(p)})
			}
			ch <- res{st, lg}
		}()
		t, l, err := ls.NewTransform("in", input)
		lg = l
		if err != nil {
			st = append(st, pr(Step{Kind: "newtransform-error", Err: err, Txt: err.Error()}))
			return
		}
		after := -1
		for i := 0; i < maxReads; i++ {
			b, err := t.Read()
			if err == nil {
				s := Step{Kind: "rec", JSON: string(b)}
				if raw, rerr := t.RawRecord(); rerr == nil && raw != nil {
					s.Sum = raw.Checksum()
				} else {
					s.Sum = "rawrecord-error"
				}
				st = append(st, pr(s))
				continue
			}
			s := Step{Kind: Classify(fmtIdx, err), Err: err, Txt: err.Error()}
			if b != nil {
				s.JSON = "bytes-with-error"
			}
			st = append(st, pr(s))
			if s.Kind != "failed" {
				after++
				if after >= tail {
					return
				}
			}
		}
	}()
	select {
	case r := <-ch:
		return r.steps, r.log
	case <-time.After(8 * time.Second):
		return []Step{{Kind: "hang", Err: ErrHang}}, nil
	}
}

func Keys(steps []Step) []string {
	out := make([]string, len(steps))
	for i, s := range steps {
		out[i] = s.Key()
	}
	return out
}

// FirstDiff returns the first index where two transcripts differ, or -1.
func FirstDiff(a, b []Step) int {
	for i := 0; i < len(a) || i < len(b); i++ {
		if i >= len(a) || i >= len(b) || a[i].Key() != b[i].Key() {
			return i
		}
	}
	return -1
}

// FmtName is the format name of an index into Gen.Continuable.all_formats.
func FmtName(i int) string { return vh.FormatNames[i] }
