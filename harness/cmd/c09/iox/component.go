package iox

import (
	"bufio"
	"fmt"
	"unicode/utf8"

	"github.com/jf-tech/go-corelib/ios"
	"golang.org/x/text/encoding/charmap"

	"verifharness/vh"
)

var alphabet = []string{"a", "b", "\"", "\r", "\n", "\r\n", "~", "*", "?", "?~", "??", "é", "日", "\xef\xbb\xbf", "\xff", "\x80", " ", "x\n", "|", "¦"}

func genData(r *vh.Rng, big bool) []byte {
	n := r.Between(0, 40)
	if big {
		n = r.Between(1200, 3500)
	}
	var b []byte
	if r.Chance(0.25) {
		b = append(b, "\xef\xbb\xbf"[:r.Between(1, 3)]...)
	}
	for i := 0; i < n; i++ {
		if r.Chance(0.4) {
			b = append(b, byte('a'+r.Pick(4)))
		} else {
			b = append(b, alphabet[r.Pick(len(alphabet))]...)
		}
	}
	if r.Chance(0.5) {
		b = append(b, '\n')
	}
	return b
}

func genSource(r *vh.Rng, data []byte, faults bool) *Source {
	var sizes []int
	switch r.Pick(4) {
	case 0: // whole
	case 1:
		for i := 0; i < len(data); i++ {
			sizes = append(sizes, 1)
		}
	default:
		for left := len(data); left > 0; {
			for e := r.Pick(3); e > 0 && r.Chance(0.3); e-- {
				sizes = append(sizes, 0)
			}
			k := 1 + r.Pick(pickInt(r, 3, 20, 700, 5000))
			if k > left {
				k = left
			}
			sizes = append(sizes, k)
			left -= k
		}
		if r.Chance(0.2) {
			sizes = append(sizes, 0)
		}
	}
	tail := 0
	if faults {
		tail = 1 + r.Pick(2)
	}
	return NewSource(SplitChunks(data, sizes), r.Chance(0.3), tail)
}

func genCaps(r *vh.Rng, total int) []int {
	var caps []int
	for got := 0; got < total+4*4096 && len(caps) < 400; {
		c := pickInt(r, 1, 2, 3, 7, 64, 500, 4096, 5000)
		caps = append(caps, c)
		got += c
	}
	return caps
}

type rd interface{ Read(p []byte) (int, error) }

// doReads issues Read(p) calls with the given sizes, stopping 3 calls after the first error.
func doReads(src *Source, x rd, caps []int) (used []int, obs []string) {
	after := 0
	for _, c := range caps {
		p := make([]byte, c)
		n, err := x.Read(p)
		used = append(used, c)
		obs = append(obs, "("+vh.CoqHex(p[:n])+", "+src.CoqOptErr(err)+")")
		if err != nil {
			after++
			if after > 3 {
				break
			}
		}
	}
	return
}

func coqNats(xs []int) string {
	var s []string
	for _, x := range xs {
		s = append(s, vh.CoqNat(x))
	}
	return vh.CoqList(s)
}

func coqByteStrs(xs [][]byte) string {
	var s []string
	for _, x := range xs {
		s = append(s, vh.CoqHex(x))
	}
	return vh.CoqList(s)
}

// hazard: the final unterminated line of data fills a buffer of size n exactly at the end of the
// data (guard no_tail_hazard of the line reader; known finding F22).
func hazard(data []byte, n int) bool {
	i := len(data)
	for i > 0 && data[i-1] != '\n' {
		i--
	}
	rem := data[i:]
	for {
		switch {
		case len(rem) < n:
			return false
		case len(rem) == n:
			return true // the guard of the theorems (a_read_slice HAZARD) has no CR exception
		}
		if rem[n-1] == '\r' {
			rem = rem[n-1:]
		} else {
			rem = rem[n:]
		}
	}
}

// LastLineHazard is exported for the generators of the transform-level stream.
func LastLineHazard(data []byte) bool {
	i := len(data)
	for i > 0 && data[i-1] != '\n' {
		i--
	}
	return len(data)-i >= 1300 // conservative: any decoding at most triples the length
}

func readLines(src *Source, br *bufio.Reader) (lines [][]byte, err error) {
	for k := 0; k < 100000; k++ {
		var l []byte
		l, err = ios.ByteReadLine(br)
		if err != nil {
			return lines, err
		}
		lines = append(lines, append([]byte{}, l...))
	}
	return lines, fmt.Errorf("line loop did not end")
}

func scanAll(sc *bufio.Scanner) (toks [][]byte, err error) {
	defer func() {
		if p := recover(); p != nil {
			err = fmt.Errorf("panic: %v", p)
		}
	}()
	for k := 0; k < 100000 && sc.Scan(); k++ {
		toks = append(toks, append([]byte{}, sc.Bytes()...))
	}
	return toks, sc.Err()
}

func cpTable(cm *charmap.Charmap) string {
	var t [][]byte
	for i := 0; i < 256; i++ {
		b := make([]byte, 4)
		n := utf8.EncodeRune(b, cm.DecodeByte(byte(i)))
		t = append(t, b[:n])
	}
	return coqByteStrs(t)
}

var tables = map[string]string{}

// Component generates one component-level correspondence case, runs the real layer and writes
// the Coq term (inputs and observed outputs).
func Component(r *vh.Rng, sum *vh.Summary, cw *vh.CaseWriter, faults bool) {
	kind := r.Pick(8)
	big := r.Chance(0.06)
	data := genData(r, big)
	desc := map[string]interface{}{}
	var term, name string
	for tries := 0; ; tries++ {
		src := genSource(r, data, faults)
		srcCoq := src.Coq()
		desc = map[string]interface{}{"data_hex": fmt.Sprintf("%x", data), "source": srcCoq}
		switch kind {
		case 0:
			name = "bufio.Read"
			n := pickInt(r, 16, 16, 33, 4096)
			used, obs := doReads(src, bufio.NewReaderSize(src, n), genCaps(r, len(data)))
			term = fmt.Sprintf("CBufRead %s %s %s %s", vh.CoqNat(n), srcCoq, coqNats(used), vh.CoqList(obs))
		case 1:
			name = "StripBOM"
			rd, err := ios.StripBOM(src)
			var used []int
			var obs []string
			if err == nil {
				used, obs = doReads(src, rd, genCaps(r, len(data)))
			}
			term = fmt.Sprintf("CStripBOM %s %s %s %s", srcCoq, coqNats(used), src.CoqOptErr(err), vh.CoqList(obs))
		case 2:
			name = "ByteReadLine"
			n := pickInt(r, 16, 16, 20, 64, 4096)
			if hazard(data, n) {
				data = append(data, 'z')
				continue
			}
			lines, err := readLines(src, bufio.NewReaderSize(src, n))
			term = fmt.Sprintf("CLines %s %s %s %s", vh.CoqNat(n), srcCoq, coqByteStrs(lines), src.CoqErr(err))
		case 3:
			name = "BytesReplacingReader"
			sr := [][2]string{{"\"", "'"}, {"\r", ""}, {"\n", ""}, {"ab", "x"}, {"a", "bcd"}, {"日", "é"}}[r.Pick(6)]
			desc["search"], desc["replace"] = sr[0], sr[1]
			used, obs := doReads(src, ios.NewBytesReplacingReader(src, []byte(sr[0]), []byte(sr[1])), genCaps(r, len(data)))
			term = fmt.Sprintf("CBRR %s %s %s %s %s", vh.CoqHex([]byte(sr[0])), vh.CoqHex([]byte(sr[1])), srcCoq, coqNats(used), vh.CoqList(obs))
		case 4:
			name = "ScannerByDelim"
			de := [][2]string{{"~", ""}, {"~", "?"}, {"\n", ""}, {"¦\n", ""}, {"|", "??"}, {"a", "b"}}[r.Pick(6)]
			incl, eofd := r.Chance(0.7), r.Chance(0.3)
			flags := ios.ScannerByDelimFlag(0)
			if !incl {
				flags |= ios.ScannerByDelimFlagDropDelimInReturn
			}
			if eofd {
				flags |= ios.ScannerByDelimFlagEofAsDelim
			}
			bl := pickInt(r, 1, 4, 16, 128)
			var esc []byte
			if de[1] != "" {
				esc = []byte(de[1])
			}
			desc["delim"], desc["esc"], desc["buflen"] = de[0], de[1], bl
			toks, err := scanAll(ios.NewScannerByDelim3(src, []byte(de[0]), esc, flags, make([]byte, bl)))
			term = fmt.Sprintf("CScan %s %s %s %s %s %s %s %s", vh.CoqHex([]byte(de[0])), vh.CoqHex(esc), vh.CoqBool(incl), vh.CoqBool(eofd),
				vh.CoqNat(bl), srcCoq, coqByteStrs(toks), src.CoqOptErr(err))
		case 5:
			name = "charmap-decoder"
			cm, cn := charmap.ISO8859_1, "latin1"
			if r.Chance(0.5) {
				cm, cn = charmap.Windows1252, "cp1252"
			}
			if _, ok := tables[cn]; !ok {
				tables[cn] = cpTable(cm)
			}
			used, obs := doReads(src, cm.NewDecoder().Reader(src), genCaps(r, 2*len(data)))
			term = fmt.Sprintf("CDecode %s %s %s %s", tables[cn], srcCoq, coqNats(used), vh.CoqList(obs))
		case 6:
			name = "stack:StripBOM->ByteReadLine"
			if hazard(data, 4096) || (len(data) >= 3 && string(data[:3]) == "\xef\xbb\xbf" && hazard(data[3:], 4096)) {
				data = append(data, 'z')
				continue
			}
			rd, err := ios.StripBOM(src)
			var lines [][]byte
			var lerr error
			lerrS := "IoEOF"
			if err == nil {
				lines, lerr = readLines(src, bufio.NewReader(rd))
				lerrS = src.CoqErr(lerr)
			}
			term = fmt.Sprintf("CStackLines %s %s %s %s", srcCoq, src.CoqOptErr(err), coqByteStrs(lines), lerrS)
		default:
			name = "stack:StripBOM->CR/LF removal->scanner"
			de := [][2]string{{"~", ""}, {"~", "?"}, {"*", "?"}}[r.Pick(3)]
			var esc []byte
			if de[1] != "" {
				esc = []byte(de[1])
			}
			rd, err := ios.StripBOM(src)
			var toks [][]byte
			var serr error
			if err == nil {
				x := ios.NewBytesReplacingReader(ios.NewBytesReplacingReader(rd, []byte("\r"), nil), []byte("\n"), nil)
				toks, serr = scanAll(ios.NewScannerByDelim3(x, []byte(de[0]), esc, 0, make([]byte, 128)))
			}
			term = fmt.Sprintf("CStackEDI %s %s %s %s %s %s", vh.CoqHex([]byte(de[0])), vh.CoqHex(esc), srcCoq, src.CoqOptErr(err), coqByteStrs(toks), src.CoqOptErr(serr))
		}
		break
	}
	desc["component"] = name
	sum.Hist("component:" + name)
	if faults {
		term = "FComp (" + term + ")"
	}
	cw.Add(term, desc)
}
