package iox

import (
	"bufio"
	"fmt"
	"io"
	"strings"

	"verifharness/vh"
)

// Source is the Go twin of Model/Chunk.v `source`: the chunks it offers in order, whether the
// last chunk comes together with the first error of the tail, and the tail (0 = io.EOF forever,
// 1 = fault 1 forever, 2 = fault 1 once and then fault 2 forever).
type Source struct {
	Chunks   [][]byte
	WithLast bool
	Tail     int
	faults   [3]error
	nerr     int
}

func NewSource(chunks [][]byte, withLast bool, tail int) *Source {
	s := &Source{WithLast: withLast, Tail: tail}
	for _, c := range chunks {
		s.Chunks = append(s.Chunks, append([]byte(nil), c...))
	}
	s.faults[1] = &FaultErr{"fault 1"}
	s.faults[2] = &FaultErr{"fault 2"}
	return s
}

func (s *Source) tailErr() error {
	s.nerr++
	switch s.Tail {
	case 0:
		return io.EOF
	case 1:
		return s.faults[1]
	default:
		if s.nerr == 1 {
			return s.faults[1]
		}
		return s.faults[2]
	}
}

func (s *Source) Read(p []byte) (int, error) {
	if len(s.Chunks) == 0 {
		return 0, s.tailErr()
	}
	c := s.Chunks[0]
	if len(c) <= len(p) {
		copy(p, c)
		s.Chunks = s.Chunks[1:]
		if len(s.Chunks) == 0 && s.WithLast {
			return len(c), s.tailErr()
		}
		return len(c), nil
	}
	copy(p, c[:len(p)])
	s.Chunks[0] = c[len(p):]
	return len(p), nil
}

// CoqErr prints an error value as a Model.Chunk.ioerr.
func (s *Source) CoqErr(err error) string {
	switch {
	case err == io.EOF:
		return "IoEOF"
	case err == s.faults[1]:
		return "(IoFault 1%N)"
	case err == s.faults[2]:
		return "(IoFault 2%N)"
	case err == io.ErrNoProgress:
		return "IoNoProgress"
	case err == bufio.ErrTooLong:
		return "IoTooLong"
	}
	return "IoBufferFull (* unexpected: " + strings.ReplaceAll(fmt.Sprint(err), "*)", "") + " *)"
}

func (s *Source) CoqOptErr(err error) string {
	if err == nil {
		return "None"
	}
	return "(Some " + s.CoqErr(err) + ")"
}

// Coq prints the source as it is now (call before reading from it).
func (s *Source) Coq() string {
	var cs []string
	for _, c := range s.Chunks {
		cs = append(cs, vh.CoqHex(c))
	}
	tail := []string{"TEof", "(TFault 1%N)", "(TOnce 1%N 2%N)"}[s.Tail]
	return "(mkSrc " + vh.CoqList(cs) + " " + vh.CoqBool(s.WithLast) + " " + tail + ")"
}

// SplitChunks cuts data according to a schedule.
func SplitChunks(data []byte, sizes []int) [][]byte {
	var out [][]byte
	for _, k := range sizes {
		if k > len(data) {
			k = len(data)
		}
		out = append(out, data[:k])
		data = data[k:]
	}
	if len(data) > 0 {
		out = append(out, data)
	}
	return out
}
