package main

import (
	"bytes"
	"encoding/json"
	"fmt"
	"sort"
	"strings"
	"unicode"

	"verifharness/vh"
)

// ---- JSON trees ------------------------------------------------------------------------------
// Schemas are handled as decoded trees (map[string]interface{}, []interface{}, json.Number,
// string, bool, nil).  json.Marshal writes object keys sorted, so the text is deterministic.

func parseJSON(b []byte) (interface{}, bool) {
	d := json.NewDecoder(bytes.NewReader(b))
	d.UseNumber()
	var v interface{}
	if err := d.Decode(&v); err != nil {
		return nil, false
	}
	return v, true
}

// Duplicated keys cannot live in a decoded tree; a member whose key carries one of the two
// placeholder prefixes is rendered under the bare key: dupFirst sorts before, dupLast after the
// ordinary (ASCII letter) keys, so the duplicate lands before / after the real member.
const dupFirst, dupLast = "\x00dup:", "~dup~"

func render(v interface{}) []byte {
	b, err := json.Marshal(v)
	if err != nil {
		return []byte("null")
	}
	b = bytes.ReplaceAll(b, []byte(`"\u0000dup:`), []byte(`"`))
	b = bytes.ReplaceAll(b, []byte(`"`+dupLast), []byte(`"`))
	return b
}

func clone(v interface{}) interface{} {
	switch x := v.(type) {
	case map[string]interface{}:
		m := make(map[string]interface{}, len(x))
		for k, e := range x {
			m[k] = clone(e)
		}
		return m
	case []interface{}:
		a := make([]interface{}, len(x))
		for i, e := range x {
			a[i] = clone(e)
		}
		return a
	}
	return v
}

func keysOf(m map[string]interface{}) []string {
	ks := make([]string, 0, len(m))
	for k := range m {
		ks = append(ks, k)
	}
	sort.Strings(ks)
	return ks
}

// slot is one member of an object or one element of an array.
type slot struct {
	obj    map[string]interface{}
	key    string
	arr    *[]interface{} // pointer to the slice header inside its parent (see slots)
	idx    int
	set    func(interface{})
	del    func()
	setArr func([]interface{}) // arrays: store a new slice into the parent
	path   string
}

func (s slot) get() interface{} {
	if s.obj != nil {
		return s.obj[s.key]
	}
	return (*s.arr)[s.idx]
}

// slots lists every member/element of the tree in a deterministic order.  setParent stores a
// changed slice back into its parent.
func slots(v interface{}, path string, setSelf func(interface{}), out *[]slot) {
	switch x := v.(type) {
	case map[string]interface{}:
		for _, k := range keysOf(x) {
			k := k
			*out = append(*out, slot{obj: x, key: k, path: path + "/" + k,
				set: func(n interface{}) { x[k] = n },
				del: func() { delete(x, k) }})
			slots(x[k], path+"/"+k, func(n interface{}) { x[k] = n }, out)
		}
	case []interface{}:
		arr := x
		for i := range arr {
			i := i
			*out = append(*out, slot{arr: &arr, idx: i, path: fmt.Sprintf("%s/%d", path, i),
				set:    func(n interface{}) { arr[i] = n },
				setArr: func(na []interface{}) { setSelf(na) },
				del: func() {
					na := append(append([]interface{}{}, arr[:i]...), arr[i+1:]...)
					setSelf(na)
				}})
			slots(arr[i], fmt.Sprintf("%s/%d", path, i), func(n interface{}) { arr[i] = n }, out)
		}
	}
}

func allSlots(root *interface{}) []slot {
	var out []slot
	slots(*root, "", func(n interface{}) { *root = n }, &out)
	return out
}

func lastKey(path string) string {
	if k := strings.LastIndex(path, "/"); k >= 0 {
		return path[k+1:]
	}
	return path
}

// ---- value pools -----------------------------------------------------------------------------

var badRegexes = []string{"(", "[", "a{2,1}", "(?P<n", "\\", "*", "(a+)+$", "(a|aa)*b", "^(([a-z])+.)+[A-Z]([a-z])+$",
	"(?i)^h", ".{1000}", "a{1000}", "(((((((((((((((((((((a)))))))))))))))))))))", "\\C", "\\pN+", "[[:alpha:]]", "^$", ".*", "\\x{110000}", "(?s).", "\xff"}

// nonNodeSetXPaths: boolean / numeric / string valued expressions (the class of N11): where a
// node-set query is expected they select the context node only (if true-ish) since fix 3036423.
var nonNodeSetXPaths = []string{"b = '1'", "a = a", "1 = 1", "1 = 2", ". = .", "a != 'zz'", "not(a)", "not(zz)", "count(a) > 0", "count(*) = 0",
	"count(a)", "count(*)", "1", "0", "-1", "1 + 1", "2 * 3 - 6", "1 div 0", "'x'", "''", "\"s\"", "string-length(a) > 0", "string-length(.)", "sum(a) = 0", "a > 0", "a < 5", "a >= b",
	"contains(., 'x')", "starts-with(a, 'x')", "boolean(a)", "number(a)", "string(a)", "concat(a, b)", "(a = b)", "(1)", "position() = 1", "last() > 0",
	"normalize-space(a) = ''", "a | b", "a[1] = b[1]", "../a = 1", "//a = //b", "/* = 1", "@id = '0'", "@id > 0"}

// connectiveXPaths: a top-level (outside any predicate) `and` / `or`: when an operand is a comparison
// that is true, antchfx/xpath's booleanQuery.Select collects the operand's "results" for ever
// (known finding N12) -- outside the guard xpath_no_top_connective.
var connectiveXPaths = []string{"a = '1' or b = '2'", "a = '1' and b = '1'", "a and b", "a or b", "a='1' or b", "a or b='1'", "count(a)>0 and count(b)>0", "1 or 0", "a = 'zz' or b = 'zz'"}

var exoticXPaths = []string{"[", "]", "/", "//", ".", "..", "/*", "//*", "*", "a[", "a[1", "a[b[c]]", "a[.='x']", "a['[']", "a[\"]\"]", "a[']",
	"/a/b[.='3']", "a | b", "count(", "count(*)", "1 div 0", "$x", "a[position()=last()]", "a[last()]", "a[0]", "a[-1]", "a[1e999]",
	"ancestor::*", "following::*", "preceding-sibling::*[1]", "@x", "@*", "text()", "node()", "comment()", "processing-instruction()",
	"a/..", "../..", "/..", "../../../..", "x:y", "*:a", "a:*", "id('x')", "string-length(.) > 0", "not(a)", "a or", "-a", "--1",
	"a[b][c][d]", "(a)", "()", "a()", "concat('a')", "substring(a,1,2,3)", "sum(a)", "number('x')", "boolean()", "true()", "lang('en')",
	"a[contains(., 'x')]", "a[starts-with(.,\"x\")]", "translate(a,'ab','c')", "normalize-space()", "name()", "local-name(a)", "namespace-uri()",
	"a[.=1.5e3]", "//a//b//c//d//e", "/*[1]/*[1]/*[1]", "a[.=../b]", "self::a", "child::a", "descendant-or-self::node()", "a[count(b)=count(c)]",
	"日本", "a\x00b", " a ", "\t", "'", "\"", "a]", "[a]", "a[]", "a[ ]", "a[']']", "..[a]", ".[.]", "a[b='x' and c=\"y\"]", "reverse(a)", "ends-with(a,'x')",
	"matches(a,'(')", "replace(a,'(','x')", "a[matches(.,'^[a-z]+$')]", "number(a) mod 0", "a[1 div 0]", "round(1 div 0)", "floor(-1 div 0)", "a[string-length() = 9999999999]",
	"substring('abc', -1 div 0, 1 div 0)", "substring('abc', 0 div 0)", "substring-after('a','')", "substring-before('','')"}

var delimPool = []string{",", "|", "\t", ";", " ", "*", "~", ":", "^", "\"", "'", "\\", "\n", "\r", "\r\n", "\x00", "é", "日", "\U0001F600", "�", " ", "a", "0", "||", "<>",
	"\xff", "\xc3", "", ".", "?", "(", "[", "**", "~~", "\n\n", "*~", "é日", "\x7f", "\x01", "-", "+"}

var jsPool = []string{"", "(", "{", "}", "var", "a +", "1", "'x'", "null", "undefined", "0/0", "1/0", "-1/0", "[]", "({})", "[1,2,[3]]", "({a:{b:[1]}})", "function(){}", "(function(){})",
	"new Date(0)", "Symbol('x')", "throw 1", "throw new Error('x')", "JSON.parse('{')", "JSON.parse(_node)", "_node", "a.b.c", "a", "this", "eval('1')", "(() => 1)()", "`x${1}`",
	"let a = 1; a", "var JSON = 1; JSON", "Math = 0", "Object.freeze(this); 1", "delete this.JSON; 1", "x = 5", "new Array(5)", "9007199254740993", "1e400", "-0", "'\\ud800'",
	"new Proxy({}, {})", "new Uint8Array(3)", "Promise.resolve(1)", "Promise.reject(1)", "Promise.reject(new Error('x'))", "new Promise(function(){})", "(async function(){return 1})()", "(async function(){throw 1})()",
	"(async function(){ await new Promise(function(){}); return 1 })()", "Promise.all([])", "Promise.race([])", "({then:function(){}})", "({then:function(a){a(1)}})", "new Promise(function(a){a(new Promise(function(){}))})",
	"Promise.resolve(1).then(function(x){return x+1})", "var p=new Promise(function(){}); [p,p]", "/re/g", "BigInt ? 1 : 2", "(function f(n){return n?f(n-1):0})(100)", "[1,2,3].map(function(x){return x*2})",
	"({toString:function(){throw 1}})", "({valueOf:function(){return {}}})", "Object.create(null)"}

// jsPoolMapSet: scripts whose completion value is a Map or Set -- outside the guard js_no_map_set:
// goja's own export of a self-containing Map/Set overflows the stack (known finding N8).
var jsPoolMapSet = []string{"new Map()", "new Set([1])", "var m=new Map(); m.set('k',m); m", "var s=new Set(); s.add(s); s", "new Map([[1,new Map([[2,3]])]])",
	"var m=new Map(), n=new Map(); m.set(1,n); n.set(2,m); m", "[new Set([new Set()])]"}

// jsPoolOdd: scripts whose completion value is cyclic, or runs user code (an accessor) while it is
// exported to Go (the classes of the repaired defects N6, N7).
var jsPoolOdd = []string{"var o={}; o.o=o; o", "var a=[]; a[0]=a; a", "({get a(){throw 1}})", "({get a(){throw new Error('x')}})", "new Proxy({}, {ownKeys:function(){throw 1}})", "[{get a(){throw 1}}]",
	"new Proxy({}, {get:function(){throw 1}, ownKeys:function(){return ['a']}, getOwnPropertyDescriptor:function(){return {value:1,enumerable:true,configurable:true}}})"}

func pick(r *vh.Rng, xs []string) string { return xs[r.Pick(len(xs))] }

// guardsOff: guards switched off for exploration runs (C03_NOGUARD=name,name,... or "all");
// bin/check never sets it.
var guardsOff = map[string]bool{}

func on(name string) bool { return !guardsOff[name] && !guardsOff["all"] }

// pickXPath picks from exoticXPaths; under the guard only strings inside xpath_plain.
func pickXPath(r *vh.Rng, guard bool) string {
	if !on("xpath_no_top_connective") && r.Chance(0.2) {
		return pick(r, connectiveXPaths)
	}
	if r.Chance(0.35) {
		return pick(r, nonNodeSetXPaths)
	}
	for {
		x := pick(r, exoticXPaths)
		return x
	}
}

func num(s string) json.Number { return json.Number(s) }

// intPool: plain decimal literals that fit an int64 (inside the guard int_plain); the literals
// of oddIntForms are integers for JSON-schema but not storable by json.Unmarshal into an int.
var intPool = []string{"-1", "0", "1", "2", "3", "7", "100", "65536", "2147483647", "2147483648", "4294967296", "9223372036854775807", "-2", "-9223372036854775808", "1000000"}
var oddIntForms = []string{"1.0", "2.0", "0.0", "1e0", "1e1", "1E2", "1e30", "9223372036854775808", "-9223372036854775809", "100000000000000000000", "-0.0", "5e-1", "1.5", "-1.0", "1e400"}

// ---- structural mutations --------------------------------------------------------------------

// mutateSchema applies one structural mutation to the tree and names it.  guard=true keeps the
// result inside the guard hypotheses of the known findings (see guards.go).
func mutateSchema(r *vh.Rng, root *interface{}, guard bool) string {
	ss := allSlots(root)
	if len(ss) == 0 {
		*root = map[string]interface{}{}
		return "emptied"
	}
	for try := 0; try < 8; try++ {
		switch r.Pick(19) {
		case 16:
			return xpathDynamicMutation(r, root)
		case 17, 18:
			if k := dupKeyMutation(r, root); k != "" {
				return k
			}
			continue
		case 0:
			s := ss[r.Pick(len(ss))]
			s.del()
			return "delete-member"
		case 1:
			s := ss[r.Pick(len(ss))]
			if s.obj != nil {
				s.obj[s.key+r.PickStr("2", "_", " ", ".", "%", "")] = clone(s.get())
			} else {
				na := append(append([]interface{}{}, (*s.arr)[:s.idx+1]...), (*s.arr)[s.idx:]...)
				na[s.idx+1] = clone(na[s.idx])
				s.setArr(na)
			}
			return "duplicate-member"
		case 2:
			s := ss[r.Pick(len(ss))]
			vals := []interface{}{nil, true, false, num("0"), num("1"), "", "x", []interface{}{}, map[string]interface{}{}, []interface{}{nil}, map[string]interface{}{"": nil}}
			v := vals[r.Pick(len(vals))]
			s.set(v)
			return "retype-member"
		case 3, 4:
			var cs []slot
			for _, s := range ss {
				if _, ok := s.get().(json.Number); ok {
					cs = append(cs, s)
				}
			}
			if len(cs) == 0 {
				continue
			}
			s := cs[r.Pick(len(cs))]
			if r.Chance(0.25) {
				s.set(num(pick(r, oddIntForms)))
				return "int-odd-form:" + lastKey(s.path)
			}
			s.set(num(pick(r, intPool)))
			return "int-value:" + intKeyClass(lastKey(s.path))
		case 5, 6, 7:
			var cs []slot
			for _, s := range ss {
				if _, ok := s.get().(string); ok {
					cs = append(cs, s)
				}
			}
			if len(cs) == 0 {
				continue
			}
			s := cs[r.Pick(len(cs))]
			k := lastKey(s.path)
			switch {
			case k == "header" || k == "footer" || k == "line_pattern":
				s.set(pick(r, badRegexes))
				return "regex-odd"
			case k == "xpath" || (k == "const" && strings.Contains(s.path, "xpath_dynamic")):
				s.set(pickXPath(r, guard))
				return "xpath-odd"
			case strings.HasSuffix(k, "delimiter") || k == "release_character":
				s.set(pick(r, delimPool))
				return "delimiter-odd"
			case k == "template":
				s.set(r.PickStr("nope", "FINAL_OUTPUT", "", " ", "T1", "t", s.get().(string)+"x"))
				return "template-name-odd"
			case k == "name" && strings.Contains(s.path, "custom_func"):
				s.set(r.PickStr("nope", "", "Upper", "javascript", "copy", "now", "concat", "upper", "javascript_with_context", "coalesce", "uuidv3", "dateTimeToEpoch", "epochToDateTimeRFC3339"))
				return "custom-func-name-odd"
			case k == "type":
				s.set(r.PickStr("int", "float", "boolean", "string", "", "Int", "object", "segment_group", "segment", "record_group", "record", "envelope_group", "envelope"))
				return "type-odd"
			case k == "encoding" || k == "version" || k == "file_format_type":
				s.set(r.PickStr("", "utf-8", "iso-8859-1", "windows-1252", "utf-16", "omni.2.1", "omni.2.0", "csv", "csv2", "edi", "json", "xml", "fixed-length", "fixedlength2"))
				return "header-odd"
			}
			switch r.Pick(6) {
			case 0:
				s.set("")
				return "string-empty"
			case 1:
				s.set(strings.Repeat(r.PickStr("a", "é", "(", "[", "/"), r.Between(200, 5000)))
				return "string-long"
			case 2:
				s.set(pick(r, delimPool))
				return "string-special"
			case 3:
				s.set(pickXPath(r, guard))
				return "string-xpathish"
			case 4:
				s.set(pick(r, badRegexes))
				return "string-regexish"
			default:
				s.set(s.get().(string) + r.PickStr(" ", "\n", "\x00", "�", "%", ".", "[", "'"))
				return "string-suffixed"
			}
		case 8:
			// occurrence bounds on a declaration object
			var cs []slot
			for _, s := range ss {
				if m, ok := s.get().(map[string]interface{}); ok && isOccurDecl(s.path, m) {
					cs = append(cs, s)
				}
			}
			if len(cs) == 0 {
				continue
			}
			m := cs[r.Pick(len(cs))].get().(map[string]interface{})
			combos := [][2]string{{"2", "1"}, {"1", "0"}, {"0", "0"}, {"-1", "-1"}, {"0", "-1"}, {"5", "-1"}, {"9223372036854775807", "9223372036854775807"},
				{"9223372036854775807", "-1"}, {"0", "9223372036854775807"}, {"-5", "3"}, {"3", "-5"}, {"1", "1"}, {"0", "1"}, {"1000000", "1000001"}, {"2147483648", "-2"}}
			cb := combos[r.Pick(len(combos))]
			m["min"], m["max"] = num(cb[0]), num(cb[1])
			if r.Chance(0.2) {
				delete(m, r.PickStr("min", "max"))
			}
			return "occurrence-bounds"
		case 9:
			return addTemplateMutation(r, root, guard)
		case 10:
			return addCustomFuncMutation(r, root)
		case 11:
			return addJSMutation(r, root, guard)
		case 12:
			return deepNestMutation(r, root, guard)
		case 13:
			// empty a children / columns / elements list, or a whole group
			var cs []slot
			for _, s := range ss {
				if _, ok := s.get().([]interface{}); ok {
					cs = append(cs, s)
				}
			}
			if len(cs) == 0 {
				continue
			}
			s := cs[r.Pick(len(cs))]
			s.set([]interface{}{})
			return "empty-list:" + listKeyClass(lastKey(s.path))
		case 14:
			// target flags: several, none, on a group
			n := 0
			for _, s := range ss {
				if m, ok := s.get().(map[string]interface{}); ok && isOccurDecl(s.path, m) && r.Chance(0.5) {
					switch r.Pick(3) {
					case 0:
						m["is_target"] = true
					case 1:
						m["is_target"] = false
					default:
						delete(m, "is_target")
					}
					if _, old := m["not_target"]; old || strings.Contains(s.path, "envelopes") && r.Chance(0.3) {
						if _, hf := m["by_header_footer"]; hf {
							m["not_target"] = r.Chance(0.5)
						}
					}
					n++
				}
			}
			if n == 0 {
				continue
			}
			return "target-flags"
		default:
			// positional integers of columns / elements
			var cs []slot
			for _, s := range ss {
				k := lastKey(s.path)
				if _, ok := s.get().(json.Number); ok && (k == "start_pos" || k == "length" || k == "index" || k == "line_index" || k == "rows" || k == "by_rows" ||
					k == "component_index" || k == "header_row_index" || k == "data_row_index") {
					cs = append(cs, s)
				}
			}
			if len(cs) == 0 {
				continue
			}
			s := cs[r.Pick(len(cs))]
			s.set(num(r.PickStr("0", "-1", "1", "2", "50", "1000", "2147483647", "9223372036854775807", "-9223372036854775808")))
			return "position-int:" + lastKey(s.path)
		}
	}
	return "none"
}

func intKeyClass(k string) string {
	switch k {
	case "min", "max", "start_pos", "length", "index", "line_index", "rows", "by_rows", "component_index", "header_row_index", "data_row_index":
		return k
	}
	return "other"
}

func listKeyClass(k string) string {
	switch k {
	case "columns", "elements", "records", "child_records", "envelopes", "child_envelopes", "segment_declarations", "child_segments", "args", "array":
		return k
	}
	return "other"
}

func isOccurDecl(path string, m map[string]interface{}) bool {
	for _, k := range []string{"records", "child_records", "envelopes", "child_envelopes", "segment_declarations", "child_segments"} {
		if strings.Contains(path, "/"+k+"/") {
			// the element itself, not a column/element below it
			rest := path[strings.LastIndex(path, "/"+k+"/")+len(k)+2:]
			if !strings.Contains(rest, "/") {
				return true
			}
		}
	}
	return false
}

func declsOf(root *interface{}) map[string]interface{} {
	m, ok := (*root).(map[string]interface{})
	if !ok {
		return nil
	}
	td, ok := m["transform_declarations"].(map[string]interface{})
	if !ok {
		return nil
	}
	return td
}

// finalObject returns the "object" map of FINAL_OUTPUT, creating it if FINAL_OUTPUT has none.
func finalObject(root *interface{}) map[string]interface{} {
	td := declsOf(root)
	if td == nil {
		return nil
	}
	fo, ok := td["FINAL_OUTPUT"].(map[string]interface{})
	if !ok {
		return nil
	}
	if ob, ok := fo["object"].(map[string]interface{}); ok {
		return ob
	}
	if len(fo) == 0 || fo["xpath"] != nil && len(fo) == 1 {
		ob := map[string]interface{}{}
		fo["object"] = ob
		return ob
	}
	return nil
}

func addTemplateMutation(r *vh.Rng, root *interface{}, guard bool) string {
	td := declsOf(root)
	ob := finalObject(root)
	if td == nil || ob == nil {
		return "none"
	}
	ref := func(n string) interface{} { return map[string]interface{}{"template": n} }
	switch r.Pick(8) {
	case 0:
		td["T1"] = ref("T1")
		ob["cyc"] = ref("T1")
		return "template-self-cycle"
	case 1:
		n := r.Between(2, 6)
		for i := 0; i < n; i++ {
			td[fmt.Sprintf("C%d", i)] = map[string]interface{}{"object": map[string]interface{}{"k": ref(fmt.Sprintf("C%d", (i+1)%n)), "c": map[string]interface{}{"const": "v"}}}
		}
		ob["cyc"] = ref("C0")
		return "template-cycle"
	case 2:
		ob["cyc"] = ref("FINAL_OUTPUT")
		return "template-final-output-cycle"
	case 3:
		ob["miss"] = ref(r.PickStr("nope", "T9", "final_output"))
		return "template-missing"
	case 4:
		// cycle through custom_func args and xpath_dynamic
		td["A1"] = map[string]interface{}{"custom_func": map[string]interface{}{"name": "concat", "args": []interface{}{ref("A2"), map[string]interface{}{"const": "x"}}}}
		td["A2"] = map[string]interface{}{"xpath_dynamic": ref("A1")}
		ob["cyc"] = ref(r.PickStr("A1", "A2"))
		return "template-cycle-via-args"
	case 5:
		// unused cyclic templates: never expanded, must be accepted
		td["U1"] = ref("U2")
		td["U2"] = ref("U1")
		return "template-unused-cycle"
	case 6:
		// fan-out chain: depth d, two references per level (expansion size 2^d)
		d := r.Between(2, 10)
		if !on("tpl_small") && r.Chance(0.3) {
			d = r.Between(24, 40)
		}
		for i := 0; i < d; i++ {
			td[fmt.Sprintf("F%d", i)] = map[string]interface{}{"object": map[string]interface{}{"a": ref(fmt.Sprintf("F%d", i+1)), "b": ref(fmt.Sprintf("F%d", i+1))}}
		}
		td[fmt.Sprintf("F%d", d)] = map[string]interface{}{"const": "leaf"}
		ob["fan"] = ref("F0")
		return "template-fanout"
	default:
		// long chain (stack depth of the expansion)
		d := r.Between(20, 400)
		for i := 0; i < d; i++ {
			td[fmt.Sprintf("L%d", i)] = ref(fmt.Sprintf("L%d", i+1))
		}
		td[fmt.Sprintf("L%d", d)] = map[string]interface{}{"xpath": "."}
		ob["chain"] = ref("L0")
		return "template-chain"
	}
}

// badify damages a (copy of a) section the way the JSON schema would reject: zero / negative
// counts and bounds, null or retyped lists, retyped members.
func badify(r *vh.Rng, v interface{}, depth int) interface{} {
	switch x := v.(type) {
	case map[string]interface{}:
		for _, k := range keysOf(x) {
			switch k {
			case "rows", "by_rows", "min", "max", "index", "start_pos", "length", "line_index", "component_index", "data_row_index", "header_row_index":
				if r.Chance(0.7) {
					x[k] = num(r.PickStr("0", "-1", "-5", "0", "-9223372036854775808"))
					continue
				}
			case "records", "child_records", "envelopes", "child_envelopes", "segment_declarations", "child_segments", "columns", "elements", "args", "array":
				if r.Chance(0.25) {
					x[k] = []interface{}{nil, nil}[0:r.Pick(2)]
					if r.Chance(0.5) {
						x[k] = nil
					}
					continue
				}
			}
			if r.Chance(0.08) {
				vals := []interface{}{nil, true, num("0"), "", []interface{}{}, map[string]interface{}{}, "x"}
				x[k] = vals[r.Pick(len(vals))]
				continue
			}
			x[k] = badify(r, x[k], depth+1)
		}
		if depth > 0 && r.Chance(0.1) {
			x["rows"] = num(r.PickStr("0", "-1"))
		}
		return x
	case []interface{}:
		for i := range x {
			x[i] = badify(r, x[i], depth+1)
		}
		if len(x) > 0 && r.Chance(0.1) {
			x[r.Pick(len(x))] = nil
		}
		return x
	}
	return v
}

// foldOrbit lists the runes encoding/json treats as equal to c when it matches an object key to a
// struct field (unicode.SimpleFold orbit), c excluded: 'k' -> K, U+212A; 's' -> S, U+017F; ...
func foldOrbit(c rune) []rune {
	var out []rune
	for x := unicode.SimpleFold(c); x != c; x = unicode.SimpleFold(x) {
		out = append(out, x)
	}
	return out
}

// caseVariants: every spelling of k with exactly one letter replaced by a member of its fold
// orbit, plus the all-upper spelling.
func caseVariants(k string) []string {
	out := []string{strings.ToUpper(k)}
	rs := []rune(k)
	for i, c := range rs {
		for _, x := range foldOrbit(c) {
			v := append(append([]rune{}, rs[:i]...), x)
			out = append(out, string(append(v, rs[i+1:]...)))
		}
	}
	return out
}

func caseVariant(r *vh.Rng, k string) string {
	rs := []rune(k)
	changed := false
	for i, c := range rs {
		if orb := foldOrbit(c); len(orb) > 0 && r.Chance(0.4) {
			rs[i] = orb[r.Pick(len(orb))]
			changed = true
		}
	}
	if !changed {
		vs := caseVariants(k)
		return vs[r.Pick(len(vs))]
	}
	return string(rs)
}

// dupKeyMutation adds a second member that json.Unmarshal decodes into the same struct field as an
// existing one (a literal duplicate before / after it, or a letter-case variant) with damaged
// content: what JSON-schema validation sees is not what gets loaded (class of N9).
func dupKeyMutation(r *vh.Rng, root *interface{}) string {
	m, ok := (*root).(map[string]interface{})
	if !ok {
		return ""
	}
	type cand struct {
		obj map[string]interface{}
		key string
		top bool
	}
	var cs []cand
	for _, k := range keysOf(m) {
		if !strings.ContainsAny(k, "\x00~") {
			cs = append(cs, cand{m, k, true}, cand{m, k, true}) // root sections twice as likely
		}
	}
	for _, s := range allSlots(root) {
		if s.obj != nil && !strings.ContainsAny(s.key, "\x00~") && s.key != "" {
			switch s.get().(type) {
			case map[string]interface{}, []interface{}, json.Number:
				cs = append(cs, cand{s.obj, s.key, false})
			}
		}
	}
	if len(cs) == 0 {
		return ""
	}
	c := cs[r.Pick(len(cs))]
	bad := badify(r, clone(c.obj[c.key]), 0)
	if c.top && c.key == "transform_declarations" && r.Chance(0.6) {
		payloads := []string{`{"FINAL_OUTPUT":{"object":{"a":{"template":"t"}}},"t":null}`, `{"FINAL_OUTPUT":null}`, `{"FINAL_OUTPUT":{"template":"t"},"t":null}`,
			`{"FINAL_OUTPUT":{"object":{"a":null}}}`, `{"FINAL_OUTPUT":{"array":[null]}}`, `{"FINAL_OUTPUT":{"custom_func":{"name":"concat","args":[null]}}}`,
			`{"FINAL_OUTPUT":{"custom_func":{"args":[]}}}`, `{"FINAL_OUTPUT":{"custom_func":null,"xpath":"a"}}`, `{"t":null}`, `{"FINAL_OUTPUT":{"object":{"a":{"template":"FINAL_OUTPUT"}}}}`,
			`{"FINAL_OUTPUT":{"xpath":"[","object":{}}}`, `{"FINAL_OUTPUT":{"object":{"a":{"xpath":"a","type":"bogus"}}}}`, `null`, `[]`, `"x"`}
		bad, _ = parseJSON([]byte(payloads[r.Pick(len(payloads))]))
	}
	where := "nested"
	if c.top {
		where = "root"
	}
	switch r.Pick(4) {
	case 0:
		c.obj[dupFirst+c.key] = bad
		return "dup-key-before:" + where
	case 1:
		c.obj[dupLast+c.key] = bad
		return "dup-key-after:" + where
	case 2:
		// the validated member is the damaged one's duplicate: first bad, then the good one again
		c.obj[dupFirst+c.key] = bad
		c.obj[dupLast+c.key] = clone(c.obj[c.key])
		return "dup-key-both:" + where
	default:
		c.obj[caseVariant(r, c.key)] = bad
		return "dup-key-case-variant:" + where
	}
}

func constDecl(s string) interface{} { return map[string]interface{}{"const": s} }

// xpathDynamicMutation puts arbitrary declaration-like JSON below an `xpath_dynamic` (its JSON
// schema accepts any object).  The entries with a null are outside the guard xd_no_null.
func xpathDynamicMutation(r *vh.Rng, root *interface{}) string {
	ob := finalObject(root)
	if ob == nil {
		return "none"
	}
	var pool []string
	pool = append(pool, `{"object":{"a":{"const":"x"}}}`, `{"array":[{"const":"a"}]}`, `{"const":"a","type":"bogus"}`, `{"const":"1","type":"int"}`,
		`{"custom_func":{"name":"upper","args":5}}`, `{"custom_func":{"name":"upper"}}`, `{"custom_func":{"name":5}}`, `{"custom_func":{}}`, `{"custom_func":[]}`,
		`{"template":"nope"}`, `{"template":""}`, `{"xpath":"a","object":{}}`, `{"const":1}`, `{"const":["a"]}`, `{"external":"e"}`, `{"external":""}`, `{"external":"missing"}`,
		`{"object":{"a":{"xpath_dynamic":{"object":{}}}}}`, `{"object":{}}`, `{"array":[]}`, `{}`, `{"xpath":""}`, `{"xpath":" "}`, `{"xpath":"a","xpath_dynamic":{"const":"b"}}`,
		`{"custom_parse":"nope"}`, `{"custom_parse":""}`, `{"no_trim":"yes"}`, `{"keep_empty_or_null":1}`, `{"type":5}`, `{"const":"a","unknown":{"deep":[1,2,3]}}`,
		`{"custom_func":{"name":"javascript","args":[{"const":"1"},{"const":"a"}]}}`, `{"custom_func":{"name":"copy"}}`, `{"array":[{"array":[{"const":"a"}]}]}`,
		`{"object":{"":{"const":"x"}}}`, `{"object":{"a.b":{"const":"x"},"a%b":{"const":"y"}}}`, `{"custom_func":{"name":"concat","args":[{"object":{"a":{"const":"x"}}}]}}`)
	{
		pool = append(pool, `{"object":{"a":null}}`, `{"array":[null]}`, `{"custom_func":{"name":"concat","args":[null]}}`, `{"xpath_dynamic":{"array":[null,null]}}`,
			`{"object":{"a":{"object":{"b":null}}}}`, `{"custom_func":null}`, `{"object":null}`, `{"array":null}`, `{"const":null}`, `{"template":null}`)
	}
	v, _ := parseJSON([]byte(pool[r.Pick(len(pool))]))
	d := map[string]interface{}{"xpath_dynamic": v}
	switch r.Pick(3) {
	case 0:
		d["object"] = map[string]interface{}{"k": constDecl("v")}
	case 1:
		d["type"] = r.PickStr("int", "string")
	}
	ob["xd"] = d
	return "xpath-dynamic-odd"
}

func argDecl(r *vh.Rng) interface{} {
	switch r.Pick(9) {
	case 0:
		return constDecl(r.PickStr("", "x", "1", "true", "1.5", "2006-01-02", "a b"))
	case 1:
		return map[string]interface{}{"const": r.PickStr("1", "x", "", "99999999999999999999"), "type": "int"}
	case 2:
		return map[string]interface{}{"const": r.PickStr("1.5", "x", "NaN", "Inf", "1e999"), "type": "float"}
	case 3:
		return map[string]interface{}{"const": r.PickStr("true", "x", "1"), "type": "boolean"}
	case 4:
		return map[string]interface{}{"xpath": r.PickStr("a", "b", ".", "nonexisting", "*", "..")}
	case 5:
		return map[string]interface{}{"xpath": r.PickStr("a", "b", "nonexisting"), "type": r.PickStr("int", "float", "boolean", "string")}
	case 6:
		return map[string]interface{}{"array": []interface{}{constDecl("x"), map[string]interface{}{"xpath": "a"}}}
	case 7:
		return map[string]interface{}{"external": r.PickStr("e", "missing")}
	default:
		return map[string]interface{}{"custom_func": map[string]interface{}{"name": r.PickStr("upper", "now", "concat", "copy", "nope"), "args": []interface{}{constDecl("x")}}}
	}
}

func addCustomFuncMutation(r *vh.Rng, root *interface{}) string {
	ob := finalObject(root)
	if ob == nil {
		return "none"
	}
	names := []string{"upper", "lower", "concat", "coalesce", "now", "uuidv3", "copy", "javascript", "javascript_with_context",
		"dateTimeToRFC3339", "dateTimeLayoutToRFC3339", "dateTimeToEpoch", "epochToDateTimeRFC3339", "nope", ""}
	n := r.Between(0, 6)
	var args []interface{}
	for i := 0; i < n; i++ {
		args = append(args, argDecl(r))
	}
	cf := map[string]interface{}{"name": names[r.Pick(len(names))]}
	if n > 0 || r.Chance(0.5) {
		if args == nil {
			args = []interface{}{}
		}
		cf["args"] = args
	}
	if r.Chance(0.3) {
		cf["ignore_error"] = r.Chance(0.5)
	}
	d := map[string]interface{}{"custom_func": cf}
	if r.Chance(0.3) {
		d["type"] = r.PickStr("int", "float", "boolean", "string")
	}
	if r.Chance(0.2) {
		d["xpath"] = r.PickStr("a", ".", "nonexisting", "*")
	}
	ob["cf"] = d
	return "custom-func-call"
}

func addJSMutation(r *vh.Rng, root *interface{}, guard bool) string {
	ob := finalObject(root)
	if ob == nil {
		return "none"
	}
	args := []interface{}{constDecl(pick(r, jsPool))}
	if r.Chance(0.25) {
		args = []interface{}{constDecl(pick(r, jsPoolOdd))}
	}
	if !on("js_no_map_set") && r.Chance(0.3) {
		args = []interface{}{constDecl(pick(r, jsPoolMapSet))}
	}
	k := r.Between(0, 4)
	for i := 0; i < k; i++ {
		switch r.Pick(5) {
		case 0, 1:
			args = append(args, constDecl(r.PickStr("a", "b", "_node", "JSON", "Math", "", "a b", "0", "this", "undefined", "__proto__", "constructor")), argDecl(r))
		case 2:
			args = append(args, argDecl(r)) // odd count
		case 3:
			args = append(args, argDecl(r), argDecl(r)) // name may be a non-string
		default:
			args = append(args, constDecl("a"), map[string]interface{}{"custom_func": map[string]interface{}{"name": "copy"}})
		}
	}
	d := map[string]interface{}{"custom_func": map[string]interface{}{"name": r.PickStr("javascript", "javascript", "javascript_with_context"), "args": args}}
	if r.Chance(0.3) {
		d["type"] = r.PickStr("int", "float", "boolean", "string")
	}
	ob["js"] = d
	return "javascript-call"
}

func deepNestMutation(r *vh.Rng, root *interface{}, guard bool) string {
	ob := finalObject(root)
	m, _ := (*root).(map[string]interface{})
	if ob == nil || m == nil {
		return "none"
	}
	d := r.Between(30, 80)
	switch r.Pick(4) {
	case 0:
		var v interface{} = constDecl("leaf")
		for i := 0; i < d; i++ {
			v = map[string]interface{}{"object": map[string]interface{}{"n": v}}
		}
		ob["deep"] = v
		return "deep-object"
	case 1:
		var v interface{} = constDecl("leaf")
		for i := 0; i < d; i++ {
			v = map[string]interface{}{"custom_func": map[string]interface{}{"name": "concat", "args": []interface{}{v}}}
		}
		ob["deep"] = v
		return "deep-custom-func"
	case 2:
		var v interface{} = map[string]interface{}{"const": "a"}
		for i := 0; i < d; i++ {
			v = map[string]interface{}{"xpath_dynamic": v}
		}
		ob["deep"] = v
		return "deep-xpath-dynamic"
	default:
		fd, ok := m["file_declaration"].(map[string]interface{})
		if !ok {
			return "none"
		}
		for _, k := range [][3]string{{"records", "child_records", "record_group"}, {"envelopes", "child_envelopes", "envelope_group"}, {"segment_declarations", "child_segments", "segment_group"}} {
			top, ok := fd[k[0]].([]interface{})
			if !ok || len(top) == 0 {
				continue
			}
			t0, isObj := top[0].(map[string]interface{})
			if !isObj {
				continue
			}
			if _, old := t0["by_header_footer"]; old {
				continue
			}
			if _, old := t0["by_rows"]; old {
				continue
			}
			v := top
			if k[2] != "segment_group" {
				d = r.Between(2, 5) // guard groups_small (guardViolation re-checks the cost)
				if !on("groups_small") && r.Chance(0.5) {
					d = r.Between(14, 30)
				}
			}
			for i := 0; i < d; i++ {
				v = []interface{}{map[string]interface{}{"name": fmt.Sprintf("g%d", i), "type": k[2], k[1]: v}}
			}
			fd[k[0]] = v
			return "deep-groups"
		}
		return "none"
	}
}

// mutateBytes damages the schema text itself (NewSchema must cope with any bytes).
func mutateBytes(r *vh.Rng, b []byte) ([]byte, string) {
	switch r.Pick(7) {
	case 0:
		if len(b) == 0 {
			return b, "raw-empty"
		}
		return append([]byte(nil), b[:r.Pick(len(b))]...), "raw-truncated"
	case 1:
		out := append([]byte(nil), b...)
		for k := 0; k < r.Between(1, 4) && len(out) > 0; k++ {
			out[r.Pick(len(out))] = byte(r.Pick(256))
		}
		return out, "raw-byteflip"
	case 2:
		p := r.Pick(len(b) + 1)
		ins := []byte(r.PickStr("\"", "{", "}", "[", "]", ",", ":", "null", "\\", "\\u0000", "\\ud800", "\xff", "\x00", "/*", "1e9", "-", " "))
		return append(append(append([]byte(nil), b[:p]...), ins...), b[p:]...), "raw-inserted"
	case 3:
		return nil, "raw-empty"
	case 4:
		g := make([]byte, r.Between(1, 60))
		for i := range g {
			g[i] = byte(r.Pick(256))
		}
		return g, "raw-garbage"
	case 5:
		return append(append([]byte(nil), b...), b...), "raw-doubled"
	default:
		return []byte(r.PickStr("null", "[]", "{}", "1", "\"x\"", "true", "{\"parser_settings\":null}", "{\"parser_settings\":{}}", "\xef\xbb\xbf{}",
			`{"parser_settings":{"version":"omni.2.1","file_format_type":"xml"}}`,
			`{"parser_settings":{"version":"omni.2.1","file_format_type":"xml"},"transform_declarations":null}`,
			`{"parser_settings":{"version":"omni.2.1","file_format_type":"xml"},"transform_declarations":{}}`,
			`{"parser_settings":{"version":"omni.2.1","file_format_type":"xml"},"transform_declarations":{"FINAL_OUTPUT":null}}`,
			`{"parser_settings":{"version":"omni.2.1","file_format_type":"xml","encoding":"nope"},"transform_declarations":{"FINAL_OUTPUT":{}}}`,
			`{"parser_settings":{"version":"omni.2.1","file_format_type":"nope"},"transform_declarations":{"FINAL_OUTPUT":{}}}`,
			strings.Repeat("[", 20000), strings.Repeat(`{"a":`, 20000))), "raw-minimal-doc"
	}
}
