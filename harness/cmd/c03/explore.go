package main

import (
	"encoding/json"
	"fmt"
	"os"
	"sort"
	"strconv"
	"time"

	"verifharness/vh"
)

// exploreInts (C03_EXPLORE=ints, not used by bin/check) sweeps every numeric member of every seed
// schema with integer literals outside the guard int_plain and tabulates what goes wrong; it is
// how the sub-classes of that known finding were enumerated.
func exploreInts(r *vh.Rng) {
	seeds := append(fixtureSeeds(), sampleSeeds()...)
	for i := 0; i < 40; i++ {
		seeds = append(seeds, genSeed(r))
	}
	type row struct {
		n       int
		example Case
		panic   string
	}
	tab := map[string]*row{}
	from, _ := strconv.Atoi(os.Getenv("C03_EXPLORE_FROM"))
	idx := 0
	flush := func() {
		var ks []string
		for k := range tab {
			ks = append(ks, k)
		}
		sort.Strings(ks)
		for _, k := range ks {
			fmt.Printf("%4d  %s\n      %s\n      schema: %.700s\n      input_hex: %.200s\n", tab[k].n, k, tab[k].panic, tab[k].example.Schema, tab[k].example.InputHex)
		}
	}
	onBlowup = func(c Case, heap uint64) {
		flush()
		fmt.Printf("BLOWUP at index %d\n  schema: %s\n  input_hex: %.300s\n", idx, c.Schema, c.InputHex)
	}
	for si := range seeds {
		sd := &seeds[si]
		tree, ok := parseJSON(sd.Schema)
		if !ok {
			continue
		}
		n := len(allSlots(&tree))
		for i := 0; i < n; i++ {
			for _, form := range []string{"0.0", "1e30", "1.0"} {
				cand := clone(tree)
				ss := allSlots(&cand)
				if _, isNum := ss[i].get().(json.Number); !isNum {
					break
				}
				key := lastKey(ss[i].path)
				idx++
				if idx <= from {
					continue
				}
				ss[i].set(num(form))
				sch := render(cand)
				o, s := ExecSchema(sch, nil, 3*time.Second)
				if o.Fail != "" {
					k := fmt.Sprintf("%s %s=%s -> %s", sd.Format, key, form, o.Signature())
					if tab[k] == nil {
						tab[k] = &row{example: mkCase(sch, nil), panic: o.Panic}
					}
					tab[k].n++
					continue
				}
				if s == nil {
					continue
				}
				for j := 0; j < 3; j++ {
					in := sd.Valid(r)
					if j == 2 {
						in, _ = genInput(r, sd)
					}
					oi := ExecInput(s, in, 3*time.Second)
					if oi.Fail != "" {
						k := fmt.Sprintf("%s %s=%s -> %s", sd.Format, key, form, oi.Signature())
						if tab[k] == nil {
							tab[k] = &row{example: mkCase(sch, in), panic: oi.Panic}
						}
						tab[k].n++
					}
				}
			}
		}
	}
	flush()
	fmt.Println("DONE")
	os.Exit(0)
}
