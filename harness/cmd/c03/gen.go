package main

import (
	"fmt"
	"os"
	"path/filepath"
	"sort"
	"strings"

	"github.com/jf-tech/omniparser"
	"github.com/jf-tech/omniparser/customfuncs"
	"github.com/jf-tech/omniparser/extensions/omniv21"

	"verifharness/vh"
)

func builtinExt(funcs customfuncs.CustomFuncs) omniparser.Extension {
	return omniparser.Extension{CreateSchemaHandler: omniv21.CreateSchemaHandler, CustomFuncs: funcs}
}

// Seed is a valid schema with a generator of valid-ish inputs.
type Seed struct {
	Format string
	Origin string // fixture | sample | generated
	Name   string
	Schema []byte
	Valid  func(r *vh.Rng) []byte
	Delims []string // the delimiter strings of the format, for "only delimiters" inputs
}

func repoRoot() string {
	if p := os.Getenv("VERIF_REPO"); p != "" {
		return p
	}
	return "/repo"
}

func fixtureSeeds() []Seed {
	var out []Seed
	delims := map[string][]string{"csv": {","}, "csv2": {"|"}, "edi": {"~", "*"}, "fixed-length": {" "}, "fixedlength2": {" "}, "json": {",", "{", "[", ":"}, "xml": {"<", ">", "/"}}
	for _, f := range vh.Fixtures() {
		f := f
		out = append(out, Seed{Format: f.Format, Origin: "fixture", Name: "fixture-" + f.Format, Schema: []byte(f.Schema),
			Valid: func(r *vh.Rng) []byte { return f.Gen(r, r.Between(0, 6)) }, Delims: delims[f.Format]})
	}
	return out
}

// sampleSeeds reads the sample schemas of the repository under test (and their input files).
func sampleSeeds() []Seed {
	var out []Seed
	files, _ := filepath.Glob(filepath.Join(repoRoot(), "extensions/omniv21/samples/*/*.schema.json"))
	sort.Strings(files)
	for _, f := range files {
		sch, err := os.ReadFile(f)
		if err != nil {
			continue
		}
		base := strings.TrimSuffix(f, ".schema.json")
		ins, _ := filepath.Glob(base + ".input.*")
		var in []byte
		if len(ins) > 0 {
			in, _ = os.ReadFile(ins[0])
		}
		// keep the sample inputs small: the first 1500 bytes cut at a line end
		if len(in) > 1500 {
			cut := in[:1500]
			if k := strings.LastIndexByte(string(cut), '\n'); k > 0 {
				cut = cut[:k+1]
			}
			in = cut
		}
		format := filepath.Base(filepath.Dir(f))
		tree, ok := parseJSON(sch)
		if ok {
			if m, ok := tree.(map[string]interface{}); ok {
				if ps, ok := m["parser_settings"].(map[string]interface{}); ok {
					if s, ok := ps["file_format_type"].(string); ok {
						format = s
					}
				}
			}
		}
		in2 := in
		out = append(out, Seed{Format: format, Origin: "sample", Name: "sample-" + filepath.Base(base), Schema: sch,
			Valid: func(r *vh.Rng) []byte { return in2 }, Delims: []string{",", "|", "*", "~", ":", "\n"}})
	}
	return out
}

// ---- generated schemas -------------------------------------------------------------------------

type hnode struct {
	name     string
	group    bool
	rows     int // 0 = header/footer based
	footer   bool
	min, max int // -2 = omitted
	target   bool
	ncols    int
	unnamed  bool // csv2 / fixedlength2: the name is optional
	kids     []*hnode
}

func genHier(r *vh.Rng, depth int, counter *int, edi bool) []*hnode {
	n := r.Between(1, 3)
	var out []*hnode
	for i := 0; i < n; i++ {
		*counter++
		h := &hnode{name: fmt.Sprintf("%s%d", r.PickStr("R", "S", "H"), *counter), min: -2, max: -2, ncols: r.Between(0, 3)}
		if !edi && r.Chance(0.15) {
			h.unnamed = true
		}
		if r.Chance(0.6) {
			h.min = r.Between(0, 2)
		}
		if r.Chance(0.6) {
			h.max = pickInt(r, -1, 1, 2, 3, 5)
			if h.min > 0 && h.max >= 0 && h.max < h.min {
				h.max = h.min
			}
		}
		if depth < 2 && r.Chance(0.25) {
			h.group = true
			h.ncols = 0
			h.kids = genHier(r, depth+1, counter, edi)
		} else {
			if !edi && r.Chance(0.3) {
				h.rows = r.Between(1, 3)
			}
			h.footer = !edi && h.rows == 0 && r.Chance(0.4)
			if depth < 2 && r.Chance(0.3) {
				h.kids = genHier(r, depth+1, counter, edi)
			}
		}
		out = append(out, h)
	}
	return out
}

func flatten(hs []*hnode) []*hnode {
	var out []*hnode
	for _, h := range hs {
		out = append(out, h)
		out = append(out, flatten(h.kids)...)
	}
	return out
}

func occ(m map[string]interface{}, h *hnode) {
	if h.min != -2 {
		m["min"] = num(fmt.Sprint(h.min))
	}
	if h.max != -2 {
		m["max"] = num(fmt.Sprint(h.max))
	}
	if h.target {
		m["is_target"] = true
	}
}

func renderCSV2(hs []*hnode) []interface{} {
	var out []interface{}
	for _, h := range hs {
		m := map[string]interface{}{"name": h.name}
		if h.unnamed {
			delete(m, "name")
		}
		occ(m, h)
		if h.group {
			m["type"] = "record_group"
			m["child_records"] = renderCSV2(h.kids)
		} else {
			if h.rows > 0 {
				m["rows"] = num(fmt.Sprint(h.rows))
			} else {
				m["header"] = "^" + h.name
				if h.footer {
					m["footer"] = "^E" + h.name
				}
			}
			var cols []interface{}
			for c := 0; c < h.ncols; c++ {
				col := map[string]interface{}{"name": fmt.Sprintf("c%d", c+1), "index": num(fmt.Sprint(c + 2))}
				if h.rows > 1 && c%2 == 1 {
					col["line_index"] = num(fmt.Sprint(h.rows))
				}
				if h.footer && c%2 == 0 {
					col["line_pattern"] = "^E"
				}
				cols = append(cols, col)
			}
			if cols != nil {
				m["columns"] = cols
			}
			if len(h.kids) > 0 {
				m["child_records"] = renderCSV2(h.kids)
			}
		}
		out = append(out, m)
	}
	return out
}

func renderFixed2(hs []*hnode) []interface{} {
	var out []interface{}
	for _, h := range hs {
		m := map[string]interface{}{"name": h.name}
		if h.unnamed {
			delete(m, "name")
		}
		occ(m, h)
		if h.group {
			m["type"] = "envelope_group"
			m["child_envelopes"] = renderFixed2(h.kids)
		} else {
			if h.rows > 0 {
				m["rows"] = num(fmt.Sprint(h.rows))
			} else {
				m["header"] = "^" + h.name
				if h.footer {
					m["footer"] = "^E" + h.name
				}
			}
			var cols []interface{}
			for c := 0; c < h.ncols; c++ {
				col := map[string]interface{}{"name": fmt.Sprintf("c%d", c+1), "start_pos": num(fmt.Sprint(4 + 3*c)), "length": num("3")}
				if h.rows > 1 && c%2 == 1 {
					col["line_index"] = num(fmt.Sprint(h.rows))
				}
				cols = append(cols, col)
			}
			if cols != nil {
				m["columns"] = cols
			}
			if len(h.kids) > 0 {
				m["child_envelopes"] = renderFixed2(h.kids)
			}
		}
		out = append(out, m)
	}
	return out
}

func renderEDI(hs []*hnode) []interface{} {
	var out []interface{}
	for _, h := range hs {
		m := map[string]interface{}{"name": h.name}
		occ(m, h)
		if h.group {
			m["type"] = "segment_group"
			m["child_segments"] = renderEDI(h.kids)
		} else {
			var els []interface{}
			for c := 0; c < h.ncols; c++ {
				el := map[string]interface{}{"name": fmt.Sprintf("c%d", c+1), "index": num(fmt.Sprint(c + 1))}
				if c == 1 {
					el["component_index"] = num("2")
					el["default"] = ""
				}
				if c == 2 {
					el["empty_if_missing"] = true
				}
				els = append(els, el)
			}
			if els != nil {
				m["elements"] = els
			}
			if len(h.kids) > 0 {
				m["child_segments"] = renderEDI(h.kids)
			}
		}
		out = append(out, m)
	}
	return out
}

// emit writes a valid-ish instance of the hierarchy: each declaration between its minimum and a
// few more occurrences, children nested.
func emit(r *vh.Rng, sb *strings.Builder, hs []*hnode, line func(h *hnode, kind string) string, ediDefault bool, budget *int) {
	for _, h := range hs {
		lo := h.min
		if lo == -2 {
			lo = 0
			if ediDefault {
				lo = 1
			}
		}
		n := lo + r.Pick(3)
		if h.max >= 0 && n > h.max && r.Chance(0.9) {
			n = h.max
		}
		if h.max == -2 && ediDefault && r.Chance(0.9) {
			n = 1
		}
		for i := 0; i < n && *budget > 0; i++ {
			*budget--
			if !h.group {
				if h.rows > 0 {
					for k := 0; k < h.rows; k++ {
						sb.WriteString(line(h, "row"))
					}
				} else {
					sb.WriteString(line(h, "header"))
					if h.footer {
						if r.Chance(0.5) {
							sb.WriteString(line(h, "mid"))
						}
						sb.WriteString(line(h, "footer"))
					}
				}
			}
			emit(r, sb, h.kids, line, ediDefault, budget)
		}
	}
}

func finalOutputFor(r *vh.Rng, names []string, targetXPath string) map[string]interface{} {
	fields := map[string]interface{}{}
	nf := r.Between(1, 5)
	for i := 0; i < nf; i++ {
		fields[fmt.Sprintf("f%d", i)] = genDecl(r, names, 0)
	}
	fo := map[string]interface{}{"object": fields}
	if targetXPath != "" {
		fo["xpath"] = targetXPath
	}
	return fo
}

// genDecl generates a valid transform declaration over the given element names.
func genDecl(r *vh.Rng, names []string, depth int) interface{} {
	name := func() string { return names[r.Pick(len(names))] }
	switch r.Pick(12) {
	case 0:
		return map[string]interface{}{"const": r.PickStr("k", "", " pad ", "12")}
	case 1:
		return map[string]interface{}{"external": "e"}
	case 2, 3, 4:
		d := map[string]interface{}{"xpath": name()}
		if r.Chance(0.3) {
			d["type"] = r.PickStr("int", "float", "boolean", "string")
		}
		if r.Chance(0.2) {
			d["keep_empty_or_null"] = true
		}
		if r.Chance(0.2) {
			d["no_trim"] = true
		}
		return d
	case 5:
		return map[string]interface{}{"custom_func": map[string]interface{}{"name": "upper", "args": []interface{}{map[string]interface{}{"xpath": name()}}}}
	case 6:
		return map[string]interface{}{"custom_func": map[string]interface{}{"name": "concat", "args": []interface{}{map[string]interface{}{"xpath": name()}, constDecl("-"), map[string]interface{}{"xpath": name()}}}}
	case 7:
		return map[string]interface{}{"custom_func": map[string]interface{}{"name": r.PickStr("javascript", "javascript_with_context"), "args": []interface{}{
			constDecl(r.PickStr("a + 1", "a.length", "JSON.stringify(a)", "a ? a : 'none'", "parseInt(a)")), constDecl("a"), map[string]interface{}{"xpath": name()}}}}
	case 8:
		if depth < 2 {
			return map[string]interface{}{"xpath": r.PickStr(".", name()), "object": map[string]interface{}{"x": genDecl(r, names, depth+1), "y": genDecl(r, names, depth+1)}}
		}
		return map[string]interface{}{"xpath": name()}
	case 9:
		return map[string]interface{}{"array": []interface{}{map[string]interface{}{"xpath": name()}, constDecl("z")}}
	case 10:
		return map[string]interface{}{"xpath_dynamic": map[string]interface{}{"const": name()}}
	default:
		return map[string]interface{}{"custom_func": map[string]interface{}{"name": "copy"}, "xpath": r.PickStr(".", name())}
	}
}

func withTemplates(r *vh.Rng, td map[string]interface{}, names []string) {
	if !r.Chance(0.4) {
		return
	}
	td["tpl_leaf"] = map[string]interface{}{"xpath": names[r.Pick(len(names))]}
	td["tpl_obj"] = map[string]interface{}{"object": map[string]interface{}{"l": map[string]interface{}{"template": "tpl_leaf"}, "k": constDecl("k")}}
	if fo, ok := td["FINAL_OUTPUT"].(map[string]interface{}); ok {
		if ob, ok := fo["object"].(map[string]interface{}); ok {
			ob["t1"] = map[string]interface{}{"template": "tpl_obj"}
			ob["t2"] = map[string]interface{}{"template": "tpl_leaf"}
		}
	}
}

func settings(format string) map[string]interface{} {
	return map[string]interface{}{"version": "omni.2.1", "file_format_type": format}
}

func markTarget(r *vh.Rng, hs []*hnode) *hnode {
	all := flatten(hs)
	if r.Chance(0.07) {
		for _, h := range all {
			if r.Chance(0.5) {
				h.target = true
			}
		}
	}
	if r.Chance(0.8) {
		t := all[r.Pick(len(all))]
		t.target = true
		return t
	}
	return hs[0] // no explicit target: the first declaration is the default target
}

func colNames(h *hnode) []string {
	ns := []string{".", "c1", "c2", "c3", "nonexisting"}
	for _, k := range h.kids {
		ns = append(ns, k.name, k.name+"/c1")
	}
	return ns
}

func genSeed(r *vh.Rng) Seed {
	format := r.PickStr("csv", "csv2", "csv2", "edi", "edi", "fixed-length", "fixedlength2", "fixedlength2", "json", "xml")
	root := map[string]interface{}{"parser_settings": settings(format)}
	td := map[string]interface{}{}
	root["transform_declarations"] = td
	sd := Seed{Format: format, Origin: "generated", Name: "generated-" + format}
	switch format {
	case "csv":
		delim := r.PickStr(",", "|", "\t", ";", "é", "日")
		n := r.Between(1, 4)
		var cols []interface{}
		var names []string
		for i := 0; i < n; i++ {
			c := map[string]interface{}{"name": fmt.Sprintf("col %d", i+1)}
			nm := fmt.Sprintf("col %d", i+1)
			if r.Chance(0.7) {
				c["alias"] = fmt.Sprintf("c%d", i+1)
				nm = fmt.Sprintf("c%d", i+1)
			}
			names = append(names, nm)
			cols = append(cols, c)
		}
		fd := map[string]interface{}{"delimiter": delim, "columns": cols}
		hdr := 0
		data := r.Between(1, 4)
		if r.Chance(0.6) {
			hdr = r.Between(1, 2)
			data = hdr + r.Between(1, 2)
			fd["header_row_index"] = num(fmt.Sprint(hdr))
		}
		fd["data_row_index"] = num(fmt.Sprint(data))
		if r.Chance(0.3) {
			fd["replace_double_quotes"] = true
		}
		root["file_declaration"] = fd
		var clean []string
		for _, nm := range names {
			if !strings.Contains(nm, " ") {
				clean = append(clean, nm)
			}
		}
		clean = append(clean, ".", "nonexisting")
		td["FINAL_OUTPUT"] = finalOutputFor(r, clean, r.PickStr("", "", ".", ".[c1 != 'skip']"))
		sd.Delims = []string{delim, "\""}
		sd.Valid = func(r *vh.Rng) []byte {
			var sb strings.Builder
			for ln := 1; ln < data; ln++ {
				if ln == hdr {
					var hs []string
					for i := 0; i < n; i++ {
						hs = append(hs, fmt.Sprintf("col %d", i+1))
					}
					sb.WriteString(strings.Join(hs, delim) + "\n")
				} else {
					sb.WriteString("junk line\n")
				}
			}
			for i, k := 0, r.Between(0, 5); i < k; i++ {
				var fs []string
				for j := 0; j < n+r.Pick(2); j++ {
					fs = append(fs, r.PickStr("v", "12", "", "\"q q\"", "skip", "x y"))
				}
				sb.WriteString(strings.Join(fs, delim) + r.PickStr("\n", "\n", "\r\n"))
			}
			return []byte(sb.String())
		}
	case "csv2", "fixedlength2", "edi":
		cnt := 0
		hs := genHier(r, 0, &cnt, format == "edi")
		if r.Chance(0.06) {
			// a deep chain: every level a record holding the next level (stack growth of the readers)
			d := r.Between(6, 10)
			if format == "edi" {
				d = r.Between(6, 16)
			}
			var kid []*hnode
			for i := d; i >= 1; i-- {
				cnt++
				kid = []*hnode{{name: fmt.Sprintf("D%d", i), min: 0, max: -1, ncols: 1, kids: kid}}
			}
			hs = kid
		}
		tgt := markTarget(r, hs)
		fd := map[string]interface{}{}
		var line func(h *hnode, kind string) string
		switch format {
		case "csv2":
			delim := r.PickStr("|", ",", "\t", "é")
			fd["delimiter"] = delim
			if r.Chance(0.2) {
				fd["replace_double_quotes"] = true
			}
			fd["records"] = renderCSV2(hs)
			sd.Delims = []string{delim, "\""}
			line = func(h *hnode, kind string) string {
				p := h.name
				if kind == "footer" {
					p = "E" + h.name
				} else if kind == "mid" {
					p = "m"
				}
				return p + delim + r.PickStr("v", "1", "", "x y") + delim + r.PickStr("w", "2", "\"q\"") + delim + "z\n"
			}
		case "fixedlength2":
			fd["envelopes"] = renderFixed2(hs)
			sd.Delims = []string{" "}
			line = func(h *hnode, kind string) string {
				p := h.name
				if kind == "footer" {
					p = "E" + h.name
				} else if kind == "mid" {
					p = "mmm"
				}
				return pad3(p) + r.PickStr("abc", "12 ", "   ", "é日x") + r.PickStr("def", "3") + "ghi\n"
			}
		default:
			seg := r.PickStr("~", "\n", "~\n", "'", "|~")
			el := r.PickStr("*", "+", "|", "**")
			if strings.Contains(seg, el) || strings.Contains(el, seg) {
				el = "*"
				seg = "~"
			}
			fd["segment_delimiter"], fd["element_delimiter"] = seg, el
			comp := ""
			if r.Chance(0.6) {
				comp = r.PickStr(":", ">", "^")
				fd["component_delimiter"] = comp
			}
			if r.Chance(0.4) {
				fd["release_character"] = "?"
			}
			if r.Chance(0.3) {
				fd["repetition_delimiter"] = "!"
			}
			if r.Chance(0.5) {
				fd["ignore_crlf"] = r.Chance(0.7)
			}
			fd["segment_declarations"] = renderEDI(hs)
			sd.Delims = []string{seg, el, comp, "?"}
			line = func(h *hnode, kind string) string {
				c := "b"
				if comp != "" {
					c = "b" + comp + "b2"
				}
				return h.name + el + r.PickStr("a", "1", "") + el + c + el + "c" + seg
			}
		}
		root["file_declaration"] = fd
		td["FINAL_OUTPUT"] = finalOutputFor(r, colNames(tgt), "")
		ediDefault := format == "edi"
		sd.Valid = func(r *vh.Rng) []byte {
			var sb strings.Builder
			budget := 40
			emit(r, &sb, hs, line, ediDefault, &budget)
			return []byte(sb.String())
		}
	case "fixed-length":
		fd := map[string]interface{}{}
		mkCols := func(k int) []interface{} {
			var cols []interface{}
			for c := 0; c < k; c++ {
				col := map[string]interface{}{"name": fmt.Sprintf("c%d", c+1), "start_pos": num(fmt.Sprint(1 + 3*c)), "length": num(fmt.Sprint(r.Between(1, 4)))}
				if r.Chance(0.2) {
					col["line_pattern"] = r.PickStr("^H", "^[0-9]", ".")
				}
				cols = append(cols, col)
			}
			return cols
		}
		rows := 0
		var envNames []string
		if r.Chance(0.5) {
			rows = r.Between(1, 3)
			e := map[string]interface{}{"columns": mkCols(r.Between(1, 3))}
			if rows > 1 || r.Chance(0.5) {
				e["by_rows"] = num(fmt.Sprint(rows))
			}
			fd["envelopes"] = []interface{}{e}
		} else {
			k := r.Between(1, 3)
			var envs []interface{}
			tgt := r.Pick(k)
			for i := 0; i < k; i++ {
				nm := fmt.Sprintf("E%d", i+1)
				envNames = append(envNames, nm)
				e := map[string]interface{}{"name": nm, "by_header_footer": map[string]interface{}{"header": "^" + nm, "footer": r.PickStr("^"+nm, "^F"+nm)}}
				if r.Chance(0.8) {
					e["columns"] = mkCols(r.Between(1, 3))
				}
				if i != tgt {
					e["not_target"] = true
				}
				envs = append(envs, e)
			}
			fd["envelopes"] = envs
		}
		root["file_declaration"] = fd
		td["FINAL_OUTPUT"] = finalOutputFor(r, []string{"c1", "c2", "c3", ".", "nonexisting"}, "")
		sd.Delims = []string{" "}
		sd.Valid = func(r *vh.Rng) []byte {
			var sb strings.Builder
			for i, k := 0, r.Between(0, 5); i < k; i++ {
				if rows > 0 {
					for j := 0; j < rows; j++ {
						sb.WriteString(r.PickStr("H12abcdef", "123456789", "é日xyz", "ab") + "\n")
					}
				} else {
					nm := envNames[r.Pick(len(envNames))]
					sb.WriteString(nm + "abcdefgh\n")
					if r.Chance(0.5) {
						sb.WriteString("middle line\n")
					}
					sb.WriteString("F" + nm + "xyz\n")
				}
			}
			return []byte(sb.String())
		}
	case "json":
		x := r.PickStr("/*", "/*/*", "//n", "/r/n", "/r/n[a='x']", "//*[b]", "/r/*", ".", "/")
		td["FINAL_OUTPUT"] = finalOutputFor(r, []string{"a", "b", "c", ".", "n/a", "*", "nonexisting"}, x)
		sd.Delims = []string{",", "{", "[", ":", "}", "]", "\""}
		sd.Valid = func(r *vh.Rng) []byte { return []byte(genJSONDoc(r, 0)) }
	default:
		x := r.PickStr("/r/n", "//n", "/*/*", "/r/n[a='x']", "//*[b]", "/r", "/*", "n")
		td["FINAL_OUTPUT"] = finalOutputFor(r, []string{"a", "b", "c", ".", "@id", "n/a", "*", "nonexisting"}, x)
		sd.Delims = []string{"<", ">", "/", "&"}
		sd.Valid = func(r *vh.Rng) []byte { return []byte("<r>" + genXMLKids(r, 0) + "</r>") }
	}
	var names []string
	names = append(names, "c1", "a", ".")
	withTemplates(r, td, names)
	sd.Schema = render(root)
	return sd
}

func pad3(s string) string {
	for len(s) < 3 {
		s += " "
	}
	return s
}

func genJSONDoc(r *vh.Rng, depth int) string {
	if depth == 0 {
		switch r.Pick(4) {
		case 0:
			return `{"r":{"n":[` + genJSONRecs(r) + `]}}`
		case 1:
			return `[` + genJSONRecs(r) + `]`
		case 2:
			return `{"n":` + genJSONRec(r) + `,"m":[1,2,[3,{"a":null}]]}`
		default:
			return r.PickStr("1", `"x"`, "null", "true", "[]", "{}", "[[[]]]", `{"":{"":1}}`)
		}
	}
	return genJSONRec(r)
}

func genJSONRecs(r *vh.Rng) string {
	var xs []string
	for i, k := 0, r.Between(0, 4); i < k; i++ {
		xs = append(xs, genJSONRec(r))
	}
	return strings.Join(xs, ",")
}

func genJSONRec(r *vh.Rng) string {
	return fmt.Sprintf(`{"a":%s,"b":%s,"c":%s}`, r.PickStr(`"x"`, `"y"`, "1", "null", `{"a":"x"}`), r.PickStr("1", `"2"`, "1.5e3", "true", "[1,2]"), r.PickStr(`"z"`, `""`, "[]", `{"n":{"a":"x"}}`))
}

func genXMLKids(r *vh.Rng, depth int) string {
	var sb strings.Builder
	for i, k := 0, r.Between(0, 4); i < k; i++ {
		fmt.Fprintf(&sb, `<n id="%d"><a>%s</a><b>%s</b><c>%s</c>`, i, r.PickStr("x", "y", "", "&amp;", "<![CDATA[q]]>"), r.PickStr("1", "2", "z"), r.PickStr("t", " ", "é"))
		if depth < 2 && r.Chance(0.3) {
			sb.WriteString(genXMLKids(r, depth+1))
		}
		sb.WriteString("</n>")
		if r.Chance(0.3) {
			sb.WriteString("\n")
		}
	}
	return sb.String()
}

// ---- inputs ------------------------------------------------------------------------------------

// genInput produces one input of a named class for an accepted schema.
func genInput(r *vh.Rng, sd *Seed) ([]byte, string) {
	valid := sd.Valid(r)
	switch r.Pick(16) {
	case 14, 15:
		return wideUnits(r, sd, valid)
	case 0, 1:
		return valid, "valid"
	case 2, 3:
		out, kind := vh.Mutate(r, valid)
		return out, "damaged-" + kind
	case 4:
		// truncation at a prefix class: empty, one byte, inside, all but the last byte
		if len(valid) == 0 {
			return valid, "truncated-empty"
		}
		switch r.Pick(4) {
		case 0:
			return nil, "truncated-empty"
		case 1:
			return valid[:1], "truncated-1"
		case 2:
			return valid[:r.Pick(len(valid))], "truncated-inside"
		default:
			return valid[:len(valid)-1], "truncated-last"
		}
	case 5:
		return append(append([]byte(nil), valid...), valid...), "concatenated-twice"
	case 6:
		g := make([]byte, r.Between(1, 200))
		for i := range g {
			g[i] = byte(r.Pick(256))
		}
		return g, "binary-garbage"
	case 7:
		// very long lines: longer than bufio's 4096 and 65536 buffers
		n := pickInt(r, 4095, 4096, 4097, 5000, 65535, 65536, 65537, 70000)
		ch := r.PickStr("a", " ", "é", "\"")
		if len(sd.Delims) > 0 && sd.Delims[0] != "" && r.Chance(0.4) {
			ch = sd.Delims[0]
		}
		long := strings.Repeat(ch, n/len(ch))
		switch r.Pick(3) {
		case 0:
			return []byte(long), "long-line"
		case 1:
			return append([]byte(long+"\n"), valid...), "long-line+valid"
		default:
			p := r.Pick(len(valid) + 1)
			return append(append(append([]byte(nil), valid[:p]...), long...), valid[p:]...), "long-line-inside"
		}
	case 8:
		var sb strings.Builder
		for i, k := 0, r.Between(1, 60); i < k; i++ {
			d := ","
			if len(sd.Delims) > 0 {
				d = sd.Delims[r.Pick(len(sd.Delims))]
			}
			sb.WriteString(d)
			if r.Chance(0.1) {
				sb.WriteString("\n")
			}
		}
		return []byte(sb.String()), "only-delimiters"
	case 9:
		out := append([]byte(nil), valid...)
		for i, k := 0, r.Between(1, 4); i < k; i++ {
			p := r.Pick(len(out) + 1)
			out = append(out[:p:p], append([]byte{0}, out[p:]...)...)
		}
		if r.Chance(0.2) {
			out = make([]byte, r.Between(1, 50))
		}
		return out, "nul-bytes"
	case 10:
		out := append([]byte(nil), valid...)
		for i, k := 0, r.Between(1, 3); i < k; i++ {
			p := r.Pick(len(out) + 1)
			bad := []byte(r.PickStr("\xff", "\xfe\xff", "\xc3", "\xed\xa0\x80", "\xf4\x90\x80\x80", "\xe2\x82", "\xc0\xaf", "\xef\xbf\xbd"))
			out = append(out[:p:p], append(bad, out[p:]...)...)
		}
		return out, "invalid-utf8"
	case 11:
		return []byte(r.PickStr("\n", "\n\n\n", "\r", "\r\r", "\r\n", "\r\n\r\n", " ", "\t\n", "\n \n", "\xef\xbb\xbf", "\xef\xbb\xbf\n", "\xef\xbb", "\xff\xfe", "\xfe\xff")), "blank"
	case 12:
		return append([]byte("\xef\xbb\xbf"), valid...), "bom+valid"
	default:
		// a valid input with its line ends changed
		s := string(valid)
		switch r.Pick(3) {
		case 0:
			s = strings.ReplaceAll(s, "\n", "\r\n")
		case 1:
			s = strings.ReplaceAll(s, "\n", "\r")
		default:
			s = strings.TrimRight(s, "\n")
		}
		return []byte(s), "line-ends-changed"
	}
}

// widths: unit / element / column counts around the powers of two, 0..130.
var widths = []int{0, 1, 2, 3, 7, 8, 9, 15, 16, 17, 31, 32, 33, 62, 63, 64, 65, 66, 100, 126, 127, 128, 129, 130}

// wideUnits widens one unit of a valid input to a chosen number of elements / columns (EDI
// segment elements, csv columns), or repeats a line a chosen number of times.
func wideUnits(r *vh.Rng, sd *Seed, valid []byte) ([]byte, string) {
	n := widths[r.Pick(len(widths))]
	if r.Chance(0.15) {
		n = r.Between(0, 130)
	}
	switch sd.Format {
	case "edi":
		seg, el := "~", "*"
		if len(sd.Delims) >= 2 && sd.Delims[0] != "" && sd.Delims[1] != "" && sd.Origin != "sample" {
			seg, el = sd.Delims[0], sd.Delims[1]
		} else if sd.Origin == "sample" {
			seg = "\n"
			if !strings.Contains(string(valid), "*") {
				el = "|"
			}
		}
		segs := strings.Split(string(valid), seg)
		k := r.Pick(len(segs))
		name := segs[k]
		if i := strings.Index(name, el); i >= 0 {
			name = name[:i]
		}
		// the segment name followed by exactly n elements (and a variant with components)
		var sb strings.Builder
		sb.WriteString(name)
		for i := 0; i < n; i++ {
			sb.WriteString(el)
			sb.WriteString(r.PickStr("x", "", "1", "ab"))
		}
		segs[k] = sb.String()
		return []byte(strings.Join(segs, seg)), "wide-segment"
	case "csv", "csv2":
		d := ","
		if len(sd.Delims) > 0 && sd.Delims[0] != "" {
			d = sd.Delims[0]
		}
		lines := strings.SplitAfter(string(valid), "\n")
		k := r.Pick(len(lines))
		first := strings.TrimRight(lines[k], "\r\n")
		if i := strings.Index(first, d); i >= 0 {
			first = first[:i]
		}
		lines[k] = first + strings.Repeat(d+"v", n) + "\n"
		return []byte(strings.Join(lines, "")), "wide-row"
	}
	lines := strings.SplitAfter(string(valid), "\n")
	k := r.Pick(len(lines))
	if lines[k] == "" {
		lines[k] = "x\n"
	}
	lines[k] = strings.Repeat(lines[k], n)
	return []byte(strings.Join(lines, "")), "repeated-line"
}

// faultCuts: where the input reader starts to fail: at every line boundary, inside lines, at the
// very start and right at the end (a fault instead of io.EOF).
func faultCuts(r *vh.Rng, in []byte, k int) []int {
	var bounds []int
	for i, b := range in {
		if b == '\n' || b == '~' || b == '>' || b == '}' || b == ',' {
			bounds = append(bounds, i+1)
		}
	}
	cand := []int{0, len(in)}
	for j := 0; j < 4 && len(bounds) > 0; j++ {
		cand = append(cand, bounds[r.Pick(len(bounds))])
	}
	if len(in) > 0 {
		cand = append(cand, r.Pick(len(in)), r.Pick(len(in)))
	}
	var out []int
	for j := 0; j < k; j++ {
		out = append(out, cand[r.Pick(len(cand))])
	}
	return out
}
