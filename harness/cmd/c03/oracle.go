package main

import (
	"encoding/json"
	"fmt"
	"strconv"
)

// invariantBreach looks for declarations that break an invariant the hierarchy readers rely on and
// the in-code validators are there to establish (properties.jsonl, C03 mechanism "semantic
// validation: ... min<=max", hierarchyReader.go: "assuming our file format specific validation
// makes sure min <= max"; a group reads its first child unconditionally).  A schema that NewSchema
// ACCEPTS although it has such a declaration is reported: the readers' panic-freedom is proved
// (C05..C07) only for validated declarations.
func invariantBreach(tree interface{}) string {
	m, ok := tree.(map[string]interface{})
	if !ok {
		return ""
	}
	ps, _ := m["parser_settings"].(map[string]interface{})
	fd, _ := m["file_declaration"].(map[string]interface{})
	if ps == nil || fd == nil {
		return ""
	}
	format, _ := ps["file_format_type"].(string)
	var top, kids, group string
	defMin, defMax := int64(0), int64(-1)
	switch format {
	case "edi":
		top, kids, group = "segment_declarations", "child_segments", "segment_group"
		defMin, defMax = 1, 1
	case "csv2":
		top, kids, group = "records", "child_records", "record_group"
	case "fixedlength2":
		top, kids, group = "envelopes", "child_envelopes", "envelope_group"
	default:
		return ""
	}
	targets := 0
	var walk func(v interface{}, path string) string
	walk = func(v interface{}, path string) string {
		arr, ok := v.([]interface{})
		if !ok {
			return ""
		}
		for i, e := range arr {
			d, ok := e.(map[string]interface{})
			if !ok {
				continue
			}
			p := fmt.Sprintf("%s[%d]", path, i)
			if t, _ := d["is_target"].(bool); t {
				targets++
			}
			mn, mx := defMin, defMax
			okNum := true
			if n, has := d["min"]; has {
				if jn, isNum := n.(json.Number); isNum && plainInt(jn) {
					mn, _ = strconv.ParseInt(string(jn), 10, 64)
				} else {
					okNum = false
				}
			}
			if n, has := d["max"]; has {
				if jn, isNum := n.(json.Number); isNum && plainInt(jn) {
					mx, _ = strconv.ParseInt(string(jn), 10, 64)
				} else {
					okNum = false
				}
			}
			if okNum && mx >= 0 && mn > mx {
				return fmt.Sprintf("%s has min %d > max %d", p, mn, mx)
			}
			if t, _ := d["type"].(string); t == group {
				if ch, _ := d[kids].([]interface{}); len(ch) == 0 {
					return fmt.Sprintf("%s is a %s without children", p, group)
				}
			}
			if b := walk(d[kids], p+"."+kids); b != "" {
				return b
			}
		}
		return ""
	}
	if b := walk(fd[top], top); b != "" {
		return b
	}
	if targets > 1 {
		return fmt.Sprintf("%d declarations are marked is_target (the readers rely on exactly one)", targets)
	}
	return ""
}
