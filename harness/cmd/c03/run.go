package main

import (
	"bytes"
	"encoding/hex"
	"encoding/json"
	"errors"
	"fmt"
	"io"
	"os"
	"reflect"
	"runtime"
	"runtime/debug"
	"strings"
	"sync/atomic"
	"time"

	"github.com/jf-tech/omniparser"
	"github.com/jf-tech/omniparser/customfuncs"
	"github.com/jf-tech/omniparser/errs"
	v21 "github.com/jf-tech/omniparser/extensions/omniv21/customfuncs"
	v21validation "github.com/jf-tech/omniparser/extensions/omniv21/validation"
	"github.com/jf-tech/omniparser/transformctx"
	"github.com/jf-tech/omniparser/validation"
)

// readSlack is the constant C of the property's bound: a finite input of n bytes reaches a
// terminal result (io.EOF or an error that is not ErrTransformFailed) within n+C Reads.
const readSlack = 2

// Case is one (schema, input) pair.  This struct (these two fields only) is what vh.KeyOf hashes
// for KNOWN_FINDINGS keys, so it must stay stable.
type Case struct {
	Schema   string `json:"schema"`
	InputHex string `json:"input_hex"`
	// FaultAfter: after the input bytes the input reader fails persistently (a non-EOF error on
	// every further call) instead of reporting io.EOF.  Omitted when false, so the keys of the
	// cases recorded before this field existed are unchanged.
	FaultAfter bool `json:"fault_after,omitempty"`
}

// faultReader hands out data in chunks and then fails for ever.
type faultReader struct {
	data  []byte
	pos   int
	chunk int
}

var errInputFault = errors.New("verif: input reader fault (persistent)")

func (f *faultReader) Read(p []byte) (int, error) {
	if f.pos >= len(f.data) {
		return 0, errInputFault
	}
	n := len(f.data) - f.pos
	if f.chunk > 0 && n > f.chunk {
		n = f.chunk
	}
	if n > len(p) {
		n = len(p)
	}
	copy(p, f.data[f.pos:f.pos+n])
	f.pos += n
	return n, nil
}

func mkCase(schema, input []byte) Case {
	return Case{Schema: string(schema), InputHex: hex.EncodeToString(input)}
}
func (c Case) input() []byte { b, _ := hex.DecodeString(c.InputHex); return b }

// Outcome is what one run of the implementation on a case showed.
type Outcome struct {
	SchemaAccepted bool     `json:"schema_accepted"`
	SchemaErr      string   `json:"schema_err,omitempty"`
	Stage          string   `json:"stage"`          // where the run ended: NewSchema | NewTransform | Read
	Fail           string   `json:"fail,omitempty"` // "", panic, hang, no-terminal
	Site           string   `json:"site,omitempty"` // top non-runtime frame (function name) of a panic
	Panic          string   `json:"panic,omitempty"`
	Stack          []string `json:"stack,omitempty"`
	Reads          int      `json:"reads"`
	Records        int      `json:"records"`
	Failed         int      `json:"failed"`             // ErrTransformFailed results
	Terminal       string   `json:"terminal,omitempty"` // EOF | fatal | newtransform-error
	TerminalErr    string   `json:"terminal_err,omitempty"`
}

// Signature identifies a failure for minimisation: same kind of failure at the same place.
func (o *Outcome) Signature() string {
	if o.Fail == "" {
		return ""
	}
	return o.Fail + "@" + o.Stage + "@" + o.Site
}

var allFuncs = customfuncs.Merge(customfuncs.CommonCustomFuncs, v21.OmniV21CustomFuncs)

func extWith(extra customfuncs.CustomFuncs) []omniparser.Extension {
	if extra == nil {
		return nil
	}
	// an extension without a handler is skipped by NewSchema; to add functions while keeping the
	// built-in handler, the built-in CreateSchemaHandler is given explicitly
	return []omniparser.Extension{builtinExt(customfuncs.Merge(allFuncs, extra))}
}

// stackTop extracts the frames of a recovered panic: function names (no addresses) with file:line,
// starting below the runtime's panic frames.
func stackTop(st []byte) (site string, frames []string) {
	lines := strings.Split(string(st), "\n")
	// layout: "goroutine N [running]:", then pairs (function, \tfile:line +0x..)
	seenPanic := false
	for i := 1; i+1 < len(lines); i += 2 {
		fn := strings.TrimSpace(lines[i])
		loc := strings.TrimSpace(lines[i+1])
		if strings.HasPrefix(fn, "panic(") {
			seenPanic = true
			continue
		}
		if !seenPanic {
			continue
		}
		if k := strings.LastIndex(fn, "("); k > 0 {
			fn = fn[:k]
		}
		if k := strings.Index(loc, " +0x"); k > 0 {
			loc = loc[:k]
		}
		if strings.HasPrefix(fn, "runtime.") || strings.HasPrefix(fn, "main.") {
			if strings.HasPrefix(fn, "main.") {
				break
			}
			continue
		}
		// keep only the path below the module root so the text is stable across checkouts
		for _, mark := range []string{"/omniparser/", "/pkg/mod/", "/src/"} {
			if k := strings.Index(loc, mark); k >= 0 {
				loc = loc[k+len(mark):]
				break
			}
		}
		if site == "" {
			site = fn
		}
		frames = append(frames, fn+" "+loc)
		if len(frames) >= 8 {
			break
		}
	}
	return
}

type progress struct {
	stage atomic.Value // string
	tick  atomic.Int64 // unix nanos of the last completed call
	reads atomic.Int64
}

// watch runs fn in a worker goroutine under recover(); the caller's goroutine is the watchdog:
// if no call completes (pg.tick not advanced) within `deadline` the run is reported as a hang and
// the worker is abandoned.
func watch(o *Outcome, deadline time.Duration, fn func(o *Outcome, pg *progress)) *Outcome {
	done := make(chan *Outcome, 1)
	pg := &progress{}
	pg.stage.Store(o.Stage)
	pg.tick.Store(time.Now().UnixNano())
	go func() {
		defer func() {
			if r := recover(); r != nil {
				o.Fail = "panic"
				o.Panic = fmt.Sprint(r)
				if len(o.Panic) > 300 {
					o.Panic = o.Panic[:300]
				}
				o.Site, o.Stack = stackTop(debug.Stack())
				done <- o
			}
		}()
		fn(o, pg)
		done <- o
	}()
	tk := time.NewTicker(10 * time.Millisecond)
	defer tk.Stop()
	for {
		select {
		case r := <-done:
			return r
		case <-tk.C:
			if time.Since(time.Unix(0, pg.tick.Load())) > deadline {
				st := pg.stage.Load().(string)
				// a loaded machine can make a merely slow call look hung: before reporting, give
				// the call a grace period; if it returns within it, it was slow, not hung
				if grace > 0 {
					select {
					case r := <-done:
						slowCalls++
						return r
					case <-time.After(grace):
					}
					if time.Since(time.Unix(0, pg.tick.Load())) <= deadline {
						continue // progress was made during the grace period: keep watching
					}
				}
				hangs++
				return &Outcome{Stage: st, Fail: "hang", SchemaAccepted: st != "NewSchema", Reads: int(pg.reads.Load()),
					Panic: fmt.Sprintf("call to %s did not return within %v (after %d completed Reads)", st, deadline+grace, pg.reads.Load())}
			}
		}
	}
}

// grace is the extra time a call gets after the watchdog deadline before it is reported as hung
// (0 while minimising and for known-hang corpus cases).
var grace = 20 * time.Second
var slowCalls int

// guarded runs a small observation under recover() and a watchdog; "" = returned normally.
func guarded(deadline time.Duration, fn func()) string {
	done := make(chan string, 1)
	go func() {
		defer func() {
			if r := recover(); r != nil {
				site, _ := stackTop(debug.Stack())
				done <- fmt.Sprintf("panic: %v [at %s]", r, site)
			}
		}()
		fn()
		done <- ""
	}()
	select {
	case r := <-done:
		return r
	case <-time.After(deadline):
		hangs++
		return fmt.Sprintf("hang: did not return within %v", deadline)
	}
}

// ExecSchema runs NewSchema on arbitrary bytes.
func ExecSchema(schema []byte, extra customfuncs.CustomFuncs, deadline time.Duration) (*Outcome, omniparser.Schema) {
	curCase.Store(mkCase(schema, nil))
	noteInflight(mkCase(schema, nil))
	var sch omniparser.Schema
	o := watch(&Outcome{Stage: "NewSchema"}, deadline, func(o *Outcome, pg *progress) {
		s, err := omniparser.NewSchema("s", bytes.NewReader(schema), extWith(extra)...)
		if err != nil {
			if s != nil {
				o.Fail, o.Panic = "contract", "NewSchema returned both a schema and an error"
			}
			o.SchemaErr = err.Error()
			return
		}
		if s == nil || isNilIface(s) {
			o.Fail, o.Panic = "contract", "NewSchema returned (nil, nil)"
			return
		}
		o.SchemaAccepted = true
		sch = s
	})
	if o.Fail != "" {
		return o, nil
	}
	return o, sch
}

// ExecInput runs NewTransform and the Read loop of an accepted schema on a finite input.
func ExecInput(s omniparser.Schema, input []byte, deadline time.Duration) *Outcome {
	return execInput(s, input, false, deadline)
}

// ExecInputFault: the same over an input reader that fails persistently after the input bytes.
func ExecInputFault(s omniparser.Schema, input []byte, deadline time.Duration) *Outcome {
	return execInput(s, input, true, deadline)
}

func execInput(s omniparser.Schema, input []byte, fault bool, deadline time.Duration) *Outcome {
	cc := mkCase(s.Content(), input)
	cc.FaultAfter = fault
	curCase.Store(cc)
	noteInflight(cc)
	return watch(&Outcome{Stage: "NewTransform", SchemaAccepted: true}, deadline, func(o *Outcome, pg *progress) {
		var rd io.Reader = bytes.NewReader(input)
		if fault {
			rd = &faultReader{data: input, chunk: 1 + len(input)%7}
		}
		t, err := s.NewTransform("i", rd, &transformctx.Ctx{ExternalProperties: map[string]string{"e": "ext"}})
		pg.tick.Store(time.Now().UnixNano())
		if err != nil {
			o.Terminal, o.TerminalErr = "newtransform-error", err.Error()
			return
		}
		o.Stage = "Read"
		pg.stage.Store("Read")
		bound := len(input) + readSlack
		for o.Reads < bound {
			b, err := t.Read()
			o.Reads++
			pg.reads.Store(int64(o.Reads))
			pg.tick.Store(time.Now().UnixNano())
			switch {
			case err == nil:
				o.Records++
				if b == nil {
					o.Fail, o.Panic = "contract", "Read returned (nil, nil)"
					return
				}
			case err == io.EOF:
				o.Terminal = "EOF"
				return
			case errs.IsErrTransformFailed(err):
				o.Failed++
			default:
				o.Terminal, o.TerminalErr = "fatal", err.Error()
				return
			}
		}
		o.Fail = "no-terminal"
		o.Panic = fmt.Sprintf("no terminal result within len(input)+%d = %d Reads (%d records, %d failed)", readSlack, bound, o.Records, o.Failed)
	})
}

// Exec runs a whole case.
func Exec(c Case, extra customfuncs.CustomFuncs, deadline time.Duration) *Outcome {
	o, s := ExecSchema([]byte(c.Schema), extra, deadline)
	if s == nil {
		return o
	}
	return execInput(s, c.input(), c.FaultAfter, deadline)
}

// ---- memory watchdog ----------------------------------------------------------------------------
// A runaway worker cannot be stopped; when the heap passes memLimit the process records the case
// that was running (onBlowup) and exits before the kernel kills it.
var (
	curCase  atomic.Value // Case
	onBlowup func(c Case, heap uint64)
	memLimit = uint64(3) << 30
)

func startMemWatch() {
	go func() {
		var ms runtime.MemStats
		for {
			time.Sleep(50 * time.Millisecond)
			runtime.ReadMemStats(&ms)
			if ms.HeapAlloc > memLimit {
				c, _ := curCase.Load().(Case)
				if onBlowup != nil {
					onBlowup(c, ms.HeapAlloc)
				}
				os.Exit(0)
			}
		}
	}()
}

// hangs counts abandoned workers; each may keep a core busy, so the run stops generating when
// there are too many.
var hangs int

func isNilIface(v interface{}) bool {
	rv := reflect.ValueOf(v)
	return rv.Kind() == reflect.Ptr && rv.IsNil()
}

// rejectedBy classifies a NewSchema rejection for the histogram and the non-triviality rule without
// reading the error text: the harness re-runs the JSON-schema layer itself (the exported JSON
// schemas of the tree under test through validation.SchemaValidate).  "json" = not JSON,
// "jsonschema" = a JSON-schema layer rejects, "unsupported" = version/format nobody handles,
// "validator" = every JSON-schema layer passes, so the rejection comes from the in-code validators.
func rejectedBy(content []byte) string {
	if !json.Valid(content) {
		return "json"
	}
	if validation.SchemaValidate("s", content, validation.JSONSchemaParserSettings) != nil {
		return "jsonschema"
	}
	var h struct {
		PS struct {
			Version string `json:"version"`
			Format  string `json:"file_format_type"`
		} `json:"parser_settings"`
	}
	_ = json.Unmarshal(content, &h)
	if h.PS.Version != "omni.2.1" {
		return "unsupported"
	}
	if validation.SchemaValidate("s", content, v21validation.JSONSchemaTransformDeclarations) != nil {
		return "jsonschema"
	}
	var js string
	switch h.PS.Format {
	case "csv":
		js = v21validation.JSONSchemaCSVFileDeclaration
	case "csv2":
		js = v21validation.JSONSchemaCSV2FileDeclaration
	case "edi":
		js = v21validation.JSONSchemaEDIFileDeclaration
	case "fixed-length":
		js = v21validation.JSONSchemaFixedLengthFileDeclaration
	case "fixedlength2":
		js = v21validation.JSONSchemaFixedLength2FileDeclaration
	case "json", "xml":
		return "validator"
	default:
		return "unsupported"
	}
	if validation.SchemaValidate("s", content, js) != nil {
		return "jsonschema"
	}
	return "validator"
}
