// c03: search + correspondence harness for property C03 (no panic, no hang: schemas and inputs
// are untrusted data).
package main

import (
	"encoding/json"
	"fmt"
	"os"
	"path/filepath"
	"sort"
	"strings"
	"time"

	"github.com/jf-tech/omniparser"

	"verifharness/vh"
)

var watchdog = 5 * time.Second

func pickInt(r *vh.Rng, xs ...int) int { return xs[r.Pick(len(xs))] }

type corpusCase struct {
	Name       string `json:"name"`
	Expect     string `json:"expect"` // "pass": a repaired defect that must stay repaired; "finding": a known finding
	Note       string `json:"note"`
	Schema     string `json:"schema"`
	InputHex   string `json:"input_hex"`
	FaultAfter bool   `json:"fault_after"`
	Defer      bool   `json:"defer"`   // a known hang: run at the end of the run (its worker cannot be stopped)
	Isolate    bool   `json:"isolate"` // a known fatal runtime error: run in a process of its own
}

type failReport struct {
	Outcome     *Outcome `json:"outcome"`
	Origin      string   `json:"origin"`
	Mutations   []string `json:"mutations,omitempty"`
	InputKind   string   `json:"input_kind,omitempty"`
	Probes      int      `json:"minimisation_probes"`
	SchemaBytes int      `json:"schema_bytes_before_minimisation"`
	InputBytes  int      `json:"input_bytes_before_minimisation"`
}

type runner struct {
	o         *vh.Opts
	r         *vh.Rng
	sum       *vh.Summary
	cw        *vh.CaseWriter
	seenSig   map[string]bool
	minimised int
	noguard   bool
}

func whatOf(o *Outcome) string {
	switch o.Fail {
	case "panic":
		return fmt.Sprintf("panic escaped %s: %s [at %s]", o.Stage, o.Panic, o.Site)
	case "hang":
		return fmt.Sprintf("hang: %s", o.Panic)
	case "no-terminal":
		return "finite input did not reach a terminal result: " + o.Panic
	case "memory":
		return "memory exhaustion: " + o.Panic
	case "fatal":
		return "unrecoverable runtime failure (the process died, recover() cannot catch it): " + o.Panic
	}
	return o.Fail + ": " + o.Panic
}

// report minimises a failing case (first of its signature in this run) and records it.
func (x *runner) report(c Case, o *Outcome, origin string, muts []string, inKind string) {
	sig := o.Signature()
	x.sum.Hist("FAIL:" + o.Fail + "@" + o.Stage)
	if x.seenSig[sig] {
		return
	}
	x.seenSig[sig] = true
	rep := failReport{Outcome: o, Origin: origin, Mutations: muts, InputKind: inKind, SchemaBytes: len(c.Schema), InputBytes: len(c.InputHex) / 2}
	min := c
	if x.minimised < 8 {
		x.minimised++
		dl, budget := 2*time.Second, 1500
		if o.Fail == "hang" {
			dl, budget = 1500*time.Millisecond, 60
		}
		if o.Fail == "no-terminal" {
			budget = 400
		}
		min, rep.Probes = minimise(c, sig, nil, dl, budget)
		grace = 20 * time.Second
		if o2 := Exec(min, nil, watchdog); o2.Signature() == sig {
			rep.Outcome = o2
		} else {
			min = c
		}
	}
	fmt.Printf("FAILURE %s\n  schema: %s\n  input_hex: %s\n  fault_after: %v\n", whatOf(rep.Outcome), min.Schema, min.InputHex, min.FaultAfter)
	for _, f := range rep.Outcome.Stack {
		fmt.Println("    ", f)
	}
	what := whatOf(rep.Outcome)
	if min.FaultAfter {
		what += " [input reader failing persistently after the input bytes]"
	}
	x.sum.Fail(what, min, rep)
}

func (x *runner) runCorpus(deferred bool) {
	if x.o.Corpus == "" {
		return
	}
	files, _ := filepath.Glob(filepath.Join(x.o.Corpus, "*.json"))
	sort.Strings(files)
	for _, f := range files {
		b, err := os.ReadFile(f)
		if err != nil {
			continue
		}
		var cc corpusCase
		if json.Unmarshal(b, &cc) != nil {
			x.sum.Fail("corpus file unreadable", map[string]string{"file": filepath.Base(f)}, nil)
			continue
		}
		if cc.Defer != deferred {
			continue
		}
		c := Case{Schema: cc.Schema, InputHex: cc.InputHex, FaultAfter: cc.FaultAfter}
		dl := watchdog
		if cc.Expect == "finding" {
			dl = 2 * time.Second // a known hang need not cost the full watchdog on every run
		}
		var o *Outcome
		savedGrace := grace
		if cc.Expect == "finding" {
			grace = 0
		}
		if cc.Isolate {
			o = ExecIsolated(c)
		} else {
			o = Exec(c, nil, dl)
		}
		grace = savedGrace
		x.sum.Count("corpus:"+cc.Name, true)
		switch {
		case o.Fail == "":
			x.sum.Hist("corpus:" + cc.Expect + ":passes")
		case cc.Expect == "finding":
			x.sum.Hist("corpus:finding:still-fails")
			x.sum.Fail(whatOf(o), c, map[string]interface{}{"corpus": cc.Name, "note": cc.Note, "outcome": o})
		default:
			x.sum.Hist("corpus:pass:FAILS")
			fmt.Printf("CORPUS REGRESSION %s: %s\n", cc.Name, whatOf(o))
			x.sum.Fail("regression of a repaired defect ("+cc.Name+"): "+whatOf(o), c, map[string]interface{}{"corpus": cc.Name, "note": cc.Note, "outcome": o})
		}
	}
}

func (x *runner) runReplay() bool {
	if x.o.Replay == "" {
		return false
	}
	b, err := os.ReadFile(x.o.Replay)
	if err != nil {
		fmt.Println("cannot read replay:", err)
		return true
	}
	var rp struct {
		Case json.RawMessage `json:"case"`
	}
	_ = json.Unmarshal(b, &rp)
	var c Case
	if json.Unmarshal(rp.Case, &c) != nil || c.Schema == "" && c.InputHex == "" {
		fmt.Println("replay file carries no (schema, input_hex) case; nothing to re-run on the implementation")
		return true
	}
	o := Exec(c, nil, watchdog)
	ob, _ := json.MarshalIndent(o, "", " ")
	fmt.Printf("replay on the current tree:\n schema: %s\n input_hex: %s\n implementation: %s\n model/property: NewSchema, NewTransform and every Read return normally; terminal result within len(input)+%d Reads\n",
		c.Schema, c.InputHex, ob, readSlack)
	x.sum.Count("replay", true)
	if o.Fail != "" {
		x.sum.Fail(whatOf(o), c, o)
	}
	return true
}

func main() {
	o := vh.ParseOpts()
	if f := os.Getenv("C03_ONECASE"); f != "" {
		runOneCase(f)
	}
	if os.Getenv("C03_CHILD") == "" && os.Getenv("C03_EXPLORE") == "" {
		supervise(o)
		return
	}
	inflightFile = inflightPath(o)
	r := vh.NewRng(o.Seed)
	sum := vh.NewSummary("C03", o,
		"(schema, input) pairs run through NewSchema / NewTransform / Read loop under recover() and a watchdog; non-trivial = a MUTATED schema that NewSchema accepts and whose Read loop runs on a damaged (not valid) input, or a schema rejected by the in-code validators (not the JSON-schema layer); distinct by (schema text, input bytes). Plus correspondence cases of the transcribed pure functions (all counted non-trivial when the mechanism is exercised)")
	cw := vh.NewCaseWriter(o, "C03", "Model.Safety", "c03case", "check_case")
	x := &runner{o: o, r: r, sum: sum, cw: cw, seenSig: map[string]bool{}, noguard: false}
	for _, g := range strings.Split(os.Getenv("C03_NOGUARD"), ",") {
		if g != "" {
			guardsOff[g] = true
		}
	}
	sum.Extra["read_bound"] = fmt.Sprintf("len(input)+%d Reads", readSlack)
	sum.Extra["watchdog_seconds"] = watchdog.Seconds()
	sum.Extra["third_party_note"] = "panics/hangs inside gojsonschema, antchfx/xpath, goja, encoding/*, regexp are searched for by this harness only; their absence is not proved"

	onBlowup = func(c Case, heap uint64) {
		fmt.Printf("FAILURE memory: heap grew to %d MB while running\n  schema: %s\n  input_hex: %.400s\n", heap>>20, c.Schema, c.InputHex)
		sum.Fail(fmt.Sprintf("memory exhaustion: heap grew past %d MB during one call", memLimit>>20), c, map[string]interface{}{"heap_bytes": heap})
		cw.Flush()
		sum.CaseFiles = cw.Files
		sum.Write(o)
	}
	startMemWatch()
	if os.Getenv("C03_EXPLORE") == "ints" {
		exploreInts(r)
	}
	if x.runReplay() {
		sum.Write(o)
		return
	}
	x.runCorpus(false)
	ts := time.Now()
	x.sweeps()
	sum.Extra["sweep_seconds"] = time.Since(ts).Seconds()

	seeds := append(fixtureSeeds(), sampleSeeds()...)
	sum.Extra["sample_schemas_loaded"] = len(seeds) - 7
	nSchemas := o.Count(1200, 40000)
	inputsPer := 3
	t0 := time.Now()
	for i := 0; i < nSchemas && hangs < 4; i++ {
		var sd Seed
		switch {
		case r.Chance(0.3):
			sd = seeds[r.Pick(7)]
		case r.Chance(0.4) && len(seeds) > 7:
			sd = seeds[7+r.Pick(len(seeds)-7)]
		default:
			sd = genSeed(r)
		}
		x.one(&sd, inputsPer)
	}
	sum.Extra["fuzz_seconds"] = time.Since(t0).Seconds()
	sum.Extra["abandoned_hung_workers"] = hangs
	sum.Extra["slow_calls_over_watchdog_but_within_grace"] = slowCalls

	t1 := time.Now()
	if hangs >= 4 {
		// several calls never returned: each abandoned worker keeps a core busy; report what was
		// found rather than running into the harness timeout
		sum.Extra["aborted_after_hangs"] = hangs
		x.runCorpus(true)
		cw.Flush()
		sum.CaseFiles = cw.Files
		sum.Write(o)
		return
	}
	correspondence(r, sum, cw, o.Count(250, 5000))
	correspondenceIntLits(r, sum, cw, o.Count(250, 5000))
	correspondenceReaders(r, sum, cw, o.Count(200, 4000))
	sum.Extra["correspondence_seconds"] = time.Since(t1).Seconds()

	x.runCorpus(true)
	cw.Flush()
	sum.CaseFiles = cw.Files
	sum.Write(o)
}

// one runs one schema candidate derived from a seed, and inputs for it when accepted.
func (x *runner) one(sd *Seed, inputsPer int) {
	r, sum := x.r, x.sum
	schema := sd.Schema
	var muts []string
	mutated := false
	if !r.Chance(0.12) {
		mutated = true
		if r.Chance(0.12) {
			var k string
			schema, k = mutateBytes(r, schema)
			muts = append(muts, k)
		} else if tree, ok := parseJSON(schema); ok {
			for j, k := 0, r.Between(1, 3); j < k; j++ {
				muts = append(muts, mutateSchema(r, &tree, !x.noguard))
			}
			if !x.noguard {
				if g := guardViolation(tree); g != "" {
					sum.Hist("guard-skip:" + g)
					return
				}
			}
			schema = render(tree)
		}
	} else if !x.noguard {
		if tree, ok := parseJSON(schema); ok && guardViolation(tree) != "" {
			sum.Hist("guard-skip:pristine")
			return
		}
	}
	for _, m := range muts {
		sum.Hist("mutation:" + m)
	}
	if !mutated {
		sum.Hist("mutation:pristine")
	}
	sum.Hist("seed:" + sd.Origin)
	os_, sch := ExecSchema(schema, nil, watchdog)
	if os_.Fail != "" {
		x.report(mkCase(schema, nil), os_, sd.Name, muts, "")
		sum.Count(string(schema), false)
		return
	}
	if !os_.SchemaAccepted {
		by := rejectedBy(schema)
		sum.Hist("schema:" + sd.Format + ":rejected-" + by)
		sum.Count("S:"+string(schema), by == "validator")
		if by == "validator" && mutated {
			sum.Sample(map[string]interface{}{"schema": string(schema), "mutations": muts, "rejected_by_validator": os_.SchemaErr})
		}
		return
	}
	sum.Hist("schema:" + sd.Format + ":accepted")
	if tree, ok := parseJSON(schema); ok && mutated {
		if b := invariantBreach(tree); b != "" {
			sum.Hist("FAIL:validator-accepted-invariant-breach")
			if !x.seenSig["breach"] {
				x.seenSig["breach"] = true
				fmt.Printf("FAILURE NewSchema accepted %s\n  schema: %s\n", b, schema)
				sum.Fail("NewSchema accepted a declaration that breaks a reader invariant the validators establish (reader panic-freedom is proved for validated declarations only): "+b,
					mkCase(schema, nil), map[string]interface{}{"origin": sd.Name, "mutations": muts})
			}
		}
	}
	if !mutated && sd.Origin != "generated" {
		sum.Hist("schema:pristine-accepted")
	}
	x.faultRuns(sd, sch, schema, muts, 1)
	for k := 0; k < inputsPer; k++ {
		in, kind := genInput(r, sd)
		sum.Hist("input:" + strings.SplitN(kind, "+", 2)[0])
		oi := ExecInput(sch, in, watchdog)
		damaged := kind != "valid"
		sum.Count("S:"+string(schema)+"\x00I:"+string(in), mutated && damaged && oi.Stage == "Read")
		if oi.Fail != "" {
			x.report(mkCase(schema, in), oi, sd.Name, muts, kind)
			continue
		}
		cls := oi.Terminal
		if cls == "fatal" || cls == "EOF" {
			cls = fmt.Sprintf("%s(records=%s,failed=%s)", cls, bucket(oi.Records), bucket(oi.Failed))
		}
		sum.Hist("read-outcome:" + cls)
		if oi.Stage == "Read" {
			x.cw.Add(fmt.Sprintf("CBound %s %s", vh.CoqN(len(in)), vh.CoqN(oi.Reads)),
				map[string]interface{}{"kind": "bound", "schema": string(schema), "input_hex": fmt.Sprintf("%x", clip(in)), "reads": oi.Reads, "terminal": oi.Terminal})
		}
		if mutated && damaged && oi.Stage == "Read" {
			sum.Sample(map[string]interface{}{"schema": string(schema), "mutations": muts, "input_kind": kind, "input_hex": fmt.Sprintf("%x", clip(in)), "outcome": oi})
		}
	}
}

// faultRuns: the same accepted schema over an input reader that fails persistently at chosen
// positions of a valid-ish input; the transform must still reach a terminal result within the
// bound (bytes handed out + readSlack Reads), without panic or hang.
func (x *runner) faultRuns(sd *Seed, sch omniparser.Schema, schema []byte, muts []string, n int) {
	r, sum := x.r, x.sum
	in := sd.Valid(r)
	if r.Chance(0.2) {
		in, _ = genInput(r, sd)
		if len(in) > 3000 {
			in = in[:3000]
		}
	}
	for _, cut := range faultCuts(r, in, n) {
		prefix := in[:cut]
		where := "inside"
		switch {
		case cut == 0:
			where = "at-start"
		case cut == len(in):
			where = "at-end"
		case in[cut-1] == '\n':
			where = "at-line-boundary"
		}
		sum.Hist("input:reader-fault-" + where)
		oi := ExecInputFault(sch, prefix, watchdog)
		sum.Count("S:"+string(schema)+"\x00F:"+string(prefix), oi.Stage == "Read")
		if oi.Fail != "" {
			c := mkCase(schema, prefix)
			c.FaultAfter = true
			x.report(c, oi, sd.Name, muts, "reader-fault-"+where)
			continue
		}
		cls := oi.Terminal
		if cls == "EOF" {
			sum.Hist("read-outcome-after-fault:EOF (the fault was swallowed)")
		} else {
			sum.Hist("read-outcome-after-fault:" + cls)
		}
		if oi.Stage == "Read" {
			x.cw.Add(fmt.Sprintf("CBound %s %s", vh.CoqN(len(prefix)), vh.CoqN(oi.Reads)),
				map[string]interface{}{"kind": "bound", "fault_after": true, "schema": string(schema), "input_hex": fmt.Sprintf("%x", clip(prefix)), "reads": oi.Reads, "terminal": oi.Terminal})
		}
	}
}

func clip(b []byte) []byte {
	if len(b) > 400 {
		return b[:400]
	}
	return b
}

func bucket(n int) string {
	switch {
	case n == 0:
		return "0"
	case n == 1:
		return "1"
	case n < 10:
		return "2-9"
	}
	return "10+"
}
