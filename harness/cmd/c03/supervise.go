package main

import (
	"bytes"
	"encoding/json"
	"fmt"
	"os"
	"os/exec"
	"path/filepath"
	"strings"
	"time"

	"verifharness/vh"
)

// Some failures cannot be caught by recover(): a Go "fatal error" (stack overflow, concurrent map
// access, out of memory) kills the process.  The harness therefore runs as a supervisor + worker
// pair: the worker (C03_CHILD=1) records the case it is about to run in <out>/inflight.json and
// does all the work; if it dies, the supervisor turns the in-flight case into the reported
// failure, so that bin/check still gets a concrete replay.

func inflightPath(o *vh.Opts) string { return filepath.Join(o.Out, "inflight.json") }

var inflightFile string

func noteInflight(c Case) {
	if inflightFile == "" {
		return
	}
	b, _ := json.Marshal(c)
	_ = os.WriteFile(inflightFile, b, 0o644)
}

func firstFatalLine(stderr string) string {
	for _, ln := range strings.Split(stderr, "\n") {
		if strings.HasPrefix(ln, "fatal error:") || strings.HasPrefix(ln, "runtime:") || strings.HasPrefix(ln, "panic:") {
			return ln
		}
	}
	if len(stderr) > 200 {
		return stderr[:200]
	}
	return stderr
}

func omniFrames(stderr string) []string {
	var out []string
	for _, ln := range strings.Split(stderr, "\n") {
		if strings.Contains(ln, "jf-tech/omniparser") && !strings.HasPrefix(ln, "\t") {
			if k := strings.LastIndex(ln, "("); k > 0 {
				ln = ln[:k]
			}
			out = append(out, ln)
			if len(out) >= 6 {
				break
			}
		}
	}
	return out
}

// supervise runs the worker; returns true when the worker completed by itself.
func supervise(o *vh.Opts) bool {
	_ = os.Remove(inflightPath(o))
	cmd := exec.Command(os.Args[0], os.Args[1:]...)
	cmd.Env = append(os.Environ(), "C03_CHILD=1")
	cmd.Stdout = os.Stdout
	var eb bytes.Buffer
	cmd.Stderr = &eb
	err := cmd.Run()
	if err == nil {
		if _, e := os.Stat(filepath.Join(o.Out, "summary.json")); e == nil {
			return true
		}
	}
	stderr := eb.String()
	if len(stderr) > 1<<20 {
		stderr = stderr[:1<<20]
	}
	if !strings.Contains(stderr, "fatal error:") {
		// an ordinary panic that escaped the worker is a defect of this harness (every call into the
		// implementation runs under recover()), not a property verdict: fail loudly without a summary
		tail := stderr
		if len(tail) > 3000 {
			tail = tail[:3000]
		}
		fmt.Printf("HARNESS CRASH (not a property verdict): %v\n%s\n", err, tail)
		os.Exit(2)
	}
	sum := vh.NewSummary("C03", o, "worker process died; only the in-flight case is reported")
	var c Case
	if b, e := os.ReadFile(inflightPath(o)); e == nil {
		_ = json.Unmarshal(b, &c)
	}
	what := "unrecoverable runtime failure (the process died, recover() cannot catch it): " + firstFatalLine(stderr)
	fmt.Printf("FAILURE %s\n  schema: %s\n  input_hex: %.400s\n", what, c.Schema, c.InputHex)
	for _, f := range omniFrames(stderr) {
		fmt.Println("    ", f)
	}
	sum.Count("fatal", true)
	sum.Fail(what, c, map[string]interface{}{"exit": fmt.Sprint(err), "frames": omniFrames(stderr)})
	sum.Write(o)
	return false
}

// ExecIsolated runs one case in a process of its own (corpus cases marked "isolate": known fatal
// failures must not take the worker down).
func ExecIsolated(c Case) *Outcome {
	f, err := os.CreateTemp("", "c03case*.json")
	if err != nil {
		return &Outcome{Fail: "harness", Panic: err.Error()}
	}
	defer os.Remove(f.Name())
	b, _ := json.Marshal(c)
	_, _ = f.Write(b)
	_ = f.Close()
	cmd := exec.Command(os.Args[0], "-out", os.TempDir())
	cmd.Env = append(os.Environ(), "C03_ONECASE="+f.Name(), "C03_CHILD=1")
	var ob, eb bytes.Buffer
	cmd.Stdout, cmd.Stderr = &ob, &eb
	if err := cmd.Run(); err != nil {
		return &Outcome{Stage: "Read", SchemaAccepted: true, Fail: "fatal", Site: strings.Join(omniFrames(eb.String()), " <- "),
			Panic: firstFatalLine(eb.String()), Stack: omniFrames(eb.String())}
	}
	var o Outcome
	if json.Unmarshal(ob.Bytes(), &o) != nil {
		return &Outcome{Fail: "harness", Panic: "isolated run printed no outcome"}
	}
	return &o
}

func runOneCase(path string) {
	b, _ := os.ReadFile(path)
	var c Case
	_ = json.Unmarshal(b, &c)
	// a process of its own for one (known bad) case: a low memory cap and no grace period
	memLimit = uint64(1) << 30
	grace = 0
	onBlowup = func(c Case, heap uint64) {
		ob, _ := json.Marshal(&Outcome{Stage: "Read", SchemaAccepted: true, Fail: "memory",
			Panic: fmt.Sprintf("heap grew past %d MB during one call", memLimit>>20)})
		fmt.Println(string(ob))
	}
	startMemWatch()
	o := Exec(c, nil, 3*time.Second)
	ob, _ := json.Marshal(o)
	fmt.Println(string(ob))
	os.Exit(0)
}
