package main

import (
	"time"

	"github.com/jf-tech/omniparser/customfuncs"
)

// minimise shrinks a failing case while the failure keeps its signature (same kind of failure
// at the same stage and panic site): delta debugging over the input bytes, then greedy deletion
// of JSON members / array elements of the schema (or delta debugging over the schema bytes when
// the schema is not JSON), then simplification of the remaining long strings.
func minimise(c Case, sig string, extra customfuncs.CustomFuncs, deadline time.Duration, budget int) (Case, int) {
	probes := 0
	saved := grace
	grace = 0
	defer func() { grace = saved }()
	test := func(x Case) bool {
		if probes >= budget {
			return false
		}
		probes++
		return Exec(x, extra, deadline).Signature() == sig
	}
	// 1. input bytes
	in := ddmin(c.input(), func(b []byte) bool { return test(withFault(mkCase([]byte(c.Schema), b), c.FaultAfter)) })
	c = withFault(mkCase([]byte(c.Schema), in), c.FaultAfter)
	// 2. schema
	tree, ok := parseJSON([]byte(c.Schema))
	if !ok {
		sb := ddmin([]byte(c.Schema), func(b []byte) bool { return test(withFault(mkCase(b, in), c.FaultAfter)) })
		return withFault(mkCase(sb, in), c.FaultAfter), probes
	}
	if test(withFault(mkCase(render(tree), in), c.FaultAfter)) { // canonical rendering keeps the failure
		c = withFault(mkCase(render(tree), in), c.FaultAfter)
	} else {
		return c, probes
	}
	// pre-order: a parent is tried before its members, so whole subtrees go first
	for changed := true; changed && probes < budget; {
		changed = false
		for i := 0; probes < budget; {
			cand := clone(tree)
			ss := allSlots(&cand)
			if i >= len(ss) {
				break
			}
			ss[i].del()
			if test(withFault(mkCase(render(cand), in), c.FaultAfter)) {
				tree = cand
				changed = true
			} else {
				i++
			}
		}
	}
	// 3. long strings -> short
	for i := 0; probes < budget; i++ {
		ss := allSlots(&tree)
		if i >= len(ss) {
			break
		}
		if s, ok := ss[i].get().(string); ok && len(s) > 8 {
			for _, repl := range []string{"x", s[:len(s)/2], s[:8]} {
				cand := clone(tree)
				allSlots(&cand)[i].set(repl)
				if test(withFault(mkCase(render(cand), in), c.FaultAfter)) {
					tree = cand
					break
				}
			}
		}
	}
	c = withFault(mkCase(render(tree), in), c.FaultAfter)
	// the input once more: a smaller schema may need less input
	in = ddmin(in, func(b []byte) bool { return test(withFault(mkCase([]byte(c.Schema), b), c.FaultAfter)) })
	return withFault(mkCase([]byte(c.Schema), in), c.FaultAfter), probes
}

// ddmin is Zeller's delta debugging restricted to removing chunks.
func ddmin(b []byte, fails func([]byte) bool) []byte {
	if len(b) == 0 {
		return b
	}
	if fails(nil) {
		return nil
	}
	n := 2
	for len(b) >= 2 {
		chunk := (len(b) + n - 1) / n
		reduced := false
		for start := 0; start < len(b); start += chunk {
			end := start + chunk
			if end > len(b) {
				end = len(b)
			}
			cand := append(append([]byte(nil), b[:start]...), b[end:]...)
			if len(cand) < len(b) && fails(cand) {
				b = cand
				if n > 2 {
					n--
				}
				reduced = true
				break
			}
		}
		if !reduced {
			if n >= len(b) {
				break
			}
			n *= 2
			if n > len(b) {
				n = len(b)
			}
		}
	}
	return b
}

func withFault(c Case, fault bool) Case { c.FaultAfter = fault; return c }
