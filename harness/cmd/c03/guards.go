package main

import (
	"encoding/json"
	"strconv"
	"strings"
)

// The guard hypotheses of the known findings (KNOWN_FINDINGS.txt, property C03).  The main
// generators stay inside them; the recorded failing inputs are replayed from the corpus.
//
//	tpl_small       the total size of the template expansion (number of declaration nodes after
//	                copying every referenced template at every reference site) is <= 50000 (N3).
//	groups_small    csv2 `child_records` / fixedlength2 `child_envelopes`: their JSON schema is a
//	                `oneOf` of three alternatives that all recurse into the children, which
//	                gojsonschema evaluates in time cost(list) = sum over elements of
//	                3 * (1 + cost(children)); the guard is cost <= 100000 (about 0.6 s) (N4).
//	js_no_map_set   javascript sources come from the generator's pools without Map / Set results:
//	                goja's own export of a Map / Set that contains itself overflows the stack (N8).
//	xpath_no_top_connective  no xpath string (value of an `xpath` member, any string below `xpath_dynamic`)
//	                has an `and` / `or` outside predicates and quotes (N12).
//
// The guards int_plain, xd_no_null, xpath_plain and js_export_total of the first round are gone:
// N1, N2, N5, N6, N7 are repaired and the generators exercise those classes; so is N10 (guard
// csv_rows_small of round 4): failing-reader runs use any header / data row index.
func guardViolation(tree interface{}) string {
	if on("xpath_no_top_connective") && !xpathsNoConnective(tree, false) {
		return "xpath_no_top_connective"
	}
	if on("groups_small") && groupCost(tree) > 100000 {
		return "groups_small"
	}
	if on("tpl_small") && expansionSize(tree) > 50000 {
		return "tpl_small"
	}
	return ""
}

func plainInt(n json.Number) bool {
	s := string(n)
	if strings.ContainsAny(s, ".eE") {
		return false
	}
	_, err := strconv.ParseInt(s, 10, 64)
	return err == nil
}

// expansionSize computes how many declaration nodes ValidateTransformDeclarations visits when it
// expands FINAL_OUTPUT (every template reference copies the template).  Cycles count as 1 (they
// are rejected when met).  Saturates at 1<<40.
func expansionSize(tree interface{}) int64 {
	m, ok := tree.(map[string]interface{})
	if !ok {
		return 0
	}
	td, ok := m["transform_declarations"].(map[string]interface{})
	if !ok {
		return 0
	}
	memo := map[string]int64{}
	onStack := map[string]bool{}
	const cap = int64(1) << 40
	var size func(v interface{}) int64
	var tsize func(name string) int64
	tsize = func(name string) int64 {
		if s, ok := memo[name]; ok {
			return s
		}
		if onStack[name] {
			return 1
		}
		d, ok := td[name]
		if !ok {
			return 1
		}
		onStack[name] = true
		s := size(d)
		onStack[name] = false
		memo[name] = s
		return s
	}
	size = func(v interface{}) int64 {
		var s int64 = 1
		switch x := v.(type) {
		case map[string]interface{}:
			// resolveKind order: const, external, custom_func, custom_parse, object, array, template
			if t, ok := x["template"].(string); ok && x["const"] == nil && x["external"] == nil && x["custom_func"] == nil && x["custom_parse"] == nil && x["object"] == nil && x["array"] == nil {
				s += tsize(t)
			}
			for _, k := range keysOf(x) {
				if k == "template" {
					continue
				}
				s += size(x[k])
				if s > cap {
					return cap
				}
			}
		case []interface{}:
			for _, e := range x {
				s += size(e)
				if s > cap {
					return cap
				}
			}
		}
		if s > cap {
			return cap
		}
		return s
	}
	return size(td["FINAL_OUTPUT"])
}

// groupCost: see groups_small.  Saturates.
func groupCost(v interface{}) int64 {
	const cap = int64(1) << 40
	var listCost func(v interface{}) int64
	listCost = func(v interface{}) int64 {
		arr, ok := v.([]interface{})
		if !ok {
			return 0
		}
		var c int64
		for _, e := range arr {
			m, ok := e.(map[string]interface{})
			if !ok {
				c++
				continue
			}
			k := int64(0)
			for _, key := range []string{"child_records", "child_envelopes"} {
				k += listCost(m[key])
			}
			c += 3 * (1 + k)
			if c > cap {
				return cap
			}
		}
		return c
	}
	m, ok := v.(map[string]interface{})
	if !ok {
		return 0
	}
	fd, ok := m["file_declaration"].(map[string]interface{})
	if !ok {
		return 0
	}
	return listCost(fd["records"]) + listCost(fd["envelopes"])
}

// topConnective: a word `and` / `or` at bracket depth 0 outside quotes.
func topConnective(x string) bool {
	depth := 0
	var quote byte
	isName := func(c byte) bool {
		return c == '-' || c == '_' || c == '.' || c == ':' || c >= '0' && c <= '9' || c >= 'a' && c <= 'z' || c >= 'A' && c <= 'Z' || c >= 0x80
	}
	for i := 0; i < len(x); i++ {
		c := x[i]
		if quote != 0 {
			if c == quote {
				quote = 0
			}
			continue
		}
		switch c {
		case '\'', '"':
			quote = c
		case '[':
			depth++
		case ']':
			if depth > 0 {
				depth--
			}
		case 'a', 'o':
			if depth > 0 || i > 0 && isName(x[i-1]) {
				continue
			}
			for _, w := range []string{"and", "or"} {
				if strings.HasPrefix(x[i:], w) && (i+len(w) == len(x) || !isName(x[i+len(w)])) && i > 0 {
					return true
				}
			}
		}
	}
	return false
}

func xpathsNoConnective(v interface{}, inXD bool) bool {
	switch x := v.(type) {
	case string:
		return !inXD || !topConnective(x)
	case []interface{}:
		for _, e := range x {
			if !xpathsNoConnective(e, inXD) {
				return false
			}
		}
	case map[string]interface{}:
		for _, k := range keysOf(x) {
			if s, ok := x[k].(string); ok && k == "xpath" && topConnective(s) {
				return false
			}
			if !xpathsNoConnective(x[k], inXD || k == "xpath_dynamic") {
				return false
			}
		}
	}
	return true
}
