package main

import (
	"encoding/json"
	"strconv"
	"strings"
)

// The guard hypotheses of the known findings (KNOWN_FINDINGS.txt, property C03).  The main
// generators stay inside them; the recorded failing inputs are replayed from the corpus.
//
//   int_plain       every JSON number in the schema is a plain decimal integer literal that fits
//                   an int64 (no fraction, no exponent).  Outside it, gojsonschema accepts the
//                   literal as an "integer" above its `minimum`, json.Unmarshal cannot store it
//                   into an int, the error is discarded and the field keeps 0.
//   xd_no_null      no JSON null / array / nested declaration container inside an `xpath_dynamic`
//                   value, whose JSON schema (`"type":"object"` with an inert `items`) does not
//                   constrain its content.
//   tpl_small       the total size of the template expansion (number of declaration nodes after
//                   copying every referenced template at every reference site) is <= 50000.
//   groups_small    csv2 `child_records` / fixedlength2 `child_envelopes`: their JSON schema is a
//                   `oneOf` of three alternatives that all recurse into the children, which
//                   gojsonschema evaluates in time cost(list) = sum over elements of
//                   3 * (1 + cost(children)); the guard is cost <= 50000 (about 0.3 s).
//   xpath_plain     no xpath string (value of an `xpath` member, or any string below `xpath_dynamic`)
//                   has a function call outside a predicate: such expressions compile, but
//                   antchfx/xpath dereferences nil when they are used through Expr.Select.
//   js_export_total javascript sources come from the generator's pool of scripts whose completion
//                   value exports to Go without running user code (accessors) that throws.
func guardViolation(tree interface{}) string {
	if g := walkGuard(tree, false); g != "" {
		return g
	}
	if on("xpath_plain") && !xpathsPlain(tree, false) {
		return "xpath_plain"
	}
	if on("groups_small") && groupCost(tree) > 50000 {
		return "groups_small"
	}
	if on("tpl_small") && expansionSize(tree) > 50000 {
		return "tpl_small"
	}
	return ""
}

func plainInt(n json.Number) bool {
	s := string(n)
	if strings.ContainsAny(s, ".eE") {
		return false
	}
	_, err := strconv.ParseInt(s, 10, 64)
	return err == nil
}

func walkGuard(v interface{}, inXD bool) string {
	switch x := v.(type) {
	case json.Number:
		if !plainInt(x) && on("int_plain") {
			return "int_plain"
		}
	case nil:
		if inXD && on("xd_no_null") {
			return "xd_no_null"
		}
	case []interface{}:
		for _, e := range x {
			if g := walkGuard(e, inXD); g != "" {
				return g
			}
		}
	case map[string]interface{}:
		for _, k := range keysOf(x) {
			if g := walkGuard(x[k], inXD || k == "xpath_dynamic"); g != "" {
				return g
			}
		}
	}
	return ""
}

// expansionSize computes how many declaration nodes ValidateTransformDeclarations visits when it
// expands FINAL_OUTPUT (every template reference copies the template).  Cycles count as 1 (they
// are rejected when met).  Saturates at 1<<40.
func expansionSize(tree interface{}) int64 {
	m, ok := tree.(map[string]interface{})
	if !ok {
		return 0
	}
	td, ok := m["transform_declarations"].(map[string]interface{})
	if !ok {
		return 0
	}
	memo := map[string]int64{}
	onStack := map[string]bool{}
	const cap = int64(1) << 40
	var size func(v interface{}) int64
	var tsize func(name string) int64
	tsize = func(name string) int64 {
		if s, ok := memo[name]; ok {
			return s
		}
		if onStack[name] {
			return 1
		}
		d, ok := td[name]
		if !ok {
			return 1
		}
		onStack[name] = true
		s := size(d)
		onStack[name] = false
		memo[name] = s
		return s
	}
	size = func(v interface{}) int64 {
		var s int64 = 1
		switch x := v.(type) {
		case map[string]interface{}:
			// resolveKind order: const, external, custom_func, custom_parse, object, array, template
			if t, ok := x["template"].(string); ok && x["const"] == nil && x["external"] == nil && x["custom_func"] == nil && x["custom_parse"] == nil && x["object"] == nil && x["array"] == nil {
				s += tsize(t)
			}
			for _, k := range keysOf(x) {
				if k == "template" {
					continue
				}
				s += size(x[k])
				if s > cap {
					return cap
				}
			}
		case []interface{}:
			for _, e := range x {
				s += size(e)
				if s > cap {
					return cap
				}
			}
		}
		if s > cap {
			return cap
		}
		return s
	}
	return size(td["FINAL_OUTPUT"])
}

// groupCost: see groups_small.  Saturates.
func groupCost(v interface{}) int64 {
	const cap = int64(1) << 40
	var listCost func(v interface{}) int64
	listCost = func(v interface{}) int64 {
		arr, ok := v.([]interface{})
		if !ok {
			return 0
		}
		var c int64
		for _, e := range arr {
			m, ok := e.(map[string]interface{})
			if !ok {
				c++
				continue
			}
			k := int64(0)
			for _, key := range []string{"child_records", "child_envelopes"} {
				k += listCost(m[key])
			}
			c += 3 * (1 + k)
			if c > cap {
				return cap
			}
		}
		return c
	}
	m, ok := v.(map[string]interface{})
	if !ok {
		return 0
	}
	fd, ok := m["file_declaration"].(map[string]interface{})
	if !ok {
		return 0
	}
	return listCost(fd["records"]) + listCost(fd["envelopes"])
}

// xpathPlain: no `name(` at bracket depth 0 other than the node-type tests.
func xpathPlain(x string) bool {
	depth := 0
	var quote byte
	for i := 0; i < len(x); i++ {
		c := x[i]
		if quote != 0 {
			if c == quote {
				quote = 0
			}
			continue
		}
		switch c {
		case '\'', '"':
			quote = c
		case '[':
			depth++
		case ']':
			if depth > 0 {
				depth--
			}
		case '(':
			if depth > 0 {
				continue
			}
			j := i
			for j > 0 && (x[j-1] == ' ' || x[j-1] == '\t') {
				j--
			}
			k := j
			for k > 0 && (x[k-1] == '-' || x[k-1] == '_' || x[k-1] == ':' || x[k-1] >= '0' && x[k-1] <= '9' || x[k-1] >= 'a' && x[k-1] <= 'z' || x[k-1] >= 'A' && x[k-1] <= 'Z' || x[k-1] >= 0x80) {
				k--
			}
			switch x[k:j] {
			case "":
				// a parenthesised expression
			case "text", "node", "comment", "processing-instruction":
			default:
				return false
			}
		}
	}
	return true
}

func xpathsPlain(v interface{}, inXD bool) bool {
	switch x := v.(type) {
	case string:
		return !inXD || xpathPlain(x)
	case []interface{}:
		for _, e := range x {
			if !xpathsPlain(e, inXD) {
				return false
			}
		}
	case map[string]interface{}:
		for _, k := range keysOf(x) {
			if s, ok := x[k].(string); ok && k == "xpath" && !xpathPlain(s) {
				return false
			}
			if !xpathsPlain(x[k], inXD || k == "xpath_dynamic") {
				return false
			}
		}
	}
	return true
}
