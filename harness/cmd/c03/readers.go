package main

import (
	"fmt"
	"io"
	"strings"

	"github.com/jf-tech/omniparser"
	"github.com/jf-tech/omniparser/errs"
	oldcsv "github.com/jf-tech/omniparser/extensions/omniv21/fileformat/csv"
	"github.com/jf-tech/omniparser/extensions/omniv21/fileformat/fixedlength"
	"github.com/jf-tech/omniparser/transformctx"

	"verifharness/vh"
)

// Correspondence of the two line-level reader models of Model/Safety.v (csv_reader_read, fl_read)
// with real runs: one-line records, a header row that matches or not, a clean end or an input
// reader that fails persistently after the last line; observed = the class of every Read up to
// the terminal one.

func runClasses(schema string, input []byte, fault bool, classify func(err error) int) (codes []int, ok bool) {
	bad := guarded(watchdog, func() {
		s, err := omniparser.NewSchema("s", strings.NewReader(schema))
		if err != nil {
			return
		}
		var rd io.Reader = strings.NewReader(string(input))
		if fault {
			rd = &faultReader{data: input, chunk: 3}
		}
		t, err := s.NewTransform("i", rd, &transformctx.Ctx{})
		if err != nil {
			ok = true // the BOM probe met the fault: NewTransform itself fails, no Read to model
			return
		}
		for i := 0; i < len(input)+3; i++ {
			_, err := t.Read()
			switch {
			case err == nil:
				codes = append(codes, 0)
			case errs.IsErrTransformFailed(err):
				codes = append(codes, 1)
			case err == io.EOF:
				codes = append(codes, 2)
				ok = true
				return
			default:
				codes = append(codes, classify(err))
				ok = true
				return
			}
		}
	})
	return codes, ok && bad == ""
}

func coqNats(xs []int) string {
	var ss []string
	for _, x := range xs {
		ss = append(ss, vh.CoqN(x))
	}
	return vh.CoqList(ss)
}

func correspondenceReaders(r *vh.Rng, sum *vh.Summary, cw *vh.CaseWriter, n int) {
	fo := `"transform_declarations":{"FINAL_OUTPUT":{"object":{"a":{"xpath":"a"}}}}`
	for i := 0; i < n; i++ {
		// old csv
		lines := r.Between(0, 7)
		data := r.Between(1, 6)
		hdr := -1
		if r.Chance(0.6) && data > 1 {
			hdr = r.Between(1, data-1)
		}
		hok := r.Chance(0.7)
		fault := r.Chance(0.5)
		var sb strings.Builder
		for ln := 1; ln <= lines; ln++ {
			if ln == hdr && hok {
				sb.WriteString("a,b\n")
			} else {
				fmt.Fprintf(&sb, "x%d,y\n", ln)
			}
		}
		hs := ""
		if hdr > 0 {
			hs = fmt.Sprintf(`"header_row_index":%d,`, hdr)
		}
		sch := fmt.Sprintf(`{"parser_settings":{"version":"omni.2.1","file_format_type":"csv"},"file_declaration":{"delimiter":",",%s"data_row_index":%d,"columns":[{"name":"a"},{"name":"b"}]},%s}`, hs, data, fo)
		codes, ok := runClasses(sch, []byte(sb.String()), fault, func(err error) int {
			if oldcsv.IsErrInvalidHeader(err) {
				return 3
			}
			return 4
		})
		desc := map[string]interface{}{"kind": "csv-run", "schema": sch, "input": sb.String(), "fault_after": fault, "observed": codes}
		if !ok {
			sum.Fail("old csv reader: no terminal result / hang / panic on a one-line-record input", desc, codes)
		} else if len(codes) == 0 {
			sum.Hist("pure:csv-run newtransform-error")
		} else {
			sum.Hist(fmt.Sprintf("pure:csv-run fault=%v terminal=%d", fault, codes[len(codes)-1]))
			h := "None"
			if hdr > 0 {
				h = "(Some " + vh.CoqNat(hdr) + ")"
			}
			cw.Add(fmt.Sprintf("CCsvRun %s %s %s %s %s %s", h, vh.CoqNat(data), vh.CoqNat(lines), vh.CoqBool(hok), vh.CoqBool(fault), coqNats(codes)), desc)
		}
		// fixed-length by_rows
		rows := r.Between(1, 4)
		fl := r.Between(0, 9)
		fault = r.Chance(0.5)
		in := strings.Repeat("ab\n", fl)
		fsch := fmt.Sprintf(`{"parser_settings":{"version":"omni.2.1","file_format_type":"fixed-length"},"file_declaration":{"envelopes":[{"by_rows":%d,"columns":[{"name":"a","start_pos":1,"length":2}]}]},%s}`, rows, fo)
		codes, ok = runClasses(fsch, []byte(in), fault, func(err error) int {
			if fixedlength.IsErrInvalidEnvelope(err) {
				return 3
			}
			return 8 // a non-continuable error that is not the envelope error: not in the model
		})
		desc = map[string]interface{}{"kind": "fixed-run", "schema": fsch, "input": in, "fault_after": fault, "observed": codes}
		if !ok {
			sum.Fail("fixed-length by_rows reader: no terminal result / hang / panic", desc, codes)
			continue
		}
		if len(codes) == 0 {
			sum.Hist("pure:fixed-run newtransform-error")
			continue
		}
		sum.Hist(fmt.Sprintf("pure:fixed-run fault=%v terminal=%d", fault, codes[len(codes)-1]))
		cw.Add(fmt.Sprintf("CFlRun %s %s %s %s", vh.CoqNat(rows), vh.CoqNat(fl), vh.CoqBool(fault), coqNats(codes)), desc)
	}
}
