package main

import (
	"bytes"
	"encoding/json"
	"fmt"
	"io"
	"math/big"
	"reflect"
	"strings"
	"unsafe"

	"github.com/antchfx/xpath"
	"github.com/jf-tech/omniparser/customfuncs"
	"github.com/jf-tech/omniparser/errs"
	"github.com/jf-tech/omniparser/extensions/omniv21/fileformat/fixedlength"
	fixedlength2 "github.com/jf-tech/omniparser/extensions/omniv21/fileformat/flatfile/fixedlength"
	"github.com/jf-tech/omniparser/idr"
	"github.com/jf-tech/omniparser/transformctx"

	"verifharness/vh"
)

// Correspondence cases for the transcribed pure functions of Model/Safety.v.  Each logs the
// inputs and the projected observable of a real call; check_case re-computes it in the model.

// ---- removeLastFilterInXPath, observed through idr.NewXMLStreamReader / NewJSONStreamReader ----
// The readers compile removeLastFilterInXPath(TrimSpace(xpath)) into the unexported field
// `xpathExpr`; xpath.Expr.String() gives that string back.  When the stripped string is not a
// valid xpath the field is nil and nothing is observable (counted, not compared).
func observeRLF(xp string, useJSON bool) (trimmed string, out string, observable bool, ctorErr bool) {
	trimmed = strings.TrimSpace(xp)
	var rd interface{}
	var err error
	if useJSON {
		rd, err = idr.NewJSONStreamReader(strings.NewReader("{}"), xp)
	} else {
		rd, err = idr.NewXMLStreamReader(strings.NewReader("<a/>"), xp)
	}
	if err != nil {
		return trimmed, "", false, true
	}
	rv := reflect.ValueOf(rd)
	if rv.Kind() != reflect.Ptr || rv.IsNil() || rv.Elem().Kind() != reflect.Struct {
		return trimmed, "", false, false
	}
	f := rv.Elem().FieldByName("xpathExpr")
	if !f.IsValid() || f.Kind() != reflect.Ptr || f.Type() != reflect.TypeOf((*xpath.Expr)(nil)) || f.IsNil() {
		return trimmed, "", false, false
	}
	e := (*xpath.Expr)(unsafe.Pointer(f.Pointer()))
	return trimmed, e.String(), true, false
}

func genXPathForRLF(r *vh.Rng) string {
	switch r.Pick(10) {
	case 0, 1:
		return pick(r, exoticXPaths)
	case 2, 3, 4, 5, 6:
		// a plausible location path, most with a trailing filter (possibly nested, quoted brackets)
		var sb strings.Builder
		for i, k := 0, r.Between(1, 4); i < k; i++ {
			sb.WriteString(r.PickStr("/", "//", "/", ""))
			sb.WriteString(r.PickStr("a", "b", "*", "n", "日本", "é", "x:y", ".", "..", "@id", "text()"))
			if r.Chance(0.25) {
				sb.WriteString(r.PickStr("[1]", "[b]", "[.='x']", "[b[c]]"))
			}
		}
		if r.Chance(0.8) {
			sb.WriteString(r.PickStr("[.='3']", "[1]", "[b='x' and c=\"y\"]", "[b[c='1']]", "[.=']']", "[.=\"[\"]", "[. = '[x]']", "[b=\"'\"]", "[contains(., ']')]",
				"[position()=last()]", "[count(b[c])>1][2]", "[é='日']", "[.='\U0001F600']", "[']", "[\"]", "[']']", "]", "]]", "[]"))
		}
		if r.Chance(0.2) {
			sb.WriteString(r.PickStr(" ", "\n", "\t "))
		}
		return sb.String()
	}
	atoms := []string{"a", "b", "/", "//", "[", "]", "'", "\"", ".", "=", "1", "é", "日", " ", "*", "@x", "[1]", "[.='x']", "[b[c]]", "['[']", "[\"]\"]", "[a='] ']", "\xff", "\xc3", "\U0001F600", "]]", "[[", "[']", "|"}
	var sb strings.Builder
	for i, k := 0, r.Between(0, 8); i < k; i++ {
		sb.WriteString(atoms[r.Pick(len(atoms))])
	}
	if r.Chance(0.5) {
		sb.WriteString("]")
	}
	return sb.String()
}

// ---- custom_func invocation over generated signatures ------------------------------------------

type ptype struct {
	coq string
	t   reflect.Type
}

var (
	tCtx   = ptype{"TCtx", reflect.TypeOf((*transformctx.Ctx)(nil))}
	tNode  = ptype{"TNode", reflect.TypeOf((*idr.Node)(nil))}
	tStr   = ptype{"TString", reflect.TypeOf("")}
	tI64   = ptype{"TInt64", reflect.TypeOf(int64(0))}
	tF64   = ptype{"TFloat64", reflect.TypeOf(float64(0))}
	tBool  = ptype{"TBool", reflect.TypeOf(false)}
	tAny   = ptype{"TAny", reflect.TypeOf((*interface{})(nil)).Elem()}
	tInt   = ptype{"TInt", reflect.TypeOf(int(0))}
	tMap   = ptype{"TMap", reflect.TypeOf(map[string]interface{}(nil))}
	tSlAny = ptype{"(TSlice TAny)", reflect.TypeOf([]interface{}(nil))}
	tSlStr = ptype{"(TSlice TString)", reflect.TypeOf([]string(nil))}
)

var paramPool = []ptype{tStr, tStr, tStr, tI64, tF64, tBool, tAny, tAny, tInt, tMap, tSlAny, tSlStr, tNode}

type genSig struct {
	params   []ptype // the last one is the ELEMENT type when variadic
	variadic bool
	name     string
	called   *bool
}

func (g *genSig) coq() string {
	var ps []string
	for _, p := range g.params {
		ps = append(ps, p.coq)
	}
	return "(mkSig " + vh.CoqList(ps) + " " + vh.CoqBool(g.variadic) + ")"
}

var errT = reflect.TypeOf((*error)(nil)).Elem()

func (g *genSig) fn() interface{} {
	var ins []reflect.Type
	for i, p := range g.params {
		if g.variadic && i == len(g.params)-1 {
			ins = append(ins, reflect.SliceOf(p.t))
		} else {
			ins = append(ins, p.t)
		}
	}
	ft := reflect.FuncOf(ins, []reflect.Type{tAny.t, errT}, g.variadic)
	return reflect.MakeFunc(ft, func(args []reflect.Value) []reflect.Value {
		*g.called = true
		return []reflect.Value{reflect.ValueOf(new(interface{})).Elem(), reflect.Zero(errT)}
	}).Interface()
}

func genSignature(r *vh.Rng, id int) *genSig {
	g := &genSig{name: fmt.Sprintf("vf_%d", id), called: new(bool)}
	g.params = []ptype{tCtx}
	if r.Chance(0.3) {
		g.params = append(g.params, tNode)
	}
	for i, k := 0, r.Between(0, 3); i < k; i++ {
		g.params = append(g.params, paramPool[r.Pick(len(paramPool))])
	}
	g.variadic = len(g.params) >= 1 && r.Chance(0.35)
	if g.variadic && len(g.params) == 1 && r.Chance(0.8) {
		g.params = append(g.params, paramPool[r.Pick(len(paramPool))])
	}
	return g
}

// argument declarations with a known evaluation result
type genArg struct {
	decl interface{}
	coq  string
}

func genArgs(r *vh.Rng, g *genSig) []genArg {
	pool := []genArg{
		{map[string]interface{}{"const": "s"}, "(AVal TString)"},
		{map[string]interface{}{"const": "7", "type": "int"}, "(AVal TInt64)"},
		{map[string]interface{}{"const": "1.5", "type": "float"}, "(AVal TFloat64)"},
		{map[string]interface{}{"const": "true", "type": "boolean"}, "(AVal TBool)"},
		{map[string]interface{}{"xpath": "nonexisting"}, "ANil"},
		{map[string]interface{}{"array": []interface{}{map[string]interface{}{"const": "x"}}}, "(AVal (TSlice TAny))"},
		{map[string]interface{}{"template": "tobj"}, "(AVal TMap)"},
		{map[string]interface{}{"const": "x", "type": "int"}, "AErr"},
	}
	fit := func(p ptype) genArg {
		for _, a := range pool {
			if a.coq == "(AVal "+p.coq+")" {
				return a
			}
		}
		return pool[r.Pick(len(pool))] // TAny, TNode, TInt, []string: anything / nil
	}
	var out []genArg
	if r.Chance(0.6) {
		// mostly fitting: one argument per declared parameter after ctx (and node), then perturbed
		base := 1
		if len(g.params) >= 2 && g.params[1].coq == "TNode" && !(g.variadic && len(g.params) == 2) {
			base = 2
		}
		for i := base; i < len(g.params); i++ {
			out = append(out, fit(g.params[i]))
		}
		if g.variadic && len(g.params) > base {
			switch r.Pick(3) {
			case 0:
				out = out[:len(out)-1]
			case 1:
				out = append(out, fit(g.params[len(g.params)-1]), fit(g.params[len(g.params)-1]))
			}
		}
		switch r.Pick(8) {
		case 0:
			if len(out) > 0 {
				out = out[:len(out)-1]
			}
		case 1:
			out = append(out, pool[r.Pick(len(pool))])
		case 2:
			if len(out) > 0 {
				out[r.Pick(len(out))] = pool[r.Pick(len(pool))]
			}
		case 3:
			if len(out) > 0 {
				out[r.Pick(len(out))] = pool[4] // nil
			}
		}
		return out
	}
	for i, k := 0, r.Between(0, 5); i < k; i++ {
		out = append(out, pool[r.Pick(len(pool))])
	}
	return out
}

// observeInvoke runs one record through a schema calling g with args; outcome 0 = the record
// failed with an error (prepArgValues refused or an argument failed to evaluate), 1 = the
// function was called, 2 = a panic escaped Read.
func observeInvoke(g *genSig, args []genArg) (outcome int, detail string) {
	var ds []interface{}
	for _, a := range args {
		ds = append(ds, a.decl)
	}
	if ds == nil {
		ds = []interface{}{}
	}
	root := map[string]interface{}{
		"parser_settings": settings("xml"),
		"transform_declarations": map[string]interface{}{
			"FINAL_OUTPUT": map[string]interface{}{"xpath": "/r/n", "object": map[string]interface{}{
				"v": map[string]interface{}{"custom_func": map[string]interface{}{"name": g.name, "args": ds}, "keep_empty_or_null": true}}},
			"tobj": map[string]interface{}{"object": map[string]interface{}{"k": map[string]interface{}{"const": "v"}}},
		},
	}
	*g.called = false
	c := mkCase(render(root), []byte("<r><n><a>1</a></n></r>"))
	o := Exec(c, customfuncs.CustomFuncs{g.name: g.fn()}, watchdog)
	switch {
	case o.Fail == "panic":
		return 2, o.Panic
	case o.Fail != "" || !o.SchemaAccepted:
		return 3, o.Fail + " " + o.SchemaErr
	case *g.called:
		return 1, ""
	case o.Failed == 1:
		return 0, ""
	}
	return 3, "neither called nor failed"
}

// ---- delimiters ---------------------------------------------------------------------------------

func delimSchema(format, delim string) []byte {
	fd := map[string]interface{}{"delimiter": delim}
	if format == "csv" {
		fd["data_row_index"] = num("1")
		fd["columns"] = []interface{}{map[string]interface{}{"name": "a"}}
	} else {
		fd["records"] = []interface{}{map[string]interface{}{"name": "r", "columns": []interface{}{map[string]interface{}{"name": "a"}}}}
	}
	return render(map[string]interface{}{"parser_settings": settings(format), "file_declaration": fd,
		"transform_declarations": map[string]interface{}{"FINAL_OUTPUT": map[string]interface{}{"object": map[string]interface{}{"a": map[string]interface{}{"xpath": "a"}}}}})
}

// delimAsDecoded is the delimiter string the implementation sees: the schema text decoded by
// encoding/json (invalid UTF-8 was already replaced by json.Marshal when the schema was written).
func delimAsDecoded(schema []byte) string {
	var v struct {
		FD struct {
			Delimiter string `json:"delimiter"`
		} `json:"file_declaration"`
	}
	_ = json.Unmarshal(schema, &v)
	return v.FD.Delimiter
}

func genDelim(r *vh.Rng) string {
	switch r.Pick(6) {
	case 0, 1:
		return pick(r, delimPool)
	case 2:
		return string(rune(r.Pick(128)))
	case 3, 4:
		rs := []rune{0x80, 0x7ff, 0x800, 0xd7ff, 0xe000, 0xfffc, 0xfffd, 0xfffe, 0xffff, 0x10000, 0x10ffff, 0x22, 0x0d, 0x0a, 0, 0x2c}
		return string(rs[r.Pick(len(rs))])
	default:
		return string(rune(r.Between(0, 0x10ffff)))
	}
}

// ---- lineToColumnValue through the two public fixed-length reader constructors -----------------

func observeFixed(second bool, start, length int, line []byte) (val string, ok bool) {
	defer func() {
		if recover() != nil {
			ok = false
		}
	}()
	var n *idr.Node
	var err error
	if second {
		decl := &fixedlength2.FileDecl{Envelopes: []*fixedlength2.EnvelopeDecl{{Name: "e", IsTarget: true,
			Columns: []*fixedlength2.ColumnDecl{{Name: "c", StartPos: start, Length: length}}}}}
		n, err = fixedlength2.NewReader("i", bytes.NewReader(line), decl, nil).Read()
	} else {
		name := "e"
		decl := &fixedlength.FileDecl{Envelopes: []*fixedlength.EnvelopeDecl{{Name: &name,
			Columns: []*fixedlength.ColumnDecl{{Name: "c", StartPos: start, Length: length}}}}}
		rd, e := fixedlength.NewReader("i", bytes.NewReader(line), decl, "")
		if e != nil {
			return "", false
		}
		n, err = rd.Read()
	}
	if err != nil || n == nil || n.FirstChild == nil || n.FirstChild.FirstChild == nil {
		return "", false
	}
	return n.FirstChild.FirstChild.Data, true
}

func genFixedLine(r *vh.Rng) []byte {
	atoms := []string{"a", "b", "1", " ", "é", "日", "\U0001F600", "\xff", "\xc3", "\xe2\x82", "\xed\xa0\x80", "\x00", "\t", "~"}
	var sb strings.Builder
	for i, k := 0, r.Between(1, 12); i < k; i++ {
		sb.WriteString(atoms[r.Pick(len(atoms))])
	}
	return []byte(sb.String())
}

// ---- template graphs: accept / reject by ValidateTransformDeclarations -------------------------

type tplGraph struct {
	names []string
	refs  [][]int // refs[i]: indices referenced by template i (index len(names) = a name that is not declared)
	root  []int
}

func genTplGraph(r *vh.Rng) *tplGraph {
	n := r.Between(0, 6)
	g := &tplGraph{}
	for i := 0; i < n; i++ {
		g.names = append(g.names, fmt.Sprintf("T%d", i))
	}
	pickRef := func(from int) int {
		if r.Chance(0.04) {
			return n // undeclared
		}
		if r.Chance(0.05) {
			return -1 // a JSON null where a declaration is expected (below an xpath_dynamic)
		}
		if n == 0 {
			return n
		}
		if r.Chance(0.75) && from+1 < n {
			return r.Between(from+1, n-1) // forward: acyclic
		}
		return r.Pick(n)
	}
	for i := 0; i < n; i++ {
		var rs []int
		for j, k := 0, r.Pick(3); j < k; j++ {
			rs = append(rs, pickRef(i))
		}
		g.refs = append(g.refs, rs)
	}
	for j, k := 0, r.Between(0, 3); j < k; j++ {
		g.root = append(g.root, pickRef(-1))
	}
	return g
}

func (g *tplGraph) nameOf(i int) string {
	if i < len(g.names) {
		return g.names[i]
	}
	return "UNDECLARED"
}

func (g *tplGraph) schema() []byte {
	body := func(refs []int) interface{} {
		ob := map[string]interface{}{"k": map[string]interface{}{"const": "v"}}
		for j, t := range refs {
			if t < 0 {
				ob[fmt.Sprintf("r%d", j)] = map[string]interface{}{"xpath_dynamic": map[string]interface{}{"array": []interface{}{nil}}}
				continue
			}
			ob[fmt.Sprintf("r%d", j)] = map[string]interface{}{"template": g.nameOf(t)}
		}
		return map[string]interface{}{"object": ob}
	}
	td := map[string]interface{}{"FINAL_OUTPUT": body(g.root)}
	for i, nm := range g.names {
		td[nm] = body(g.refs[i])
	}
	return render(map[string]interface{}{"parser_settings": settings("xml"), "transform_declarations": td})
}

func (g *tplGraph) coq() string {
	refs := func(rs []int) string {
		var xs []string
		for _, t := range rs {
			if t < 0 {
				xs = append(xs, "None")
			} else {
				xs = append(xs, "(Some "+vh.CoqNat(t)+")")
			}
		}
		return vh.CoqList(xs)
	}
	var ts []string
	for i := range g.names {
		ts = append(ts, refs(g.refs[i]))
	}
	return vh.CoqList(ts) + " " + refs(g.root)
}

var rlfFails, fixedFails int

// ---- the correspondence pass --------------------------------------------------------------------

func correspondence(r *vh.Rng, sum *vh.Summary, cw *vh.CaseWriter, n int) {
	for i := 0; i < n; i++ {
		// removeLastFilterInXPath
		xp := genXPathForRLF(r)
		useJSON := r.Chance(0.5)
		var trimmed, out string
		var observable, ctorErr bool
		if bad := guarded(watchdog, func() { trimmed, out, observable, ctorErr = observeRLF(xp, useJSON) }); bad != "" {
			sum.Hist("FAIL:stream-reader-constructor")
			if rlfFails < 3 {
				rlfFails++
				sum.Fail("NewXMLStreamReader / NewJSONStreamReader (removeTrailingFiltersInXPath) "+bad, map[string]interface{}{"xpath": xp, "json_reader": useJSON}, bad)
			}
			if strings.HasPrefix(bad, "hang") && hangs > 8 {
				return
			}
			continue
		}
		switch {
		case ctorErr:
			sum.Hist("pure:rlf-xpath-rejected")
			cw.Add("CRlf "+vh.CoqHex([]byte(trimmed))+" None", map[string]interface{}{"kind": "rlf", "xpath": xp, "observed": nil})
		case !observable:
			sum.Hist("pure:rlf-unobservable")
			cw.Add("CRlf "+vh.CoqHex([]byte(trimmed))+" None", map[string]interface{}{"kind": "rlf", "xpath": xp, "observed": nil})
		default:
			sum.Hist("pure:rlf-observed")
			if out != trimmed {
				sum.Hist("pure:rlf-filter-removed")
			}
			cw.Add("CRlf "+vh.CoqHex([]byte(trimmed))+" (Some "+vh.CoqHex([]byte(out))+")", map[string]interface{}{"kind": "rlf", "xpath": xp, "observed": out})
			if !strings.HasPrefix(trimmed, out) && strings.ToValidUTF8(trimmed, "\x00") == trimmed {
				sum.Fail("removeLastFilterInXPath result is not a prefix of its (valid UTF-8) input", map[string]interface{}{"xpath": xp}, out)
			}
		}
	}
	for i := 0; i < n; i++ {
		// custom_func invocation
		g := genSignature(r, i)
		args := genArgs(r, g)
		outcome, detail := observeInvoke(g, args)
		var as []string
		for _, a := range args {
			as = append(as, a.coq)
		}
		sum.Hist(fmt.Sprintf("pure:invoke-%s", []string{"error", "called", "PANIC", "other"}[outcome]))
		desc := map[string]interface{}{"kind": "invoke", "sig": g.coq(), "args": as, "outcome": outcome, "detail": detail}
		if outcome == 2 {
			sum.Fail("custom_func invocation panicked out of Read (generated signature, first parameter *transformctx.Ctx)", desc, detail)
		}
		if outcome == 3 {
			sum.Fail("custom_func invocation harness: unexpected outcome", desc, detail)
			continue
		}
		cw.Add(fmt.Sprintf("CInvoke %s %s %s", g.coq(), vh.CoqList(as), vh.CoqN(outcome)), desc)
	}
	for i := 0; i < n; i++ {
		// delimiters of csv and csv2
		format := r.PickStr("csv", "csv2")
		sch := delimSchema(format, genDelim(r))
		d := delimAsDecoded(sch)
		o, _ := ExecSchema(sch, nil, watchdog)
		if o.Fail != "" {
			sum.Fail("NewSchema "+o.Fail+" on a delimiter schema", mkCase(sch, nil), o)
			continue
		}
		sum.Hist(fmt.Sprintf("pure:delim-%s-accepted=%v", format, o.SchemaAccepted))
		if !o.SchemaAccepted && rejectedBy(sch) == "validator" {
			sum.Hist("pure:delim-rejected-by-validator")
		}
		fi := 0
		if format == "csv2" {
			fi = 1
		}
		cw.Add(fmt.Sprintf("CDelim %s %s %s", vh.CoqN(fi), vh.CoqHex([]byte(d)), vh.CoqBool(o.SchemaAccepted)),
			map[string]interface{}{"kind": "delim", "format": format, "delimiter": d, "accepted": o.SchemaAccepted, "err": o.SchemaErr})
	}
	for i := 0; i < n; i++ {
		// lineToColumnValue
		second := r.Chance(0.5)
		start := pickInt(r, -3, -1, 0, 1, 1, 2, 3, 4, 5, 8, 13, 50, 1<<31, 1<<62)
		length := pickInt(r, -2, 0, 1, 1, 2, 3, 5, 8, 50, 1<<31, 1<<62)
		line := genFixedLine(r)
		var val string
		var ok bool
		if bad := guarded(watchdog, func() { val, ok = observeFixed(second, start, length, line) }); bad != "" {
			sum.Hist("FAIL:fixed-column")
			if fixedFails < 3 {
				fixedFails++
				sum.Fail("fixed-length column extraction (lineToColumnValue) "+bad, map[string]interface{}{"second": second, "start_pos": start, "length": length, "line_hex": fmt.Sprintf("%x", line)}, bad)
			}
			if strings.HasPrefix(bad, "hang") && hangs > 8 {
				return
			}
			continue
		}
		if !ok {
			sum.Fail("fixed-length column extraction panicked or returned no value", map[string]interface{}{"second": second, "start_pos": start, "length": length, "line_hex": fmt.Sprintf("%x", line)}, nil)
			continue
		}
		sum.Hist(fmt.Sprintf("pure:fixed-column reader2=%v", second))
		cw.Add(fmt.Sprintf("CFixed %s %s %s %s", vh.CoqZ(int64(start)), vh.CoqZ(int64(length)), vh.CoqHex(line), vh.CoqHex([]byte(val))),
			map[string]interface{}{"kind": "fixed", "second": second, "start_pos": start, "length": length, "line_hex": fmt.Sprintf("%x", line), "observed_hex": fmt.Sprintf("%x", val)})
	}
	for i := 0; i < n; i++ {
		// template graphs
		g := genTplGraph(r)
		sch := g.schema()
		o, _ := ExecSchema(sch, nil, watchdog)
		if o.Fail != "" {
			sum.Fail("NewSchema "+o.Fail+" on a template graph", mkCase(sch, nil), o)
			continue
		}
		if !o.SchemaAccepted && rejectedBy(sch) != "validator" {
			sum.Fail("template-graph schema rejected outside the in-code validator", mkCase(sch, nil), o.SchemaErr)
			continue
		}
		sum.Hist(fmt.Sprintf("pure:templates-accepted=%v", o.SchemaAccepted))
		cw.Add(fmt.Sprintf("CTemplates %s %s", g.coq(), vh.CoqBool(o.SchemaAccepted)),
			map[string]interface{}{"kind": "templates", "schema": string(sch), "accepted": o.SchemaAccepted, "err": o.SchemaErr})
	}
}

// ---- integer literals of rows / by_rows ---------------------------------------------------------

var intLitPool = []string{"1", "2", "3", "0", "-1", "7", "100", "9223372036854775807", "9223372036854775808", "-9223372036854775809", "100000000000000000000",
	"1.0", "2.0", "0.0", "1e0", "1e1", "1E2", "1e30", "5e-1", "1.5", "-1.0", "-0", "-0.0", "1e400", "10e-1", "0.1e1", "3.00", "2e+0", "1e-400", "4294967296", "2147483648"}

func intLitSchema(fmtIdx int, lit string) []byte {
	fo := map[string]interface{}{"FINAL_OUTPUT": map[string]interface{}{"object": map[string]interface{}{"a": map[string]interface{}{"xpath": "a"}}}}
	switch fmtIdx {
	case 0:
		return render(map[string]interface{}{"parser_settings": settings("fixed-length"), "transform_declarations": fo,
			"file_declaration": map[string]interface{}{"envelopes": []interface{}{map[string]interface{}{"by_rows": num(lit),
				"columns": []interface{}{map[string]interface{}{"name": "a", "start_pos": num("1"), "length": num("1")}}}}}})
	case 1:
		return render(map[string]interface{}{"parser_settings": settings("csv2"), "transform_declarations": fo,
			"file_declaration": map[string]interface{}{"delimiter": ",", "records": []interface{}{map[string]interface{}{"rows": num(lit)}}}})
	}
	return render(map[string]interface{}{"parser_settings": settings("fixedlength2"), "transform_declarations": fo,
		"file_declaration": map[string]interface{}{"envelopes": []interface{}{map[string]interface{}{"rows": num(lit)}}}})
}

// litFacts: is the value an integer, which, and is the text plain digits with an optional minus.
func litFacts(lit string) (integral bool, value string, plain bool) {
	q, ok := new(big.Rat).SetString(lit)
	if !ok {
		return false, "0", false
	}
	plain = true
	for i, c := range lit {
		if !(c >= '0' && c <= '9') && !(i == 0 && c == '-') {
			plain = false
		}
	}
	if q.IsInt() {
		return true, q.Num().String(), plain
	}
	return false, "0", plain
}

func correspondenceIntLits(r *vh.Rng, sum *vh.Summary, cw *vh.CaseWriter, n int) {
	for i := 0; i < n; i++ {
		fi := r.Pick(3)
		lit := intLitPool[r.Pick(len(intLitPool))]
		if r.Chance(0.2) {
			lit = fmt.Sprint(r.Between(-3, 50))
		}
		if len(lit) > 30 || strings.Contains(lit, "400") {
			// big.Rat of 1e400 is fine but keep the Coq literal small: use 1e40 instead
			lit = strings.Replace(lit, "400", "40", 1)
		}
		sch := intLitSchema(fi, lit)
		o, _ := ExecSchema(sch, nil, watchdog)
		if o.Fail != "" {
			sum.Fail("NewSchema "+o.Fail+" on an integer-literal schema", mkCase(sch, nil), o)
			continue
		}
		integral, value, plain := litFacts(lit)
		sum.Hist(fmt.Sprintf("pure:intlit plain=%v integral=%v accepted=%v", plain, integral, o.SchemaAccepted))
		cw.Add(fmt.Sprintf("CIntLit %s (mkLit %s (%s)%%Z %s) %s", vh.CoqN(fi), vh.CoqBool(integral), value, vh.CoqBool(plain), vh.CoqBool(o.SchemaAccepted)),
			map[string]interface{}{"kind": "intlit", "format": fi, "literal": lit, "accepted": o.SchemaAccepted, "err": o.SchemaErr, "schema": string(sch)})
	}
}

// keep imports used
var _ = io.EOF
var _ = errs.IsErrTransformFailed
