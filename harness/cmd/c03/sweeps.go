package main

import (
	"encoding/json"
	"fmt"
	"strings"

	"verifharness/vh"
)

// Deterministic sweeps, run on every check besides the random search: small exhaustive families
// whose members the random generators only hit by luck.
//  1. every script of the javascript pools as the result of a one-record transform, with and
//     without a result type, through javascript and javascript_with_context;
//  2. EDI segments with 0..130 elements (and components), csv / csv2 rows with 0..130 columns;
//  3. an input reader that fails persistently at EVERY byte position of a valid input, for the
//     seven fixtures and row-index / multi-row variants of the line based formats.
func (x *runner) sweeps() {
	sum := x.sum
	failed := map[string]int{}
	run := func(name string, schema, input []byte, fault bool, kind string) {
		if failed[name] >= 2 || hangs >= 4 {
			return // the family already produced its failures / too many abandoned workers
		}
		c := mkCase(schema, input)
		c.FaultAfter = fault
		o := Exec(c, nil, watchdog)
		sum.Count("sweep:"+name+"\x00"+string(schema)+"\x00"+string(input), o.Stage == "Read")
		if !o.SchemaAccepted && o.Fail == "" {
			sum.Hist("sweep:" + kind + ":schema-rejected")
			return
		}
		if o.Fail != "" {
			failed[name]++
			x.report(c, o, "sweep-"+name, nil, kind)
			return
		}
		if tree, ok := parseJSON(schema); ok {
			if b := invariantBreach(tree); b != "" && !x.seenSig["breach"] {
				x.seenSig["breach"] = true
				fmt.Printf("FAILURE NewSchema accepted %s\n  schema: %s\n", b, schema)
				sum.Fail("NewSchema accepted a declaration that breaks a reader invariant the validators establish (reader panic-freedom is proved for validated declarations only): "+b,
					mkCase(schema, nil), map[string]interface{}{"origin": "sweep-" + name})
			}
		}
		sum.Hist("sweep:" + kind + ":" + o.Terminal)
	}
	hdr := func(f string) string {
		return `"parser_settings":{"version":"omni.2.1","file_format_type":"` + f + `"}`
	}

	// 1. javascript results
	scripts := append(append([]string{}, jsPool...), jsPoolOdd...)
	if !on("js_no_map_set") {
		scripts = append(scripts, jsPoolMapSet...)
	}
	for _, js := range scripts {
		for v := 0; v < 4; v++ {
			fn, typ := "javascript", ""
			if v&1 == 1 {
				fn = "javascript_with_context"
			}
			if v&2 == 2 {
				typ = `,"type":"int"`
			}
			sch := fmt.Sprintf(`{%s,"transform_declarations":{"FINAL_OUTPUT":{"xpath":"/r/n","object":{"v":{"custom_func":{"name":%q,"args":[{"const":%q},{"const":"a"},{"xpath":"a"}]}%s}}}}}`,
				hdr("xml"), fn, js, typ)
			run("javascript", []byte(sch), []byte(`<r><n><a>x</a></n><n><a>y</a></n></r>`), false, "javascript-result")
		}
	}

	// 2. widths
	ediSch := fmt.Sprintf(`{%s,"file_declaration":{"segment_delimiter":"~","element_delimiter":"*","component_delimiter":":","segment_declarations":[{"name":"DAT","is_target":true,"min":0,"max":-1,"elements":[{"name":"a","index":1},{"name":"z","index":64,"default":""},{"name":"y","index":65,"default":""},{"name":"c","index":2,"component_index":2,"default":""}]}]},"transform_declarations":{"FINAL_OUTPUT":{"object":{"a":{"xpath":"a"},"z":{"xpath":"z"}}}}}`, hdr("edi"))
	csvSch := fmt.Sprintf(`{%s,"file_declaration":{"delimiter":",","data_row_index":1,"columns":[{"name":"a"},{"name":"b"}]},"transform_declarations":{"FINAL_OUTPUT":{"object":{"a":{"xpath":"a"}}}}}`, hdr("csv"))
	csv2Sch := fmt.Sprintf(`{%s,"file_declaration":{"delimiter":",","records":[{"name":"r","columns":[{"name":"a","index":1},{"name":"z","index":64}]}]},"transform_declarations":{"FINAL_OUTPUT":{"object":{"a":{"xpath":"a"}}}}}`, hdr("csv2"))
	for n := 0; n <= 130; n++ {
		run("edi-width", []byte(ediSch), []byte("DAT"+strings.Repeat("*x", n)+"~DAT*1~"), false, "wide-segment")
		if n%3 == 0 {
			run("edi-width", []byte(ediSch), []byte("DAT"+strings.Repeat("*x:y", n)+"~"), false, "wide-segment-components")
		}
		row := "v" + strings.Repeat(",v", n) + "\n"
		run("csv-width", []byte(csvSch), []byte(row+row), false, "wide-row")
		run("csv2-width", []byte(csv2Sch), []byte(row+row), false, "wide-row")
	}

	// 2b. line_index against the number of lines a record instance really has (csv2, fixedlength2)
	for li := 1; li <= 5; li++ {
		for rows := 1; rows <= 3; rows++ {
			c2 := fmt.Sprintf(`{%s,"file_declaration":{"delimiter":",","records":[{"name":"r","rows":%d,"columns":[{"name":"a","index":1,"line_index":%d},{"name":"b","index":2}]}]},"transform_declarations":{"FINAL_OUTPUT":{"object":{"a":{"xpath":"a"}}}}}`, hdr("csv2"), rows, li)
			run("csv2-line-index", []byte(c2), []byte("1,2\n3,4\n5,6\n7,8\n9,0\n1,1\n"), false, "line-index")
			f2 := fmt.Sprintf(`{%s,"file_declaration":{"envelopes":[{"name":"e","rows":%d,"columns":[{"name":"a","start_pos":1,"length":2,"line_index":%d}]}]},"transform_declarations":{"FINAL_OUTPUT":{"object":{"a":{"xpath":"a"}}}}}`, hdr("fixedlength2"), rows, li)
			run("fixedlength2-line-index", []byte(f2), []byte("ab\ncd\nef\ngh\nij\nkl\n"), false, "line-index")
		}
		// header / footer records of 1, 2, 3 and 4 lines
		c2 := fmt.Sprintf(`{%s,"file_declaration":{"delimiter":",","records":[{"name":"r","header":"^H","footer":"F$","columns":[{"name":"a","index":1,"line_index":%d}]}]},"transform_declarations":{"FINAL_OUTPUT":{"object":{"a":{"xpath":"a"}}}}}`, hdr("csv2"), li)
		run("csv2-line-index", []byte(c2), []byte("HF\nH1\nF\nH1\nx\nF\nH1\nx\ny\nF\n"), false, "line-index")
		f2 := fmt.Sprintf(`{%s,"file_declaration":{"envelopes":[{"name":"e","header":"^H","footer":"F$","columns":[{"name":"a","start_pos":1,"length":2,"line_index":%d}]}]},"transform_declarations":{"FINAL_OUTPUT":{"object":{"a":{"xpath":"a"}}}}}`, hdr("fixedlength2"), li)
		run("fixedlength2-line-index", []byte(f2), []byte("HF\nH1\nF\nH1\nx\nF\nH1\nx\ny\nF\n"), false, "line-index")
	}

	// 2c. non-node-set xpaths (boolean / numeric / string expressions) in every xpath position
	for xi, xp := range nonNodeSetXPaths {
		// every expression in the positions of MatchAll / matchNode / MatchSingle; every fourth one
		// (all of them in the thorough tier) in the full position matrix
		full := xi%4 == 0 || x.o.Tier == "thorough"
		q := fmt.Sprintf("%q", xp)
		td := func(fo string, extra string) string {
			return `"transform_declarations":{"FINAL_OUTPUT":` + fo + extra + `}`
		}
		xin := []byte(`<r><n id="0"><a>1</a><b>1</b></n><n id="1"><a>x</a><b>2</b></n></r>`)
		jin := []byte(`[{"a":"1","b":"1"},{"a":"x","b":"2"}]`)
		pos := map[string]string{
			"field":         td(`{"xpath":"/r/n","object":{"v":{"xpath":`+q+`}}}`, ""),
			"object":        td(`{"xpath":"/r/n","object":{"v":{"xpath":`+q+`,"object":{"k":{"xpath":"a"}}}}}`, ""),
			"array-element": td(`{"xpath":"/r/n","object":{"v":{"array":[{"xpath":`+q+`},{"xpath":"a"}]}}}`, ""),
			"array-object":  td(`{"xpath":"/r/n","object":{"v":{"array":[{"xpath":`+q+`,"object":{"k":{"xpath":"."}}}]}}}`, ""),
			"custom-func":   td(`{"xpath":"/r/n","object":{"v":{"xpath":`+q+`,"custom_func":{"name":"concat","args":[{"xpath":"a"},{"xpath":`+q+`}]}}}}`, ""),
			"template-site": td(`{"xpath":"/r/n","object":{"v":{"xpath":`+q+`,"template":"t"}}}`, `,"t":{"object":{"k":{"xpath":"a"}}}`),
			"template-body": td(`{"xpath":"/r/n","object":{"v":{"template":"t"}}}`, `,"t":{"xpath":`+q+`,"object":{"k":{"xpath":"a"}}}`),
			"xpath-dynamic": td(`{"xpath":"/r/n","object":{"v":{"xpath_dynamic":{"const":`+q+`}},"w":{"xpath_dynamic":{"const":`+q+`},"array":[{"xpath":"a"}]}}}`, ""),
			"array-dynamic": td(`{"xpath":"/r/n","object":{"v":{"array":[{"xpath_dynamic":{"const":`+q+`}}]}}}`, ""),
			"stream-target": td(`{"xpath":`+q+`,"object":{"v":{"xpath":"."}}}`, ""),
			"stream-filter": td(`{"xpath":"/r/n[`+strings.ReplaceAll(xp, `"`, `'`)+`]","object":{"v":{"xpath":"a"}}}`, ""),
		}
		names := []string{"field", "array-element", "stream-target"}
		if full {
			names = []string{"field", "object", "array-element", "array-object", "custom-func", "template-site", "template-body", "xpath-dynamic", "array-dynamic", "stream-target", "stream-filter"}
		}
		for _, name := range names {
			run("xpath-"+name, []byte(`{`+hdr("xml")+`,`+pos[name]+`}`), xin, false, "non-node-set-xpath")
			js := strings.ReplaceAll(pos[name], `"/r/n`, `"/*`)
			run("xpath-json-"+name, []byte(`{`+hdr("json")+`,`+js+`}`), jin, false, "non-node-set-xpath")
		}
		if !full {
			continue
		}
		// record filters of the flat formats (FINAL_OUTPUT.xpath on csv / fixed-length / csv2 / fixedlength2 / edi)
		fo := td(`{"xpath":`+q+`,"object":{"v":{"xpath":"a"}}}`, "")
		run("xpath-filter-csv", []byte(fmt.Sprintf(`{%s,"file_declaration":{"delimiter":",","data_row_index":1,"columns":[{"name":"a"},{"name":"b"}]},%s}`, hdr("csv"), fo)), []byte("1,1\nx,2\n"), false, "non-node-set-xpath")
		run("xpath-filter-fixed", []byte(fmt.Sprintf(`{%s,"file_declaration":{"envelopes":[{"columns":[{"name":"a","start_pos":1,"length":1},{"name":"b","start_pos":2,"length":1}]}]},%s}`, hdr("fixed-length"), fo)), []byte("11\nx2\n"), false, "non-node-set-xpath")
		run("xpath-filter-csv2", []byte(fmt.Sprintf(`{%s,"file_declaration":{"delimiter":",","records":[{"name":"r","columns":[{"name":"a","index":1},{"name":"b","index":2}]}]},%s}`, hdr("csv2"), fo)), []byte("1,1\nx,2\n"), false, "non-node-set-xpath")
		run("xpath-filter-fixedlength2", []byte(fmt.Sprintf(`{%s,"file_declaration":{"envelopes":[{"name":"e","columns":[{"name":"a","start_pos":1,"length":1},{"name":"b","start_pos":2,"length":1}]}]},%s}`, hdr("fixedlength2"), fo)), []byte("11\nx2\n"), false, "non-node-set-xpath")
		run("xpath-filter-edi", []byte(fmt.Sprintf(`{%s,"file_declaration":{"segment_delimiter":"~","element_delimiter":"*","segment_declarations":[{"name":"S","is_target":true,"min":0,"max":-1,"elements":[{"name":"a","index":1},{"name":"b","index":2}]}]},%s}`, hdr("edi"), fo)), []byte("S*1*1~S*x*2~"), false, "non-node-set-xpath")
	}

	// 2d. hierarchies of every depth with an input that descends to the deepest level.  The JSON
	// schema of csv2 / fixedlength2 costs 3^depth (known finding N4), which caps their depth here;
	// EDI has no such cost.
	maxFlat := 10
	if x.o.Tier == "thorough" {
		maxFlat = 12
	}
	for d := 1; d <= 16; d++ {
		for _, branch := range []bool{false, true} {
			// level i: a record Li that contains level i+1 (branch: plus a leaf sibling Xi after it)
			csv2, fl2, edi := "[]", "[]", "[]"
			for i := d; i >= 1; i-- {
				sib2, sibf, sibe := "", "", ""
				if branch && i > 1 {
					sib2 = fmt.Sprintf(`,{"name":"X%d","header":"^X%d,","min":0}`, i, i)
					sibf = fmt.Sprintf(`,{"name":"X%d","header":"^X%d ","min":0}`, i, i)
					sibe = fmt.Sprintf(`,{"name":"X%d","min":0}`, i)
				}
				tgt := ""
				if i == d {
					tgt = `"is_target":true,`
				}
				csv2 = fmt.Sprintf(`[{"name":"L%d","header":"^L%d,",%s"min":0,"columns":[{"name":"a","index":2}],"child_records":%s}%s]`, i, i, tgt, csv2, sib2)
				fl2 = fmt.Sprintf(`[{"name":"L%d","header":"^L%d ",%s"min":0,"columns":[{"name":"a","start_pos":5,"length":1}],"child_envelopes":%s}%s]`, i, i, tgt, fl2, sibf)
				edi = fmt.Sprintf(`[{"name":"L%d",%s"min":0,"max":-1,"elements":[{"name":"a","index":1}],"child_segments":%s}%s]`, i, tgt, edi, sibe)
			}
			var in2, inf, ine strings.Builder
			for rep := 0; rep < 2; rep++ {
				for i := 1; i <= d; i++ {
					fmt.Fprintf(&in2, "L%d,v\n", i)
					fmt.Fprintf(&inf, "L%d %sv\n", i, strings.Repeat(" ", 2-len(fmt.Sprint(i))))
					fmt.Fprintf(&ine, "L%d*v~", i)
				}
				if branch {
					for i := d; i >= 2; i-- {
						fmt.Fprintf(&in2, "X%d,v\n", i)
						fmt.Fprintf(&inf, "X%d v\n", i)
						fmt.Fprintf(&ine, "X%d*v~", i)
					}
				}
			}
			fo := `"transform_declarations":{"FINAL_OUTPUT":{"object":{"a":{"xpath":"a"}}}}`
			if d <= maxFlat && !(branch && d > 9 && x.o.Tier != "thorough") {
				run(fmt.Sprintf("depth-csv2-%d", d), []byte(fmt.Sprintf(`{%s,"file_declaration":{"delimiter":",","records":%s},%s}`, hdr("csv2"), csv2, fo)), []byte(in2.String()), false, "hierarchy-depth")
				run(fmt.Sprintf("depth-fixedlength2-%d", d), []byte(fmt.Sprintf(`{%s,"file_declaration":{"envelopes":%s},%s}`, hdr("fixedlength2"), fl2, fo)), []byte(inf.String()), false, "hierarchy-depth")
			}
			run(fmt.Sprintf("depth-edi-%d", d), []byte(fmt.Sprintf(`{%s,"file_declaration":{"segment_delimiter":"~","element_delimiter":"*","segment_declarations":%s},%s}`, hdr("edi"), edi, fo)), []byte(ine.String()), false, "hierarchy-depth")
		}
	}

	// 2e. duplicated root sections under every fold-orbit spelling of the key, with payloads that
	// would panic or loop if they were loaded un-validated
	{
		good := map[string]string{
			"parser_settings":        `{"version":"omni.2.1","file_format_type":"csv2"}`,
			"file_declaration":       `{"delimiter":",","records":[{"name":"r","columns":[{"name":"a"}]}]}`,
			"transform_declarations": `{"FINAL_OUTPUT":{"object":{"a":{"xpath":"a"}}}}`,
		}
		bad := map[string][]string{
			"parser_settings":        {`{"version":"omni.2.1","file_format_type":"csv2","encoding":"nope"}`, `{"file_format_type":"xml"}`, `null`},
			"file_declaration":       {`{"records":[{"name":"r","rows":0,"columns":[{"name":"a"}]}]}`, `{"records":[null]}`, `{"delimiter":"\"","records":null}`},
			"transform_declarations": {`{"FINAL_OUTPUT":{"object":{"a":{"template":"t"}}},"t":null}`, `{"FINAL_OUTPUT":{"template":"t"},"t":null}`, `{"FINAL_OUTPUT":{"object":{"a":null}}}`, `{"FINAL_OUTPUT":null}`},
		}
		for _, key := range []string{"parser_settings", "file_declaration", "transform_declarations"} {
			for _, variant := range append(caseVariants(key), key) {
				for _, payload := range bad[key] {
					for _, first := range []bool{false, true} {
						var parts []string
						dup := fmt.Sprintf("%q:%s", variant, payload)
						if first {
							parts = append(parts, dup)
						}
						for _, k := range []string{"parser_settings", "file_declaration", "transform_declarations"} {
							parts = append(parts, fmt.Sprintf("%q:%s", k, good[k]))
						}
						if !first {
							parts = append(parts, dup)
						}
						run("dup-root-"+key, []byte("{"+strings.Join(parts, ",")+"}"), []byte("x\ny\n"), false, "duplicated-root-key")
					}
				}
			}
		}
	}

	// 2f. more than one is_target, at different levels, named and unnamed declarations: validation
	// must reject; if it accepts, Read must not panic (and the validator oracle reports it)
	for _, topNamed := range []bool{true, false} {
		for _, kidNamed := range []bool{true, false} {
			for _, shape := range []string{"nested-last-child", "nested-first-child", "siblings", "grandchild"} {
				nm := func(named bool, n string) string {
					if named {
						return `"name":"` + n + `",`
					}
					return ""
				}
				mk := func(kids, hdrKey string, hdrVal func(string) string, cols string) string {
					kid := fmt.Sprintf(`{%s"header":%q,"is_target":true,"max":1%s}`, nm(kidNamed, "K"), hdrVal("K"), cols)
					other := fmt.Sprintf(`{"name":"O","header":%q,"min":0%s}`, hdrVal("O"), cols)
					switch shape {
					case "nested-last-child":
						return fmt.Sprintf(`[{%s"header":%q,"is_target":true%s,%q:[%s,%s]}]`, nm(topNamed, "T"), hdrVal("T"), cols, kids, other, kid)
					case "nested-first-child":
						return fmt.Sprintf(`[{%s"header":%q,"is_target":true%s,%q:[%s,%s]}]`, nm(topNamed, "T"), hdrVal("T"), cols, kids, kid, other)
					case "siblings":
						return fmt.Sprintf(`[{%s"header":%q,"is_target":true%s},%s]`, nm(topNamed, "T"), hdrVal("T"), cols, kid)
					}
					return fmt.Sprintf(`[{%s"header":%q,"is_target":true%s,%q:[{"name":"M","header":%q,%q:[%s]}]}]`, nm(topNamed, "T"), hdrVal("T"), cols, kids, hdrVal("M"), kids, kid)
				}
				fo := `"transform_declarations":{"FINAL_OUTPUT":{"object":{"a":{"xpath":"."}}}}`
				in := "T1\nO1\nK1\nM1\nK2\nT2\nK3\n"
				c2 := mk("child_records", "header", func(n string) string { return "^" + n }, `,"columns":[{"name":"a","index":1}]`)
				run("multi-target-csv2", []byte(fmt.Sprintf(`{%s,"file_declaration":{"delimiter":",","records":%s},%s}`, hdr("csv2"), c2, fo)), []byte(in), false, "multi-target")
				f2 := mk("child_envelopes", "header", func(n string) string { return "^" + n }, `,"columns":[{"name":"a","start_pos":1,"length":2}]`)
				run("multi-target-fixedlength2", []byte(fmt.Sprintf(`{%s,"file_declaration":{"envelopes":%s},%s}`, hdr("fixedlength2"), f2, fo)), []byte(in), false, "multi-target")
				if topNamed && kidNamed {
					e := strings.ReplaceAll(mk("child_segments", "header", func(n string) string { return n }, ""), `"header":`, `"_comment":`)
					run("multi-target-edi", []byte(fmt.Sprintf(`{%s,"file_declaration":{"segment_delimiter":"~","element_delimiter":"*","segment_declarations":%s},%s}`, hdr("edi"), e, fo)), []byte("T*1~O*1~K*1~M*1~K*2~T*2~K*3~"), false, "multi-target")
				}
			}
		}
	}

	// 2g. EDI: segment delimiter x release character x ignore_crlf x what follows the last segment
	{
		segDelims := []string{"~", `\n`, `\r\n`, `~\n`, "|~", "<>", `\u00e9~`, `\u65e5`, "'"} // JSON-escaped
		endings := []string{"", "D", "D\r\n", "DD", "x", "Dx", "D\x1a", "D\r", "D\n", "DM", "DMS", "F", "DF", "DMSG*2*what?D", "DMSG*2*what?\r\n", "DMSG*2*what?", "DMSG*2*what??\r\n", "DMSG*2*?\r\n",
			"DMSG*2*what?*\r\n", "D?", "D?\r\n", "DMSG*2*a:b?\r\n", "DMSG\r\n", "D*\r\n"}
		for _, sd := range segDelims {
			for _, rel := range []bool{false, true} {
				for _, icr := range []bool{false, true} {
					relS := ""
					if rel {
						relS = `"release_character":"?",`
					}
					sch := fmt.Sprintf(`{%s,"file_declaration":{"segment_delimiter":"%s","element_delimiter":"*","component_delimiter":":",%s"ignore_crlf":%v,"segment_declarations":[{"name":"MSG","is_target":true,"min":0,"max":-1,"elements":[{"name":"a","index":1},{"name":"b","index":2,"default":""},{"name":"c","index":2,"component_index":2,"default":""}]}]},"transform_declarations":{"FINAL_OUTPUT":{"object":{"a":{"xpath":"a"},"b":{"xpath":"b"}}}}}`,
						hdr("edi"), sd, relS, icr)
					var delim string
					_ = json.Unmarshal([]byte(`"`+sd+`"`), &delim)
					for _, e := range endings {
						tail := strings.ReplaceAll(e, "D", delim)
						tail = strings.ReplaceAll(tail, "F", delim[:1]) // the first byte of the delimiter only
						tail = strings.NewReplacer("\\r", "\r", "\\n", "\n", "\\x1a", "\x1a").Replace(tail)
						run("edi-delims", []byte(sch), []byte("MSG*1*ab"+delim+"MSG*1*cd"+tail), false, "edi-delimiter-ending")
					}
				}
			}
		}
	}

	// 2h. occurrence bounds min / max in {0, 1, 2, -1} on the first child of a group (and on the
	// group), with that child present, absent and repeated in the input
	{
		bounds := []string{"0", "1", "2", "-1"}
		fo := `"transform_declarations":{"FINAL_OUTPUT":{"object":{"a":{"xpath":"."}}}}`
		for _, gmax := range []string{"1", "2", "-1"} {
			for _, mn := range bounds[:3] {
				for _, mx := range bounds {
					for ii, in := range [][]string{{"A", "B", "A", "B"}, {"B", "B"}, {"A", "A", "A", "B", "A", "B", "A"}, {"A"}, {}} {
						e := fmt.Sprintf(`[{"name":"G","type":"segment_group","min":0,"max":%s,"child_segments":[{"name":"A","min":%s,"max":%s},{"name":"B","is_target":true,"min":0,"max":-1}]},{"name":"Z","min":0}]`, gmax, mn, mx)
						run("bounds-edi", []byte(fmt.Sprintf(`{%s,"file_declaration":{"segment_delimiter":"~","element_delimiter":"*","segment_declarations":%s},%s}`, hdr("edi"), e, fo)),
							[]byte(strings.Join(in, "*x~")+map[bool]string{true: "*x~", false: ""}[len(in) > 0]), false, "occurrence-bounds")
						if ii < 4 {
							c2 := fmt.Sprintf(`[{"name":"G","type":"record_group","min":0,"max":%s,"child_records":[{"name":"A","header":"^A","min":%s,"max":%s},{"name":"B","header":"^B","is_target":true,"min":0,"max":-1}]},{"name":"Z","header":"^Z","min":0}]`, gmax, mn, mx)
							run("bounds-csv2", []byte(fmt.Sprintf(`{%s,"file_declaration":{"delimiter":",","records":%s},%s}`, hdr("csv2"), c2, fo)), []byte(strings.Join(in, ",x\n")+map[bool]string{true: ",x\n", false: ""}[len(in) > 0]), false, "occurrence-bounds")
							f2 := strings.NewReplacer("record_group", "envelope_group", "child_records", "child_envelopes").Replace(c2)
							run("bounds-fixedlength2", []byte(fmt.Sprintf(`{%s,"file_declaration":{"envelopes":%s},%s}`, hdr("fixedlength2"), f2, fo)), []byte(strings.Join(in, " x\n")+map[bool]string{true: " x\n", false: ""}[len(in) > 0]), false, "occurrence-bounds")
						}
					}
				}
			}
		}
	}

	// 2i. template reference cycles through every kind of edge (xpath_dynamic, custom_func argument,
	// object member, array element), alone and mixed
	{
		edge := map[string]string{
			"xd":  `{"xpath_dynamic":{"template":"%s"}}`,
			"xdo": `{"xpath_dynamic":{"template":"%s"},"object":{"k":{"const":"v"}}}`,
			"arg": `{"custom_func":{"name":"concat","args":[{"template":"%s"},{"const":"x"}]}}`,
			"obj": `{"object":{"k":{"template":"%s"}}}`,
			"arr": `{"array":[{"template":"%s"}]}`,
			"xda": `{"xpath_dynamic":{"custom_func":{"name":"concat","args":[{"template":"%s"}]}}}`,
		}
		kinds := []string{"xd", "xdo", "arg", "obj", "arr", "xda"}
		for _, k1 := range kinds {
			self := fmt.Sprintf(`{%s,"transform_declarations":{"FINAL_OUTPUT":{"object":{"a":{"template":"t1"}}},"t1":%s}}`, hdr("xml"), fmt.Sprintf(edge[k1], "t1"))
			run("template-cycle", []byte(self), []byte("<a/>"), false, "template-cycle")
			for _, k2 := range kinds {
				two := fmt.Sprintf(`{%s,"transform_declarations":{"FINAL_OUTPUT":{"object":{"a":{"template":"t1"}}},"t1":%s,"t2":%s}}`, hdr("xml"), fmt.Sprintf(edge[k1], "t2"), fmt.Sprintf(edge[k2], "t1"))
				run("template-cycle", []byte(two), []byte("<a/>"), false, "template-cycle")
			}
		}
	}

	// 3. a persistent reader fault at every position
	type fs struct {
		name   string
		schema string
		input  string
	}
	var fam []fs
	r := vh.NewRng(7) // fixed: the sweep does not depend on the run's seed
	for _, f := range vh.Fixtures() {
		fam = append(fam, fs{"fixture-" + f.Format, f.Schema, string(f.Gen(r, 3))})
	}
	fo := `"transform_declarations":{"FINAL_OUTPUT":{"object":{"a":{"xpath":"a"}}}}`
	fam = append(fam,
		fs{"csv-header-2-data-4", fmt.Sprintf(`{%s,"file_declaration":{"delimiter":",","header_row_index":2,"data_row_index":4,"columns":[{"name":"a"},{"name":"b"}]},%s}`, hdr("csv"), fo), "junk\na,b\nskip\n1,2\n3,4\n"},
		fs{"csv-data-2147483647", fmt.Sprintf(`{%s,"file_declaration":{"delimiter":",","data_row_index":2147483647,"columns":[{"name":"a"}]},%s}`, hdr("csv"), fo), "x\ny\n"},
		fs{"csv-data-3", fmt.Sprintf(`{%s,"file_declaration":{"delimiter":",","data_row_index":3,"columns":[{"name":"a"}]},%s}`, hdr("csv"), fo), "x\ny\n1\n2\n"},
		fs{"fixed-by-rows-2", fmt.Sprintf(`{%s,"file_declaration":{"envelopes":[{"by_rows":2,"columns":[{"name":"a","start_pos":1,"length":2}]}]},%s}`, hdr("fixed-length"), fo), "ab\ncd\nef\ngh\n"},
		fs{"fixed-by-rows-1", fmt.Sprintf(`{%s,"file_declaration":{"envelopes":[{"columns":[{"name":"a","start_pos":1,"length":2}]}]},%s}`, hdr("fixed-length"), fo), "ab\ncd\n"},
		fs{"fixed-header-footer", fmt.Sprintf(`{%s,"file_declaration":{"envelopes":[{"name":"e","by_header_footer":{"header":"^H","footer":"^F"},"columns":[{"name":"a","start_pos":2,"length":2}]}]},%s}`, hdr("fixed-length"), fo), "Hab\nxx\nF\nHcd\nF\n"},
		fs{"csv2-rows-2", fmt.Sprintf(`{%s,"file_declaration":{"delimiter":",","records":[{"name":"r","rows":2,"columns":[{"name":"a"}]}]},%s}`, hdr("csv2"), fo), "1\n2\n3\n4\n"},
		fs{"fixedlength2-header-footer", fmt.Sprintf(`{%s,"file_declaration":{"envelopes":[{"name":"e","header":"^H","footer":"^F","columns":[{"name":"a","start_pos":2,"length":2}]}]},%s}`, hdr("fixedlength2"), fo), "Hab\nxx\nF\nHcd\nF\n"},
	)
	for _, f := range fam {
		in := []byte(f.input)
		if len(in) > 160 {
			in = in[:160]
		}
		for cut := 0; cut <= len(in); cut++ {
			run(f.name, []byte(f.schema), in[:cut], true, "reader-fault")
		}
	}
}
