// c15: oracle + correspondence harness for property C15 (results and checksums are a
// deterministic function of schema and input).  Every (schema, input) pair is run twice, with
// the schema loaded again (fresh random declaration hashes), after a random prefix of OTHER
// transforms in the same process, and in a fresh process (this binary re-executed with -child);
// all transcripts - output bytes and raw record checksums - must be byte-identical.  Checksum
// sensitivity: changing one ingested value of one record changes exactly that record's checksum;
// equal raw records have equal checksums.
package main

import (
	"encoding/json"
	"flag"
	"fmt"
	"os"
	"os/exec"
	"path/filepath"
	"regexp"
	"sort"
	"strconv"
	"strings"
	"sync"

	"github.com/jf-tech/omniparser/idr"
	"github.com/jf-tech/omniparser/transformctx"

	"verifharness/cmd/c10/pipe"
	"verifharness/vh"
)

var childrenRe = regexp.MustCompile(`children=\[((?:"(?:[^"\\]|\\.)*",)*)\]`)
var itemRe = regexp.MustCompile(`"(?:[^"\\]|\\.)*"`)

var childFile = flag.String("child", "", "run the cases of this file in this (fresh) process and write their transcripts next to it")

type corpusCase struct {
	Name   string `json:"name"`
	Expect string `json:"expect"`
	What   string `json:"what"`
	Check  string `json:"check"` // "checksums-distinct": all delivered records must have pairwise distinct checksums
	pipe.Case
	InputText string `json:"input,omitempty"`
}

func runOnce(c pipe.Case) pipe.Transcript {
	comp, err := pipe.CompileV(c.Schema, c.Funcs)
	if err != nil {
		return pipe.Transcript{{Kind: "fatal", Msg: "schema rejected: " + err.Error()}}
	}
	return comp.RunReal(c.Input(), c.Ext)
}

func child(path string) {
	b, err := os.ReadFile(path)
	if err != nil {
		fmt.Fprintln(os.Stderr, err)
		os.Exit(2)
	}
	var cases []pipe.Case
	if err := json.Unmarshal(b, &cases); err != nil {
		fmt.Fprintln(os.Stderr, err)
		os.Exit(2)
	}
	out := make([]pipe.Transcript, len(cases))
	// reverse order: the history inside the fresh process differs from the parent's as well
	for i := len(cases) - 1; i >= 0; i-- {
		pipe.Watch("child case")
		out[i] = runOnce(cases[i])
	}
	pipe.Unwatch()
	ob, _ := json.Marshal(out)
	if err := os.WriteFile(path+".out", ob, 0o644); err != nil {
		fmt.Fprintln(os.Stderr, err)
		os.Exit(2)
	}
}

// sameSchemaConcurrent: several transforms created from ONE Schema object run in parallel, each
// with its own external properties and its own input; every one must give its solo transcript.
func sameSchemaConcurrent(o *vh.Opts, r *vh.Rng, sum *vh.Summary, fmts []pipe.Fmt) {
	for round := 0; round < 3; round++ {
		f := fmts[[]int{1, 5, 6}[round]]
		env := pipe.Env{Header: true, Ctx: "H1"}
		pipe.OnlyMust = true
		schema, feats := f.SchemaWith(r, []string{"multi-arg", "typed-externals", "plain", "template-dynamic-anchors"}, nil, env)
		pipe.OnlyMust = false
		comp, err := pipe.Compile(schema)
		if err != nil {
			sum.Fail("generated schema rejected by NewSchema", map[string]string{"format": f.Name, "schema": schema}, err.Error())
			continue
		}
		const W = 8
		inputs := make([][]byte, W)
		exts := make([]map[string]string, W)
		solo := make([]pipe.Transcript, W)
		for w := 0; w < W; w++ {
			recs := make([]pipe.Rec, 250)
			for i := range recs {
				recs[i] = pipe.GenRec(r, f, true)
				recs[i].A = fmt.Sprintf("w%d-%d", w, i)
				recs[i].Nest = false
			}
			inputs[w] = f.Render(env, recs)
			exts[w] = pipe.GenExt(r.Pick)
			exts[w]["ext_s"] = fmt.Sprintf("owner%d", w)
			exts[w]["ext_i"] = fmt.Sprint(1000 + w)
			solo[w] = comp.RunUnretained(inputs[w], exts[w])
		}
		vh.Current(o, map[string]interface{}{"probe": "same Schema, concurrent transforms", "schema": schema, "workers": W})
		par := make([]pipe.Transcript, W)
		var wg sync.WaitGroup
		for w := 0; w < W; w++ {
			wg.Add(1)
			go func(w int) {
				defer wg.Done()
				par[w] = comp.RunUnretained(inputs[w], exts[w])
			}(w)
		}
		wg.Wait()
		sum.Hist("same-schema-concurrent:" + f.Name)
		for w := 0; w < W; w++ {
			if bad := pipe.CheckOutputs(feats, exts[w], par[w]); len(bad) > 0 {
				sum.Fail("output relation violated in a transform run concurrently with others of the same Schema: "+bad[0],
					pipe.Case{Format: f.Name, Schema: schema, InputHex: fmt.Sprintf("%x", inputs[w]), Ext: exts[w]}, map[string]interface{}{"violations": bad, "worker": w})
				break
			}
			if !par[w].Equal(solo[w]) {
				i := pipe.FirstDiff(par[w], solo[w])
				sum.Fail(fmt.Sprintf("a transform run concurrently with %d others created from the SAME Schema differs from its solo transcript (first difference at result %d)", W-1, i),
					pipe.Case{Format: f.Name, Schema: schema, InputHex: fmt.Sprintf("%x", inputs[w]), Ext: exts[w]},
					map[string]interface{}{"worker": w, "solo": entryAt(solo[w], i), "concurrent": entryAt(par[w], i)})
				break
			}
		}
	}
}

func withMsg(t pipe.Transcript, i int) interface{} {
	if i >= 0 && i < len(t) {
		return map[string]string{"k": t[i].Kind, "j": t[i].JSON, "s": t[i].Sum, "msg": t[i].Msg}
	}
	return nil
}

func entryAt(t pipe.Transcript, i int) interface{} {
	if i >= 0 && i < len(t) {
		return t[i]
	}
	return nil
}

func intern(ids map[string]int, k string) int {
	id, ok := ids[k]
	if !ok {
		id = len(ids) + 1
		ids[k] = id
	}
	return id
}

func coqRuns(ts []pipe.Transcript) string {
	ids := map[string]int{}
	var rows []string
	for _, t := range ts {
		var xs []string
		for _, e := range t {
			xs = append(xs, vh.CoqN(intern(ids, e.Kind+"\x00"+e.JSON+"\x00"+e.Sum)))
		}
		rows = append(rows, vh.CoqList(xs))
	}
	return vh.CoqList(rows)
}

func sums(ids map[string]int, t pipe.Transcript) string {
	var xs []string
	for _, e := range t.Records() {
		if e.Kind == "rec" {
			xs = append(xs, vh.CoqN(intern(ids, e.Sum)))
		} else {
			xs = append(xs, vh.CoqN(0))
		}
	}
	return vh.CoqList(xs)
}

type pending struct {
	cs    pipe.Case
	first pipe.Transcript
}

func main() {
	for i, a := range os.Args {
		if (a == "-child" || a == "--child") && i+1 < len(os.Args) {
			child(os.Args[i+1])
			return
		}
	}
	_ = childFile
	o := vh.ParseOpts()
	r := vh.NewRng(o.Seed)
	sum := vh.NewSummary("C15", o,
		"(schema, input) pairs of the seven formats; each run twice, with the schema loaded again, after a random prefix of other transforms in the process, and in a fresh process; plus checksum sensitivity/equality cases; non-trivial = the compared run was preceded by >= 1 other transform in its process (prefix length >= 1); distinct by (schema, input)")
	cw := vh.NewCaseWriter(o, "C15", "Base.Tree Model.Pipeline", "c15case", "check_c15")
	fmts := pipe.Formats()
	pipe.Default()

	// ---- corpus first ----
	if o.Corpus != "" {
		files, _ := filepath.Glob(filepath.Join(o.Corpus, "*.json"))
		sort.Strings(files)
		for _, f := range files {
			b, err := os.ReadFile(f)
			if err != nil {
				continue
			}
			var cc corpusCase
			if err := json.Unmarshal(b, &cc); err != nil {
				sum.Fail("corpus file unreadable: "+filepath.Base(f), nil, err.Error())
				continue
			}
			if cc.InputHex == "" {
				cc.Case = pipe.NewCase(cc.Format, cc.Schema, []byte(cc.InputText))
			}
			vh.Current(o, cc.Case)
			pipe.Watch("corpus " + cc.Name)
			t := runOnce(cc.Case)
			sum.Hist("corpus:" + cc.Name)
			bad := false
			seen := map[string]int{}
			for i, e := range t {
				if e.Kind != "rec" {
					continue
				}
				if _, dup := seen[e.Sum]; dup {
					bad = true
				}
				seen[e.Sum] = i
			}
			fmt.Printf("corpus %s key=%s fails=%v\n", cc.Name, vh.KeyOf(cc.Case), bad)
			if bad {
				sum.Fail(cc.What, cc.Case, map[string]interface{}{"transcript": t})
			} else if cc.Expect == "known-finding" {
				fmt.Printf("corpus %s no longer fails (finding repaired?)\n", cc.Name)
			}
		}
	}

	total := o.Count(200, 2600)
	nproc := o.Count(20, 60)
	if o.N > 0 {
		nproc = 4
	}
	var pend []pending
	var history []pipe.Case // earlier cases: the pool the random prefixes are drawn from

	for c := 0; c < total; c++ {
		f := fmts[r.Pick(len(fmts))]
		env := pipe.Env{Header: r.Chance(0.5), Trailer: r.Chance(0.5), Ctx: "H1"}
		var extra []string
		if env.Header && f.CtxField() != "" {
			extra = append(extra, f.CtxField())
		}
		if f.AncestorField() != "" && r.Chance(0.4) {
			extra = append(extra, f.AncestorField())
			if r.Chance(0.5) {
				extra = append(extra, f.AncestorManyField(r.Between(12, 30)))
			}
		}
		var must []string
		forcedDotted := false
		switch r.Pick(9) {
		case 6:
			must = []string{"dotted-names"}
			forcedDotted = true
		case 7:
			must = []string{"normalize"}
		case 8:
			must = []string{"flag-arg", "implicit-node"}
		case 0:
			must = []string{"js-throw"}
		case 1, 2:
			must = []string{"js-global-probe"}
		case 3:
			must = []string{"typed-externals"}
		}
		schema, feats := f.SchemaWith(r, must, extra, env)
		var in []byte
		kind := "records"
		if r.Chance(0.7) || (f.Name == "json" && env.Header) {
			n := r.Between(1, 6)
			recs := make([]pipe.Rec, n)
			for i := range recs {
				recs[i] = pipe.GenRec(r, f, false)
			}
			in = f.Render(env, recs)
		} else {
			in, kind = vh.Mutate(r, f.Fixture.Gen(r, r.Between(1, 8)))
			kind = "fixture-" + kind
		}
		cs := pipe.NewCase(f.Name, schema, in)
		cs.Ext = pipe.GenExt(r.Pick)
		if feats["normalize"] {
			cs.Funcs = r.Pick(2) // which Extension binds the name normalize
			sum.Hist(fmt.Sprintf("extension-variant:%d", cs.Funcs))
		}
		pipe.CheckVariant = cs.Funcs
		cs2 := cs // the same schema and input under different externals
		cs2.Ext = pipe.GenExt(r.Pick)
		vh.Current(o, cs)
		pipe.Watch(f.Name)
		comp, err := pipe.CompileV(schema, cs.Funcs)
		if err != nil {
			sum.Fail("generated schema rejected by NewSchema", map[string]string{"format": f.Name, "schema": schema}, err.Error())
			continue
		}
		dump1 := comp.DeclDump()
		t1 := comp.RunReal(in, cs.Ext)
		t2 := comp.RunReal(in, cs.Ext) // same Schema object, second transform
		comp2, _ := pipe.CompileV(schema, cs.Funcs) // schema loaded again: new random declaration hashes
		t3 := comp2.RunReal(in, cs.Ext)
		dump2 := comp2.DeclDump()
		// random prefix of OTHER transforms (and a widely varying number of node acquisitions), then again
		if r.Chance(0.5) {
			burn := []int{300, 5000, 70000, 400000}[r.Pick(4)]
			pipe.BurnIDs(r.Between(burn/3, burn))
			sum.Hist(fmt.Sprintf("id-counter-advanced:<=%d", burn))
		}
		k := 0
		if len(history) > 0 {
			k = r.Between(1, 4)
			for j := 0; j < k; j++ {
				runOnce(history[r.Pick(len(history))])
			}
		}
		t4 := runOnce(cs)
		// ONE Schema object, a further transform with DIFFERENT externals: it must see its own
		tB := comp.RunReal(in, cs2.Ext)
		tB2 := runOnce(cs2)
		// two transforms read alternately (results retained): each must be its solo transcript
		if len(history) > 0 && c%2 == 0 {
			other := history[r.Pick(len(history))]
			if oc, err := pipe.CompileV(other.Schema, other.Funcs); err == nil {
				solo := oc.RunReal(other.Input(), other.Ext)
				i1, i2 := pipe.RunInterleaved(comp, in, cs.Ext, oc, other.Input(), other.Ext, r.Between(1, 3), r.Between(1, 3))
				sum.Hist("interleaved-pairs")
				if !i1.Equal(t1) || !i2.Equal(solo) {
					sum.Fail("two transforms read alternately do not give their solo transcripts", cs,
						map[string]interface{}{"other": other, "solo_1": t1, "interleaved_1": i1, "solo_2": solo, "interleaved_2": i2})
				}
			}
		}
		pipe.Unwatch()
		if bad := pipe.CheckRetained(); len(bad) > 0 {
			sum.Fail("a result slice returned by Transform.Read changed after later Reads (of this or of other transforms): "+bad[0], cs,
				map[string]interface{}{"violations": bad})
		}
		if !tB.Equal(tB2) {
			sum.Fail("a Schema used for a second transform with different external properties gives a different transcript than a fresh Schema with those externals (first difference at result "+fmt.Sprint(pipe.FirstDiff(tB, tB2))+")",
				cs2, map[string]interface{}{"same_schema_object": tB, "fresh_schema": tB2, "externals_of_the_first_transform": cs.Ext})
		}
		for _, x := range []struct {
			t   pipe.Transcript
			ext map[string]string
		}{{t1, cs.Ext}, {t4, cs.Ext}, {tB, cs2.Ext}} {
			if bad := pipe.CheckOutputs(feats, x.ext, x.t); len(bad) > 0 {
				sum.Fail("output relation violated: "+bad[0], cs, map[string]interface{}{"violations": bad, "transcript": x.t, "externals": x.ext})
				break
			}
		}

		canon, _ := json.Marshal(cs)
		sum.Count(string(canon), k >= 1)
		sum.Hist("format:" + f.Name)
		sum.Hist("input:" + kind)
		sum.Hist(fmt.Sprintf("prefix-len:%d", k))
		for _, kf := range feats.Keys() {
			sum.Hist("feature:" + kf)
		}
		if n := len(t1); n > 0 {
			sum.Hist("terminal:" + t1[n-1].Kind)
		}
		sum.Sample(map[string]interface{}{"case": cs, "features": feats.Keys(), "transcript": t1, "prefix_len": k})
		for name, t := range map[string]pipe.Transcript{"second transform of the same Schema": t2, "schema loaded again": t3, "after a prefix of other transforms": t4} {
			// runs of one implementation: the error texts of failing records are compared as well
			if !t1.EqualMsg(t) {
				i := pipe.FirstDiffMsg(t1, t)
				sum.Fail("transcript differs: "+name+" (first difference at result "+fmt.Sprint(i)+")", cs,
					map[string]interface{}{"first": withMsg(t1, i), "other": withMsg(t, i)})
				break
			}
		}
		// the same schema bytes loaded many more times: validated declaration tree (children = evaluation
		// order) and transcript incl. error texts must not vary from load to load
		if forcedDotted || c%10 == 0 {
			nl := 3
			if forcedDotted {
				nl = 16 // about 1 load in 8 picks another order when the order is not pinned
			}
			for l := 0; l < nl; l++ {
				cl, err := pipe.CompileV(schema, cs.Funcs)
				if err != nil {
					break
				}
				if d := cl.DeclDump(); d != dump1 {
					sum.Fail("validated declaration tree (children order = evaluation order) differs between loads of the same schema bytes", cs,
						map[string]string{"first": dump1, "load": d})
					break
				}
				if tl := cl.RunReal(in, cs.Ext); !t1.EqualMsg(tl) {
					i := pipe.FirstDiffMsg(t1, tl)
					sum.Fail("transcript differs between loads of the same schema bytes (first difference at result "+fmt.Sprint(i)+")", cs,
						map[string]interface{}{"first": withMsg(t1, i), "load": withMsg(tl, i)})
					break
				}
			}
			sum.Hist("repeated-schema-loads")
		}
		// ONE transformctx.Ctx object used for several NewTransform calls: the later transform must
		// behave as with a Ctx of its own
		if len(history) > 0 && c%2 == 1 {
			other := history[r.Pick(len(history))]
			if oc, err := pipe.CompileV(other.Schema, other.Funcs); err == nil {
				shared := &transformctx.Ctx{ExternalProperties: cs.Ext}
				_ = oc.RunRealCtx(shared, "earlier-input", other.Input())
				ts := comp.RunRealCtx(shared, "in", in)
				sum.Hist("shared-ctx-object")
				if !t1.EqualMsg(ts) {
					i := pipe.FirstDiffMsg(t1, ts)
					sum.Fail("a transform started with a transformctx.Ctx object that an earlier NewTransform had used differs from the run with its own Ctx (first difference at result "+fmt.Sprint(i)+")", cs,
						map[string]interface{}{"own_ctx": withMsg(t1, i), "shared_ctx": withMsg(ts, i), "earlier": other})
				}
			}
		}
		// the other Extension's binding of the same custom function name, used in between
		if feats["normalize"] {
			if ov, err := pipe.CompileV(schema, 1-cs.Funcs); err == nil {
				pipe.CheckVariant = 1 - cs.Funcs
				if bad := pipe.CheckOutputs(feats, cs.Ext, ov.RunReal(in, cs.Ext)); len(bad) > 0 {
					sum.Fail("output relation violated (schema created with the other Extension): "+bad[0], cs, map[string]interface{}{"violations": bad})
				}
				pipe.CheckVariant = cs.Funcs
				if ta := comp.RunReal(in, cs.Ext); !t1.EqualMsg(ta) {
					sum.Fail("transcript differs after a schema created with another Extension (same custom function name, different function) ran", cs,
						map[string]interface{}{"first": t1, "after": ta})
				}
			}
		}
		for _, e := range t1 {
			if e.Kind == "panic" || e.Kind == "cap" {
				sum.Fail("run ended with "+e.Kind, cs, e.Msg)
			}
		}
		if dump1 != dump2 {
			sum.Fail("validated declaration tree differs between two loads of the same schema (hash classes / children order)", cs,
				map[string]string{"first": dump1, "second": dump2})
		}
		cw.Add("C15Det "+coqRuns([]pipe.Transcript{t1, t2, t3, t4}), map[string]interface{}{"case": cs, "kind": "in-process"})
		// the checksum canon of the model (Model/Pipeline.v j2) against idr.J2NodeToInterface
		if c%3 == 0 {
			k := 0
			comp.RawNodes(in, cs.Ext, func(n *idr.Node) {
				if k < 2 && vh.TreeSize(n) <= 40 {
					cw.Add("C15Canon "+vh.CoqTree(n)+" "+pipe.CoqJV(idr.J2NodeToInterface(n, true)),
						map[string]interface{}{"case": cs, "kind": "canon", "record": k})
					sum.Hist("canon-case:" + f.Name)
					if f.Name != "json" && f.Name != "xml" && n.FirstChild != nil && n.FirstChild != n.LastChild {
						// (the premise of canon_injective_flat: at least two columns; a short csv row has fewer)
						cw.Add("C15Flat "+vh.CoqTree(n), map[string]interface{}{"case": cs, "kind": "flat-shape", "record": k})
					}
				}
				k++
			})
		}
		// the children (= evaluation) order of every object declaration, as validated: strictly
		// increasing in the full fqdn (Props/C15.v children_order_deterministic)
		if c%3 == 1 {
			var lists []string
			for _, m := range childrenRe.FindAllStringSubmatch(dump1, -1) {
				var items []string
				for _, q := range itemRe.FindAllString(m[1], -1) {
					if u, err := strconv.Unquote(q); err == nil {
						items = append(items, vh.CoqHex([]byte(u)))
					}
				}
				if len(items) > 1 {
					lists = append(lists, vh.CoqList(items))
				}
			}
			if len(lists) > 0 {
				cw.Add("C15Order "+vh.CoqList(lists), map[string]interface{}{"case": cs, "kind": "children-order"})
				sum.Hist("children-order-cases")
			}
		}
		history = append(history, cs)
		if len(history) > 40 {
			history = history[1:]
		}
		pend = append(pend, pending{cs, t1})
		if feats["typed-externals"] || feats["external-const"] {
			pend = append(pend, pending{cs2, tB})
		}

		// ---- checksum sensitivity / equality on a record-structured input, fixture schema ----
		if r.Chance(0.5) {
			checksumCase(o, r, sum, cw, fmts[r.Pick(len(fmts))])
		}
	}

	// ---- big cases: many declarations incl. ancestor-anchored objects, hundreds of records; the
	// process-wide node ID counter at the start of the transform differs widely between the
	// in-process runs and the fresh process each of them is compared with ----
	pipe.CheckVariant = 0
	nbig := o.Count(10, 60)
	if o.N > 0 {
		nbig = 3
	}
	var big []pending
	for b := 0; b < nbig; b++ {
		f := fmts[5+r.Pick(2)] // json, xml: formats with long-lived ancestors
		env := pipe.Env{Header: f.Name == "xml" && r.Chance(0.5), Ctx: "H1"}
		pipe.Skip["dyn3"] = true
		schema, feats := f.SchemaWith(r, []string{"plain", "cast", "identical-decls", "identical-decls-anchoring", "template",
			"template-dynamic-anchors", "typed-externals", "external-const", "xpath_dynamic", "late-cast"},
			[]string{f.AncestorField(), f.AncestorManyField(r.Between(12, 40))}, env)
		delete(pipe.Skip, "dyn3")
		if feats["javascript"] || feats["javascript_with_context"] || feats["js-whitespace"] || feats["js-throw"] || feats["js-global-probe"] {
			sum.Hist("big:with-javascript")
		}
		n := r.Between(150, 400)
		recs := make([]pipe.Rec, n)
		for i := range recs {
			recs[i] = f.Place(r, env, pipe.GenRec(r, f, r.Chance(0.95)))
		}
		in := f.Render(env, recs)
		cs := pipe.NewCase(f.Name, schema, in)
		cs.Ext = pipe.GenExt(r.Pick)
		vh.Current(o, cs)
		pipe.Watch("big " + f.Name)
		pipe.BurnIDs(r.Between(1000, 300000))
		t1 := runOnce(cs)
		pipe.BurnIDs(r.Between(10, 5000))
		t2 := runOnce(cs)
		pipe.Unwatch()
		canon, _ := json.Marshal(cs)
		sum.Count(string(canon), true)
		sum.Hist("big-case:" + f.Name)
		sum.Hist(fmt.Sprintf("big-case-records:%d-%d", n/100*100, n/100*100+99))
		if !t1.Equal(t2) {
			i := pipe.FirstDiff(t1, t2)
			sum.Fail(fmt.Sprintf("transcript differs between two runs in one process with different node ID counter values (first difference at result %d)", i), cs,
				map[string]interface{}{"first": entryAt(t1, i), "second": entryAt(t2, i)})
		}
		if bad := pipe.CheckOutputs(feats, cs.Ext, t1); len(bad) > 0 {
			sum.Fail("output relation violated: "+bad[0], cs, map[string]interface{}{"violations": bad})
		}
		if bad := pipe.CheckRetained(); len(bad) > 0 {
			sum.Fail("a result slice returned by Transform.Read changed after later Reads: "+bad[0], cs, map[string]interface{}{"violations": bad})
		}
		cw.Add("C15Det "+coqRuns([]pipe.Transcript{t1, t2}), map[string]interface{}{"kind": "big-in-process", "format": f.Name, "records": n})
		big = append(big, pending{cs, t1})
	}

	// ---- schema pairs: A and B differ in exactly ONE const argument of a custom function and are
	// run over the same input, A then B here, B then A in a fresh process: whichever runs first
	// must not decide the other's output (process-wide memos inside custom functions) ----
	npairs := o.Count(20, 120)
	if o.N > 0 {
		npairs = 3
	}
	var pairs [][2]pending
	dts := []string{"2021-03-04 05:06:07", "2020-12-31 23:59:59", "1999-01-01 00:00:00", "2021-03-04 05:06:07", "not a date", ""}
	for b := 0; b < npairs; b++ {
		f := fmts[[]int{0, 1, 2, 5, 6}[r.Pick(5)]] // formats whose field c can hold a date-time text
		env := pipe.Env{Header: r.Chance(0.5), Trailer: r.Chance(0.5), Ctx: "H1"}
		variants := [][2]string{{"true", "false"}, {"America/New_York", "UTC"}, {"Asia/Tokyo", ""}, {"SECOND", "MILLISECOND"}, {"pre-", "PRE-"}}
		which := r.Pick(len(variants))
		mk := func(v string) string {
			ltz, from, to, unit, pre := "false", "", "", "SECOND", "pre-"
			switch which {
			case 0:
				ltz = v
			case 1:
				from = v
			case 2:
				to = v
			case 3:
				unit = v
			case 4:
				pre = v
			}
			ex := []string{
				`"dt1": {"custom_func":{"name":"dateTimeLayoutToRFC3339","ignore_error":true,"args":[{"xpath":"c"},{"const":"2006-01-02 15:04:05"},{"const":"` + ltz + `"},{"const":"` + from + `"},{"const":"` + to + `"}]}}`,
				`"dt2": {"custom_func":{"name":"dateTimeToRFC3339","ignore_error":true,"args":[{"xpath":"c"},{"const":"` + from + `"},{"const":"` + to + `"}]}}`,
				`"dt3": {"custom_func":{"name":"dateTimeToEpoch","ignore_error":true,"args":[{"xpath":"c"},{"const":"` + from + `"},{"const":"` + unit + `"}]}}`,
				`"cc": {"custom_func":{"name":"concat","args":[{"const":"` + pre + `"},{"xpath":"a","keep_empty_or_null":true}]}}`,
				`"uu": {"custom_func":{"name":"uuidv3","args":[{"custom_func":{"name":"concat","args":[{"const":"` + pre + `"},{"xpath":"c","keep_empty_or_null":true}]}}]}}`,
				`"lo": {"custom_func":{"name":"lower","args":[{"custom_func":{"name":"concat","args":[{"const":"` + pre + `"},{"xpath":"c","keep_empty_or_null":true}]}}]}}`,
			}
			rr := vh.NewRng(int64(b)*7919 + o.Seed) // the same declarations otherwise
			pipe.OnlyMust = true
			sch, _ := f.SchemaWith(rr, []string{"plain", "cast"}, ex, env)
			pipe.OnlyMust = false
			return sch
		}
		sa, sb := mk(variants[which][0]), mk(variants[which][1])
		n := r.Between(3, 8)
		recs := make([]pipe.Rec, n)
		for i := range recs {
			recs[i] = pipe.GenRec(r, f, true)
			recs[i].C = dts[r.Pick(len(dts))]
			if strings.HasPrefix(recs[i].C, "2021") {
				// values no other pair (and nothing else in this process) has evaluated before
				recs[i].C = fmt.Sprintf("2021-03-%02d %02d:%02d:07", 1+b%28, (b/28)%24, r.Pick(3))
			}
		}
		in := f.Render(env, recs)
		ca, cb := pipe.NewCase(f.Name, sa, in), pipe.NewCase(f.Name, sb, in)
		ca.Ext, cb.Ext = pipe.GenExt(r.Pick), nil
		cb.Ext = ca.Ext
		vh.Current(o, map[string]interface{}{"pair": []pipe.Case{ca, cb}})
		pipe.Watch("pair " + f.Name)
		ta := runOnce(ca) // A first, then B
		tb := runOnce(cb)
		pipe.Unwatch()
		sum.Hist("schema-pair:" + []string{"layout_tz", "from_tz", "to_tz", "epoch-unit", "concat-prefix"}[which])
		canon, _ := json.Marshal([]pipe.Case{ca, cb})
		sum.Count(string(canon), true)
		cw.Add("C15Det "+coqRuns([]pipe.Transcript{ta, ta}), map[string]interface{}{"kind": "schema-pair", "format": f.Name})
		pairs = append(pairs, [2]pending{{ca, ta}, {cb, tb}})
	}

	sameSchemaConcurrent(o, r, sum, fmts)

	// ---- fresh processes ----
	self, err := os.Executable()
	if err != nil {
		sum.Fail("cannot find own executable for the fresh-process runs", nil, err.Error())
	} else if len(pend) > 0 {
		if nproc > len(pend) {
			nproc = len(pend)
		}
		sum.Extra["fresh_processes"] = nproc
		for p := 0; p < nproc+len(big)+len(pairs); p++ {
			var batch []pending
			if p >= nproc+len(big) {
				pr := pairs[p-nproc-len(big)]
				batch = []pending{pr[0], pr[1]} // the child runs its batch in reverse order: B first, then A
			} else if p >= nproc {
				batch = []pending{big[p-nproc]} // a big case alone in its fresh process (counter starts at 0)
			} else {
				for i := p; i < len(pend); i += nproc {
					batch = append(batch, pend[i])
				}
			}
			cases := make([]pipe.Case, len(batch))
			for i, b := range batch {
				cases[i] = b.cs
			}
			path := filepath.Join(o.Out, fmt.Sprintf("child_%03d.json", p))
			jb, _ := json.Marshal(cases)
			_ = os.WriteFile(path, jb, 0o644)
			vh.Current(o, map[string]interface{}{"fresh_process_batch": cases})
			cmd := exec.Command(self, "-child", path)
			cmd.Env = os.Environ()
			outb, err := cmd.CombinedOutput()
			if err != nil {
				sum.Fail("fresh process failed", map[string]interface{}{"batch": p}, string(outb)+err.Error())
				continue
			}
			ob, err := os.ReadFile(path + ".out")
			var ts []pipe.Transcript
			if err == nil {
				err = json.Unmarshal(ob, &ts)
			}
			if err != nil || len(ts) != len(batch) {
				sum.Fail("fresh process wrote no usable result", map[string]interface{}{"batch": p}, fmt.Sprint(err))
				continue
			}
			for i, b := range batch {
				sum.Hist("fresh-process-comparisons")
				if !b.first.Equal(ts[i]) {
					k := pipe.FirstDiff(b.first, ts[i])
					sum.Fail("transcript of a fresh process differs from the in-process transcript (first difference at result "+fmt.Sprint(k)+")",
						b.cs, map[string]interface{}{"in_process": entryAt(b.first, k), "fresh_process": entryAt(ts[i], k)})
				}
				cw.Add("C15Det "+coqRuns([]pipe.Transcript{b.first, ts[i]}), map[string]interface{}{"case": b.cs, "kind": "fresh-process"})
			}
			_ = os.Remove(path)
			_ = os.Remove(path + ".out")
		}
	}
	cw.Flush()
	sum.CaseFiles = cw.Files
	sum.Write(o)
}

// checksumCase: n records none of which fails under the fixture schema; one ingested value of
// one record is replaced by a different one (inside the F12 guard for xml: element text of a
// child element, or an attribute of the record element, which has element children); a copy of
// one record is appended (equal raw records).
func checksumCase(o *vh.Opts, r *vh.Rng, sum *vh.Summary, cw *vh.CaseWriter, f pipe.Fmt) {
	env := pipe.Env{Header: r.Chance(0.5) && f.Name != "json", Trailer: r.Chance(0.5)}
	n := r.Between(2, 5)
	recs := make([]pipe.Rec, n)
	for i := range recs {
		recs[i] = pipe.GenRec(r, f, true)
		if recs[i].A == "FAIL" {
			recs[i].A = "ok"
		}
		if f.Name == "xml" {
			// F12 guard: no mixed content (text beside element children is not part of the
			// checksum canon), attributes only on elements that have element children
			recs[i].Nest = false
		}
	}
	dupOf := r.Pick(n)
	recs = append(recs, recs[dupOf]) // equal raw record at another position
	i := r.Pick(n)
	mut := append([]pipe.Rec(nil), recs...)
	field := r.PickStr("a", "b", "c")
	if f.Name == "xml" && r.Chance(0.3) {
		field = "attr"
	}
	switch field {
	case "a":
		mut[i].A = pickOther(r, mut[i].A, f, []string{"x", "abc", "Q9", "w", "k7", "zz"})
	case "b":
		mut[i].B = pickOther(r, mut[i].B, f, []string{"1", "22", "333", "-4", "50"})
	case "c":
		mut[i].C = pickOther(r, mut[i].C, f, []string{"x", "abc", "Q9", "w", "p", "zz"})
	case "attr":
		mut[i].Attr = pickOther(r, mut[i].Attr, f, []string{"1", "2", "k"})
	}
	schema := f.Fixture.Schema
	in1, in2 := f.Render(env, recs), f.Render(env, mut)
	cs := map[string]interface{}{"format": f.Name, "schema": schema, "input_hex": fmt.Sprintf("%x", in1),
		"mutated_input_hex": fmt.Sprintf("%x", in2), "record": i, "field": field, "dup_of": dupOf}
	comp, err := pipe.Compile(schema)
	if err != nil {
		sum.Fail("fixture schema rejected", cs, err.Error())
		return
	}
	vh.Current(o, cs)
	pipe.Watch("checksum " + f.Name)
	t1 := comp.RunReal(in1, nil)
	t2 := comp.RunReal(in2, nil)
	pipe.Unwatch()
	sum.Hist("checksum-case:" + f.Name + ":" + field)
	r1, r2 := t1.Records(), t2.Records()
	detail := map[string]interface{}{"before": t1, "after": t2}
	if len(r1) != n+1 || len(r2) != n+1 {
		sum.Fail("checksum case: expected every record to be delivered", cs, detail)
		return
	}
	for j := range r1 {
		if r1[j].Kind != "rec" || r2[j].Kind != "rec" {
			sum.Fail("checksum case: a record failed under the fixture schema", cs, detail)
			return
		}
	}
	for j := range r1 {
		same := r1[j].Sum == r2[j].Sum
		if j == i && same {
			sum.Fail(fmt.Sprintf("checksum unchanged although ingested value %s of record %d changed", field, i), cs, detail)
		}
		if j != i && !same {
			sum.Fail(fmt.Sprintf("checksum of record %d changed although only record %d was edited", j, i), cs, detail)
		}
	}
	if r1[n].Sum != r1[dupOf].Sum {
		sum.Fail(fmt.Sprintf("equal raw records %d and %d have different checksums", dupOf, n), cs, detail)
	}
	ids := map[string]int{}
	cw.Add(fmt.Sprintf("C15Sum %s %s %s %s %s", sums(ids, t1), sums(ids, t2), vh.CoqNat(i), vh.CoqNat(dupOf), vh.CoqNat(n)),
		map[string]interface{}{"case": cs, "kind": "checksum"})
}

func pickOther(r *vh.Rng, cur string, f pipe.Fmt, pool []string) string {
	for {
		v := pool[r.Pick(len(pool))]
		if v != cur && !(f.Name == "csv" && v == cur) {
			return v
		}
	}
}
