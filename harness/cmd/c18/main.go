// c18: correspondence + oracle harness for property C18 (declared input encodings and byte-order
// marks are handled transparently).
//
// Implementation side, through public API only:
//   - tables: every single byte through header.ParserSettings.WrapEncoding (the real name ->
//     decoder map) - 2 x 256 (byte -> rune) pairs, embedded in the case file (TableCase);
//   - pipeline: a caller-supplied schema handler (Extension.CreateSchemaHandler) whose
//     NewIngester reads the io.Reader that schema.NewTransform hands over, i.e. exactly
//     ios.StripBOM(WrapEncoding(input)) as composed by the code under test (PipeCase);
//   - transcripts: the seven built-in formats with "encoding" added to parser_settings.
//
// Oracle (Go side, independent of x/text: the code pages below are written from the Unicode
// mapping files): transcript(bytes, X) == transcript(utf8_of_X(bytes), utf-8); the stream the
// ingester receives == utf8_of_X(bytes) (one leading BOM removed for utf-8 only), for every way
// the input is split into reads.
package main

import (
	"bytes"
	"encoding/hex"
	"encoding/json"
	"fmt"
	"io"
	"io/ioutil"
	"os"
	"strings"
	"testing/iotest"
	"unicode/utf8"

	"github.com/jf-tech/omniparser"
	"github.com/jf-tech/omniparser/errs"
	"github.com/jf-tech/omniparser/header"
	"github.com/jf-tech/omniparser/schemahandler"
	"github.com/jf-tech/omniparser/transformctx"

	"verifharness/vh"
)

// ---- reference conversion (Unicode Consortium 8859-1.TXT / CP1252.TXT) ------------------------

var cp1252High = [32]rune{
	0x20AC, 0xFFFD, 0x201A, 0x0192, 0x201E, 0x2026, 0x2020, 0x2021,
	0x02C6, 0x2030, 0x0160, 0x2039, 0x0152, 0xFFFD, 0x017D, 0xFFFD,
	0xFFFD, 0x2018, 0x2019, 0x201C, 0x201D, 0x2022, 0x2013, 0x2014,
	0x02DC, 0x2122, 0x0161, 0x203A, 0x0153, 0xFFFD, 0x017E, 0x0178,
}

func refRune(enc string, b byte) rune {
	if enc == "windows-1252" && b >= 0x80 && b < 0xA0 {
		return cp1252High[b-0x80]
	}
	return rune(b)
}

// utf8Of converts input to UTF-8 with the standard code page of enc ("" and "utf-8": unchanged).
func utf8Of(enc string, in []byte) []byte {
	if enc == "" || enc == "utf-8" {
		return in
	}
	var out []byte
	var buf [4]byte
	for _, b := range in {
		n := utf8.EncodeRune(buf[:], refRune(enc, b))
		out = append(out, buf[:n]...)
	}
	return out
}

var bom = []byte{0xEF, 0xBB, 0xBF}

// expectedStream is what the format reader must receive by the property.
func expectedStream(enc string, in []byte) []byte {
	if enc == "" || enc == "utf-8" {
		return bytes.TrimPrefix(in, bom) // exactly one leading mark
	}
	return utf8Of(enc, in)
}

// ---- readers that split the input differently ------------------------------------------------------

type chunkReader struct {
	data  []byte
	sizes []int
	i     int
}

func (c *chunkReader) Read(p []byte) (int, error) {
	if len(c.data) == 0 {
		return 0, io.EOF
	}
	n := 1
	if len(c.sizes) > 0 {
		n = c.sizes[c.i%len(c.sizes)]
		c.i++
	}
	if n > len(c.data) {
		n = len(c.data)
	}
	if n > len(p) {
		n = len(p)
	}
	copy(p, c.data[:n])
	c.data = c.data[n:]
	return n, nil
}

// mkReader: mode is "whole", "onebyte", "dataerr" (last data returned together with io.EOF) or
// "chunks:a,b,c" (cyclic chunk sizes).
func mkReader(mode string, in []byte) io.Reader {
	switch {
	case mode == "onebyte":
		return iotest.OneByteReader(bytes.NewReader(in))
	case mode == "dataerr":
		return iotest.DataErrReader(bytes.NewReader(in))
	case strings.HasPrefix(mode, "chunks:"):
		var sizes []int
		for _, f := range strings.Split(mode[7:], ",") {
			var n int
			fmt.Sscan(f, &n)
			if n > 0 {
				sizes = append(sizes, n)
			}
		}
		return &chunkReader{data: append([]byte(nil), in...), sizes: sizes}
	}
	return bytes.NewReader(in)
}

func genMode(r *vh.Rng) string {
	switch r.Pick(6) {
	case 0, 1:
		return "whole"
	case 2, 3:
		return "onebyte"
	case 4:
		return "dataerr"
	}
	return fmt.Sprintf("chunks:%d,%d,%d", r.Between(1, 3), r.Between(1, 4), r.Between(1, 2))
}

// ---- the capture handler: what does NewTransform hand to the ingester? -----------------------------

type captureIngester struct{}

func (captureIngester) Read() (schemahandler.RawRecord, []byte, error) { return nil, nil, io.EOF }
func (captureIngester) IsContinuableError(error) bool                  { return false }
func (captureIngester) FmtErr(f string, a ...interface{}) error        { return fmt.Errorf(f, a...) }

type captureHandler struct {
	got     *[]byte
	readBuf *int // 0: ioutil.ReadAll; n > 0: the consumer reads n bytes at a time
}

func (h captureHandler) NewIngester(_ *transformctx.Ctx, input io.Reader) (schemahandler.Ingester, error) {
	var b []byte
	var err error
	if *h.readBuf <= 0 {
		b, err = ioutil.ReadAll(input)
	} else {
		// a consumer with a small buffer, as the format readers are: the bufio.Reader inside
		// StripBOM then refills its whole 4096-byte buffer from the decoder each time
		p := make([]byte, *h.readBuf)
		for zero := 0; err == nil && zero < 100; {
			var n int
			n, err = input.Read(p)
			b = append(b, p[:n]...)
			if n == 0 {
				zero++
			} else {
				zero = 0
			}
		}
		if err == io.EOF {
			err = nil
		}
	}
	if err != nil {
		return nil, err
	}
	*h.got = b
	return captureIngester{}, nil
}

type captureSchema struct {
	s       omniparser.Schema
	got     []byte
	readBuf int
}

func encSetting(enc string) string {
	if enc == "" {
		return ""
	}
	b, _ := json.Marshal(enc)
	return `, "encoding": ` + string(b)
}

func newCaptureSchema(enc string) (*captureSchema, error) {
	cs := &captureSchema{}
	ext := omniparser.Extension{CreateSchemaHandler: func(ctx *schemahandler.CreateCtx) (schemahandler.SchemaHandler, error) {
		if ctx.Header.ParserSettings.Version != "verif.capture" {
			return nil, errs.ErrSchemaNotSupported
		}
		return captureHandler{got: &cs.got, readBuf: &cs.readBuf}, nil
	}}
	src := `{"parser_settings": {"version": "verif.capture", "file_format_type": "capture"` + encSetting(enc) + `}}`
	s, err := omniparser.NewSchema("capture", strings.NewReader(src), ext)
	if err != nil {
		return nil, err
	}
	cs.s = s
	return cs, nil
}

func (cs *captureSchema) stream(mode string, in []byte) (out []byte, err error) {
	defer func() {
		if r := recover(); r != nil {
			err = fmt.Errorf("panic: %v", r)
		}
	}()
	cs.got = nil
	_, err = cs.s.NewTransform("in", mkReader(mode, in), &transformctx.Ctx{})
	if err != nil {
		return nil, err
	}
	if cs.got == nil {
		return []byte{}, nil
	}
	return cs.got, nil
}

// ---- transcripts of the seven built-in formats ----------------------------------------------------

type step struct {
	Kind  string `json:"kind"` // rec | failed | eof | fatal | panic
	Bytes string `json:"bytes,omitempty"`
}

func transcript(s omniparser.Schema, mode string, in []byte, maxReads int) (steps []step) {
	defer func() {
		if r := recover(); r != nil {
			steps = append(steps, step{Kind: "panic"})
		}
	}()
	t, err := s.NewTransform("in", mkReader(mode, in), &transformctx.Ctx{})
	if err != nil {
		return []step{{Kind: "newtransform-error"}}
	}
	for i := 0; i < maxReads; i++ {
		b, err := t.Read()
		switch {
		case err == nil:
			steps = append(steps, step{Kind: "rec", Bytes: string(b)})
		case err == io.EOF:
			return append(steps, step{Kind: "eof"})
		case errs.IsErrTransformFailed(err):
			steps = append(steps, step{Kind: "failed"})
		default:
			return append(steps, step{Kind: "fatal"})
		}
	}
	return steps
}

func sameSteps(a, b []step) (bool, int) {
	for i := 0; i < len(a) || i < len(b); i++ {
		if i >= len(a) || i >= len(b) || a[i] != b[i] {
			return false, i
		}
	}
	return true, -1
}

// recordWith builds an input for the format of fixture fi in which val is the content of field
// `a` of the second of three records.
func recordWith(fi int, val []byte) []byte {
	var b bytes.Buffer
	w := func(s string) { b.WriteString(s) }
	switch fi {
	case 0:
		w("a,b,c\nk1,1,w\n")
		b.Write(val)
		w(",2,x\nk3,3,y\n")
	case 1:
		w("H|head\nR|k1|1|w\nR|")
		b.Write(val)
		w("|2|x\nR|k3|3|y\n")
	case 2:
		w("HDR*1~DAT*k1*1*w~\nDAT*")
		b.Write(val)
		w("*2*x~DAT*k3*3*y~TRL*9~")
	case 3:
		w("k1    1    w     \n")
		b.Write(val)
		w(strings.Repeat(" ", 6-min(6, len(val))) + "2    x     \nk3    3    y     \n")
	case 4:
		w("Hhead\nRk1    1    w     \nR")
		b.Write(val)
		w(strings.Repeat(" ", 6-min(6, len(val))) + "2    x     \nRk3    3    y     \n")
	case 5:
		w(`[{"a":"k1","b":"1","c":"w"},{"a":"`)
		b.Write(val)
		w(`","b":"2","c":"x"},{"a":"k3","b":"3","c":"y"}]`)
	default:
		w("<r><n><a>k1</a><b>1</b><c>w</c></n>\n<n><a>")
		b.Write(val)
		w("</a><b>2</b><c>x</c></n><n><a>k3</a><b>3</b><c>y</c></n></r>")
	}
	return b.Bytes()
}

func min(a, b int) int {
	if a < b {
		return a
	}
	return b
}

// ---- case descriptions (replayable) -----------------------------------------------------------------

type caseDesc struct {
	Kind     string    `json:"kind"`     // table | pipe | transcript
	Enc      string    `json:"encoding"` // "" = no encoding setting
	InputHex string    `json:"input_hex,omitempty"`
	Mode     string    `json:"reader,omitempty"`
	Format   string    `json:"format,omitempty"`
	Consumer int       `json:"consumer_read_size,omitempty"` // pipe: 0 = ioutil.ReadAll, n = the ingester reads n bytes at a time
	Long     *longSpec `json:"long_input,omitempty"`         // instead of input_hex
	// interleave: a second transform (same format and encoding) alive at the same time
	Input2Hex  string    `json:"input2_hex,omitempty"`
	Long2      *longSpec `json:"long_input2,omitempty"`
	SameSchema bool      `json:"same_schema,omitempty"`
	Plan       []int     `json:"plan,omitempty"` // reads: 0 = from the first transform, 1 = from the second (created at its first use)
}

// longSpec is the compact, replayable description of a long input: a base (the ASCII filler
// pattern, or the well-formed rows of a format) with bytes patched in, optionally after a prefix.
type longSpec struct {
	Base    string  `json:"base"` // "filler" | "rows:<fixture index>"
	Len     int     `json:"len"`  // filler: length; rows: minimal length
	Prefix  string  `json:"prefix_hex,omitempty"`
	Patches []patch `json:"patches"`
}
type patch struct {
	At  int    `json:"at"`
	Hex string `json:"hex"`
}

func (l *longSpec) build() []byte {
	var b []byte
	if l.Base == "filler" {
		b = make([]byte, l.Len)
		for i := range b {
			b[i] = fillerByte(i)
		}
	} else {
		var fi int
		fmt.Sscanf(l.Base, "rows:%d", &fi)
		b = longRows(fi, l.Len)
	}
	for _, p := range l.Patches {
		x, _ := hex.DecodeString(p.Hex)
		at := p.At
		if at < 0 { // counted from the end: -1 = the input's last byte(s)
			at = len(b) + at - len(x) + 1
		}
		if at >= 0 && at+len(x) <= len(b) {
			copy(b[at:], x)
		}
	}
	pre, _ := hex.DecodeString(l.Prefix)
	return append(pre, b...)
}

// mkDesc: long inputs are described by their longSpec, short ones by their bytes.
func (e *env) mkDesc(kind, enc string, in []byte, mode string) caseDesc {
	d := caseDesc{Kind: kind, Enc: enc, Mode: mode}
	if e.curLong != nil {
		d.Long = e.curLong
	} else {
		d.InputHex = hex.EncodeToString(in)
	}
	return d
}

var encs = []string{"utf-8", "iso-8859-1", "windows-1252"}

func coqEnc(enc string) string {
	if enc == "" {
		return "None"
	}
	return `(Some "` + enc + `")`
}

type env struct {
	o        *vh.Opts
	sum      *vh.Summary
	cw       *vh.CaseWriter
	curLong  *longSpec      // set while a long input is being run
	trN      int            // transcripts run so far
	cwLong   *vh.CaseWriter // long streams: few cases per shard, so that they are evaluated in parallel
	capture  map[string]*captureSchema
	fixtures []vh.Fixture
	schemas  map[string]omniparser.Schema // format + "/" + enc
	seenPipe map[string]bool
	verbose  bool
}

func (e *env) captureFor(enc string) *captureSchema {
	if cs, ok := e.capture[enc]; ok {
		return cs
	}
	cs, err := newCaptureSchema(enc)
	if err != nil {
		e.sum.Fail("schema declaring encoding "+enc+" rejected by NewSchema", caseDesc{Kind: "pipe", Enc: enc}, err.Error())
		cs = nil
	}
	e.capture[enc] = cs
	return cs
}

func (e *env) schemaFor(fi int, enc string) omniparser.Schema { return e.schemaInst(fi, enc, "") }

// fx: fixtures 0..6 are vh.Fixtures() (one per format); the following ones are this harness's
// multi-row envelope / record declarations of fixedlength2 and csv2.
func (e *env) fx(fi int) vh.Fixture {
	if fi < len(e.fixtures) {
		return e.fixtures[fi]
	}
	return multiRowFixtures[fi-len(e.fixtures)]
}

const multiFO = `"transform_declarations": { "FINAL_OUTPUT": { "object": {
  "a": { "xpath": "a" }, "b": { "xpath": "b" }, "c": { "xpath": "c", "keep_empty_or_null": true } } } }`

func multiHdr(format string) string {
	return `"parser_settings": { "version": "omni.2.1", "file_format_type": "` + format + `" }`
}

// multiRowFixtures: envelopes / records that span several lines (fixed row count, header/footer
// delimited, with a one-line file header in front).  kind tells multiRowInput how to lay out rows.
var multiRowFixtures = []vh.Fixture{
	{Format: "fixedlength2/rows3", Schema: `{` + multiHdr("fixedlength2") + `, "file_declaration": { "envelopes": [ { "rows": 3, "columns": [
  {"name":"a","start_pos":2,"length":14,"line_pattern":"^1"}, {"name":"b","start_pos":2,"length":14,"line_pattern":"^2"}, {"name":"c","start_pos":2,"length":14,"line_pattern":"^3"} ] } ] }, ` + multiFO + `}`},
	{Format: "fixedlength2/header-footer", Schema: `{` + multiHdr("fixedlength2") + `, "file_declaration": { "envelopes": [
  { "name": "FH", "header": "^F", "min": 0, "max": 1 },
  { "name": "REC", "header": "^B", "footer": "^E", "is_target": true, "columns": [
  {"name":"a","start_pos":2,"length":14,"line_pattern":"^1"}, {"name":"b","start_pos":2,"length":14,"line_pattern":"^2"}, {"name":"c","start_pos":2,"length":14,"line_pattern":"^3"} ] } ] }, ` + multiFO + `}`},
	{Format: "csv2/rows3", Schema: `{` + multiHdr("csv2") + `, "file_declaration": { "delimiter": "|", "records": [ { "rows": 3, "columns": [
  {"name":"a","index":2,"line_index":1}, {"name":"b","index":2,"line_index":2}, {"name":"c","index":2,"line_index":3} ] } ] }, ` + multiFO + `}`},
	{Format: "csv2/header-footer", Schema: `{` + multiHdr("csv2") + `, "file_declaration": { "delimiter": "|", "records": [
  { "name": "FH", "header": "^F", "min": 0, "max": 1 },
  { "name": "REC", "header": "^B", "footer": "^E", "is_target": true, "columns": [
  {"name":"a","index":2,"line_pattern":"^1"}, {"name":"b","index":2,"line_pattern":"^2"}, {"name":"c","index":2,"line_pattern":"^3"} ] } ] }, ` + multiFO + `}`},
}

// multiRowInput: nrec multi-line records for multiRowFixtures[mi]; values are letters with bytes
// >= 0x80 mixed in at random (so that a decoder's output pieces end elsewhere than raw reads do).
func multiRowInput(mi int, r *vh.Rng, minLen int) []byte {
	var b bytes.Buffer
	csv := mi >= 2
	hf := mi == 1 || mi == 3
	val := func(i int) []byte {
		n := r.Between(3, 14)
		v := make([]byte, n)
		for k := range v {
			v[k] = byte('a' + (i+k)%26)
			switch r.Pick(7) {
			case 0:
				v[k] = byte(0xC0 + r.Pick(0x40))
			case 1:
				v[k] = byte(0x80 + r.Pick(0x20))
			}
		}
		return v
	}
	if hf && r.Chance(0.7) {
		b.WriteString("Ffile header\n")
	}
	for i := 0; b.Len() < minLen; i++ {
		if hf {
			b.WriteString("B\n")
		}
		for row := 1; row <= 3; row++ {
			b.WriteString(fmt.Sprint(row))
			if csv {
				b.WriteString("|")
			}
			b.Write(val(i + row))
			if csv {
				b.WriteString("|x")
			}
			b.WriteString("\n")
			if r.Chance(0.08) {
				b.WriteString("\n") // blank lines are skipped by the readers
			}
		}
		if hf {
			if r.Chance(0.3) {
				b.WriteString("9extra line\n")
				if csv {
					b.Truncate(b.Len() - 1)
					b.WriteString("|z\n")
				}
			}
			b.WriteString("E\n")
		}
	}
	return b.Bytes()
}

// multiRowCases: long multi-line-record inputs with non-ASCII bytes under the code pages.
func (e *env) multiRowCases(r *vh.Rng, n int) {
	for mi := range multiRowFixtures {
		fi := len(e.fixtures) + mi
		for k := 0; k < n; k++ {
			enc := []string{"iso-8859-1", "windows-1252"}[k%2]
			in := multiRowInput(mi, r, []int{4300, 5000, 9000, 13000}[k%4]+r.Intn(900))
			if k%5 == 4 {
				in = append(append([]byte(nil), bom...), in...)
			}
			e.sum.Hist("transcript:multi-row-records")
			e.runTranscript(fi, enc, in, []string{"whole", "whole", "chunks:4096,1000,7"}[k%3])
		}
		// short ones too (and utf-8 with a mark)
		e.runTranscript(fi, "utf-8", append(append([]byte(nil), bom...), multiRowInput(mi, r, 200)...), "onebyte")
		e.runTranscript(fi, "windows-1252", multiRowInput(mi, r, 300), "onebyte")
	}
}

// schemaInst: inst names a separate Schema instance built from the same source.
func (e *env) schemaInst(fi int, enc, inst string) omniparser.Schema {
	k := e.fx(fi).Format + "/" + enc + inst
	if s, ok := e.schemas[k]; ok {
		return s
	}
	src := e.fx(fi).Schema
	if enc != "" {
		src = strings.Replace(src, `"version": "omni.2.1",`, `"version": "omni.2.1", "encoding": "`+enc+`",`, 1)
	}
	s, err := omniparser.NewSchema("fx-"+k, strings.NewReader(src))
	if err != nil {
		e.sum.Fail("fixture schema "+k+" rejected by NewSchema", caseDesc{Kind: "transcript", Enc: enc, Format: e.fx(fi).Format}, err.Error())
		s = nil
	} else if got := s.Header().ParserSettings.Encoding; (enc == "") != (got == nil) || (got != nil && *got != enc) {
		e.sum.Fail("fixture schema "+k+": encoding setting not in effect", caseDesc{Kind: "transcript", Enc: enc, Format: e.fx(fi).Format}, nil)
		s = nil
	}
	e.schemas[k] = s
	return s
}

// runPipe observes the stream handed to the ingester, evaluates the oracle on it and records
// the model case.
func (e *env) runPipe(enc string, in []byte, mode string) { e.runPipeX(enc, in, mode, 0, true) }

// diffDetail describes where two streams part (long streams are not dumped in full).
func diffDetail(got, want []byte) map[string]interface{} {
	i := 0
	for i < len(got) && i < len(want) && got[i] == want[i] {
		i++
	}
	win := func(b []byte) string {
		lo, hi := i-8, i+8
		if lo < 0 {
			lo = 0
		}
		if hi > len(b) {
			hi = len(b)
		}
		if lo > hi {
			lo = hi
		}
		return hex.EncodeToString(b[lo:hi])
	}
	d := map[string]interface{}{"first_difference_at": i, "observed_len": len(got), "expected_len": len(want),
		"observed_around_hex": win(got), "expected_around_hex": win(want)}
	if len(got) <= 64 && len(want) <= 64 {
		d["observed_hex"], d["expected_hex"] = hex.EncodeToString(got), hex.EncodeToString(want)
	}
	return d
}

// runPipeX: consumer = how the ingester reads the stream (0: ReadAll, n: n bytes at a time);
// toModel = also hand the case to the Coq model.
func (e *env) runPipeX(enc string, in []byte, mode string, consumer int, toModel bool) {
	d := e.mkDesc("pipe", enc, in, mode)
	d.Consumer = consumer
	cs := e.captureFor(enc)
	if cs == nil {
		return
	}
	vh.Current(e.o, d)
	cs.readBuf = consumer
	got, err := cs.stream(mode, in)
	cs.readBuf = 0
	if e.verbose {
		fmt.Printf("pipe enc=%q reader=%s consumer=%d input=%d bytes\n  difference from the standard conversion: %v (err=%v)\n", enc, mode, consumer, len(in), diffDetail(got, expectedStream(enc, in)), err)
	}
	if err != nil {
		e.sum.Fail("NewTransform failed on an in-memory input", d, err.Error())
		return
	}
	want := expectedStream(enc, in)
	if !bytes.Equal(got, want) {
		e.sum.Fail("stream handed to the format reader differs from the standard conversion of the input to UTF-8 (one leading BOM removed for utf-8)", d, diffDetail(got, want))
	}
	if mode != "whole" || consumer != 0 {
		whole, err2 := cs.stream("whole", in)
		if err2 != nil || !bytes.Equal(whole, got) {
			e.sum.Fail("stream depends on how the input is split into reads / how the consumer reads", d, diffDetail(got, whole))
		}
	}
	nontrivial := hasHigh(in) && enc != "" && enc != "utf-8" || bytes.HasPrefix(in, bom[:1])
	e.sum.Count(fmt.Sprintf("pipe|%s|%s|%s|%d", enc, vh.KeyOf(in), mode, consumer), nontrivial)
	e.sum.Hist("pipe:enc=" + encLabel(enc))
	e.sum.Hist("pipe:reader=" + modeLabel(mode))
	if len(in) >= 4096 {
		e.sum.Hist("pipe:long-input(>=4096)")
	}
	// the bufio fill model: for the identity decoder the pieces bufio.Reader gets are exactly the
	// source's reads
	if pieces := knownPieces(mode, in); (enc == "" || enc == "utf-8") && toModel && mode != "whole" && pieces != nil && len(in) <= 64 {
		var ps []string
		for _, p := range pieces {
			ps = append(ps, vh.CoqHex(p))
		}
		e.sum.Hist("pipe:split-case(bufio fill model)")
		e.cw.Add(fmt.Sprintf("SplitCase %s %s", vh.CoqList(ps), vh.CoqHex(got)), d)
	}
	k := enc + "|" + vh.KeyOf(in)
	if toModel && !e.seenPipe[k] {
		e.seenPipe[k] = true
		if len(in) >= 1024 {
			// long streams as segments (a 10 KB hex literal costs coqc seconds to read)
			e.cwLong.Add(fmt.Sprintf("SegPipeCase %s %s %s", coqEnc(enc), coqSegs(in), coqSegs(got)), d)
		} else {
			e.cw.Add(fmt.Sprintf("PipeCase %s %s %s", coqEnc(enc), vh.CoqHex(in), vh.CoqHex(got)), d)
		}
	}
}

// knownPieces: the reads the source delivers, where the reader mode fixes them.
func knownPieces(mode string, in []byte) [][]byte {
	var out [][]byte
	switch {
	case mode == "onebyte":
		for i := range in {
			out = append(out, in[i:i+1])
		}
	case mode == "whole" || mode == "dataerr":
		out = [][]byte{in}
	case strings.HasPrefix(mode, "chunks:"):
		var sizes []int
		for _, f := range strings.Split(mode[7:], ",") {
			var n int
			fmt.Sscan(f, &n)
			if n > 0 {
				sizes = append(sizes, n)
			}
		}
		for i, k := 0, 0; i < len(in); k++ {
			n := 1
			if len(sizes) > 0 {
				n = sizes[k%len(sizes)]
			}
			if i+n > len(in) {
				n = len(in) - i
			}
			out = append(out, in[i:i+n])
			i += n
		}
	default:
		return nil
	}
	if out == nil {
		out = [][]byte{}
	}
	return out
}

// fillerByte is byte i of the filler pattern (Model/Encoding.v: fill).
func fillerByte(i int) byte { return byte('a' + i%23) }

// coqSegs writes b as Model.Encoding segments: maximal stretches (>= 16 bytes) that follow the
// filler pattern become SFill phase len, everything else literal bytes.
func coqSegs(b []byte) string {
	var segs []string
	var lit []byte
	flush := func() {
		if len(lit) > 0 {
			segs = append(segs, "SLit "+vh.CoqHex(lit))
			lit = nil
		}
	}
	for i := 0; i < len(b); {
		n := 0
		if b[i] >= 'a' && b[i] < 'a'+23 {
			ph := int(b[i] - 'a')
			for i+n < len(b) && b[i+n] == fillerByte(ph+n) {
				n++
			}
			if n >= 16 {
				flush()
				segs = append(segs, fmt.Sprintf("SFill %s %s", vh.CoqN(ph), vh.CoqN(n)))
				i += n
				continue
			}
		}
		lit = append(lit, b[i])
		i++
	}
	flush()
	return vh.CoqList(segs)
}

func hasHigh(b []byte) bool {
	for _, c := range b {
		if c >= 0x80 {
			return true
		}
	}
	return false
}
func encLabel(enc string) string {
	if enc == "" {
		return "(absent)"
	}
	return enc
}
func modeLabel(m string) string {
	if strings.HasPrefix(m, "chunks:") {
		return "chunks"
	}
	return m
}

// runTranscript compares (bytes, enc) with (utf8_of(bytes), utf-8) on one built-in format.
func (e *env) runTranscript(fi int, enc string, in []byte, mode string) {
	d := e.mkDesc("transcript", enc, in, mode)
	d.Format = e.fx(fi).Format
	s, ref := e.schemaFor(fi, enc), e.schemaFor(fi, "utf-8")
	if s == nil || ref == nil {
		return
	}
	vh.Current(e.o, d)
	maxReads := 60 + len(in)/8
	a := transcript(s, mode, in, maxReads)
	conv := expectedStream(enc, in)
	b := transcript(ref, "whole", conv, maxReads)
	if e.verbose {
		fmt.Printf("transcript format=%s enc=%q reader=%s input=%x\n  (bytes, %s)        : %+v\n  (utf8(bytes), utf-8): %+v\n", d.Format, enc, mode, in, encLabel(enc), a, b)
	}
	e.sum.Hist("transcript:format=" + d.Format)
	e.sum.Hist("transcript:enc=" + encLabel(enc))
	nrec := 0
	for _, st := range a {
		if st.Kind == "rec" {
			nrec++
		}
		if st.Kind == "panic" {
			e.sum.Hist("transcript:panic")
		}
	}
	if nrec > 0 {
		e.sum.Hist("transcript:delivers-records")
		if strings.Contains(d.Format, "/") {
			e.sum.Hist(fmt.Sprintf("transcript:delivers-records:%s:%d+", d.Format, nrec/50*50))
		}
	}
	if ok, i := sameSteps(a, b); !ok {
		detail := map[string]interface{}{"first_difference_at": i, "with_encoding": a, "preconverted_utf8": b, "preconverted_hex": hex.EncodeToString(conv)}
		if len(in) > 2000 {
			// long input: only the step at which the transcripts part
			at := func(x []step) interface{} {
				if i < len(x) {
					return x[i]
				}
				return "(transcript ended)"
			}
			detail = map[string]interface{}{"first_difference_at": i, "with_encoding": at(a), "preconverted_utf8": at(b), "steps": []int{len(a), len(b)}}
		}
		e.sum.Fail("Read transcript of (bytes, "+encLabel(enc)+") differs from the transcript of (utf8(bytes), utf-8)", d, detail)
	}
	nontrivial := nrec > 0 && (hasHigh(in) && enc != "" && enc != "utf-8" || bytes.HasPrefix(in, bom))
	e.sum.Count("transcript|"+d.Format+"|"+enc+"|"+vh.KeyOf(in)+"|"+mode, nontrivial)
	if len(in) > 2000 {
		e.sum.Hist("transcript:long-input")
		e.runPipeX(enc, in, mode, 0, false)
		return
	}
	if nontrivial {
		e.sum.Sample(map[string]interface{}{"case": d, "transcript": a})
	}
	e.trN++
	e.runPipeX(enc, in, mode, 0, e.trN%6 == 0)
}

// longRows builds an all-ASCII input of at least minLen bytes for the format of fixture fi:
// many well-formed records whose fields a and c are runs of letters.
func longRows(fi int, minLen int) []byte {
	var b bytes.Buffer
	w := func(s string) { b.WriteString(s) }
	row := 0
	next := func() (string, string, string) {
		row++
		l := string(rune('a' + row%26))
		return strings.Repeat(l, 5+row%2), fmt.Sprint(row % 1000), strings.Repeat(l, 6-row%2)
	}
	switch fi {
	case 0:
		w("a,b,c\n")
		for b.Len() < minLen {
			x, n, y := next()
			w(x + "," + n + "," + y + "\n")
		}
	case 1:
		w("H|head\n")
		for b.Len() < minLen {
			x, n, y := next()
			w("R|" + x + "|" + n + "|" + y + "\n")
		}
	case 2:
		w("HDR*1~")
		for b.Len() < minLen {
			x, n, y := next()
			w("DAT*" + x + "*" + n + "*" + y + "~")
		}
		w("TRL*9~")
	case 3:
		for b.Len() < minLen {
			x, n, y := next()
			w(pad6(x) + (n + "     ")[:5] + pad6(y) + "\n")
		}
	case 4:
		w("Hhead\n")
		for b.Len() < minLen {
			x, n, y := next()
			w("R" + pad6(x) + (n + "     ")[:5] + pad6(y) + "\n")
		}
	case 5:
		w("[")
		for b.Len() < minLen {
			x, n, y := next()
			if row > 1 {
				w(",")
			}
			w(`{"a":"` + x + `","b":"` + n + `","c":"` + y + `"}`)
		}
		w("]")
	default:
		w("<r>")
		for b.Len() < minLen {
			x, n, y := next()
			w("<n><a>" + x + "</a><b>" + n + "</b><c>" + y + "</c></n>")
		}
		w("</r>")
	}
	return b.Bytes()
}

func pad6(s string) string { return (s + "      ")[:6] }

// boundaryOffsets: offsets around the multiples of 4096 (the size of the bufio.Reader that
// ios.StripBOM puts in front of the format reader, and of x/text's transform.Reader buffers).
func boundaryOffsets() []int {
	var offs []int
	for p := 4090; p <= 4100; p++ {
		offs = append(offs, p)
	}
	for p := 8186; p <= 8196; p++ {
		offs = append(offs, p)
	}
	for _, k := range []int{3, 4, 5, 8} {
		for p := k*4096 - 3; p <= k*4096+3; p++ {
			offs = append(offs, p)
		}
	}
	return offs
}

// longCases: filler of ASCII with non-ASCII bytes placed at and across the buffer boundaries,
// for the direct stream comparison (all encodings, all offsets) and for the formats.
func (e *env) longCases(r *vh.Rng) {
	offs := boundaryOffsets()
	// what is placed at the offset: single bytes of each UTF-8 length class and runs
	inserts := [][]byte{{0xE9}, {0x80}, {0x81}, {0xFF}, {0xE9, 0xE8}, {0xE9, 0xE8, 0xE7}, {0x80, 0x80, 0x80, 0x80, 0x80}, {0xC3, 0xA9}, {0xE2, 0x82, 0xAC}, {0xF0, 0x9F, 0x98, 0x80}, {0xEF, 0xBB, 0xBF}}
	n := 0
	for _, enc := range encs {
		for _, p := range offs {
			for ii, ins := range inserts {
				if (ii+n)%3 != 0 && p != 4095 && p != 4096 && p != 8191 && p != 8192 {
					continue // every insert at the boundaries proper, a rotating third of them elsewhere
				}
				// the boundary under test is the last one the input reaches
				e.curLong = &longSpec{Base: "filler", Len: p + len(ins) + 5 + ii, Patches: []patch{{p, hex.EncodeToString(ins)}}}
				in := e.curLong.build()
				consumer := []int{61, 0, 4096, 1000}[(n+ii)%4]
				mode := "whole"
				if n%9 == 8 {
					mode = "chunks:4096,4095,3"
				}
				// the model evaluates one case per offset (rotating over what is inserted and the encoding)
				e.runPipeX(enc, in, mode, consumer, (n+ii)%6 == 0)
			}
			n++
		}
		// runs of non-ASCII bytes across each boundary, every alignment
		for _, k := range []int{1, 2, 3} {
			for start := k*4096 - 9; start <= k*4096-1; start++ {
				run := make([]byte, 18)
				for i := range run {
					run[i] = byte(0x80 + ((start+i)*7)%0x80)
				}
				e.curLong = &longSpec{Base: "filler", Len: k*4096 + 40, Patches: []patch{{start, hex.EncodeToString(run)}}}
				e.runPipeX(enc, e.curLong.build(), "whole", []int{61, 0}[start%2], false)
			}
		}
		// the same shifted by a leading BOM (utf-8: stripped, so the consumer's buffer is 3 bytes behind)
		for _, p := range []int{4093, 4094, 4095, 4096, 4097, 4098, 4099, 8191, 8192} {
			e.curLong = &longSpec{Base: "filler", Len: p + 8, Prefix: "efbbbf", Patches: []patch{{p, "e9a9"}}}
			e.runPipeX(enc, e.curLong.build(), "whole", 61, false)
		}
	}
	// formats: the byte at each boundary offset of a long well-formed input is replaced
	for fi := range e.fixtures {
		baseLen := len(longRows(fi, 3*4096+200))
		for _, enc := range encs {
			for pi, p := range offs {
				if p+2 >= baseLen {
					continue
				}
				full := fi == 0 || fi == 1 || fi == 3 || fi == 4 // csv, csv2, fixed-length, fixedlength2: every offset
				if !full && pi%4 != fi%4 {
					continue
				}
				pt := patch{p, "e9"}
				switch (pi + fi) % 3 {
				case 1:
					pt = patch{p, "fc80"}
				case 2:
					pt = patch{p - 1, "e4f6fc"}
				}
				mode := "whole"
				if pi%7 == 6 {
					mode = "onebyte"
				}
				e.curLong = &longSpec{Base: fmt.Sprintf("rows:%d", fi), Len: 3*4096 + 200, Patches: []patch{pt}}
				e.runTranscript(fi, enc, e.curLong.build(), mode)
			}
		}
	}
	e.curLong = nil
}

// xmlPrologCases: XML documents that carry their own encoding label in the prolog, under every
// parser_settings.encoding.  The schema's transcoding comes first and the XML decoder then applies
// the label to the already converted bytes - in the reference run (input pre-converted, utf-8
// declared) exactly as in the run under test, so the transcripts must still agree.
func (e *env) xmlPrologCases(r *vh.Rng) {
	const xmlFi = 6
	prologs := []string{
		`<?xml version="1.0" encoding="ISO-8859-1"?>`, `<?xml version="1.0" encoding="iso-8859-1"?>`,
		`<?xml version="1.0" encoding="UTF-8"?>`, `<?xml version="1.0" encoding="utf-8"?>`,
		`<?xml version="1.0" encoding="windows-1252"?>`, `<?xml version="1.0" encoding="Windows-1252"?>`,
		`<?xml version='1.0' encoding='ISO-8859-1' standalone='yes'?>`, `<?xml version="1.0" encoding="latin1"?>`,
		`<?xml version="1.0" encoding="US-ASCII"?>`, `<?xml version="1.0" encoding="ISO-8859-15"?>`,
		`<?xml version="1.0" encoding="UTF-16"?>`, `<?xml version="1.0" encoding="no-such-charset"?>`,
		`<?xml version="1.0"?>`, `<?xml version="1.0" standalone="no"?>`, ``,
	}
	vals := [][]byte{[]byte("caf\xe9"), {0xE9}, {0x80, 0x41}, []byte("caf\xc3\xa9"), {0x81, 0x9D}, []byte("plain"), {0xFF, 0xFE}, []byte("\xe4\xf6\xfc\xdf")}
	for _, enc := range encs {
		for pi, pro := range prologs {
			for vi, val := range vals {
				var b bytes.Buffer
				if (pi+vi)%5 == 4 {
					b.Write(bom)
				}
				b.WriteString(pro)
				if vi%2 == 0 {
					b.WriteString("\n")
				}
				b.WriteString("<r><n><a>k1</a><b>1</b><c>w</c></n><n><a>")
				b.Write(val)
				b.WriteString("</a><b>2</b><c>")
				b.Write(vals[(vi+3)%len(vals)])
				b.WriteString("</c></n></r>")
				e.sum.Hist("transcript:xml-prolog-encoding-label")
				e.runTranscript(xmlFi, enc, b.Bytes(), []string{"whole", "onebyte", "whole", "chunks:3,1,2"}[(pi+vi)%4])
			}
		}
	}
}

// asciiPrefixCases: inputs whose first k*4096 (+0..8, and a few more) bytes are pure ASCII and
// whose first byte >= 0x80 comes only then - up to the very last byte of the input.
func (e *env) asciiPrefixCases(r *vh.Rng) {
	var firsts []int
	for _, k := range []int{1, 2, 3} {
		for x := 0; x <= 8; x++ {
			firsts = append(firsts, k*4096+x)
		}
		firsts = append(firsts, k*4096+17+r.Intn(180), k*4096+97+r.Intn(100))
	}
	highs := []string{"e9", "80", "e9e8", "81", "fc80", "ff"}
	for _, enc := range encs {
		for i, at := range firsts {
			h := highs[(i+len(enc))%len(highs)]
			// (i) the non-ASCII byte is the last byte of the input, (ii) ASCII follows
			for j, tail := range []int{0, 1 + r.Intn(40), 4096 + r.Intn(50)} {
				e.curLong = &longSpec{Base: "filler", Len: at + len(h)/2 + tail, Patches: []patch{{at, h}}}
				e.runPipeX(enc, e.curLong.build(), []string{"whole", "whole", "chunks:4096,4096,1"}[j], []int{61, 0, 1000}[(i+j)%3], (i+j)%5 == 0)
			}
		}
		for fi := range e.fixtures {
			baseLen := len(longRows(fi, 3*4096+300))
			for i, at := range firsts {
				if at+3 >= baseLen || (fi != 0 && fi != 3 && i%3 != fi%3) {
					continue // csv and fixed-length: every offset; the other formats: every third
				}
				e.curLong = &longSpec{Base: fmt.Sprintf("rows:%d", fi), Len: 3*4096 + 300, Patches: []patch{{at, highs[i%len(highs)]}}}
				e.runTranscript(fi, enc, e.curLong.build(), "whole")
			}
			// the only non-ASCII byte is the last byte of a long input (no trailer after it)
			e.curLong = &longSpec{Base: fmt.Sprintf("rows:%d", fi), Len: 4096 + 700, Patches: []patch{{-1, "e9"}}}
			e.runTranscript(fi, enc, e.curLong.build(), "whole")
		}
	}
	e.curLong = nil
}

// runInterleaved: two transforms of the same encoding alive at the same time must each give the
// transcript they give alone.  plan[i] says which transform the i-th Read goes to; the second
// transform is created (NewTransform) at its first use, i.e. while the first is mid-stream.
func (e *env) runInterleaved(fi int, enc string, inA, inB []byte, specA, specB *longSpec, same bool, plan []int) {
	d := caseDesc{Kind: "interleave", Enc: enc, Format: e.fx(fi).Format, SameSchema: same, Plan: plan, Mode: "whole"}
	if specA != nil {
		d.Long, d.Long2 = specA, specB
	} else {
		d.InputHex, d.Input2Hex = hex.EncodeToString(inA), hex.EncodeToString(inB)
	}
	sA := e.schemaInst(fi, enc, "")
	sB := sA
	if !same {
		sB = e.schemaInst(fi, enc, "#2")
	}
	if sA == nil || sB == nil {
		return
	}
	vh.Current(e.o, d)
	maxReads := 60 + (len(inA)+len(inB))/8
	soloA := transcript(sA, "whole", inA, maxReads)
	soloB := transcript(sB, "whole", inB, maxReads)
	var gotA, gotB []step
	func() {
		defer func() {
			if r := recover(); r != nil {
				gotA = append(gotA, step{Kind: "panic"})
			}
		}()
		var ts [2]omniparser.Transform
		done := [2]bool{}
		ins := [2][]byte{inA, inB}
		ss := [2]omniparser.Schema{sA, sB}
		outs := [2]*[]step{&gotA, &gotB}
		read := func(w int) {
			if done[w] {
				return
			}
			if ts[w] == nil {
				t, err := ss[w].NewTransform("in", bytes.NewReader(ins[w]), &transformctx.Ctx{})
				if err != nil {
					*outs[w] = append(*outs[w], step{Kind: "newtransform-error"})
					done[w] = true
					return
				}
				ts[w] = t
			}
			b, err := ts[w].Read()
			switch {
			case err == nil:
				*outs[w] = append(*outs[w], step{Kind: "rec", Bytes: string(b)})
			case err == io.EOF:
				*outs[w] = append(*outs[w], step{Kind: "eof"})
				done[w] = true
			case errs.IsErrTransformFailed(err):
				*outs[w] = append(*outs[w], step{Kind: "failed"})
			default:
				*outs[w] = append(*outs[w], step{Kind: "fatal"})
				done[w] = true
			}
		}
		for _, w := range plan {
			read(w & 1)
		}
		for i := 0; i < maxReads && !(done[0] && done[1]); i++ { // then both to the end, alternating
			read(i & 1)
		}
	}()
	e.sum.Hist("interleave:format=" + d.Format)
	e.sum.Hist("interleave:enc=" + encLabel(enc))
	if same {
		e.sum.Hist("interleave:same-schema")
	} else {
		e.sum.Hist("interleave:two-schemas")
	}
	e.sum.Count(fmt.Sprintf("interleave|%s|%s|%s|%s|%v|%v", d.Format, enc, vh.KeyOf(inA), vh.KeyOf(inB), same, plan), hasHigh(inA) || hasHigh(inB))
	if e.verbose {
		fmt.Printf("interleave format=%s enc=%q same_schema=%v plan=%v\n  first : alone %d steps, interleaved %d steps\n  second: alone %d steps, interleaved %d steps\n", d.Format, enc, same, plan, len(soloA), len(gotA), len(soloB), len(gotB))
	}
	for w, pair := range [][2][]step{{soloA, gotA}, {soloB, gotB}} {
		if ok, i := sameSteps(pair[0], pair[1]); !ok {
			at := func(x []step) interface{} {
				if i < len(x) {
					return x[i]
				}
				return "(transcript ended)"
			}
			e.sum.Fail("a transform gives a different transcript when another transform of the same encoding is alive at the same time", d,
				map[string]interface{}{"transform": []string{"first", "second"}[w], "first_difference_at": i, "alone": at(pair[0]), "interleaved": at(pair[1])})
			return
		}
	}
}

func (e *env) interleaveCases(r *vh.Rng) {
	tails := [][]byte{[]byte("Zo\xeb"), []byte("caf\xe9"), {0x80}, []byte("x\xfcy"), []byte("plain"), {0xE9, 0xE8, 0xE7}}
	for fi := range e.fixtures {
		for ei, enc := range encs {
			for k := 0; k < 6; k++ {
				inA := recordWith(fi, tails[(k+fi)%len(tails)])
				inB := recordWith(fi, tails[(k+fi+ei+1)%len(tails)])
				// the very end of the stream is a non-ASCII character where the format allows it
				if fi == 0 || fi == 1 || fi == 3 || fi == 4 {
					inA = append(bytes.TrimRight(inA, "\n"), tails[k%len(tails)]...)
					inB = append(bytes.TrimRight(inB, "\n"), tails[(k+2)%len(tails)]...)
				}
				plan := []int{}
				for i, n := 0, r.Between(0, 3); i < n; i++ {
					plan = append(plan, 0)
				}
				for i, n := 0, r.Between(1, 6); i < n; i++ {
					plan = append(plan, r.Pick(2))
				}
				e.runInterleaved(fi, enc, inA, inB, nil, nil, k%2 == 0, plan)
			}
			// long inputs: the first transform is mid-stream (several buffers in) when the second starts
			for k := 0; k < 2; k++ {
				sa := &longSpec{Base: fmt.Sprintf("rows:%d", fi), Len: 2*4096 + 500, Patches: []patch{{4090 + k, "e9e8"}, {-1, "eb"}}}
				sb := &longSpec{Base: fmt.Sprintf("rows:%d", fi), Len: 4096 + 900, Patches: []patch{{300 + k, "fc"}, {-1, "e9"}}}
				plan := []int{}
				for i, n := 0, r.Between(1, 120); i < n; i++ {
					plan = append(plan, 0)
				}
				for i, n := 0, r.Between(1, 40); i < n; i++ {
					plan = append(plan, r.Pick(2))
				}
				e.runInterleaved(fi, enc, sa.build(), sb.build(), sa, sb, k == 0, plan)
			}
		}
	}
}

// ---- tables -----------------------------------------------------------------------------------------

func (e *env) runTable(enc string) {
	d := caseDesc{Kind: "table", Enc: enc}
	vh.Current(e.o, d)
	var obs []string
	for b := 0; b < 256; b++ {
		name := enc
		rd := header.ParserSettings{Encoding: &name}.WrapEncoding(bytes.NewReader([]byte{byte(b)}))
		out, err := ioutil.ReadAll(rd)
		r, size := utf8.DecodeRune(out)
		if err != nil || len(out) == 0 || size != len(out) || (r == utf8.RuneError && size == 1) {
			e.sum.Fail(fmt.Sprintf("byte %#02x under %s does not decode to exactly one well-formed rune", b, enc), d,
				map[string]interface{}{"byte": b, "out_hex": hex.EncodeToString(out), "err": fmt.Sprint(err)})
			obs = append(obs, vh.CoqN(0x110000))
			continue
		}
		if want := refRune(enc, byte(b)); r != want {
			e.sum.Fail(fmt.Sprintf("byte %#02x under %s decodes to U+%04X, the standard code page says U+%04X", b, enc, r, want),
				caseDesc{Kind: "pipe", Enc: enc, InputHex: fmt.Sprintf("%02x", b), Mode: "whole"}, nil)
		}
		obs = append(obs, vh.CoqN(int(r)))
		e.sum.Count(fmt.Sprintf("table|%s|%d", enc, b), b >= 0x80)
	}
	e.sum.Hist("table:" + enc)
	e.cw.Add(fmt.Sprintf(`TableCase "%s" %s`, enc, vh.CoqList(obs)), d)
}

// ---- generators ---------------------------------------------------------------------------------------

func randBytes(r *vh.Rng) []byte {
	var b []byte
	switch r.Pick(8) {
	case 0:
		b = append(b, bom...)
	case 1:
		b = append(b, bom[:r.Between(1, 2)]...)
	case 2:
		b = append(b, bom...)
		b = append(b, bom...)
	case 3:
		b = append(b, r.PickStr("\xfe\xff", "\xff\xfe", "\xef\xbb\xbe", "\xef\xbf\xbd", "\xc3\xaf\xc2\xbb\xc2\xbf", "\xef\xbb", "\xf0\x8f\xbb\xbf", "\xe0\x8f\xbb\xbf")...)
	}
	n := r.Between(0, 24)
	for i := 0; i < n; i++ {
		switch r.Pick(6) {
		case 0:
			b = append(b, byte(0x80+r.Pick(0x20))) // the range where the code pages differ
		case 1:
			b = append(b, byte(0xA0+r.Pick(0x60)))
		case 2:
			b = append(b, r.PickStr("\xef\xbb\xbf", "é", "€", "\n", ",", "\"", "日本", "\r\n", "\x00")...)
		default:
			b = append(b, byte(r.Pick(256)))
		}
	}
	return b
}

func main() {
	o := vh.ParseOpts()
	r := vh.NewRng(o.Seed)
	sum := vh.NewSummary("C18", o,
		"inputs (all 256 single bytes, random byte strings, fixture records carrying every byte value) x encodings (absent, utf-8, iso-8859-1, windows-1252) x with/without leading BOM x reader splits x the seven formats; non-trivial = a code-page case whose input has a byte >= 0x80 (transcripts: and at least one record is delivered) or an input starting with (part of) a BOM; distinct by (kind, format, encoding, input, reader)")
	cw := vh.NewCaseWriter(o, "C18", "Model.Encoding", "c18case", "check_case")
	cwLong := vh.NewCaseWriter(o, "C18L", "Model.Encoding", "c18case", "check_case")
	cwLong.PerFile = 12
	e := &env{o: o, sum: sum, cw: cw, cwLong: cwLong, capture: map[string]*captureSchema{}, fixtures: vh.Fixtures(),
		schemas: map[string]omniparser.Schema{}, seenPipe: map[string]bool{}}

	if o.Replay != "" {
		e.verbose = true
		e.replay(o.Replay)
		cw.Flush()
		cwLong.Flush()
		sum.CaseFiles = append(cw.Files, cwLong.Files...)
		sum.Write(o)
		return
	}
	if o.Corpus != "" {
		files, _ := ioutil.ReadDir(o.Corpus)
		for _, f := range files {
			if strings.HasSuffix(f.Name(), ".json") {
				e.replay(o.Corpus + "/" + f.Name())
			}
		}
	}

	// 1. the tables of the two code pages, as the implementation's name -> decoder map gives them
	e.runTable("iso-8859-1")
	e.runTable("windows-1252")

	// 2. spellings the settings schema does not list must not be silently taken as utf-8
	for _, sp := range []string{"UTF-8", "ISO-8859-1", "Windows-1252", "latin1", ""} {
		cs, err := newCaptureSchema(sp)
		if sp == "" {
			// the empty string is a spelling too; encSetting("") omits the setting, so build it by hand
			ext := omniparser.Extension{CreateSchemaHandler: func(ctx *schemahandler.CreateCtx) (schemahandler.SchemaHandler, error) {
				return nil, errs.ErrSchemaNotSupported
			}}
			_, err = omniparser.NewSchema("capture", strings.NewReader(`{"parser_settings": {"version": "omni.2.1", "file_format_type": "xml", "encoding": ""}}`), ext)
			cs = nil
		}
		if err != nil {
			sum.Hist("spelling-rejected")
			continue
		}
		sum.Hist("spelling-accepted:" + sp)
		if cs == nil {
			continue
		}
		low := strings.ToLower(sp)
		if low != "utf-8" && low != "iso-8859-1" && low != "windows-1252" {
			continue
		}
		in := []byte{0x80, 0xE9, 0x41}
		got, _ := cs.stream("whole", in)
		if want := expectedStream(low, in); !bytes.Equal(got, want) {
			sum.Fail("encoding spelling "+sp+" is accepted but not decoded as "+low, caseDesc{Kind: "pipe", Enc: sp, InputHex: "80e941", Mode: "whole"},
				map[string]string{"observed_hex": hex.EncodeToString(got), "expected_hex": hex.EncodeToString(want)})
		}
	}

	// 3. every single byte x {absent, utf-8, iso-8859-1, windows-1252} x with/without BOM
	for _, enc := range append([]string{""}, encs...) {
		for b := 0; b < 256; b++ {
			for _, withBOM := range []bool{false, true} {
				in := []byte{byte(b)}
				if withBOM {
					in = append(append([]byte(nil), bom...), in...)
				}
				mode := "whole"
				if withBOM && b%2 == 1 {
					mode = "onebyte"
				}
				e.runPipe(enc, in, mode)
			}
		}
	}

	// 4. every byte value inside a record of every format, under every encoding
	for fi := range e.fixtures {
		for _, enc := range encs {
			for b := 0; b < 256; b++ {
				var val []byte
				switch r.Pick(3) {
				case 0:
					val = []byte{byte(b)}
				case 1:
					val = []byte{'x', byte(b), 'y'}
				default:
					val = []byte{byte(b), byte(0x80 + r.Pick(0x80))}
				}
				in := recordWith(fi, val)
				if r.Chance(0.4) {
					in = append(append([]byte(nil), bom...), in...)
				}
				e.runTranscript(fi, enc, in, genMode(r))
			}
		}
	}

	// 4b. long inputs: non-ASCII bytes at and across the 4096-byte buffer boundaries
	e.longCases(r)
	// 4c. a long pure-ASCII head, the first non-ASCII byte only after k*4096 bytes
	e.asciiPrefixCases(r)
	// 4d. XML documents with their own encoding label in the prolog
	e.xmlPrologCases(r)
	// 4e. two transforms of one encoding alive at the same time
	e.interleaveCases(r)
	// 4f. records spanning several lines (fixedlength2 / csv2), long inputs
	e.multiRowCases(r, o.Count(8, 200))

	// 5. random inputs: byte strings through the capture handler; generated and damaged fixture
	// inputs through the formats
	nPipe := o.Count(600, 30000)
	for i := 0; i < nPipe; i++ {
		enc := append([]string{""}, encs...)[r.Pick(4)]
		e.runPipe(enc, randBytes(r), genMode(r))
	}
	nTr := o.Count(700, 35000)
	for i := 0; i < nTr; i++ {
		fi := r.Pick(len(e.fixtures))
		in, kind := vh.Mutate(r, e.fixtures[fi].Gen(r, r.Between(0, 5)))
		for k, n := 0, r.Between(0, 4); k < n && len(in) > 0; k++ {
			in = append([]byte(nil), in...)
			in[r.Pick(len(in))] = byte(0x80 + r.Pick(0x80))
		}
		switch r.Pick(5) {
		case 0:
			in = append(append([]byte(nil), bom...), in...)
			kind += "+bom"
		case 1:
			in = append(append([]byte(nil), bom[:r.Between(1, 2)]...), in...)
			kind += "+partial-bom"
		}
		sum.Hist("transcript:input=" + kind)
		e.runTranscript(fi, encs[r.Pick(len(encs))], in, genMode(r))
	}

	cw.Flush()
	cwLong.Flush()
	sum.CaseFiles = append(cw.Files, cwLong.Files...)
	sum.Write(o)
}

// replay re-runs the case stored in a replay file (bin/check --replay) or a corpus file.
func (e *env) replay(path string) {
	raw, err := ioutil.ReadFile(path)
	if err != nil {
		fmt.Fprintln(os.Stderr, err)
		os.Exit(2)
	}
	var f struct {
		Case caseDesc `json:"case"`
	}
	if err := json.Unmarshal(raw, &f); err != nil || f.Case.Kind == "" {
		fmt.Fprintln(os.Stderr, "replay file has no C18 case:", err)
		os.Exit(2)
	}
	d := f.Case
	in, _ := hex.DecodeString(d.InputHex)
	if d.Long != nil {
		in = d.Long.build()
		e.curLong = d.Long
	}
	if d.Mode == "" {
		d.Mode = "whole"
	}
	switch d.Kind {
	case "table":
		e.runTable(d.Enc)
	case "pipe":
		e.runPipeX(d.Enc, in, d.Mode, d.Consumer, true)
	case "transcript":
		for fi := 0; fi < len(e.fixtures)+len(multiRowFixtures); fi++ {
			if e.fx(fi).Format == d.Format {
				e.runTranscript(fi, d.Enc, in, d.Mode)
			}
		}
	case "interleave":
		in2, _ := hex.DecodeString(d.Input2Hex)
		if d.Long2 != nil {
			in2 = d.Long2.build()
		}
		e.curLong = nil
		for fi, fx := range e.fixtures {
			if fx.Format == d.Format {
				e.runInterleaved(fi, d.Enc, in, in2, d.Long, d.Long2, d.SameSchema, d.Plan)
			}
		}
	}
}
