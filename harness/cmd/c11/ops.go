package main

import (
	"fmt"
	"strings"

	"github.com/antchfx/xmlquery"
	"github.com/antchfx/xpath"
	"github.com/jf-tech/omniparser/idr"

	"verifharness/vh"
)

// One navigator operation.  Kind: obs | move | copy | moveto.
type opRec struct {
	Kind string `json:"kind"`
	X    int    `json:"x"`
	Y    int    `json:"y,omitempty"`
	Arg  string `json:"arg,omitempty"` // NodeType LocalName Prefix Value | Root Parent NextAttr Child First Next Prev
}

var obsNames = []string{"NodeType", "LocalName", "Prefix", "Value"}
var moveNames = []string{"Root", "Parent", "NextAttr", "Child", "First", "Next", "Prev"}

const nRegs = 4

func (o opRec) coq() string {
	switch o.Kind {
	case "obs":
		return fmt.Sprintf("OpObs %d O%s", o.X, o.Arg)
	case "move":
		return fmt.Sprintf("OpMove %d M%s", o.X, o.Arg)
	case "copy":
		return fmt.Sprintf("OpCopy %d %d", o.X, o.Y)
	default:
		return fmt.Sprintf("OpMoveTo %d %d", o.X, o.Y)
	}
}

// what one navigator answered to one operation
type opRes struct {
	Kind string `json:"kind"` // type | str | bool | unit | panic
	T    int    `json:"t,omitempty"`
	S    string `json:"s,omitempty"`
	B    bool   `json:"b,omitempty"`
}

var xtypeNames = []string{"XRoot", "XElement", "XAttribute", "XText", "XComment"}

func (r opRes) coq() string {
	switch r.Kind {
	case "type":
		if r.T < 0 || r.T >= len(xtypeNames) {
			return "(RObs (VType XComment))"
		}
		return "(RObs (VType " + xtypeNames[r.T] + "))"
	case "str":
		return "(RObs (VStr " + vh.CoqHex([]byte(r.S)) + "))"
	case "bool":
		return "(RBool " + vh.CoqBool(r.B) + ")"
	default:
		return "RUnit"
	}
}

func applyOp(regs []xpath.NodeNavigator, o opRec) (res opRes) {
	defer func() {
		if p := recover(); p != nil {
			res = opRes{Kind: "panic", S: fmt.Sprint(p)}
		}
	}()
	n := regs[o.X]
	switch o.Kind {
	case "obs":
		switch o.Arg {
		case "NodeType":
			return opRes{Kind: "type", T: int(n.NodeType())}
		case "LocalName":
			return opRes{Kind: "str", S: n.LocalName()}
		case "Prefix":
			return opRes{Kind: "str", S: n.Prefix()}
		default:
			return opRes{Kind: "str", S: n.Value()}
		}
	case "move":
		switch o.Arg {
		case "Root":
			n.MoveToRoot()
			return opRes{Kind: "bool", B: true}
		case "Parent":
			return opRes{Kind: "bool", B: n.MoveToParent()}
		case "NextAttr":
			return opRes{Kind: "bool", B: n.MoveToNextAttribute()}
		case "Child":
			return opRes{Kind: "bool", B: n.MoveToChild()}
		case "First":
			return opRes{Kind: "bool", B: n.MoveToFirst()}
		case "Next":
			return opRes{Kind: "bool", B: n.MoveToNext()}
		default:
			return opRes{Kind: "bool", B: n.MoveToPrevious()}
		}
	case "copy":
		regs[o.Y] = n.Copy()
		return opRes{Kind: "unit"}
	default:
		return opRes{Kind: "bool", B: n.MoveTo(regs[o.Y])}
	}
}

type opsCase struct {
	Kind  string  `json:"kind"` // "ops"
	Doc   string  `json:"doc"`
	Start []int   `json:"start"` // DOM path of the start node, root first
	Ops   []opRec `json:"ops"`
	// Repaired: the reference side is the repaired navigator fixNav (Model/Nav.v run_dom true),
	// which makes sequences with MoveToRoot on an attribute position (Q2) comparable.
	Repaired bool         `json:"repaired_reference,omitempty"`
	Pool     *poolPrelude `json:"earlier_document,omitempty"`
}

type opsOutcome struct {
	xres, ires []opRes
	failAt     int // -1 = none
	failWhat   string
	touched    bool // an operation ran on an attribute position, or a sibling move succeeded
	quirkQ1    int
	outOfScope bool // the sequence performs Q2 (MoveToRoot on an attribute position of the reference)
	hang       bool
}

func initRegs(n xpath.NodeNavigator) []xpath.NodeNavigator {
	regs := make([]xpath.NodeNavigator, nRegs)
	regs[0] = n
	for i := 1; i < nRegs; i++ {
		regs[i] = n.Copy()
	}
	return regs
}

func (d *docCtx) nodeAt(start []int) int {
	for k, p := range d.paths {
		if len(p) == len(start) {
			eq := true
			for j := range p {
				if p[j] != start[j] {
					eq = false
				}
			}
			if eq {
				return k
			}
		}
	}
	return -1
}

// runOps executes ops on both real navigators and evaluates the property oracle op by op:
// equal success booleans and equal observations.  Exception Q1 (see normaliseRef / Model/Nav.v):
// Value() on a Root-typed node, where xmlquery returns "" and the IDR must return the XPath
// string-value of the root (all text of the tree, computed here from the DOM).
func refNav(n *xmlquery.Node, fx bool) xpath.NodeNavigator {
	if fx {
		f, _ := newFixNav(n)
		return f
	}
	return xmlquery.CreateXPathNavigator(n)
}

// runOps under a watchdog: a navigator move that walks sibling links (MoveToFirst, MoveToChild)
// does not return on a tree whose links form a cycle.
func runOps(d *docCtx, startIdx int, ops []opRec, fx bool) *opsOutcome {
	var out *opsOutcome
	if e := guarded(func() { out = runOpsRaw(d, startIdx, ops, fx) }); e != "" || out == nil {
		hung++
		return &opsOutcome{failAt: 0, failWhat: "a navigator operation of the sequence does not return or panics outside the operation: " + e,
			xres: make([]opRes, len(ops)), ires: make([]opRes, len(ops)), hang: true}
	}
	return out
}

var hung int // evaluations that never returned (their goroutines keep spinning): the run stops after a few

func runOpsRaw(d *docCtx, startIdx int, ops []opRec, fx bool) *opsOutcome {
	out := &opsOutcome{failAt: -1}
	xr := initRegs(refNav(d.xnodes[startIdx], fx))
	ir := initRegs(idr.VerifNavigator(d.inodes[startIdx]))
	for k, o := range ops {
		onRoot, onAttr := false, false
		func() {
			defer func() { _ = recover() }()
			t := xr[o.X].NodeType()
			onRoot, onAttr = t == xpath.RootNode, t == xpath.AttributeNode
		}()
		if o.Kind == "move" && o.Arg == "Root" && onAttr && !fx {
			out.outOfScope = true
			break
		}
		a := applyOp(xr, o)
		b := applyOp(ir, o)
		out.xres = append(out.xres, a)
		out.ires = append(out.ires, b)
		if onAttr {
			out.touched = true
		}
		if o.Kind == "move" && (o.Arg == "Next" || o.Arg == "Prev" || o.Arg == "First") && b.Kind == "bool" && b.B {
			out.touched = true
		}
		bad := ""
		switch {
		case a.Kind == "panic" || b.Kind == "panic":
			bad = "navigator panicked"
		case o.Kind == "obs" && o.Arg == "Value" && onRoot && !fx:
			out.quirkQ1++
			want := xr[o.X].(*xmlquery.NodeNavigator).Current().InnerText()
			if b.S != want {
				bad = "Value() of the root differs from the concatenated text of the tree"
			}
		case a != b:
			bad = "navigators disagree on " + o.Kind + " " + o.Arg
		}
		if bad != "" && out.failAt < 0 {
			out.failAt, out.failWhat = k, bad
			break
		}
	}
	return out
}

// genOps draws an operation sequence.  It looks at the reference navigator's state only to stay
// out of Q2 (MoveToRoot on an attribute position, where xmlquery keeps its attribute index).
func genOps(r *vh.Rng, d *docCtx, startIdx int, fx bool, prefix []opRec) []opRec {
	n := r.Between(5, 200-len(prefix)) + len(prefix)
	ops := append([]opRec(nil), prefix...)
	xr := initRegs(refNav(d.xnodes[startIdx], fx))
	for _, o := range prefix {
		applyOp(xr, o)
	}
	observeAll := r.Chance(0.5)
	for len(ops) < n {
		x := r.Pick(nRegs)
		if r.Chance(0.6) {
			x = 0
		}
		var o opRec
		switch c := r.Pick(100); {
		case c < 58:
			w := []int{1, 5, 7, 9, 3, 9, 5} // Root Parent NextAttr Child First Next Prev
			if fx {
				w[0] = 4
			}
			t := 0
			for _, v := range w {
				t += v
			}
			p := r.Pick(t)
			m := 0
			for p >= w[m] {
				p -= w[m]
				m++
			}
			o = opRec{Kind: "move", X: x, Arg: moveNames[m]}
			if m == 0 && xr[x].NodeType() == xpath.AttributeNode && !fx {
				o.Arg = "Parent"
			}
		case c < 85:
			o = opRec{Kind: "obs", X: x, Arg: obsNames[r.Pick(4)]}
		case c < 92:
			o = opRec{Kind: "copy", X: x, Y: r.Pick(nRegs)}
		default:
			o = opRec{Kind: "moveto", X: x, Y: r.Pick(nRegs)}
		}
		ops = append(ops, o)
		res := applyOp(xr, o)
		if observeAll && o.Kind == "move" && res.B && len(ops)+4 <= n {
			for _, on := range obsNames {
				ops = append(ops, opRec{Kind: "obs", X: x, Arg: on})
			}
		}
	}
	return ops
}

func opsCanon(c *opsCase) string {
	var sb strings.Builder
	sb.WriteString(c.Doc)
	sb.WriteString("|" + pathLabel(c.Start) + "|" + fmt.Sprint(c.Repaired) + "|")
	for _, o := range c.Ops {
		fmt.Fprintf(&sb, "%s%d.%d%s;", o.Kind[:2], o.X, o.Y, o.Arg)
	}
	return sb.String()
}

func coqRun(start []int, ops []opRec, out *opsOutcome, fx bool) string {
	os := make([]string, len(ops))
	for i, o := range ops {
		os[i] = o.coq()
	}
	xs := make([]string, len(out.xres))
	for i, v := range out.xres {
		xs[i] = v.coq()
	}
	is := make([]string, len(out.ires))
	for i, v := range out.ires {
		is[i] = v.coq()
	}
	return "(mkRun " + vh.CoqBool(fx) + " " + coqPath(start) + " " + vh.CoqList(os) + "\n   " + vh.CoqList(xs) + "\n   " + vh.CoqList(is) + ")"
}

// shrinkOps removes operations one at a time as long as the same oracle clause still fails and
// the sequence stays inside the scope of the reference (no Q2).
func shrinkOps(d *docCtx, startIdx int, ops []opRec, what string, fx bool) []opRec {
	cur := append([]opRec(nil), ops...)
	for changed := true; changed; {
		changed = false
		for i := len(cur) - 2; i >= 0; i-- {
			cand := append(append([]opRec(nil), cur[:i]...), cur[i+1:]...)
			out := runOps(d, startIdx, cand, fx)
			if out.hang {
				return cur
			}
			if !out.outOfScope && out.failAt >= 0 && out.failWhat == what {
				cur = cand[:out.failAt+1]
				changed = true
				if i > len(cur)-1 {
					i = len(cur) - 1
				}
			}
		}
	}
	return cur
}
