package main

import (
	"fmt"
	"os"
	"strings"
	"time"

	"github.com/antchfx/xmlquery"
	"github.com/antchfx/xpath"
	"github.com/jf-tech/omniparser/idr"

	"verifharness/vh"
)

// Correspondence and oracle for idr/query.go's wrappers (Model/Nav.v match_all / match_single /
// match_any over an abstract iterator): for one expression from one node the harness records
//   - what idr.QueryIter iterates (node numbers in order, duplicates included) and how the
//     iteration goes on: it ends, the library panics, or - an expression that is not a node-set
//     query and whose value is true - it yields the context node for as long as one asks;
//   - whether the expression evaluates to a node-set (what query.go's yieldsNodeSet probes);
//   - what idr.MatchAll / MatchSingle / MatchAny returned (each under a watchdog: before fix
//     3036423 MatchAll never returned on such an expression and ate memory).
//
// check_wcase replays the wrappers over that scripted iterator.  The property oracle is evaluated
// here against the REFERENCE: the same wrapper semantics applied to the iteration of the same
// engine over xmlquery.
type wrapLog struct {
	ids   map[*idr.Node]int
	terms []string
	n     int
}

const iterCap = 3000

func (w *wrapLog) id(n *idr.Node) int {
	if w.ids == nil {
		w.ids = map[*idr.Node]int{}
	}
	v, ok := w.ids[n]
	if !ok {
		v = len(w.ids) + 1
		w.ids[n] = v
	}
	return v
}

func (w *wrapLog) list(ns []*idr.Node) string {
	items := make([]string, len(ns))
	for i, n := range ns {
		items[i] = vh.CoqN(w.id(n))
	}
	return vh.CoqList(items)
}

func guardedFor(d time.Duration, f func()) (err string) {
	done := make(chan string, 1)
	go func() {
		defer func() {
			if p := recover(); p != nil {
				done <- fmt.Sprintf("panic: %v", p)
			}
		}()
		f()
		done <- ""
	}()
	select {
	case e := <-done:
		return e
	case <-time.After(d):
		hung++
		return fmt.Sprintf("hang (no result after %v)", d)
	}
}

// isNodeSetExpr: the probe of query.go's yieldsNodeSet, done independently.
func isNodeSetExpr(expr string) (ns bool) {
	defer func() {
		if r := recover(); r != nil {
			ns = true
		}
	}()
	p, err := xpath.Compile(expr)
	if err != nil {
		return true
	}
	_, ns = p.Evaluate(idr.VerifNavigator(&idr.Node{Type: idr.DocumentNode})).(*xpath.NodeIterator)
	return ns
}

type apiOutcome struct {
	NodeSet    bool     `json:"expression_is_node_set"`
	IdrAll     []string `json:"idr_MatchAll"`
	IdrAllErr  string   `json:"idr_MatchAll_err,omitempty"`
	IdrSingle  string   `json:"idr_MatchSingle"`
	IdrAny     bool     `json:"idr_MatchAny"`
	RefIter    []string `json:"reference_iteration"`
	RefLoops   bool     `json:"reference_iterator_yields_context_node_for_ever,omitempty"`
	RefPanics  bool     `json:"reference_iterator_panics,omitempty"`
	WantAll    []string `json:"expected_MatchAll"`
	WantSingle string   `json:"expected_MatchSingle"`
	WantAny    bool     `json:"expected_MatchAny"`
}

// record runs the three entry points and the bare iterator for expr from node k of d, evaluates
// the oracle against the reference and appends the Coq case.  It returns what failed ("" = ok).
func (w *wrapLog) record(rn *runner, d *docCtx, k int, expr string) (bad string, out *apiOutcome) {
	sum := rn.sum
	start, xstart := d.inodes[k], d.xnodes[k]
	out = &apiOutcome{NodeSet: isNodeSetExpr(expr)}
	ex, cerr := xpath.Compile(expr)

	// the idr iterator, as a script
	var iter []*idr.Node
	tail := "TEnd"
	if cerr == nil {
		e := guardedFor(5*time.Second, func() {
			defer func() {
				if r := recover(); r != nil {
					tail = "TPanic"
				}
			}()
			it := idr.QueryIter(start, ex)
			for len(iter) < iterCap && it.MoveNext() {
				iter = append(iter, it.Current().(interface{ Current() *idr.Node }).Current())
			}
		})
		if e != "" {
			return "idr.QueryIter: " + e, out
		}
		if len(iter) >= iterCap {
			for _, n := range iter {
				if n != start {
					sum.Hist("wrap:iteration-longer-than-cap(skipped)")
					if os.Getenv("C11_DEBUG") != "" {
						fmt.Fprintf(os.Stderr, "LONG %q from %s doc %s\n", expr, pathLabel(d.paths[k]), d.text)
					}
					return "", out
				}
			}
			iter, tail = nil, "TLoopSelf"
		}
	}

	// the three entry points, under a watchdog
	var all []*idr.Node
	var aerr, serr error
	var one *idr.Node
	anyv := false
	if e := guardedFor(4*time.Second, func() { all, aerr = idr.MatchAll(start, expr) }); e != "" {
		return "idr.MatchAll does not return: " + e, out
	}
	if e := guardedFor(4*time.Second, func() { one, serr = idr.MatchSingle(start, expr) }); e != "" {
		return "idr.MatchSingle does not return: " + e, out
	}
	if cerr == nil {
		if e := guardedFor(4*time.Second, func() { anyv = idr.MatchAny(start, ex) }); e != "" {
			return "idr.MatchAny does not return: " + e, out
		}
	}
	out.IdrAll, out.IdrAny = idrLabels(d, all), anyv
	if aerr != nil {
		out.IdrAllErr = "error"
	}
	allT := "OOtherErr"
	if aerr == nil {
		allT = "(OOk " + w.list(all) + ")"
	}
	oneT := "OOtherErr"
	out.IdrSingle = "other error"
	switch {
	case serr == nil && one != nil:
		oneT = "(OOk " + vh.CoqN(w.id(one)) + ")"
		out.IdrSingle = d.ilabel[one]
	case serr == idr.ErrNoMatch:
		oneT, out.IdrSingle = "ONoMatch", "ErrNoMatch"
	case serr == idr.ErrMoreThanExpected:
		oneT, out.IdrSingle = "OMoreThanExpected", "ErrMoreThanExpected"
	}
	w.terms = append(w.terms, fmt.Sprintf("mkW %s %s %s %s %s %s %s %s %s", vh.CoqBool(expr == "."), vh.CoqN(w.id(start)),
		vh.CoqBool(cerr == nil), vh.CoqBool(out.NodeSet), w.list(iter), tail, allT, oneT, vh.CoqBool(anyv)))
	w.n++
	switch {
	case cerr != nil:
		sum.Hist("wrap:does-not-compile")
	case tail == "TPanic":
		sum.Hist("wrap:iterator-panics")
	case tail == "TLoopSelf":
		sum.Hist("wrap:iterator-yields-context-node-for-ever(non-node-set,true)")
	case len(iter) == 0:
		sum.Hist("wrap:iterates-0")
	case len(iter) == 1:
		sum.Hist("wrap:iterates-1")
	default:
		sum.Hist("wrap:iterates-many")
		seen := map[*idr.Node]bool{}
		for _, n := range iter {
			if seen[n] {
				sum.Hist("wrap:iteration-with-duplicates")
				break
			}
			seen[n] = true
		}
	}
	if !out.NodeSet {
		sum.Hist("wrap:non-node-set-expression")
	}
	if cerr != nil || expr == "." {
		return "", out
	}

	// ---- the oracle: the wrapper semantics over the REFERENCE's iteration ----
	lctx := d.xlabel[xstart]
	e := guardedFor(5*time.Second, func() {
		defer func() {
			if r := recover(); r != nil {
				out.RefPanics = true
			}
		}()
		nav, _ := newFixNav(xstart)
		it := ex.Select(nav)
		for len(out.RefIter) < iterCap && it.MoveNext() {
			cur := it.Current().(*fixNav).in
			lbl := d.xlabel[cur.Current()]
			if cur.NodeType() == xpath.AttributeNode {
				lbl += "/@" + qname(cur.Prefix(), cur.LocalName())
			}
			out.RefIter = append(out.RefIter, lbl)
		}
	})
	if e != "" {
		return "", out // the reference does not answer: nothing to compare with
	}
	if len(out.RefIter) >= iterCap {
		for _, l := range out.RefIter {
			if l != lctx {
				return "", out
			}
		}
		out.RefIter, out.RefLoops = nil, true
	}
	switch {
	case out.RefLoops:
		out.WantAll, out.WantSingle, out.WantAny = []string{lctx}, "ErrMoreThanExpected", true
		if out.NodeSet {
			return "", out // cannot happen for a node-set query; not judged
		}
	case out.RefPanics:
		out.WantAll, out.WantAny = nil, len(out.RefIter) > 0
		out.WantSingle = "other error"
		if len(out.RefIter) >= 2 {
			out.WantSingle = "ErrMoreThanExpected"
		}
		if out.IdrAllErr == "" {
			return "the reference iteration panics inside the engine, idr.MatchAll reports no error", out
		}
	default:
		out.WantAll, out.WantAny = out.RefIter, len(out.RefIter) > 0
		switch len(out.RefIter) {
		case 0:
			out.WantSingle = "ErrNoMatch"
		case 1:
			out.WantSingle = out.RefIter[0]
		default:
			out.WantSingle = "ErrMoreThanExpected"
		}
		if !out.NodeSet {
			// ret[:1] when the context node comes twice in a row and the query is no node-set
			for i := 1; i < len(out.RefIter); i++ {
				if out.RefIter[i] == lctx && out.RefIter[i-1] == lctx {
					out.WantAll = out.RefIter[:1]
					break
				}
			}
		}
	}
	if !out.RefPanics {
		if out.IdrAllErr != "" || len(out.IdrAll) != len(out.WantAll) {
			return "idr.MatchAll does not return what the query selects on the reference DOM", out
		}
		for i := range out.WantAll {
			if out.IdrAll[i] != out.WantAll[i] {
				return "idr.MatchAll does not return what the query selects on the reference DOM", out
			}
		}
	}
	if out.IdrSingle != out.WantSingle {
		return "idr.MatchSingle disagrees with the number of nodes the query selects on the reference DOM", out
	}
	if out.IdrAny != out.WantAny {
		return "idr.MatchAny disagrees with the reference DOM", out
	}
	return "", out
}

// apiCase: record + report.  A call that does not return keeps its goroutine spinning (and
// allocating): the run is closed at once.
func (w *wrapLog) apiCase(rn *runner, d *docCtx, k int, expr string, pre *poolPrelude, verbose bool) {
	bad, out := w.record(rn, d, k, expr)
	if verbose {
		fmt.Printf("string API %q from %s: %+v %s\n", expr, pathLabel(d.paths[k]), *out, bad)
	}
	if bad == "" {
		return
	}
	c := &exprCase{Kind: "expr", Doc: d.text, Expr: expr, Start: d.paths[k], API: true, Pool: pre}
	rn.sum.Fail(bad, c, out)
	if strings.Contains(bad, "does not return") {
		fmt.Fprintln(os.Stderr, "c11: "+bad+" - closing the run")
		rn.finish()
		os.Exit(0)
	}
}

func (w *wrapLog) term() string {
	return "(WrapCases [\n  " + strings.Join(w.terms, ";\n  ") + "])"
}

// scalarProbes: boolean / number / string valued expressions (true and false ones) for the
// string API, from the root element and from another element of the document.
func scalarProbes(d *docCtx, r *vh.Rng) (starts []int, exprs []string) {
	var elems []int
	for k, n := range d.xnodes {
		if n.Type == xmlquery.ElementNode {
			elems = append(elems, k)
		}
	}
	if len(elems) == 0 {
		return
	}
	for _, k := range []int{elems[0], elems[r.Pick(len(elems))]} {
		n := d.xnodes[k]
		nc := 0
		for c := n.FirstChild; c != nil; c = c.NextSibling {
			if c.Type == xmlquery.ElementNode {
				nc++
			}
		}
		cands := []string{"1 = 1", "1 = 2", fmt.Sprintf("count(*) = %d", nc), fmt.Sprintf("count(*) = %d", nc+1),
			"'s'", "''", "1 + 1", "count(*)", "string(.)", "not(*)", "boolean(*)", "* and @*", "* or @*", "*/..", "@*/.."}
		for _, a := range n.Attr {
			if q, ok := quotable(a.Value); ok {
				cands = append(cands, "@"+qname(a.Name.Space, a.Name.Local)+"="+q, "@"+qname(a.Name.Space, a.Name.Local)+"!="+q)
				break
			}
		}
		if c := n.FirstChild; c != nil {
			if q, ok := quotable(c.InnerText()); ok {
				cands = append(cands, "node() = "+q, "* = 'zzz'")
			}
		}
		r.Shuffle(len(cands), func(i, j int) { cands[i], cands[j] = cands[j], cands[i] })
		for _, e := range cands[:6] {
			starts = append(starts, k)
			exprs = append(exprs, e)
		}
	}
	return
}
