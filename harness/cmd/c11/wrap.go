package main

import (
	"fmt"
	"os"
	"strings"

	"github.com/antchfx/xpath"
	"github.com/jf-tech/omniparser/idr"

	"verifharness/vh"
)

// Correspondence for the model of idr/query.go's wrappers (Model/Nav.v match_all / match_single /
// match_any over an abstract iterator): for one expression from one node the harness records
// what idr.QueryIter iterates (node numbers, in order, duplicates included; whether it stopped by
// a panic of the library) and what idr.MatchAll / MatchSingle / MatchAny returned; check_wcase
// replays the wrappers over that scripted iterator.
type wrapLog struct {
	ids   map[*idr.Node]int
	terms []string
	n     int
}

func (w *wrapLog) id(n *idr.Node) int {
	if w.ids == nil {
		w.ids = map[*idr.Node]int{}
	}
	v, ok := w.ids[n]
	if !ok {
		v = len(w.ids) + 1
		w.ids[n] = v
	}
	return v
}

func (w *wrapLog) list(ns []*idr.Node) string {
	items := make([]string, len(ns))
	for i, n := range ns {
		items[i] = vh.CoqN(w.id(n))
	}
	return vh.CoqList(items)
}

// record runs the three entry points and the bare iterator for expr from start.
func (w *wrapLog) record(start *idr.Node, expr string, sum *vh.Summary) {
	if os.Getenv("C11_DEBUG") != "" {
		fmt.Fprintf(os.Stderr, "RECORD %q\n", expr)
	}
	ex, cerr := xpath.Compile(expr)
	var iter []*idr.Node
	panics := false
	if cerr == nil {
		func() {
			defer func() {
				if r := recover(); r != nil {
					panics = true
				}
			}()
			it := idr.QueryIter(start, ex)
			for k := 0; it.MoveNext() && k < 100000; k++ {
				iter = append(iter, it.Current().(interface{ Current() *idr.Node }).Current())
			}
		}()
	}
	all, aerr := idr.MatchAll(start, expr)
	one, serr := idr.MatchSingle(start, expr)
	anyv := false
	if cerr == nil {
		anyv = idr.MatchAny(start, ex)
	}
	allT := "OOtherErr"
	if aerr == nil {
		allT = "(OOk " + w.list(all) + ")"
	}
	oneT := "OOtherErr"
	switch {
	case serr == nil && one != nil:
		oneT = "(OOk " + vh.CoqN(w.id(one)) + ")"
	case serr == idr.ErrNoMatch:
		oneT = "ONoMatch"
	case serr == idr.ErrMoreThanExpected:
		oneT = "OMoreThanExpected"
	}
	w.terms = append(w.terms, fmt.Sprintf("mkW %s %s %s %s %s %s %s %s", vh.CoqBool(expr == "."), vh.CoqN(w.id(start)),
		vh.CoqBool(cerr == nil), w.list(iter), vh.CoqBool(panics), allT, oneT, vh.CoqBool(anyv)))
	w.n++
	switch {
	case cerr != nil:
		sum.Hist("wrap:does-not-compile")
	case panics:
		sum.Hist("wrap:iterator-panics")
	case len(iter) == 0:
		sum.Hist("wrap:iterates-0")
	case len(iter) == 1:
		sum.Hist("wrap:iterates-1")
	default:
		sum.Hist("wrap:iterates-many")
		seen := map[*idr.Node]bool{}
		for _, n := range iter {
			if seen[n] {
				sum.Hist("wrap:iteration-with-duplicates")
				break
			}
			seen[n] = true
		}
	}
}

func (w *wrapLog) term() string {
	return "(WrapCases [\n  " + strings.Join(w.terms, ";\n  ") + "])"
}
