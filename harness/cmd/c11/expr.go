package main

import (
	"fmt"
	"strings"
	"time"

	"github.com/antchfx/xmlquery"
	"github.com/antchfx/xpath"
	"github.com/jf-tech/omniparser/idr"

	"verifharness/vh"
)

// ---- grammar-driven xpath expressions ----------------------------------------------------------
// The generator follows antchfx/xpath v1.1.11's grammar (parse.go / build.go): the twelve axes the
// builder implements (namespace:: builds no query), name tests with and without prefix, *,
// text(), node(), abbreviated steps, positional / boolean / string-valued predicates, unions, and
// the core function library.
//
// Two flags keep the expressions inside what the REFERENCE evaluates per the XPath data model
// (see Model/Nav.v, quirks Q1 and Q2 of xmlquery v1.3.1):
//   mayRoot: the context node may be the document node -> its string-value is not consumed;
//   mayAttr: the context node may be an attribute       -> no absolute path is evaluated from it.

type ctxFlags struct {
	mayRoot, mayAttr bool
	kind             int // what the context node most likely is (steers the axis choice only)
}

const (
	kElem = iota
	kAttr
	kText
	kRoot
)

type exprGen struct {
	r     *vh.Rng
	elems []string // qualified element names present in the document
	attrs []string // qualified attribute names present
	vals  []string // text and attribute values present
	feat  map[string]bool

	locals   []string // local names of the PREFIXED elements present (used as bare names)
	rootName string
	first    bool // the next step is the first step of an absolute path
}

func newExprGen(r *vh.Rng, d *docCtx) *exprGen {
	g := &exprGen{r: r, feat: map[string]bool{}}
	se, sa, sv, sl := map[string]bool{}, map[string]bool{}, map[string]bool{}, map[string]bool{}
	add := func(m map[string]bool, l *[]string, s string) {
		if !m[s] {
			m[s] = true
			*l = append(*l, s)
		}
	}
	for _, n := range d.xnodes {
		switch n.Type {
		case xmlquery.ElementNode:
			add(se, &g.elems, qname(n.Prefix, n.Data))
			if n.Prefix != "" {
				add(sl, &g.locals, n.Data)
			}
			for _, a := range n.Attr {
				add(sa, &g.attrs, qname(a.Name.Space, a.Name.Local))
				add(sv, &g.vals, a.Value)
			}
		case xmlquery.TextNode:
			add(sv, &g.vals, n.Data)
		}
	}
	if len(g.attrs) == 0 {
		g.attrs = append(g.attrs, "k")
	}
	g.vals = append(g.vals, "zzz")
	for _, n := range d.xnodes {
		if n.Type == xmlquery.ElementNode {
			g.rootName = qname(n.Prefix, n.Data)
			break
		}
	}
	return g
}

func (g *exprGen) lit() string {
	for k := 0; k < 5; k++ {
		v := g.vals[g.r.Pick(len(g.vals))]
		if g.r.Chance(0.2) && len(v) > 1 {
			v = v[:1] // a proper prefix, for starts-with / contains
		}
		if !strings.Contains(v, "'") {
			return "'" + v + "'"
		}
		if !strings.Contains(v, "\"") {
			return "\"" + v + "\""
		}
	}
	return "'a'"
}

func (g *exprGen) elemTest() string {
	if g.first {
		g.first = false
		if g.r.Chance(0.7) {
			return g.r.PickStr(g.rootName, "*", "node()")
		}
	}
	switch c := g.r.Pick(10); {
	case c < 5:
		if g.r.Chance(0.07) {
			return g.r.PickStr("nosuch", "a:nosuch", "b:x")
		}
		if len(g.locals) > 0 && g.r.Chance(0.15) {
			// the bare local name of an element that carries a prefix: must NOT select it (the
			// engine's name test compares the prefix too), only its un-prefixed namesakes
			g.feat["bare-name-of-prefixed-element"] = true
			return g.locals[g.r.Pick(len(g.locals))]
		}
		return g.elems[g.r.Pick(len(g.elems))]
	case c < 7:
		return "*"
	case c < 8:
		return "text()"
	default:
		return "node()"
	}
}

func (g *exprGen) attrTest() string {
	if g.r.Chance(0.3) {
		return "*"
	}
	if g.r.Chance(0.07) {
		return g.r.PickStr("nosuch", "a:nosuch")
	}
	return g.attrs[g.r.Pick(len(g.attrs))]
}

var axes = []string{"child", "descendant", "descendant-or-self", "parent", "ancestor", "ancestor-or-self",
	"following-sibling", "preceding-sibling", "following", "preceding", "attribute", "self"}
var axisWeight = []int{10, 4, 2, 3, 2, 2, 4, 4, 2, 2, 6, 2}

func isNameTest(t string) bool { return t != "*" && t != "text()" && t != "node()" }

// step returns one location step (with predicates) and the flags of the nodes it selects.
func (g *exprGen) step(c ctxFlags, depth int, dsCtx *ctxFlags) (string, ctxFlags) {
	afterDSlash := dsCtx != nil
	r := g.r
	var s, axis, test string
	// mostly steps that can select something from the kind of node the context is (85%), the
	// rest unconstrained (the engine must answer "nothing" alike on both bindings)
	w := axisWeight
	if r.Chance(0.85) {
		switch c.kind {
		case kAttr:
			w = []int{0, 0, 0, 12, 4, 3, 0, 0, 1, 1, 0, 3}
		case kText:
			w = []int{0, 0, 0, 8, 3, 2, 5, 5, 2, 2, 0, 2}
		case kRoot:
			w = []int{12, 6, 3, 0, 0, 0, 0, 0, 0, 0, 0, 1}
		}
	}
	t := 0
	for _, v := range w {
		t += v
	}
	p := r.Pick(t)
	i := 0
	for p >= w[i] {
		p -= w[i]
		i++
	}
	axis = axes[i]
	if axis == "attribute" {
		test = g.attrTest()
	} else {
		test = g.elemTest()
		if (axis == "parent" || axis == "ancestor" || axis == "ancestor-or-self") && test == "text()" {
			test = "*"
		}
	}
	s = axis + "::" + test
	// abbreviated forms
	switch {
	case axis == "self" && test == "node()":
		s = "."
	case axis == "parent" && test == "node()":
		s = ".."
	case axis == "attribute" && r.Chance(0.7):
		s = "@" + test
	case axis == "child" && r.Chance(0.7):
		s = test
	}
	g.feat["axis:"+axis] = true
	if strings.Contains(test, ":") {
		g.feat["prefixed-name-test"] = true
	}
	out := ctxFlags{}
	switch {
	case axis == "attribute":
		out.kind = kAttr
	case axis == "self" || (afterDSlash && axis == "child" && test == "node()"):
		out.kind = c.kind
		if test == "text()" {
			out.kind = kText
		}
	case test == "text()":
		out.kind = kText
	default:
		out.kind = kElem
	}
	out.mayAttr = axis == "attribute" || (c.mayAttr && (axis == "self" || axis == "ancestor-or-self" || axis == "descendant-or-self"))
	if !isNameTest(test) {
		switch axis {
		case "parent", "ancestor", "ancestor-or-self":
			out.mayRoot = true
		case "self", "descendant-or-self":
			out.mayRoot = c.mayRoot
		}
	}
	if afterDSlash && axis == "child" {
		// the engine compiles "//" + child step into one descendant-or-self query over the
		// context node (build.go:72-98): the context node itself is a candidate
		out.mayAttr = out.mayAttr || dsCtx.mayAttr
		if test == "node()" {
			out.mayRoot = dsCtx.mayRoot
		}
	}
	if s == "." || s == ".." {
		return s, out // abbreviated steps take no predicate in this grammar position
	}
	for np := 0; depth > 0 && np < 2 && r.Chance(0.3); np++ {
		s += "[" + g.pred(out, depth-1) + "]"
	}
	return s, out
}

// relPath returns a relative location path of n steps.
func (g *exprGen) relPath(c ctxFlags, n, depth int, ds bool) (string, ctxFlags) {
	var sb strings.Builder
	// dsCtx: the previous step is a descendant-or-self step without predicate ("//" or written
	// out, with ANY node test): the engine merges it with a following child step into one
	// descendant-or-self query over ITS context (build.go:72-98), whose flags are *dsCtx
	var dsCtx *ctxFlags
	if ds {
		c0 := c
		dsCtx = &c0
	}
	for i := 0; i < n; i++ {
		if i > 0 {
			if g.r.Chance(0.2) {
				sb.WriteString("//")
				g.feat["abbrev-//"] = true
				c0 := c
				dsCtx = &c0
			} else {
				sb.WriteString("/")
			}
		}
		before := c
		var s string
		s, c = g.step(c, depth, dsCtx)
		sb.WriteString(s)
		dsCtx = nil
		if strings.HasPrefix(s, "descendant-or-self::") && !strings.Contains(s, "[") {
			dsCtx = &before
		}
	}
	return sb.String(), c
}

// path returns a location path; absolute paths only where the context cannot be an attribute.
func (g *exprGen) path(c ctxFlags, depth int) (string, ctxFlags) {
	r := g.r
	n := r.Between(1, 3)
	if r.Chance(0.15) {
		n = 4
	}
	g.first = false
	// absolute paths from a possibly-attribute context only now and then: they make the
	// evaluation depend on the repair of Q2
	if !c.mayAttr || r.Chance(0.25) {
		switch r.Pick(5) {
		case 0:
			g.feat["absolute"] = true
			g.first = true
			s, f := g.relPath(ctxFlags{mayRoot: true, kind: kRoot}, n, depth, false)
			return "/" + s, f
		case 1:
			g.feat["abbrev-//"] = true
			s, f := g.relPath(ctxFlags{mayRoot: true, kind: kRoot}, n, depth, true)
			return "//" + s, f
		}
	}
	if r.Chance(0.15) {
		g.feat["abbrev-//"] = true
		s, f := g.relPath(c, n, depth, true)
		return ".//" + s, f
	}
	return g.relPath(c, n, depth, false)
}

// valuePath returns a path whose nodes' string-values may be consumed: never the document node.
func (g *exprGen) valuePath(c ctxFlags, depth int) string {
	for k := 0; k < 20; k++ {
		s, f := g.path(c, depth)
		if !f.mayRoot || g.r.Chance(0.1) { // now and then: depends on the repair of Q1
			return s
		}
	}
	return "@" + g.attrTest()
}

var cmps = []string{"=", "!=", "<", ">", "<=", ">="}

// pred returns a predicate expression for context nodes with flags c.
func (g *exprGen) pred(c ctxFlags, depth int) string {
	r := g.r
	g.feat["predicate"] = true
	dotOK := !c.mayRoot
	if (c.kind == kAttr || c.kind == kText) && dotOK && r.Chance(0.7) {
		// an attribute or a text node: conditions on its own value, name and position
		switch r.Pick(7) {
		case 0, 1:
			g.feat["string-compare"] = true
			return "." + cmps[r.Pick(2)] + g.lit()
		case 2:
			g.feat["fn:contains"] = true
			return "contains(., " + g.lit() + ")"
		case 3:
			g.feat["fn:starts-with"] = true
			return "starts-with(., " + g.lit() + ")"
		case 4:
			g.feat["fn:string-length"] = true
			return "string-length(.)" + cmps[r.Pick(len(cmps))] + fmt.Sprint(r.Between(0, 3))
		case 5:
			g.feat["positional"] = true
			return r.PickStr("1", "2", "last()", "position()>1")
		default:
			g.feat["number-compare"] = true
			return "number(.)" + cmps[r.Pick(len(cmps))] + fmt.Sprint(r.Between(0, 10))
		}
	}
	switch k := r.Pick(27); {
	case k < 3:
		g.feat["positional"] = true
		return fmt.Sprint(r.Between(1, 3))
	case k == 3:
		g.feat["positional"] = true
		return "last()"
	case k == 4:
		g.feat["positional"] = true
		return "position()" + cmps[r.Pick(len(cmps))] + fmt.Sprint(r.Between(1, 3))
	case k == 5:
		g.feat["positional"] = true
		return "position()=last()-1"
	case k < 8:
		s, _ := g.path(c, depth)
		return s // existence
	case k < 11:
		g.feat["string-compare"] = true
		return g.valuePath(c, depth) + cmps[r.Pick(2)] + g.lit()
	case k == 11:
		g.feat["string-compare"] = true
		if dotOK {
			return "." + cmps[r.Pick(2)] + g.lit()
		}
		return g.valuePath(c, depth) + "=" + g.lit()
	case k == 12:
		g.feat["fn:contains"] = true
		if dotOK && r.Chance(0.5) {
			return "contains(., " + g.lit() + ")"
		}
		return "contains(" + g.valuePath(c, depth) + ", " + g.lit() + ")"
	case k == 13:
		g.feat["fn:starts-with"] = true
		return "starts-with(" + g.valuePath(c, depth) + ", " + g.lit() + ")"
	case k == 14:
		g.feat["fn:count"] = true
		s, _ := g.path(c, depth)
		return "count(" + s + ")" + cmps[r.Pick(len(cmps))] + fmt.Sprint(r.Between(0, 3))
	case k == 15:
		g.feat["fn:not"] = true
		return "not(" + g.pred(c, depth-1) + ")"
	case k == 16 && depth > 0:
		g.feat["and/or"] = true
		l := g.pred(c, depth-1)
		if strings.Contains(l, "[") {
			// a filter inside the left operand moves the shared context navigator
			// (filterQuery.Select: t.Current().MoveTo(node)): the right operand may start anywhere
			c = ctxFlags{mayRoot: true, mayAttr: true, kind: c.kind}
		}
		return l + r.PickStr(" and ", " or ") + g.pred(c, depth-1)
	case k == 17:
		g.feat["fn:string"] = true
		return "string(" + g.valuePath(c, depth) + ")" + cmps[r.Pick(2)] + g.lit()
	case k == 18:
		g.feat["fn:boolean"] = true
		s, _ := g.path(c, depth)
		return "boolean(" + s + ")"
	case k == 19:
		g.feat["fn:name"] = true
		if r.Chance(0.5) {
			return "name()='" + g.elems[r.Pick(len(g.elems))] + "'"
		}
		return "local-name()='" + r.PickStr("x", "y", "k", "id", "item") + "'"
	case k == 20:
		g.feat["fn:string-length"] = true
		return "string-length(" + g.valuePath(c, depth) + ")" + cmps[r.Pick(len(cmps))] + fmt.Sprint(r.Between(0, 3))
	case k == 22:
		g.feat["text-children"] = true
		return r.PickStr("text()", "node()", "not(text())", "not(node())", "not(*)")
	case k == 23:
		g.feat["text-children"] = true
		return "count(" + r.PickStr("node()", "text()") + ")" + cmps[r.Pick(len(cmps))] + fmt.Sprint(r.Between(0, 3))
	case k == 24:
		g.feat["text-children"] = true
		g.feat["positional"] = true
		return r.PickStr("text()", "node()") + "[" + r.PickStr("1", "2", "last()", "position()>1") + "]" +
			r.PickStr("", "=''", "!=''", "="+g.lit())
	case k == 25:
		g.feat["text-children"] = true
		return r.PickStr("text()=''", "text()!=''", "string-length(text())=0", "node()[1]=''", "text()[last()]="+g.lit())
	default:
		g.feat["number-compare"] = true
		if r.Chance(0.1) {
			// node-set < number: the engine panics on a non-numeric node value (operator.go:120),
			// on both bindings alike
			return g.valuePath(c, depth) + cmps[r.Pick(len(cmps))] + fmt.Sprint(r.Between(0, 10))
		}
		return "number(" + g.valuePath(c, depth) + ")" + cmps[r.Pick(len(cmps))] + fmt.Sprint(r.Between(0, 10))
	}
}

// nodeSetExpr returns an expression whose value is a node-set (what idr.MatchAll evaluates).
func (g *exprGen) nodeSetExpr(kind int) string {
	top := ctxFlags{mayRoot: true, kind: kind}
	s, _ := g.path(top, 2)
	if g.r.Chance(0.12) {
		g.feat["union"] = true
		if strings.Contains(s, "[") {
			top.mayAttr = true // see pred: the left operand's filters move the context navigator
		}
		t, _ := g.path(top, 1)
		s = s + " | " + t
	}
	return s
}

// scalarExpr returns a boolean / number / string valued expression (Expr.Evaluate on both
// navigators; idr.MatchAll has no scalar form).
func (g *exprGen) scalarExpr(kind int) string {
	top := ctxFlags{mayRoot: true, kind: kind}
	r := g.r
	g.feat["scalar"] = true
	switch r.Pick(8) {
	case 0:
		s, _ := g.path(top, 2)
		return "count(" + s + ")"
	case 1:
		return "string(" + g.valuePath(top, 2) + ")"
	case 2:
		s, _ := g.path(top, 2)
		return "boolean(" + s + ")"
	case 3:
		return g.valuePath(top, 1) + "=" + g.lit()
	case 4:
		return "sum(" + g.valuePath(top, 1) + ")"
	case 5:
		return "concat(string(" + g.valuePath(top, 1) + "), '-', " + g.lit() + ")"
	case 6:
		s, _ := g.path(top, 1)
		return "name(" + s + ")"
	default:
		return "normalize-space(" + g.valuePath(top, 1) + ")"
	}
}

// ---- evaluation on both bindings ---------------------------------------------------------------

// fixNav is the REPAIRED reference navigator (Model/Nav.v: run_dom true): xmlquery's navigator
// with its two departures from the XPath data model corrected, and a count of how often the
// correction was active in an evaluation:
//
//	Q1 Value() of the document node: xmlquery returns ""; repaired: the node's InnerText;
//	Q2 MoveToRoot() on an attribute position: xmlquery keeps the attribute index; repaired: the
//	   index is reset (MoveToParent, which only resets it, then MoveToRoot).
//
// When neither was active the evaluation is exactly xmlquery v1.3.1's (repair_conservative).
type fixNav struct {
	in   *xmlquery.NodeNavigator
	hits *quirkHits
}
type quirkHits struct{ q1, q2 int }

func newFixNav(n *xmlquery.Node) (*fixNav, *quirkHits) {
	h := &quirkHits{}
	return &fixNav{xmlquery.CreateXPathNavigator(n), h}, h
}
func (f *fixNav) NodeType() xpath.NodeType { return f.in.NodeType() }
func (f *fixNav) LocalName() string        { return f.in.LocalName() }
func (f *fixNav) Prefix() string           { return f.in.Prefix() }
func (f *fixNav) Value() string {
	if f.in.NodeType() == xpath.RootNode {
		f.hits.q1++
		return f.in.Current().InnerText()
	}
	return f.in.Value()
}
func (f *fixNav) Copy() xpath.NodeNavigator {
	return &fixNav{f.in.Copy().(*xmlquery.NodeNavigator), f.hits}
}
func (f *fixNav) MoveToRoot() {
	if f.in.NodeType() == xpath.AttributeNode {
		f.hits.q2++
		f.in.MoveToParent()
	}
	f.in.MoveToRoot()
}
func (f *fixNav) MoveToParent() bool        { return f.in.MoveToParent() }
func (f *fixNav) MoveToNextAttribute() bool { return f.in.MoveToNextAttribute() }
func (f *fixNav) MoveToChild() bool         { return f.in.MoveToChild() }
func (f *fixNav) MoveToFirst() bool         { return f.in.MoveToFirst() }
func (f *fixNav) MoveToNext() bool          { return f.in.MoveToNext() }
func (f *fixNav) MoveToPrevious() bool      { return f.in.MoveToPrevious() }
func (f *fixNav) MoveTo(o xpath.NodeNavigator) bool {
	g, ok := o.(*fixNav)
	return ok && f.in.MoveTo(g.in)
}

type exprCase struct {
	Kind   string       `json:"kind"` // "expr"
	Doc    string       `json:"doc"`
	Expr   string       `json:"expr"`
	Start  []int        `json:"start"`
	Scalar bool         `json:"scalar,omitempty"`
	API    bool         `json:"string_api,omitempty"` // MatchAll / MatchSingle / MatchAny vs the wrapper semantics over the reference iteration
	Pool   *poolPrelude `json:"earlier_document,omitempty"`
}

type hit struct {
	Label string `json:"node"`
	Value string `json:"value"`
}

type exprOutcome struct {
	IdrHits []hit  `json:"idr,omitempty"`
	RefHits []hit  `json:"ref,omitempty"`
	IdrVal  string `json:"idr_value,omitempty"`
	RefVal  string `json:"ref_value,omitempty"`
	IdrErr  string `json:"idr_err,omitempty"`
	RefErr  string `json:"ref_err,omitempty"`
	Q1      int    `json:"reference_repair_Q1_active,omitempty"`
	Q2      int    `json:"reference_repair_Q2_active,omitempty"`
	bad     string
	n       int
}

func guarded(f func()) (err string) {
	done := make(chan string, 1)
	go func() {
		defer func() {
			if p := recover(); p != nil {
				done <- fmt.Sprintf("panic: %v", p)
			}
		}()
		f()
		done <- ""
	}()
	select {
	case e := <-done:
		return e
	case <-time.After(10 * time.Second):
		hung++
		return "hang (no result after 10s)"
	}
}

func scalarString(v interface{}) string {
	if it, ok := v.(*xpath.NodeIterator); ok {
		n := 0
		for it.MoveNext() {
			n++
		}
		return fmt.Sprintf("node-set of %d", n)
	}
	return fmt.Sprintf("%T:%v", v, v)
}

// evalExpr evaluates one expression from one start node on both bindings and compares: same
// nodes (by label) in the same order with the same string values.
func evalExpr(d *docCtx, c *exprCase) *exprOutcome {
	out := &exprOutcome{}
	k := d.nodeAt(c.Start)
	if k < 0 {
		out.bad = "start node not in document"
		return out
	}
	xstart, istart := d.xnodes[k], d.inodes[k]
	if c.Scalar {
		out.RefErr = guarded(func() {
			ex, err := xpath.Compile(c.Expr)
			if err != nil {
				panic("compile: " + err.Error())
			}
			nav, h := newFixNav(xstart)
			defer func() { out.Q1, out.Q2 = h.q1, h.q2 }()
			out.RefVal = scalarString(ex.Evaluate(nav))
		})
		out.IdrErr = guarded(func() {
			ex, err := xpath.Compile(c.Expr)
			if err != nil {
				panic("compile: " + err.Error())
			}
			out.IdrVal = scalarString(ex.Evaluate(idr.VerifNavigator(istart)))
		})
		if (out.RefErr == "") != (out.IdrErr == "") {
			out.bad = "one binding fails to evaluate the expression"
		} else if out.RefVal != out.IdrVal {
			out.bad = "expression values differ"
		}
		return out
	}
	out.RefErr = guarded(func() {
		ex, err := xpath.Compile(c.Expr)
		if err != nil {
			panic("compile: " + err.Error())
		}
		start, h := newFixNav(xstart)
		defer func() { out.Q1, out.Q2 = h.q1, h.q2 }()
		it := ex.Select(start)
		for it.MoveNext() {
			nav := it.Current().(*fixNav).in
			lbl, ok := d.xlabel[nav.Current()]
			if !ok {
				lbl = "?unknown-node"
			}
			if nav.NodeType() == xpath.AttributeNode {
				lbl += "/@" + qname(nav.Prefix(), nav.LocalName())
			}
			out.RefHits = append(out.RefHits, hit{lbl, nav.Value()})
		}
		// the packaged entry point (xmlquery as it is) must return as many nodes whenever the
		// repair was not active
		if h.q1 == 0 && h.q2 == 0 {
			ns, err := xmlquery.QueryAll(xstart, c.Expr)
			if err != nil || len(ns) != len(out.RefHits) {
				panic(fmt.Sprintf("xmlquery.QueryAll returned %d nodes (err %v), its iterator %d", len(ns), err, len(out.RefHits)))
			}
		}
	})
	out.IdrErr = guarded(func() {
		ns, err := idr.MatchAll(istart, c.Expr)
		if err != nil {
			panic("idr.MatchAll: " + err.Error())
		}
		for _, n := range ns {
			lbl, ok := d.ilabel[n]
			if !ok {
				lbl = fmt.Sprintf("?unlabelled %s %q", n.Type, n.Data)
			}
			out.IdrHits = append(out.IdrHits, hit{lbl, n.InnerText()})
		}
	})
	out.n = len(out.RefHits)
	if (out.RefErr == "") != (out.IdrErr == "") {
		out.bad = "one binding fails to evaluate the expression"
		return out
	}
	if out.RefErr != "" {
		return out // both fail alike (compile error or engine panic): no disagreement
	}
	if len(out.RefHits) != len(out.IdrHits) {
		out.bad = "different number of nodes selected"
		return out
	}
	for i := range out.RefHits {
		a, b := out.RefHits[i], out.IdrHits[i]
		if a.Label != b.Label {
			out.bad = fmt.Sprintf("result %d is a different node", i)
			return out
		}
		if a.Label == "/" {
			// Q1 on a result node: xmlquery reports "" for the document node; the IDR must
			// report all text of the tree
			if a.Value != "" || b.Value != d.allTxt {
				out.bad = fmt.Sprintf("result %d (document node): unexpected string-value", i)
				return out
			}
			continue
		}
		if a.Value != b.Value {
			out.bad = fmt.Sprintf("result %d has a different string-value", i)
			return out
		}
	}
	out.bad = apiConsistency(d, istart, c.Expr, out.IdrHits)
	return out
}

func idrLabels(d *docCtx, ns []*idr.Node) []string {
	out := make([]string, len(ns))
	for i, n := range ns {
		lbl, ok := d.ilabel[n]
		if !ok {
			lbl = fmt.Sprintf("?unlabelled %s %q", n.Type, n.Data)
		}
		out[i] = lbl
	}
	return out
}

// apiConsistency: the string API of idr/query.go answers one and the same question whichever
// way it is asked: MatchAll through the process-wide compiled-expression cache (hits, already
// obtained) = MatchAll with DisableXPathCache (the expression compiled in isolation), and
// MatchSingle = the single node / ErrNoMatch / ErrMoreThanExpected by the number of hits.
func apiConsistency(d *docCtx, istart *idr.Node, expr string, hits []hit) (bad string) {
	e := guarded(func() {
		ns, err := idr.MatchAll(istart, expr, idr.DisableXPathCache)
		if err != nil {
			bad = "MatchAll with DisableXPathCache fails where the cached call succeeds: " + err.Error()
			return
		}
		ls := idrLabels(d, ns)
		if len(ls) != len(hits) {
			bad = fmt.Sprintf("MatchAll through the expression cache selects %d nodes, with DisableXPathCache %d", len(hits), len(ls))
			return
		}
		for i := range ls {
			if ls[i] != hits[i].Label {
				bad = fmt.Sprintf("MatchAll through the expression cache and with DisableXPathCache differ at result %d", i)
				return
			}
		}
		for _, flags := range [][]uint{nil, {idr.DisableXPathCache}} {
			n, err := idr.MatchSingle(istart, expr, flags...)
			switch {
			case len(hits) == 0 && err != idr.ErrNoMatch,
				len(hits) > 1 && err != idr.ErrMoreThanExpected,
				len(hits) == 1 && (err != nil || n == nil || d.ilabel[n] != hits[0].Label):
				bad = fmt.Sprintf("MatchSingle (flags %v) is inconsistent with the %d node(s) MatchAll selects (err %v)", flags, len(hits), err)
				return
			}
		}
	})
	if bad == "" && e != "" {
		bad = "string API: " + e
	}
	return bad
}

func exprTouches(e string) bool {
	for _, s := range []string{"@", "attribute::", "-sibling::", "following::", "preceding::", "position()", "last()", "[1]", "[2]", "[3]"} {
		if strings.Contains(e, s) {
			return true
		}
	}
	return false
}
