package main

import (
	"bytes"
	"fmt"
	"strings"

	"github.com/antchfx/xmlquery"
	"github.com/antchfx/xpath"
	"github.com/jf-tech/omniparser/idr"

	"verifharness/vh"
)

// ---- generator tree ---------------------------------------------------------------------------

// Every namespace URI has exactly one prefix and every prefix exactly one URI (this is the guard
// of known finding F11: a URI bound to two prefixes makes both parsers use one global prefix).
type nsBinding struct{ prefix, uri string }

var nsPool = []nsBinding{
	{"a", "urn:ns:a"}, {"b", "urn:ns:b"}, {"c", "http://example.com/c"}, {"", "urn:ns:default"},
}

const xmlURI = "http://www.w3.org/XML/1998/namespace"

// uriOfPrefix is the attribute namespace URI idr.XMLSpecific records for a given prefix.
func uriOfPrefix(p string) string {
	switch p {
	case "", "xmlns":
		return ""
	case "xml":
		return xmlURI
	}
	for _, b := range nsPool {
		if b.prefix == p {
			return b.uri
		}
	}
	return "?"
}

type gattr struct{ prefix, local, value string }

type gnode struct {
	text   string // non-element: character data
	cdata  bool
	prefix string
	local  string
	attrs  []gattr
	kids   []*gnode
	elem   bool
}

var elemNames = []string{"x", "y", "z", "item", "n", "x", "y"}
var attrNames = []string{"k", "id", "v", "k2", "x"}
var words = []string{"a", "b", "ab", "1", "2", "10", "x y", "x  y", "x\ty", "X y", " ", "\n  ", "é", "日本", "a<b", "q&r", "\"q\"", "it's", "0", "abc", "ab", "Ab", " ab"}

type docGen struct {
	words    []string // nil: the package's word list
	r        *vh.Rng
	maxDepth int
	budget   int
	feat     map[string]bool
}

func (g *docGen) word() string {
	if g.words != nil {
		return g.words[g.r.Pick(len(g.words))]
	}
	return words[g.r.Pick(len(words))]
}

// Documents in a declared single-byte encoding.  Both parsers hand the declared label to
// charset.NewReaderLabel (the WHATWG label table: iso-8859-1 / latin1 / us-ascii are windows-1252,
// iso-8859-9 is windows-1254, ...), so every byte must come out as the same character on both
// sides - in particular the bytes 0x80..0x9F, which a strict ISO-8859-1 decoder maps to C1
// controls and windows-1252 to printable characters (0x80 = U+20AC).
//
// Such a document is carried as a string with the prefix "bytes8:" followed by ONE CODE POINT
// PER BYTE (so it survives JSON in case descriptions); rawDoc turns it into the bytes.
const bytes8 = "bytes8:"

var encodingLabels = []string{"ISO-8859-1", "iso-8859-1", "latin1", "us-ascii", "windows-1252", "iso-8859-9", "iso-8859-15", "ISO-8859-15", "windows-1254", "l1"}

// words whose code points stand for bytes: 0x80..0x9F, 0xA0..0xFF and plain ASCII
var byteWords = []string{"\u0080uro", "\u0093q\u0094", "a\u0085", "\u0099", "\u008a\u009a", "\u0091x\u0092", "\u0080", "\u0096\u0097", "\u009f",
	"caf\u00e9", "x\u00a0y", "\u00fe\u00ff", "\u00a4", "\u00d0\u00dd\u00de", "\u00f0\u00fd", "a", "ab", "x y", "1", "0", "q&r", "a<b"}

func rawDoc(text string) []byte {
	if !strings.HasPrefix(text, bytes8) {
		return []byte(text)
	}
	rs := []rune(text[len(bytes8):])
	b := make([]byte, len(rs))
	for i, r := range rs {
		b[i] = byte(r)
	}
	return b
}

// genEncodedDoc: a random document in a declared single-byte encoding with bytes >= 0x80 in
// text and attribute values.
func genEncodedDoc(r *vh.Rng) (string, *gnode, map[string]bool) {
	g := &docGen{r: r, maxDepth: r.Between(1, 5), budget: r.Between(3, 30), feat: map[string]bool{}, words: byteWords}
	root := g.element(0, map[string]bool{})
	label := encodingLabels[r.Pick(len(encodingLabels))]
	var sb strings.Builder
	sb.WriteString(bytes8 + `<?xml version="1.0" encoding="` + label + `"?>`)
	if r.Chance(0.3) {
		sb.WriteString("\n")
		g.feat["text-before-root"] = true
	}
	g.feat["prolog"] = true
	g.feat["declared-encoding:"+strings.ToLower(label)] = true
	root.write(&sb, r)
	return sb.String(), root, g.feat
}

func (g *docGen) element(depth int, scope map[string]bool) *gnode {
	r := g.r
	n := &gnode{elem: true, local: elemNames[r.Pick(len(elemNames))]}
	g.budget--
	scope2 := map[string]bool{}
	for k, v := range scope {
		scope2[k] = v
	}
	// namespace declarations (more likely near the root)
	pdecl := 0.12
	if depth == 0 {
		pdecl = 0.5
	}
	for _, b := range nsPool {
		if !scope2[b.prefix] && r.Chance(pdecl) {
			scope2[b.prefix] = true
			if b.prefix == "" {
				n.attrs = append(n.attrs, gattr{"", "xmlns", b.uri})
				g.feat["default-ns"] = true
			} else {
				n.attrs = append(n.attrs, gattr{"xmlns", b.prefix, b.uri})
				g.feat["prefixed-ns"] = true
			}
		}
	}
	var inScope []string
	for _, b := range nsPool {
		if b.prefix != "" && scope2[b.prefix] {
			inScope = append(inScope, b.prefix)
		}
	}
	if len(inScope) > 0 && r.Chance(0.35) {
		n.prefix = inScope[r.Pick(len(inScope))]
		g.feat["prefixed-element"] = true
	}
	// ordinary attributes, unique by (prefix, local)
	na := 0
	switch r.Pick(6) {
	case 0, 1:
		na = 0
	case 2, 3:
		na = 1
	case 4:
		na = 2
	default:
		na = r.Between(3, 5)
	}
	seen := map[string]bool{}
	for i := 0; i < na; i++ {
		a := gattr{local: attrNames[r.Pick(len(attrNames))], value: g.word()}
		if r.Chance(0.15) {
			a.value = ""
		}
		if len(inScope) > 0 && r.Chance(0.3) {
			a.prefix = inScope[r.Pick(len(inScope))]
			g.feat["prefixed-attr"] = true
		} else if r.Chance(0.05) {
			a.prefix, a.local = "xml", "lang"
		}
		key := a.prefix + ":" + a.local
		if seen[key] {
			continue
		}
		seen[key] = true
		g.feat["attr"] = true
		// attributes and namespace declarations interleave in any order
		if len(n.attrs) > 0 && r.Chance(0.4) {
			p := r.Pick(len(n.attrs) + 1)
			n.attrs = append(n.attrs[:p:p], append([]gattr{a}, n.attrs[p:]...)...)
		} else {
			n.attrs = append(n.attrs, a)
		}
	}
	// children: mixed content; two plain text children are never adjacent (they would be one token)
	if depth < g.maxDepth && g.budget > 0 {
		nk := 0
		switch r.Pick(5) {
		case 0:
			nk = 0
		case 1:
			nk = 1
		default:
			nk = r.Between(1, 5)
		}
		if depth > 3 {
			nk = r.Between(0, 2) // deep and narrow
		}
		lastPlain := false
		for i := 0; i < nk && g.budget > 0; i++ {
			if r.Chance(0.4) {
				t := &gnode{text: g.word()}
				if r.Chance(0.2) {
					t.cdata = true
					t.text = strings.ReplaceAll(t.text, "]]>", "]]")
					g.feat["cdata"] = true
					if r.Chance(0.4) {
						// <![CDATA[]]>: the only zero-length CharData encoding/xml produces; both
						// trees keep an empty text node there
						t.text = ""
						g.feat["empty-cdata"] = true
					}
				} else if lastPlain {
					continue
				}
				lastPlain = !t.cdata
				n.kids = append(n.kids, t)
				g.feat["text"] = true
				if i > 0 || nk > 1 {
					g.feat["mixed"] = true
				}
			} else {
				lastPlain = false
				n.kids = append(n.kids, g.element(depth+1, scope2))
			}
		}
	}
	if len(n.kids) == 0 && r.Chance(0.07) {
		n.kids = append(n.kids, &gnode{cdata: true}) // an element whose only child is an empty text node
		g.feat["empty-cdata"] = true
		g.feat["cdata"] = true
		g.feat["text"] = true
	}
	if depth >= 5 {
		g.feat["deep"] = true
	}
	return n
}

func escText(s string) string {
	s = strings.ReplaceAll(s, "&", "&amp;")
	s = strings.ReplaceAll(s, "<", "&lt;")
	s = strings.ReplaceAll(s, ">", "&gt;")
	return s
}

func escAttr(s string) string {
	s = escText(s)
	s = strings.ReplaceAll(s, "\"", "&quot;")
	s = strings.ReplaceAll(s, "\n", "&#10;")
	s = strings.ReplaceAll(s, "\t", "&#9;")
	return s
}

func qname(p, l string) string {
	if p == "" {
		return l
	}
	return p + ":" + l
}

func (n *gnode) write(sb *strings.Builder, r *vh.Rng) {
	if !n.elem {
		if n.cdata {
			sb.WriteString("<![CDATA[" + n.text + "]]>")
		} else {
			sb.WriteString(escText(n.text))
		}
		return
	}
	sb.WriteString("<" + qname(n.prefix, n.local))
	for _, a := range n.attrs {
		fmt.Fprintf(sb, ` %s="%s"`, qname(a.prefix, a.local), escAttr(a.value))
	}
	if len(n.kids) == 0 && r.Chance(0.5) {
		sb.WriteString("/>")
		return
	}
	sb.WriteString(">")
	for _, k := range n.kids {
		k.write(sb, r)
	}
	sb.WriteString("</" + qname(n.prefix, n.local) + ">")
}

func (n *gnode) counts() (elems, attrs int) {
	if !n.elem {
		return 0, 0
	}
	elems, attrs = 1, len(n.attrs)
	for _, k := range n.kids {
		e, a := k.counts()
		elems += e
		attrs += a
	}
	return
}

// genDoc returns a serialised random document and its feature set.
func genDoc(r *vh.Rng) (string, *gnode, map[string]bool) {
	g := &docGen{r: r, maxDepth: r.Between(1, 7), budget: r.Between(3, 45), feat: map[string]bool{}}
	root := g.element(0, map[string]bool{})
	var sb strings.Builder
	switch r.Pick(4) {
	case 0:
		sb.WriteString(`<?xml version="1.0" encoding="UTF-8"?>`)
		g.feat["prolog"] = true
	case 1:
		sb.WriteString("<?xml version=\"1.0\"?>\n")
		g.feat["prolog"] = true
		g.feat["text-before-root"] = true
	}
	root.write(&sb, r)
	return sb.String(), root, g.feat
}

// ---- the two real trees -----------------------------------------------------------------------

// docCtx holds both parsed forms of one document and the correspondence between their nodes.
// A node's label is its DOM position: "/0/2/1" (child indices from the document node) and
// "/0/2/@a:k" for an attribute; labels order nodes in document order and never mention
// addresses or IDs.
type docCtx struct {
	text    string
	pre     *poolPrelude
	rootErr error
	xdoc    *xmlquery.Node
	idoc    *idr.Node
	xnodes  []*xmlquery.Node // non-attribute nodes in document order
	inodes  []*idr.Node      // the corresponding idr nodes
	paths   [][]int          // their DOM paths, root first
	xlabel  map[*xmlquery.Node]string
	ilabel  map[*idr.Node]string
	nattr   int
	allTxt  string
}

func pathLabel(p []int) string {
	var sb strings.Builder
	for _, i := range p {
		fmt.Fprintf(&sb, "/%d", i)
	}
	if len(p) == 0 {
		return "/"
	}
	return sb.String()
}

// normaliseRef brings xmlquery.Parse output into the XPath data model the IDR represents:
//   - the DeclarationNode (the <?xml?> prolog, or the one xmlquery synthesises when the document
//     has none; parse.go:76-82) is removed: the XML declaration is not a node in XPath;
//   - every CharDataNode becomes a TextNode: xmlquery v1.3.1 types ALL character data as
//     CharDataNode (parse.go:174), for which its navigator's Value() returns "" (query.go:182-195).
//
// Both are properties of the reference, not of the code under test; they are confirmed and
// counted in summary.extra.reference_quirks.
func normaliseRef(doc *xmlquery.Node) (decls, chardata int) {
	var walk func(n *xmlquery.Node)
	walk = func(n *xmlquery.Node) {
		for c := n.FirstChild; c != nil; {
			next := c.NextSibling
			if c.Type == xmlquery.DeclarationNode {
				xmlquery.RemoveFromTree(c)
				decls++
			} else {
				if c.Type == xmlquery.CharDataNode {
					c.Type = xmlquery.TextNode
					chardata++
				}
				walk(c)
			}
			c = next
		}
	}
	walk(doc)
	return
}

func parseBoth(text string, pre *poolPrelude) (*docCtx, error) {
	// earlier document of this process: fills the node pool (see pool.go)
	if err := pre.run(); err != nil {
		return nil, err
	}
	xdoc, err := xmlquery.Parse(bytes.NewReader(rawDoc(text)))
	if err != nil {
		return nil, fmt.Errorf("xmlquery.Parse: %v", err)
	}
	normaliseRef(xdoc)
	sr, err := idr.NewXMLStreamReader(bytes.NewReader(rawDoc(text)), ".")
	if err != nil {
		return nil, fmt.Errorf("idr.NewXMLStreamReader: %v", err)
	}
	n, err := sr.Read()
	if err != nil {
		return nil, fmt.Errorf("idr read: %v", err)
	}
	d := &docCtx{text: text, pre: pre, xdoc: xdoc, idoc: vh.Root(n), xlabel: map[*xmlquery.Node]string{}, ilabel: map[*idr.Node]string{}}
	if err := rootLinks(d.idoc); err != nil {
		// reported, and the comparisons go on: they see the same thing through the navigator
		d.rootErr = &shapeErr{msg: err.Error(), probe: probeUnpaired(xdoc, d.idoc)}
	}
	if err := d.pair(xdoc, d.idoc, nil); err != nil {
		return nil, &shapeErr{msg: err.Error(), probe: probeUnpaired(xdoc, d.idoc)}
	}
	d.allTxt = xdoc.InnerText()
	return d, nil
}

// shapeErr: the two trees of one document do not have the same shape.  probe is an xpath-level
// witness of it: a whole-document expression with different values on the two bindings.
type shapeErr struct {
	msg   string
	probe *probeResult
}

func (e *shapeErr) Error() string { return e.msg }

type probeResult struct {
	Expr   string `json:"expr"`
	IdrVal string `json:"idr_value"`
	RefVal string `json:"reference_value"`
}

var probes = []string{"count(//node())", "count(//text())", "count(//*)", "count(//@*)", "count(//*[not(node())])",
	"count(//*[text()])", "count(//text()[.=''])", "count(//*[count(node())=1])", "count(//node()[last()][self::text()])",
	"count(/following::node())", "count(/preceding::node())", "count(/following-sibling::node())", "count(/preceding-sibling::node())",
	"string(//text()[1])", "string(//*[last()])", "string(//@*)", "string-length(string(/))", "count(//*[contains(., '\u20ac')])", "string(/)", "string-length(/)", "count(//text()[normalize-space(.)=''])"}

func probeUnpaired(xdoc *xmlquery.Node, idoc *idr.Node) *probeResult {
	for _, e := range probes {
		var a, b string
		ea := guarded(func() { nav, _ := newFixNav(xdoc); a = scalarString(xpath.MustCompile(e).Evaluate(nav)) })
		eb := guarded(func() { b = scalarString(xpath.MustCompile(e).Evaluate(idr.VerifNavigator(idoc))) })
		if a+ea != b+eb {
			return &probeResult{Expr: e, IdrVal: b + eb, RefVal: a + ea}
		}
	}
	return nil
}

func idrAttrLabel(p []int, a *idr.Node) string {
	pfx := ""
	if idr.IsXML(a) {
		pfx = idr.XMLSpecificOf(a).NamespacePrefix
	}
	return pathLabel(p) + "/@" + qname(pfx, a.Data)
}

// pair walks both trees in parallel, checks that they have the same shape and records labels.
func (d *docCtx) pair(x *xmlquery.Node, i *idr.Node, p []int) error {
	lbl := pathLabel(p)
	okType := (x.Type == xmlquery.DocumentNode && i.Type == idr.DocumentNode) ||
		(x.Type == xmlquery.ElementNode && i.Type == idr.ElementNode) ||
		(x.Type == xmlquery.TextNode && i.Type == idr.TextNode)
	if !okType || x.Data != i.Data {
		return fmt.Errorf("trees differ at %s: xmlquery type=%d data=%q, idr type=%s data=%q", lbl, x.Type, x.Data, i.Type, i.Data)
	}
	d.xnodes = append(d.xnodes, x)
	d.inodes = append(d.inodes, i)
	d.paths = append(d.paths, append([]int{}, p...))
	d.xlabel[x] = lbl
	d.ilabel[i] = lbl
	ic := i.FirstChild
	for k := range x.Attr {
		a := x.Attr[k]
		if ic == nil || ic.Type != idr.AttributeNode {
			return fmt.Errorf("trees differ at %s: attribute %d missing in idr", lbl, k)
		}
		if ic.Data != a.Name.Local || ic.InnerText() != a.Value {
			return fmt.Errorf("trees differ at %s: attribute %d: xmlquery %v idr %q=%q", lbl, k, a, ic.Data, ic.InnerText())
		}
		d.ilabel[ic] = idrAttrLabel(p, ic)
		d.nattr++
		ic = ic.NextSibling
	}
	k := 0
	for xc := x.FirstChild; xc != nil; xc = xc.NextSibling {
		if ic == nil {
			return fmt.Errorf("trees differ at %s: idr has fewer children", lbl)
		}
		if err := d.pair(xc, ic, append(p, k)); err != nil {
			return err
		}
		k++
		ic = ic.NextSibling
	}
	if ic != nil {
		return fmt.Errorf("trees differ at %s: idr has more children (%s %q)", lbl, ic.Type, ic.Data)
	}
	return nil
}

// ---- Coq printers -------------------------------------------------------------------------------

func coqDNode(sb *strings.Builder, n *xmlquery.Node) {
	kind := "DElem"
	switch n.Type {
	case xmlquery.DocumentNode:
		kind = "DDoc"
	case xmlquery.TextNode:
		kind = "DText"
	}
	sb.WriteString("(D " + kind + " " + vh.CoqHex([]byte(n.Data)) + " " + vh.CoqHex([]byte(n.Prefix)) + " " + vh.CoqHex([]byte(n.NamespaceURI)) + " [")
	for k, a := range n.Attr {
		if k > 0 {
			sb.WriteString("; ")
		}
		sb.WriteString("mkAttr " + vh.CoqHex([]byte(a.Name.Space)) + " " + vh.CoqHex([]byte(a.Name.Local)) + " " +
			vh.CoqHex([]byte(uriOfPrefix(a.Name.Space))) + " " + vh.CoqHex([]byte(a.Value)))
	}
	sb.WriteString("] [")
	first := true
	for c := n.FirstChild; c != nil; c = c.NextSibling {
		if !first {
			sb.WriteString("; ")
		}
		first = false
		coqDNode(sb, c)
	}
	sb.WriteString("])")
}

func coqPath(p []int) string {
	items := make([]string, len(p))
	for i, v := range p {
		items[i] = fmt.Sprint(v)
	}
	return vh.CoqList(items)
}
