package main

import (
	"fmt"
	"strings"

	"github.com/antchfx/xmlquery"
	"github.com/jf-tech/omniparser/idr"

	"verifharness/vh"
)

// Sequences of documents in one process, node pooling ON (as in production: idr.CreateNode
// takes nodes from a sync.Pool that Release / RemoveAndReleaseTree refill).  Before the document
// under comparison is read, a poolPrelude runs on the same goroutine:
//   - an earlier document is streamed through idr.NewXMLStreamReader with a record-level target
//     and its records are released (so the pool holds nodes that had parents, siblings, children,
//     attributes - the last one released often an empty element with a preceding sibling);
//   - some free-standing nodes are created, linked and released.
//
// The tree of the next document is then built from recycled nodes.  Its document node never goes
// through AddChild, so nothing but the pool's reset discipline clears its links.  Everything
// the comparison does afterwards (tree shape, root links, navigator operations from the document
// node and the root element, the preceding/following axes) must be blind to the earlier
// document.
type poolPrelude struct {
	Doc     string `json:"doc"`     // the earlier document
	Target  string `json:"target"`  // record-level streaming target
	Release string `json:"release"` // "each": Release every record; "lazy": let the next Read release it; "query": also query each record first
	Scratch int    `json:"scratch"` // number of free-standing nodes created and released afterwards
}

func genPrelude(r *vh.Rng) *poolPrelude {
	p := &poolPrelude{Release: r.PickStr("each", "each", "lazy", "query"), Scratch: r.Pick(6)}
	if r.Chance(0.5) {
		// records under one root; the last record an empty element with preceding siblings
		var sb strings.Builder
		sb.WriteString(`<old xmlns:a="urn:ns:a">`)
		n := r.Between(2, 6)
		for i := 0; i < n; i++ {
			switch {
			case i == n-1 && r.Chance(0.7):
				sb.WriteString(r.PickStr("<rec/>", "<rec></rec>", `<rec k="1"/>`))
			case r.Chance(0.3):
				sb.WriteString("stale-text")
				fallthrough
			default:
				fmt.Fprintf(&sb, `<rec id="%d" a:k="old">old%d<sub>deep<leaf/></sub>tail</rec>`, i, i)
			}
		}
		sb.WriteString("</old>")
		p.Doc, p.Target = sb.String(), "/old/rec"
		return p
	}
	text, _, _ := genDoc(r)
	p.Doc, p.Target = text, r.PickStr("/*/*", "/*/*", "//*[not(*)]", "/*")
	return p
}

// run executes the prelude; problems of the earlier document itself (it may legitimately have no
// record) are not this property's business.
func (p *poolPrelude) run() (err error) {
	if p == nil {
		return nil
	}
	defer func() {
		if r := recover(); r != nil {
			err = fmt.Errorf("panic in idr while free-standing nodes were created, linked and released after an earlier document: %v", r)
		}
	}()
	func() {
		defer func() { _ = recover() }()
		sr, err := idr.NewXMLStreamReader(strings.NewReader(p.Doc), p.Target)
		if err != nil {
			return
		}
		for i := 0; i < 1000; i++ {
			n, err := sr.Read()
			if err != nil {
				break
			}
			if p.Release == "query" {
				_, _ = idr.MatchAll(n, "preceding-sibling::node() | .//text()")
			}
			if p.Release != "lazy" {
				sr.Release(n)
			}
		}
	}()
	if p.Scratch > 0 {
		top := idr.CreateNode(idr.ElementNode, "scratch")
		var last *idr.Node
		for i := 0; i < p.Scratch; i++ {
			last = idr.CreateNode(idr.TextNode, "stale")
			idr.AddChild(top, last)
		}
		if last != nil && p.Scratch%2 == 0 {
			idr.RemoveAndReleaseTree(last) // a node released while it had a previous sibling
		}
		idr.RemoveAndReleaseTree(top)
	}
	return nil
}

// rootLinks checks what the abstract tree cannot show: the root of the IDR tree is a root.
func rootLinks(doc *idr.Node) error {
	if doc.Parent != nil || doc.PrevSibling != nil || doc.NextSibling != nil {
		desc := func(n *idr.Node) string {
			if n == nil {
				return "nil"
			}
			return fmt.Sprintf("%s %q", n.Type, n.Data)
		}
		return fmt.Errorf("the document node of the IDR tree has Parent=%s PrevSibling=%s NextSibling=%s (all must be nil)",
			desc(doc.Parent), desc(doc.PrevSibling), desc(doc.NextSibling))
	}
	return nil
}

// fixed probes for every document: the document node and the root element seen through the
// sibling / preceding / following moves and axes
var rootProbeOps = []opRec{
	{Kind: "move", X: 0, Arg: "Next"}, {Kind: "obs", X: 0, Arg: "NodeType"}, {Kind: "move", X: 0, Arg: "Root"},
	{Kind: "move", X: 0, Arg: "Prev"}, {Kind: "obs", X: 0, Arg: "NodeType"}, {Kind: "move", X: 0, Arg: "Root"},
	{Kind: "move", X: 0, Arg: "First"}, {Kind: "move", X: 0, Arg: "Parent"}, {Kind: "obs", X: 0, Arg: "LocalName"},
	{Kind: "move", X: 0, Arg: "Root"}, {Kind: "move", X: 0, Arg: "Child"}, {Kind: "copy", X: 0, Y: 1},
	{Kind: "move", X: 1, Arg: "Prev"}, {Kind: "obs", X: 1, Arg: "LocalName"}, {Kind: "moveto", X: 1, Y: 0},
	{Kind: "move", X: 1, Arg: "Next"}, {Kind: "obs", X: 1, Arg: "LocalName"}, {Kind: "moveto", X: 1, Y: 0},
	{Kind: "move", X: 1, Arg: "First"}, {Kind: "obs", X: 1, Arg: "LocalName"},
	{Kind: "move", X: 0, Arg: "Parent"}, {Kind: "move", X: 0, Arg: "Parent"}, {Kind: "obs", X: 0, Arg: "NodeType"},
}

var rootProbeExprs = []string{
	"following::node()", "preceding::node()", "following-sibling::node()", "preceding-sibling::node()",
	"/following::*", "/preceding::*", "/following-sibling::node()", "/preceding-sibling::node()",
	"/*/following-sibling::node()", "/*/preceding-sibling::node()", "/*/following::node()", "/*/preceding::node()",
	"//*[last()]/following::node()", "/*/*[1]/preceding::node()", "/node()/preceding-sibling::node() | /node()/following-sibling::node()",
	"ancestor-or-self::node()/following-sibling::node()", "ancestor-or-self::node()/preceding-sibling::node()",
	"//node()[not(following::node())]/ancestor-or-self::node()/following::node()",
}

// bareNameProbes: for nodes with element children, every local name among the children as a
// bare-name expression from that node - what most schema xpaths look like.  A prefixed child
// (<ext:id>) must not answer to its bare local name ("id"); an un-prefixed child does, also
// under a default namespace.  Goes through idr.MatchAll AND idr.MatchSingle (evalExpr /
// apiConsistency), i.e. the string API itself, not only the navigator.
func bareNameProbes(d *docCtx, r *vh.Rng, max int) (starts []int, names []string) {
	var cands []int
	for k, n := range d.xnodes {
		for c := n.FirstChild; c != nil; c = c.NextSibling {
			if c.Type == xmlquery.ElementNode {
				cands = append(cands, k)
				break
			}
		}
	}
	r.Shuffle(len(cands), func(i, j int) { cands[i], cands[j] = cands[j], cands[i] })
	for _, k := range cands {
		seen := map[string]bool{}
		for c := d.xnodes[k].FirstChild; c != nil; c = c.NextSibling {
			if c.Type == xmlquery.ElementNode && !seen[c.Data] {
				seen[c.Data] = true
				starts = append(starts, k)
				names = append(names, c.Data)
			}
		}
		if len(starts) >= max {
			break
		}
	}
	return
}
