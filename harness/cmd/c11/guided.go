package main

import (
	"fmt"
	"strings"

	"github.com/antchfx/xmlquery"
)

// Document-guided expression generation: the location path is grown step by step along nodes
// that really exist from the chosen start node, so that most expressions select something.  The
// harness's own walk over the DOM is only a generator aid (it decides which names to write);
// it is never used as an oracle.

type nref struct {
	n    *xmlquery.Node
	attr int // -1: the node itself
}

func (d *docCtx) axisOf(x nref, axis string) []nref {
	var out []nref
	add := func(n *xmlquery.Node) { out = append(out, nref{n, -1}) }
	var desc func(n *xmlquery.Node)
	desc = func(n *xmlquery.Node) {
		for c := n.FirstChild; c != nil; c = c.NextSibling {
			add(c)
			desc(c)
		}
	}
	if x.attr >= 0 {
		switch axis {
		case "self":
			out = append(out, x)
		case "parent":
			add(x.n)
		case "ancestor", "ancestor-or-self":
			if axis == "ancestor-or-self" {
				out = append(out, x)
			}
			for p := x.n; p != nil; p = p.Parent {
				add(p)
			}
		}
		return out
	}
	switch axis {
	case "self":
		out = append(out, x)
	case "child":
		for c := x.n.FirstChild; c != nil; c = c.NextSibling {
			add(c)
		}
	case "descendant":
		desc(x.n)
	case "descendant-or-self":
		add(x.n)
		desc(x.n)
	case "parent":
		if x.n.Parent != nil {
			add(x.n.Parent)
		}
	case "ancestor", "ancestor-or-self":
		if axis == "ancestor-or-self" {
			add(x.n)
		}
		for p := x.n.Parent; p != nil; p = p.Parent {
			add(p)
		}
	case "following-sibling":
		for c := x.n.NextSibling; c != nil; c = c.NextSibling {
			add(c)
		}
	case "preceding-sibling":
		for c := x.n.PrevSibling; c != nil; c = c.PrevSibling {
			add(c)
		}
	case "following":
		for p := x.n; p != nil; p = p.Parent {
			for c := p.NextSibling; c != nil; c = c.NextSibling {
				add(c)
				desc(c)
			}
		}
	case "preceding":
		for p := x.n; p != nil; p = p.Parent {
			for c := p.PrevSibling; c != nil; c = c.PrevSibling {
				add(c)
				desc(c)
			}
		}
	case "attribute":
		for i := range x.n.Attr {
			out = append(out, nref{x.n, i})
		}
	}
	return out
}

func (x nref) isRoot() bool { return x.attr < 0 && x.n.Type == xmlquery.DocumentNode }

func (x nref) testFor(g *exprGen) string {
	r := g.r
	if x.attr >= 0 {
		if r.Chance(0.3) {
			return "*"
		}
		a := x.n.Attr[x.attr]
		return qname(a.Name.Space, a.Name.Local)
	}
	switch x.n.Type {
	case xmlquery.TextNode:
		if r.Chance(0.7) {
			return "text()"
		}
		return "node()"
	case xmlquery.ElementNode:
		switch c := r.Pick(10); {
		case c < 6:
			if x.n.Prefix != "" && r.Chance(0.2) {
				g.feat["bare-name-of-prefixed-element"] = true
				return x.n.Data // bare local name: selects only un-prefixed namesakes
			}
			return qname(x.n.Prefix, x.n.Data)
		case c < 9:
			return "*"
		}
	}
	return "node()"
}

func (x nref) matches(axis, test string) bool {
	if x.attr >= 0 {
		a := x.n.Attr[x.attr]
		return test == "*" || test == "node()" || test == qname(a.Name.Space, a.Name.Local)
	}
	switch test {
	case "node()":
		return true
	case "text()":
		// the engine's text() test filters by node type on the child axis only (build.go:44-46)
		return x.n.Type == xmlquery.TextNode || axis != "child"
	case "*":
		return x.n.Type == xmlquery.ElementNode || axis == "self" || axis == "parent"
	}
	return x.n.Type == xmlquery.ElementNode && test == qname(x.n.Prefix, x.n.Data)
}

func quotable(s string) (string, bool) {
	if len(s) > 12 {
		return "", false
	}
	if !strings.Contains(s, "'") {
		return "'" + s + "'", true
	}
	if !strings.Contains(s, "\"") {
		return "\"" + s + "\"", true
	}
	return "", false
}

// truePred writes a predicate that holds for x (as far as the generator can tell).
func (g *exprGen) truePred(x nref) (string, bool) {
	r := g.r
	if x.isRoot() {
		return "", false
	}
	if x.attr >= 0 {
		if q, ok := quotable(x.n.Attr[x.attr].Value); ok {
			g.feat["string-compare"] = true
			return r.PickStr(".=", "string(.)=") + q, true
		}
		return "", false
	}
	switch r.Pick(8) {
	case 6:
		g.feat["text-children"] = true
		n, t := 0, 0
		for c := x.n.FirstChild; c != nil; c = c.NextSibling {
			n++
			if c.Type == xmlquery.TextNode {
				t++
			}
		}
		if r.Chance(0.5) {
			return fmt.Sprintf("count(node())=%d", n), true
		}
		return fmt.Sprintf("count(text())=%d", t), true
	case 7:
		g.feat["text-children"] = true
		if x.n.Type == xmlquery.ElementNode {
			k := 0
			for c := x.n.FirstChild; c != nil; c = c.NextSibling {
				if c.Type == xmlquery.TextNode {
					k++
					if q, ok := quotable(c.Data); ok && r.Chance(0.5) {
						return fmt.Sprintf("text()[%d]=%s", k, q), true
					}
				}
			}
			if k == 0 {
				return "not(text())", true
			}
			return "text()", true
		}
	case 0:
		if len(x.n.Attr) > 0 {
			a := x.n.Attr[r.Pick(len(x.n.Attr))]
			if q, ok := quotable(a.Value); ok {
				g.feat["string-compare"] = true
				return "@" + qname(a.Name.Space, a.Name.Local) + "=" + q, true
			}
		}
	case 1:
		if len(x.n.Attr) > 0 {
			a := x.n.Attr[r.Pick(len(x.n.Attr))]
			return "@" + qname(a.Name.Space, a.Name.Local), true
		}
	case 2:
		if q, ok := quotable(x.n.InnerText()); ok {
			g.feat["string-compare"] = true
			return ".=" + q, true
		}
	case 3:
		if c := x.n.FirstChild; c != nil {
			for k := r.Pick(4); k > 0 && c.NextSibling != nil; k-- {
				c = c.NextSibling
			}
			if c.Type == xmlquery.ElementNode {
				return qname(c.Prefix, c.Data), true
			}
			if q, ok := quotable(c.Data); ok {
				g.feat["string-compare"] = true
				return "text()=" + q, true
			}
		}
	case 4:
		g.feat["fn:count"] = true
		n := 0
		for c := x.n.FirstChild; c != nil; c = c.NextSibling {
			if c.Type == xmlquery.ElementNode {
				n++
			}
		}
		return fmt.Sprintf("count(*)=%d", n), true
	default:
		if x.n.Type == xmlquery.ElementNode {
			g.feat["fn:name"] = true
			return "name()='" + qname(x.n.Prefix, x.n.Data) + "'", true
		}
	}
	return "", false
}

// guidedPath grows a location path from start along existing nodes.
func (g *exprGen) guidedPath(d *docCtx, start *xmlquery.Node) (string, bool) {
	r := g.r
	cur := []nref{{start, -1}}
	var sb strings.Builder
	nsteps := r.Between(1, 4)
	lead := r.Pick(4) // 0,1: relative; 2: "/" (MoveToRoot = the start node itself); 3: "//"
	ds := false
	switch lead {
	case 2:
		sb.WriteString("/")
		g.feat["absolute"] = true
	case 3:
		sb.WriteString("//")
		g.feat["abbrev-//"] = true
		ds = true
	}
	for i := 0; i < nsteps; i++ {
		if i > 0 {
			ds = r.Chance(0.2)
			if ds {
				sb.WriteString("//")
				g.feat["abbrev-//"] = true
			} else {
				sb.WriteString("/")
			}
		}
		var axis string
		var cand []nref
		for try := 0; try < 6; try++ {
			t := 0
			for _, w := range axisWeight {
				t += w
			}
			p := r.Pick(t)
			k := 0
			for p >= axisWeight[k] {
				p -= axisWeight[k]
				k++
			}
			axis = axes[k]
			eff := axis
			if ds && axis == "child" {
				eff = "descendant-or-self" // how the engine compiles "//" + child step
			} else if ds {
				// descendant-or-self::node()/axis::...
				var mid []nref
				for _, x := range cur {
					mid = append(mid, d.axisOf(x, "descendant-or-self")...)
				}
				cand = nil
				for _, x := range mid {
					cand = append(cand, d.axisOf(x, axis)...)
				}
				if len(cand) > 0 {
					break
				}
				continue
			}
			cand = nil
			for _, x := range cur {
				cand = append(cand, d.axisOf(x, eff)...)
			}
			if len(cand) > 0 {
				break
			}
		}
		if len(cand) == 0 {
			cand = cur
			axis = "self"
		}
		pick := cand[r.Pick(len(cand))]
		test := pick.testFor(g)
		var next []nref
		seen := map[nref]bool{}
		for _, x := range cand {
			if x.matches(axis, test) && !seen[x] {
				seen[x] = true
				next = append(next, x)
			}
		}
		if len(next) == 0 {
			next = []nref{pick}
		}
		g.feat["axis:"+axis] = true
		if strings.Contains(test, ":") {
			g.feat["prefixed-name-test"] = true
		}
		step := axis + "::" + test
		switch {
		case axis == "self" && test == "node()":
			step = "."
		case axis == "parent" && test == "node()":
			step = ".."
		case axis == "attribute" && r.Chance(0.7):
			step = "@" + test
		case axis == "child" && r.Chance(0.7):
			step = test
		}
		sb.WriteString(step)
		if step != "." && step != ".." && r.Chance(0.4) {
			c := ctxFlags{}
			for _, x := range next {
				c.mayRoot = c.mayRoot || x.isRoot()
				c.mayAttr = c.mayAttr || x.attr >= 0
			}
			switch {
			case pick.attr >= 0:
				c.kind = kAttr
			case pick.n.Type == xmlquery.TextNode:
				c.kind = kText
			}
			g.feat["predicate"] = true
			if p, ok := g.truePred(pick); ok && !c.mayRoot && r.Chance(0.6) {
				sb.WriteString("[" + p + "]")
			} else {
				sb.WriteString("[" + g.pred(c, 1) + "]")
			}
		}
		cur = next
	}
	mayRoot := false
	for _, x := range cur {
		mayRoot = mayRoot || x.isRoot()
	}
	return sb.String(), mayRoot
}
