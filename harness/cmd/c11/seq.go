package main

import (
	"fmt"
	"strings"

	"verifharness/vh"
)

// Part (c): the STRING API of idr/query.go (MatchAll / MatchSingle taking the expression text,
// compiled through a process-wide cache) used the way a transform uses it: many expressions,
// one after the other, in one process.  A sequence is built around families of expressions that
// differ only by text a careless cache key would collapse - whitespace INSIDE a quoted literal
// ('A  B' / 'A B' / tab / newline / leading and trailing blanks), letter case of literals and of
// names, blanks outside literals - over a document whose attribute values, text and element
// names differ in exactly those ways.  Every query must return ITS nodes: the same as the
// reference DOM, as MatchAll with DisableXPathCache, and as MatchSingle's verdict.
//
// The root element name carries the case number, so no expression of one case can be served
// from (or poison) the cache entries of another: a replay of the case alone reproduces it.

type seqCase struct {
	Kind  string       `json:"kind"` // "seq"
	Doc   string       `json:"doc"`
	Start []int        `json:"start"`
	Exprs []string     `json:"exprs"`
	Pool  *poolPrelude `json:"earlier_document,omitempty"`
}

var wsBases = [][2]string{{"A", "B"}, {"x", "y"}, {"Ab", "c"}, {"é", "日本"}, {"1", "2"}}

func wsVariants(b [2]string) []string {
	a, c := b[0], b[1]
	return []string{a + " " + c, a + "  " + c, a + "   " + c, a + "\t" + c, a + "\n" + c, a + " \t" + c,
		" " + a + " " + c, a + " " + c + " ", strings.ToLower(a) + " " + strings.ToLower(c),
		strings.ToUpper(a) + " " + strings.ToUpper(c), a + c, a + " " + c}
}

var itemNames = []string{"item", "Item", "ITEM", "iTem", "item2"}

func genSeqCase(r *vh.Rng, id int) *seqCase {
	base := wsBases[r.Pick(len(wsBases))]
	vars := wsVariants(base)
	root := fmt.Sprintf("r%d", id)
	pick := func() string { return vars[r.Pick(len(vars))] }
	// the values present in the document: a subset, so that some literals select nothing
	nvals := r.Between(3, 7)
	var present []string
	for i := 0; i < nvals; i++ {
		present = append(present, pick())
	}
	var sb strings.Builder
	sb.WriteString("<" + root + ` xmlns:a="urn:ns:a">`)
	nitems := r.Between(3, 9)
	var used []string
	for i := 0; i < nitems; i++ {
		name := itemNames[r.Pick(3)]
		if r.Chance(0.2) {
			name = itemNames[r.Pick(len(itemNames))]
		}
		used = append(used, name)
		sb.WriteString("<" + name)
		if r.Chance(0.85) {
			sb.WriteString(` name="` + escAttr(present[r.Pick(len(present))]) + `"`)
		}
		if r.Chance(0.3) {
			sb.WriteString(` a:name="` + escAttr(present[r.Pick(len(present))]) + `"`)
		}
		if r.Chance(0.3) {
			sb.WriteString(` Name="` + escAttr(present[r.Pick(len(present))]) + `"`)
		}
		sb.WriteString(">")
		switch r.Pick(4) {
		case 0:
		case 1:
			sb.WriteString("<v>" + escText(present[r.Pick(len(present))]) + "</v>")
		default:
			sb.WriteString(escText(present[r.Pick(len(present))]))
		}
		sb.WriteString("</" + name + ">")
	}
	sb.WriteString("</" + root + ">")

	q := func(s string) string {
		if r.Chance(0.5) {
			return "'" + s + "'"
		}
		return "\"" + s + "\""
	}
	// one family = one template instantiated with several colliding literals / names
	family := func() []string {
		n := r.Between(2, 4)
		var out []string
		t := r.Pick(12)
		nm := used[r.Pick(len(used))]
		lit := func() string { // mostly values that occur, in all their near-identical spellings
			if r.Chance(0.7) {
				return present[r.Pick(len(present))]
			}
			return pick()
		}
		for i := 0; i < n; i++ {
			l := q(lit())
			var e string
			switch t {
			case 0:
				e = "/" + root + "/" + nm + "[@name=" + l + "]"
			case 1:
				e = "//" + nm + "[@name=" + l + "]/@name"
			case 2:
				e = "/" + root + "/*[.=" + l + "]"
			case 3:
				e = "//*[contains(@name, " + l + ")]"
			case 4:
				e = "/" + root + "/" + itemNames[r.Pick(len(itemNames))] // names differing by case
			case 5:
				e = "//" + nm + "[@name=" + l + "]"
			case 6:
				e = "/" + root + "/" + nm + "[text()=" + l + "]"
			case 7:
				e = "//@name[.=" + l + "]"
			case 8:
				e = "//" + nm + "[@name=" + l + " or v=" + q(lit()) + "]"
			case 9:
				e = "//*[@" + r.PickStr("name", "Name", "a:name") + "=" + l + "]" // attribute names differing by case / prefix
			case 10:
				e = "/" + root + "/" + nm + "[starts-with(@name, " + l + ")]/text()"
			default:
				e = "//v[.=" + l + "]/.."
			}
			// blanks OUTSIDE literals may legitimately be collapsed; the answer must not change
			if r.Chance(0.25) {
				e = strings.Replace(e, "[", " [ ", 1)
				e = strings.Replace(e, "]", " ]", 1)
				e = strings.Replace(e, "=", " = ", 1)
			}
			out = append(out, e)
		}
		return out
	}
	var exprs []string
	for len(exprs) < 10 {
		exprs = append(exprs, family()...)
	}
	// interleave: a later query of a family must not be answered with an earlier one's entry
	// even after other expressions went through the cache
	if r.Chance(0.5) {
		r.Shuffle(len(exprs), func(i, j int) { exprs[i], exprs[j] = exprs[j], exprs[i] })
	}
	return &seqCase{Kind: "seq", Doc: sb.String(), Start: []int{}, Exprs: exprs}
}

// runSeq evaluates the expressions in order, in this process, and applies the whole oracle of
// evalExpr (reference DOM, DisableXPathCache, MatchSingle) to each.
func (rn *runner) runSeq(d *docCtx, c *seqCase, verbose bool) (nonEmpty int) {
	for i, e := range c.Exprs {
		ec := &exprCase{Kind: "expr", Doc: c.Doc, Expr: e, Start: c.Start, Pool: c.Pool}
		out := evalExpr(d, ec)
		if verbose {
			fmt.Printf("%2d %-50q idr=%v ref=%v %s\n", i, e, out.IdrHits, out.RefHits, out.bad)
		}
		if out.n > 0 {
			nonEmpty++
		}
		if out.bad != "" {
			fc := *c
			fc.Exprs = c.Exprs[:i+1]
			rn.sum.Fail("in a sequence of string-API queries: "+out.bad, &fc, map[string]interface{}{"index": i, "expr": e, "outcome": out})
			return
		}
	}
	return
}
