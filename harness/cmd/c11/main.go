// c11: correspondence + oracle harness for property C11 (XPath over the node tree agrees with a
// reference XML DOM).
//
// (a) operation level: random documents x random navigator operation sequences, executed on the
//
//	real idr navigator (idr.VerifNavigator over the tree idr.NewXMLStreamReader builds) and on
//	the real xmlquery navigator (xmlquery.CreateXPathNavigator over xmlquery.Parse of the same
//	text); every answer is compared on the Go side (the property oracle) and a sample of the
//	runs is replayed through the Coq model of both navigators (Model/Nav.v check_case).
//
// (b) end to end: grammar-generated xpath expressions evaluated by idr.MatchAll and by the same
//
//	engine over xmlquery, from the root and from inner nodes; same nodes (by document-order
//	label), same order, same string values.
package main

import (
	"encoding/json"
	"flag"
	"fmt"
	"os"
	"path/filepath"
	"sort"
	"strings"
	"sync/atomic"
	"time"

	"github.com/antchfx/xmlquery"
	"github.com/antchfx/xpath"
	"github.com/jf-tech/omniparser/idr"

	"verifharness/vh"
)

const rule = "the document has at least one attribute and the operation sequence runs an operation on an " +
	"attribute position or makes a successful sibling move (MoveToNext/Previous/First); for expressions: the " +
	"document has at least one attribute and the expression uses the attribute axis, a sibling/following/preceding axis or a positional predicate; " +
	"for query sequences: at least one query of the sequence selects a node"

var progress int64 // bumped once per document / sequence / replay (watchdog)

type runner struct {
	o   *vh.Opts
	sum *vh.Summary
	cw  *vh.CaseWriter
}

func (rn *runner) runOpsCase(d *docCtx, c *opsCase, verbose bool) *opsOutcome {
	k := d.nodeAt(c.Start)
	if k < 0 {
		rn.sum.Fail("replay: start node not in document", c, nil)
		return nil
	}
	out := runOps(d, k, c.Ops, c.Repaired)
	if verbose {
		for i := range out.xres {
			fmt.Printf("%3d %-28s ref=%+v idr=%+v\n", i, c.Ops[i].coq(), out.xres[i], out.ires[i])
		}
	}
	if out.outOfScope {
		fmt.Println("sequence leaves the scope of the reference (MoveToRoot on an attribute position, Q2): not evaluated")
		return out
	}
	if out.hang {
		rn.sum.Fail(out.failWhat, c, nil)
		return out
	}
	if out.failAt >= 0 {
		fc := *c
		fc.Ops = shrinkOps(d, k, c.Ops[:out.failAt+1], out.failWhat, c.Repaired)
		o2 := runOps(d, k, fc.Ops, c.Repaired)
		last := len(fc.Ops) - 1
		rn.sum.Fail(out.failWhat, &fc, map[string]interface{}{
			"index": last, "op": fc.Ops[last], "shrunk_from": out.failAt + 1,
			"reference_xmlquery": o2.xres[last], "idr": o2.ires[last]})
	}
	return out
}

func (rn *runner) finish() {
	rn.cw.Flush()
	rn.sum.CaseFiles = rn.cw.Files
	rn.sum.Write(rn.o)
}

func (rn *runner) runExprCase(d *docCtx, c *exprCase, verbose bool) *exprOutcome {
	if c.API {
		if k := d.nodeAt(c.Start); k >= 0 {
			(&wrapLog{}).apiCase(rn, d, k, c.Expr, c.Pool, verbose)
		}
		return &exprOutcome{}
	}
	out := evalExpr(d, c)
	if verbose {
		b, _ := json.MarshalIndent(out, "", " ")
		fmt.Printf("expr %s from %s\n%s\n", c.Expr, pathLabel(c.Start), b)
	}
	if out.bad != "" {
		rn.sum.Fail(out.bad, c, out)
	}
	return out
}

// failDoc reports a document on which the two trees differ, with the xpath-level witness if the
// probes found one.
func (rn *runner) failDoc(text string, pre *poolPrelude, err error) {
	c := map[string]interface{}{"kind": "doc", "doc": text}
	if pre != nil {
		c["earlier_document"] = pre
	}
	if se, ok := err.(*shapeErr); ok && se.probe != nil {
		rn.sum.Fail("expression values differ (the node tree and the reference DOM of this document differ in shape or text)",
			c, map[string]interface{}{"expr": se.probe.Expr, "idr_value": se.probe.IdrVal, "reference_value": se.probe.RefVal, "shape": se.msg})
		return
	}
	rn.sum.Fail("document is not read alike by both parsers", c, err.Error())
}

// replayFile re-runs one stored case (a bin/check replay file, or a bare corpus case).
func (rn *runner) replayFile(p string, verbose bool) {
	b, err := os.ReadFile(p)
	if err != nil {
		rn.sum.Fail("replay file unreadable", p, err.Error())
		return
	}
	var wrap struct {
		Case json.RawMessage `json:"case"`
	}
	raw := json.RawMessage(b)
	if json.Unmarshal(b, &wrap) == nil && len(wrap.Case) > 0 && string(wrap.Case) != "null" {
		raw = wrap.Case
	}
	var kind struct {
		Kind string       `json:"kind"`
		Doc  string       `json:"doc"`
		Pool *poolPrelude `json:"earlier_document"`
	}
	if err := json.Unmarshal(raw, &kind); err != nil {
		rn.sum.Fail("replay file malformed", p, err.Error())
		return
	}
	vh.Current(rn.o, raw)
	atomic.AddInt64(&progress, 1)
	d, err := parseBoth(kind.Doc, kind.Pool)
	if err != nil {
		rn.failDoc(kind.Doc, kind.Pool, err)
		if verbose {
			fmt.Println(err)
		}
		return
	}
	if d.rootErr != nil {
		rn.failDoc(kind.Doc, kind.Pool, d.rootErr)
	}
	rn.sum.Evaluations++
	switch kind.Kind {
	case "ops":
		var c opsCase
		_ = json.Unmarshal(raw, &c)
		rn.runOpsCase(d, &c, verbose)
	case "expr":
		var c exprCase
		_ = json.Unmarshal(raw, &c)
		rn.runExprCase(d, &c, verbose)
	case "seq":
		var c seqCase
		_ = json.Unmarshal(raw, &c)
		rn.runSeq(d, &c, verbose)
	case "doc":
		// a whole document (reported when the trees differ, or when the process died while this
		// document was being worked on): the fixed battery of root probes
		rn.runOpsCase(d, &opsCase{Kind: "ops", Doc: kind.Doc, Start: []int{}, Ops: rootProbeOps, Pool: kind.Pool}, verbose)
		for _, ex := range rootProbeExprs {
			if hung >= 3 {
				break
			}
			rn.runExprCase(d, &exprCase{Kind: "expr", Doc: kind.Doc, Expr: ex, Start: []int{}, Pool: kind.Pool}, verbose)
		}
	}
}

// referenceQuirks demonstrates, on the real libraries, the places where xmlquery v1.3.1 leaves
// the XPath data model (they are why normaliseRef exists and why Model/Nav.v states ref_ok).
func referenceQuirks() map[string]string {
	q := map[string]string{}
	conf := func(b bool) string {
		if b {
			return "confirmed"
		}
		return "NOT reproduced (reference library changed?)"
	}
	text := `<r k="1">t<x k="2">u</x></r>`
	sel := func(nav xpath.NodeNavigator, e string) []string {
		var out []string
		defer func() {
			if p := recover(); p != nil {
				out = append(out, fmt.Sprint("panic: ", p))
			}
		}()
		it := xpath.MustCompile(e).Select(nav)
		for it.MoveNext() {
			out = append(out, it.Current().LocalName()+"="+it.Current().Value())
		}
		return out
	}
	raw, _ := xmlquery.Parse(strings.NewReader(text))
	q["Q0a raw xmlquery.Parse: every text node is a CharDataNode whose navigator Value() is \"\" (//text() on "+text+")"] =
		conf(strings.Join(sel(xmlquery.CreateXPathNavigator(raw), "//text()"), ",") == "t=,u=")
	q["Q0b raw xmlquery.Parse: a DeclarationNode is synthesised as first child of the document (count(//node()) is one more)"] =
		conf(raw.FirstChild != nil && raw.FirstChild.Type == xmlquery.DeclarationNode)
	d, err := parseBoth(text, nil)
	if err != nil {
		q["setup"] = err.Error()
		return q
	}
	xn, in := xmlquery.CreateXPathNavigator(d.xdoc), idr.VerifNavigator(d.idoc)
	q["Q1 Value() of the document node: xmlquery \"\", idr = concatenated text (XPath string-value)"] =
		conf(xn.Value() == "" && in.Value() == "tu")
	a := strings.Join(sel(xmlquery.CreateXPathNavigator(d.xdoc), "//@k[/r]"), ",")
	b := strings.Join(sel(idr.VerifNavigator(d.idoc), "//@k[/r]"), ",")
	q["Q2 MoveToRoot() from an attribute keeps xmlquery's attribute index: //@k[/r] selects nothing on xmlquery, both attributes on idr"] =
		conf(a == "" && b == "k=1,k=2")
	return q
}

func main() {
	only := flag.String("only", "", "run only part (a) \"ops\" or part (b) \"expr\" (experiments; bin/check runs both)")
	o := vh.ParseOpts()
	idr.VerifSetNodeCaching(true) // production setting: nodes come from and return to the pool
	// watchdog: a tree with a cycle (e.g. a recycled node that kept its Parent) makes the library,
	// or the walk to the root, spin; the marker written by vh.Current names the document
	go func() {
		last := int64(-1)
		for {
			time.Sleep(45 * time.Second)
			now := atomic.LoadInt64(&progress)
			if now == last {
				fmt.Fprintln(os.Stderr, "c11: no progress for 45 s (hang inside the library or a cyclic tree); see current.json")
				os.Exit(3)
			}
			last = now
		}
	}()
	sum := vh.NewSummary("C11", o, rule)
	cw := vh.NewCaseWriter(o, "c11", "Base.Tree Model.Nav", "c11case", "check_case")
	cw.PerFile = 25
	rn := &runner{o: o, sum: sum, cw: cw}
	defer rn.finish()

	if o.Replay != "" {
		rn.replayFile(o.Replay, true)
		return
	}
	if o.Corpus != "" {
		fs, _ := filepath.Glob(filepath.Join(o.Corpus, "*.json"))
		sort.Strings(fs)
		for _, f := range fs {
			rn.replayFile(f, false)
			sum.Hist("corpus")
		}
	}
	sum.Extra["reference_quirks"] = referenceQuirks()
	sum.Extra["reference_normalisation"] = "xmlquery.Parse output: DeclarationNode removed, CharDataNode retyped TextNode (harness/cmd/c11/gen.go normaliseRef)"

	r := vh.NewRng(o.Seed)
	// ---- (c) sequences of string-API queries through the expression cache ----
	nseq := o.Count(120, 4000)
	for si := 0; si < nseq && *only == "" && hung < 3; si++ {
		c := genSeqCase(r, si)
		if si%5 != 0 {
			c.Pool = genPrelude(r)
		}
		vh.Current(o, c)
		atomic.AddInt64(&progress, 1)
		d, err := parseBoth(c.Doc, c.Pool)
		if err != nil {
			rn.failDoc(c.Doc, c.Pool, err)
			continue
		}
		if d.rootErr != nil {
			rn.failDoc(c.Doc, c.Pool, d.rootErr)
		}
		hit := rn.runSeq(d, c, false)
		sum.Count("seq|"+c.Doc+"|"+strings.Join(c.Exprs, "|"), hit > 0)
		sum.Hist("seq:sequences")
		sum.Hist(fmt.Sprintf("seq:queries-selecting-something=%d..", hit/4*4))
		if si == 0 {
			sum.Sample(c)
		}
		if len(sum.Failures) >= 20 {
			break
		}
	}

	ndocs := o.Count(320, 12000)
	const seqPerDoc, coqRunsPerDoc, exprPerDoc = 10, 3, 22
	exprFeat := map[string]bool{}
	for di := 0; di < ndocs; di++ {
		text, groot, feat := genDoc(r)
		if di%5 == 3 {
			// in a declared single-byte encoding, with bytes 0x80..0xFF in text and attribute values
			text, groot, feat = genEncodedDoc(r)
		}
		// four documents out of five are read after an earlier document of this process was
		// streamed and released (node pool filled with its nodes)
		var pre *poolPrelude
		if di%5 != 0 {
			pre = genPrelude(r)
			sum.Hist("doc:after-an-earlier-document(pool)")
		}
		vh.Current(o, map[string]interface{}{"kind": "doc", "doc": text, "earlier_document": pre})
		atomic.AddInt64(&progress, 1)
		d, err := parseBoth(text, pre)
		if err != nil {
			rn.failDoc(text, pre, err)
			continue
		}
		if d.rootErr != nil {
			rn.failDoc(text, pre, d.rootErr)
		}
		ge, ga := groot.counts()
		ne := 0
		for _, n := range d.xnodes {
			if n.Type == xmlquery.ElementNode {
				ne++
			}
		}
		if ge != ne || ga != d.nattr {
			sum.Fail("parsed trees do not have the generated number of elements/attributes", map[string]string{"kind": "doc", "doc": text},
				fmt.Sprintf("generated %d/%d parsed %d/%d", ge, ga, ne, d.nattr))
			continue
		}
		for f := range feat {
			sum.Hist("doc:" + f)
		}
		sum.Hist(fmt.Sprintf("doc:nodes<=%d", bucket(len(d.xnodes)+d.nattr)))
		hasAttr := d.nattr > 0

		// ---- (a) operation level ----
		var runs []string
		for s := 0; s < seqPerDoc && *only != "expr" && hung < 3; s++ {
			k := 0
			if r.Chance(0.6) {
				k = r.Pick(len(d.xnodes))
			}
			fx := s%3 == 2 // every third sequence runs against the repaired reference (may do Q2)
			if s == 0 {
				k = 0 // the first sequence starts at the document node with the fixed root probes
			}
			var prefix []opRec
			if s == 0 {
				prefix = rootProbeOps
			}
			ops := genOps(r, d, k, fx, prefix)
			c := &opsCase{Kind: "ops", Doc: text, Start: d.paths[k], Ops: ops, Repaired: fx, Pool: pre}
			if fx {
				sum.Hist("ops:against-repaired-reference")
			}
			out := rn.runOpsCase(d, c, false)
			sum.Count("ops|"+opsCanon(c), hasAttr && out.touched)
			sum.Hist("ops:sequences")
			if k == 0 {
				sum.Hist("ops:start=document")
			} else {
				sum.Hist("ops:start=inner")
			}
			if out.quirkQ1 > 0 {
				sum.Hist("ops:with-Value-on-document-node(Q1)")
			}
			if s < coqRunsPerDoc && out.failAt < 0 && !out.outOfScope {
				runs = append(runs, coqRun(d.paths[k], ops, out, fx))
			}
			if di < 2 && s == 0 {
				sum.Sample(map[string]interface{}{"kind": "ops", "doc": text, "start": pathLabel(d.paths[k]), "ops": len(ops),
					"first_ops": ops[:min(8, len(ops))], "idr_answers": out.ires[:min(8, len(out.ires))]})
			}
		}
		if di%3 != 2 || o.Tier == "thorough" { // quick tier: two documents out of three are replayed through the Coq model
			var sb strings.Builder
			sb.WriteString("(NavCase (mkCase ")
			coqDNode(&sb, d.xdoc)
			sb.WriteString("\n  " + vh.CoqTree(d.idoc) + "\n  [")
			sb.WriteString(strings.Join(runs, ";\n  "))
			sb.WriteString("]))")
			cw.Add(sb.String(), map[string]interface{}{"kind": "ops-model", "doc": text, "earlier_document": pre, "runs": len(runs)})
		}

		// ---- (b) end to end ----
		// fixed probes: the sibling / preceding / following axes from the document node and from
		// the root element (a recycled document node must not remember earlier neighbours)
		wl := &wrapLog{}
		rootElem := 0
		for k, n := range d.xnodes {
			if n.Type == xmlquery.ElementNode {
				rootElem = k
				break
			}
		}
		for _, ex := range rootProbeExprs {
			if *only == "ops" || hung >= 3 {
				break
			}
			for _, k := range []int{0, rootElem} {
				c := &exprCase{Kind: "expr", Doc: text, Expr: ex, Start: d.paths[k], Pool: pre}
				rn.runExprCase(d, c, false)
				sum.Count("expr|"+text+"|"+ex+"|"+pathLabel(c.Start), hasAttr && exprTouches(ex))
				sum.Hist("expr:root-probes")
				if di%3 != 2 && wl.n < 6 {
					wl.apiCase(rn, d, k, ex, pre, false)
				}
			}
		}
		ps, pn := bareNameProbes(d, r, 12)
		for i := range ps {
			if *only == "ops" || hung >= 3 {
				break
			}
			c := &exprCase{Kind: "expr", Doc: text, Expr: pn[i], Start: d.paths[ps[i]], Pool: pre}
			out := rn.runExprCase(d, c, false)
			sum.Count("expr|"+text+"|"+pn[i]+"|"+pathLabel(c.Start), hasAttr)
			sum.Hist("expr:bare-child-name")
			if di%3 != 2 && wl.n < 12 {
				wl.apiCase(rn, d, ps[i], pn[i], pre, false)
			}
			if out.n == 0 {
				sum.Hist("expr:bare-child-name-selects-nothing(children-all-prefixed)")
			}
		}
		g := newExprGen(r, d)
		for e := 0; e < exprPerDoc && *only != "ops" && hung < 3; e++ {
			scalar := r.Chance(0.2)
			k, kind := 0, kRoot
			if len(d.xnodes) > 1 && r.Chance(0.5) {
				k = 1 + r.Pick(len(d.xnodes)-1)
				kind = kElem
				if d.xnodes[k].Type == xmlquery.TextNode {
					kind = kText
				}
			}
			var ex string
			starts := []int{k}
			if r.Chance(0.6) {
				// grown along existing nodes from this start (evaluated from this start only)
				var mayRoot bool
				ex, mayRoot = g.guidedPath(d, d.xnodes[k])
				sum.Hist("expr:document-guided")
				if scalar {
					switch c := r.Pick(4); {
					case c == 0:
						ex = "count(" + ex + ")"
					case c == 1:
						ex = "boolean(" + ex + ")"
					case c == 2 && !mayRoot:
						ex = "string(" + ex + ")"
					case c == 3 && !mayRoot && !strings.Contains(ex, "["):
						ex = "concat(" + ex + ", '|', name(" + ex + "))"
					default:
						scalar = false
					}
				}
			} else {
				if scalar {
					ex = g.scalarExpr(kind)
				} else {
					ex = g.nodeSetExpr(kind)
				}
				if r.Chance(0.3) { // the same expression from a second, unrelated start
					starts = append(starts, r.Pick(len(d.xnodes)))
				}
			}
			for _, k := range starts {
				c := &exprCase{Kind: "expr", Doc: text, Expr: ex, Start: d.paths[k], Scalar: scalar, Pool: pre}
				out := rn.runExprCase(d, c, false)
				sum.Count("expr|"+text+"|"+ex+"|"+pathLabel(c.Start), hasAttr && exprTouches(ex))
				sum.Hist("expr:evaluations")
				// boolean / number / string valued expressions included (N11)
				if (di%3 != 2 || o.Tier == "thorough") && wl.n < 30 {
					wl.apiCase(rn, d, k, ex, pre, false)
				}
				switch {
				case out.RefErr != "":
					sum.Hist("expr:engine-rejects-or-panics-on-both")
					if os.Getenv("C11_DEBUG") != "" {
						fmt.Println("REJECT", ex, "|", out.RefErr, "|", out.IdrErr)
					}
				case scalar:
					sum.Hist("expr:scalar")
				case out.n == 0:
					sum.Hist("expr:selects-0")
					if os.Getenv("C11_DEBUG") != "" {
						fmt.Println("ZERO", pathLabel(c.Start), ex)
					}
				case out.n == 1:
					sum.Hist("expr:selects-1")
				default:
					sum.Hist("expr:selects-many")
				}
				if di >= 2 && len(sum.Samples) < 4 && out.n > 1 {
					sum.Sample(map[string]interface{}{"kind": "expr", "doc": text, "expr": ex, "start": pathLabel(c.Start), "idr": out.IdrHits, "idr_value": out.IdrVal})
				}
			}
		}
		if di%3 != 2 || o.Tier == "thorough" {
			ss, se := scalarProbes(d, r)
			for i := range ss {
				wl.apiCase(rn, d, ss[i], se[i], pre, false)
				sum.Count("api|"+text+"|"+se[i]+"|"+pathLabel(d.paths[ss[i]]), hasAttr && exprTouches(se[i]))
				sum.Hist("expr:non-node-set-through-string-API")
			}
		}
		if wl.n > 0 {
			wl.apiCase(rn, d, 0, ".", pre, false)
			cw.Add(wl.term(), map[string]interface{}{"kind": "string-api-wrappers", "doc": text, "earlier_document": pre, "queries": wl.n})
		}
		for f := range g.feat {
			exprFeat[f] = true
			sum.Hist("expr-uses:" + f)
		}
		if len(sum.Failures) >= 20 || hung >= 3 {
			break
		}
	}
}

func bucket(n int) int {
	for _, b := range []int{5, 10, 20, 40, 80} {
		if n <= b {
			return b
		}
	}
	return 1000
}

func min(a, b int) int {
	if a < b {
		return a
	}
	return b
}
