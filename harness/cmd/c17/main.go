// c17: oracle + correspondence harness for property C17 (memory retained while streaming does
// not grow with the number of records delivered).  Every format is driven through the public
// Transform API; at every delivery the size of the tree reachable through parent links from
// RawRecord().Raw().(*idr.Node) is measured.
package main

import (
	"encoding/json"
	"fmt"
	"io"
	"os"
	"path/filepath"
	"sort"
	"strings"
	"time"

	"github.com/jf-tech/omniparser"
	"github.com/jf-tech/omniparser/errs"
	"github.com/jf-tech/omniparser/idr"
	"github.com/jf-tech/omniparser/transformctx"

	"verifharness/cmd/c04/sx"
	"verifharness/vh"
)

// Case describes the input compactly: Open, then Count records where record i is
// Recs[i % len(Recs)], joined by Joiner, then Close.
type Case struct {
	Format string     `json:"format"`
	Schema string     `json:"schema"`
	Open   string     `json:"open"`
	Recs   []string   `json:"recs"`
	Joiner string     `json:"joiner"`
	Count  int        `json:"count"`
	Close  string     `json:"close"`
	Target *sx.Target `json:"target,omitempty"` // xml/json: the FINAL_OUTPUT xpath as a term
	Pass   []bool     `json:"pass,omitempty"`   // per Recs entry: expected to pass the target filter
}

func (c *Case) input() string {
	var sb strings.Builder
	sb.WriteString(c.Open)
	for i := 0; i < c.Count; i++ {
		if i > 0 {
			sb.WriteString(c.Joiner)
		}
		sb.WriteString(c.Recs[i%len(c.Recs)])
	}
	sb.WriteString(c.Close)
	return sb.String()
}

type delivery struct {
	Size    int // nodes reachable from the record through parent links
	RecSize int // nodes of the record itself
	Dump    string
}

type result struct {
	Deliveries []delivery
	Failed     int
	Fin        string
}

func run(c *Case, wantDumps bool) (res result) {
	done := make(chan result, 1)
	go func() {
		var out result
		defer func() {
			if p := recover(); p != nil {
				out.Fin = fmt.Sprint("panic: ", p)
			}
			done <- out
		}()
		s, err := omniparser.NewSchema("c17-"+c.Format, strings.NewReader(c.Schema))
		if err != nil {
			out.Fin = "schema: " + err.Error()
			return
		}
		t, err := s.NewTransform("in", strings.NewReader(c.input()), &transformctx.Ctx{})
		if err != nil {
			out.Fin = "newtransform: " + err.Error()
			return
		}
		for {
			_, err := t.Read()
			if err == io.EOF {
				out.Fin = "EOF"
				return
			}
			if err != nil {
				if errs.IsErrTransformFailed(err) {
					out.Failed++
					continue
				}
				out.Fin = "error: " + err.Error()
				return
			}
			raw, err := t.RawRecord()
			if err != nil {
				out.Fin = "rawrecord: " + err.Error()
				return
			}
			n, ok := raw.Raw().(*idr.Node)
			if !ok || n == nil {
				out.Fin = "rawrecord: not an *idr.Node"
				return
			}
			d := delivery{Size: vh.TreeSize(vh.Root(n)), RecSize: vh.TreeSize(n)}
			if wantDumps {
				d.Dump = vh.CoqTree(n)
			}
			out.Deliveries = append(out.Deliveries, d)
		}
	}()
	select {
	case res = <-done:
	case <-time.After(600 * time.Second):
		res.Fin = "hang"
	}
	return res
}

// ---- fixtures -------------------------------------------------------------------------------------

const finalOutput = `"transform_declarations": { "FINAL_OUTPUT": { %s "object": {
  "a": { "xpath": "a" }, "b": { "xpath": "b" }, "c": { "xpath": "c" } } } }`

func hdr(format string) string {
	return `"parser_settings": { "version": "omni.2.1", "file_format_type": "` + format + `" }`
}

func pad(s string, n int) string {
	if len(s) > n {
		return s[:n]
	}
	return s + strings.Repeat(" ", n-len(s))
}

type fixture struct {
	format     string
	schema     func(filter bool) string
	open, clos string
	rec        func(a, b, c string) string
	joiner     string
	sepJoiner  string // "" = the format has no insignificant separator to offer
	target     func(filter bool) *sx.Target
}

func strTarget(steps []sx.Step, filter bool) *sx.Target {
	t := &sx.Target{Steps: steps}
	if filter {
		t.Filters = []*sx.PExp{{Op: "not", P: &sx.PExp{Op: "childeq", NT: &sx.NT{Local: "a"}, V: "skip"}}}
	}
	return t
}

func fixtures() []fixture {
	fo := func(x string) string { return fmt.Sprintf(finalOutput, x) }
	flt := func(filter bool) string {
		if filter {
			return `"xpath": ".[a != 'skip']",`
		}
		return ""
	}
	fltFixed := func(filter bool) string { // fixed-length values keep their padding
		if filter {
			return `"xpath": ".[not(starts-with(a, 'skip'))]",`
		}
		return ""
	}
	xmlT := func(filter bool) *sx.Target {
		return strTarget([]sx.Step{{NT: sx.NT{Local: "r"}}, {NT: sx.NT{Local: "n"}}}, filter)
	}
	jsonT := func(filter bool) *sx.Target {
		return strTarget([]sx.Step{{NT: sx.NT{Any: true}}}, filter)
	}
	return []fixture{
		{format: "csv", schema: func(f bool) string {
			return `{` + hdr("csv") + `, "file_declaration": { "delimiter": ",", "data_row_index": 1,
  "columns": [ {"name":"a"}, {"name":"b"}, {"name":"c"} ] }, ` + fo(flt(f)) + `}`
		}, rec: func(a, b, c string) string { return a + "," + b + "," + c + "\n" }, sepJoiner: "\n"},
		{format: "csv2", schema: func(f bool) string {
			return `{` + hdr("csv2") + `, "file_declaration": { "delimiter": "|",
  "records": [ { "name": "H", "header": "^H", "min": 0, "max": 1 },
    { "name": "R", "is_target": true, "header": "^R", "columns": [ {"name":"a","index":2}, {"name":"b","index":3}, {"name":"c","index":4} ] } ] }, ` + fo(flt(f)) + `}`
		}, open: "H|head\n", rec: func(a, b, c string) string { return "R|" + a + "|" + b + "|" + c + "\n" }, sepJoiner: "\n"},
		{format: "edi", schema: func(f bool) string {
			return `{` + hdr("edi") + `, "file_declaration": { "segment_delimiter": "~", "element_delimiter": "*",
  "ignore_crlf": true,
  "segment_declarations": [ { "name": "HDR", "min": 0 },
    { "name": "DAT", "is_target": true, "min": 0, "max": -1,
      "elements": [ {"name":"a","index":1}, {"name":"b","index":2}, {"name":"c","index":3} ] },
    { "name": "TRL", "min": 0 } ] }, ` + fo(flt(f)) + `}`
		}, open: "HDR*1~", clos: "TRL*9~", rec: func(a, b, c string) string { return "DAT*" + a + "*" + b + "*" + c + "~" }, sepJoiner: "\n"},
		{format: "fixed-length", schema: func(f bool) string {
			return `{` + hdr("fixed-length") + `, "file_declaration": { "envelopes": [ { "columns": [
  {"name":"a","start_pos":1,"length":6}, {"name":"b","start_pos":7,"length":5}, {"name":"c","start_pos":12,"length":6} ] } ] }, ` + fo(fltFixed(f)) + `}`
		}, rec: func(a, b, c string) string { return pad(a, 6) + pad(b, 5) + pad(c, 6) + "\n" }, sepJoiner: "\n"},
		{format: "fixedlength2", schema: func(f bool) string {
			return `{` + hdr("fixedlength2") + `, "file_declaration": { "envelopes": [
  { "name": "H", "header": "^H", "min": 0, "max": 1 },
  { "name": "R", "is_target": true, "header": "^R", "columns": [
  {"name":"a","start_pos":2,"length":6}, {"name":"b","start_pos":8,"length":5}, {"name":"c","start_pos":13,"length":6} ] } ] }, ` + fo(fltFixed(f)) + `}`
		}, open: "Hhead\n", rec: func(a, b, c string) string { return "R" + pad(a, 6) + pad(b, 5) + pad(c, 6) + "\n" }, sepJoiner: ""},
		{format: "json", schema: func(f bool) string {
			return `{` + hdr("json") + `, ` + fo(`"xpath": `+jsonQuote(jsonT(f).XPath())+`,`) + `}`
		}, open: "[", clos: "]", joiner: ",", sepJoiner: " ,\n  ",
			rec:    func(a, b, c string) string { return fmt.Sprintf(`{"a":%q,"b":%s,"c":%q}`, a, b, c) },
			target: jsonT},
		{format: "xml", schema: func(f bool) string {
			return `{` + hdr("xml") + `, ` + fo(`"xpath": `+jsonQuote(xmlT(f).XPath())+`,`) + `}`
		}, open: "<r>", clos: "</r>", sepJoiner: "", // character data between records: F7, corpus only
			rec:    func(a, b, c string) string { return "<n><a>" + a + "</a><b>" + b + "</b><c>" + c + "</c></n>" },
			target: xmlT},
	}
}

func jsonQuote(s string) string {
	b, _ := json.Marshal(s)
	return string(b)
}

func mkCase(fx fixture, filter, sep bool, count int, r *vh.Rng) *Case {
	c := &Case{Format: fx.format, Schema: fx.schema(filter), Open: fx.open, Close: fx.clos, Joiner: fx.joiner, Count: count}
	if sep {
		c.Joiner = fx.sepJoiner
		if fx.format != "json" {
			c.Joiner = fx.joiner + fx.sepJoiner
		}
	}
	if fx.target != nil {
		c.Target = fx.target(filter)
	}
	k := r.Between(2, 5)
	for i := 0; i < k; i++ {
		a := fmt.Sprintf("v%d", r.Pick(9))
		pass := true
		if filter && (i == 1 || r.Chance(0.3)) {
			a, pass = "skip", false
		}
		c.Recs = append(c.Recs, fx.rec(a, fmt.Sprint(r.Between(0, 9999)), r.PickStr("abc", "x", "zz9", "w")))
		c.Pass = append(c.Pass, pass)
	}
	return c
}

// ---- running one case ------------------------------------------------------------------------------

const coqCap = 3000    // records per Coq case of a record-at-a-time reader (the Go oracle sees all of them)
const coqStreamCap = 150 // records per Coq case of the XML/JSON stream readers: the model is rerun on a shorter input

func runCase(c *Case, sum *vh.Summary, cw *vh.CaseWriter, verbose bool) (nontrivial bool) {
	small := c.Count <= coqCap
	res := run(c, c.Target != nil && c.Count <= coqStreamCap)
	if verbose {
		fmt.Printf("format=%s count=%d recs=%q joiner=%q open=%q close=%q\n", c.Format, c.Count, c.Recs, c.Joiner, c.Open, c.Close)
		fmt.Printf("implementation: %d deliveries, %d per-record failures, end=%s\n", len(res.Deliveries), res.Failed, res.Fin)
	}
	if res.Fin != "EOF" {
		sum.Fail("the transform did not reach EOF: "+res.Fin, c, nil)
		if verbose {
			fmt.Println("ORACLE FAILS: transform ended with", res.Fin)
		}
		return false
	}
	want := 0
	for i := 0; i < c.Count; i++ {
		if len(c.Pass) == 0 || c.Pass[i%len(c.Pass)] {
			want++
		}
	}
	if len(res.Deliveries) != want {
		sum.Fail(fmt.Sprintf("expected %d deliveries, got %d", want, len(res.Deliveries)), c, nil)
		return false
	}
	// ---- the property oracle: constant after the first few records ----
	base, first, last, maxv, at := 0, -1, -1, 0, -1
	for k, d := range res.Deliveries {
		if k < 3 && d.Size > base {
			base = d.Size
		}
		if k == 0 {
			first = d.Size
		}
		last = d.Size
		if d.Size > maxv {
			maxv, at = d.Size, k
		}
	}
	if verbose {
		var head []int
		for k := 0; k < len(res.Deliveries) && k < 8; k++ {
			head = append(head, res.Deliveries[k].Size)
		}
		fmt.Printf("reachable tree size at the first deliveries: %v ... at the last: %d (max %d at delivery %d)\n", head, last, maxv, at)
	}
	if maxv > base {
		sum.Fail("the tree reachable from a delivered record grows with the number of records delivered",
			c, map[string]interface{}{"size_at_first_delivery": first, "size_at_last_delivery": last, "max": maxv, "max_at_delivery": at, "deliveries": len(res.Deliveries)})
		if verbose {
			fmt.Println("ORACLE FAILS: reachable tree grows:", first, "->", last)
		}
	} else if verbose {
		fmt.Println("oracle holds: reachable tree size is constant")
	}
	// ---- Coq case ----
	nt := len(res.Deliveries) >= 10
	if c.Target == nil && !small {
		return nt
	}
	if c.Target == nil {
		standalone := c.Format == "csv"
		above := 0
		recSize := 0
		if len(res.Deliveries) > 0 {
			recSize = res.Deliveries[0].RecSize
			above = res.Deliveries[0].Size - recSize
		}
		var recs, sizes []string
		for i := 0; i < c.Count; i++ {
			recs = append(recs, "("+vh.CoqNat(recSize)+", "+vh.CoqBool(c.Pass[i%len(c.Pass)])+")")
		}
		for _, d := range res.Deliveries {
			sizes = append(sizes, vh.CoqNat(d.Size))
		}
		cw.Add(fmt.Sprintf("C17Flat (mkFCase %s %s %s %s)", vh.CoqBool(standalone), vh.CoqNat(above), vh.CoqList(recs), vh.CoqList(sizes)), c)
		return len(res.Deliveries) >= 10
	}
	if c.Count > coqStreamCap {
		// model vs implementation on the same input shape with fewer records
		c2 := *c
		c2.Count = coqStreamCap
		c = &c2
		res = run(c, true)
		if res.Fin != "EOF" {
			return nt
		}
	}
	var ds, rel []string
	for _, d := range res.Deliveries {
		ds = append(ds, "("+d.Dump+", "+vh.CoqNat(d.Size)+")")
		rel = append(rel, "true") // the ingester releases the previous record before the next Read
	}
	xp := c.Target.XPath()
	text := c.input()
	if c.Format == "xml" {
		toks, ok := sx.XMLTokens(text)
		doc, ok2 := sx.XMLFromTokens(toks)
		if ok && ok2 {
			cw.Add(fmt.Sprintf("C17Stream (XCase (mkXCase %s %s %s %s %s %s ObsEOF))", sx.XDocCoq(doc), sx.XToksCoq(toks), c.Target.Coq(),
				vh.CoqHex([]byte(xp)), vh.CoqList(rel), vh.CoqList(ds)), c)
		}
	} else {
		toks, ok := sx.JSONTokens(text)
		doc, ok2 := sx.JSONFromTokens(toks)
		if ok && ok2 {
			var sb strings.Builder
			doc.Coq(&sb)
			cw.Add(fmt.Sprintf("C17Stream (JCase (mkJCase (%s) %s %s %s %s %s ObsEOF))", sb.String(), sx.JToksCoq(toks), c.Target.Coq(),
				vh.CoqHex([]byte(xp)), vh.CoqList(rel), vh.CoqList(ds)), c)
		}
	}
	return nt
}

type corpusFile struct {
	Case   Case   `json:"case"`
	Expect string `json:"expect"`
	Note   string `json:"note"`
}

func main() {
	o := vh.ParseOpts()
	r := vh.NewRng(o.Seed)
	sum := vh.NewSummary("C17", o,
		"inputs that repeat a target record (10^3 quick / 2*10^5 thorough) under fixed ancestors, for each of the seven formats, with and without insignificant separators and with targets that fail the FINAL_OUTPUT filter, run through the public Transform API; the tree reachable through parent links from RawRecord().Raw().(*idr.Node) is measured at every delivery; non-trivial = at least 10 deliveries; distinct by (format, schema, record set, joiner, count)")
	cw := vh.NewCaseWriter(o, "C17", "Base.Tree Model.Stream", "c17case", "check_case17")
	cw.PerFile = 3

	if o.Replay != "" {
		var rf corpusFile
		b, err := os.ReadFile(o.Replay)
		if err != nil || json.Unmarshal(b, &rf) != nil {
			fmt.Println("cannot read replay file", o.Replay, err)
			os.Exit(2)
		}
		nt := runCase(&rf.Case, sum, cw, true)
		fmt.Println("case key:", vh.KeyOf(&rf.Case))
		sum.Count(o.Replay, nt)
		cw.Flush()
		sum.CaseFiles = cw.Files
		sum.Write(o)
		return
	}
	if o.Corpus != "" {
		files, _ := filepath.Glob(filepath.Join(o.Corpus, "*.json"))
		sort.Strings(files)
		for _, f := range files {
			var cf corpusFile
			b, err := os.ReadFile(f)
			if err != nil || json.Unmarshal(b, &cf) != nil {
				sum.Fail("unreadable corpus file "+filepath.Base(f), nil, fmt.Sprint(err))
				continue
			}
			nt := runCase(&cf.Case, sum, cw, false)
			canon, _ := json.Marshal(cf.Case)
			sum.Count(string(canon), nt)
			sum.Hist("corpus")
			fmt.Printf("corpus %s key=%s\n", filepath.Base(f), vh.KeyOf(&cf.Case))
		}
	}
	count := o.Count(1000, 200000)
	for _, fx := range fixtures() {
		for _, filter := range []bool{false, true} {
			for _, sep := range []bool{false, true} {
				if sep && fx.sepJoiner == "" {
					continue
				}
				n := count
				if o.Tier == "thorough" && (filter || sep) {
					n = count / 4
				}
				c := mkCase(fx, filter, sep, n, r)
				nt := runCase(c, sum, cw, false)
				canon, _ := json.Marshal(c)
				sum.Count(string(canon), nt)
				sum.Hist("format:" + fx.format)
				sum.Hist(fmt.Sprintf("filter=%v", filter))
				sum.Hist(fmt.Sprintf("separators=%v", sep))
				sum.Hist(fmt.Sprintf("records:%d", n))
				sum.Sample(map[string]interface{}{"format": c.Format, "recs": c.Recs, "joiner": c.Joiner, "count": c.Count})
			}
		}
	}
	// a few smaller, differently shaped runs per format (record counts around buffer sizes)
	for _, fx := range fixtures() {
		for i := 0; i < 3; i++ {
			c := mkCase(fx, r.Chance(0.5), r.Chance(0.5) && fx.sepJoiner != "", r.Between(20, 400), r)
			nt := runCase(c, sum, cw, false)
			canon, _ := json.Marshal(c)
			sum.Count(string(canon), nt)
			sum.Hist("format:" + fx.format)
			sum.Hist("records:20-400")
		}
	}
	cw.Flush()
	sum.CaseFiles = cw.Files
	sum.Write(o)
}
