// c17: oracle + correspondence harness for property C17 (memory retained while streaming does
// not grow with the number of records delivered).  Every format is driven through the public
// Transform API with the logging FileFormat wrapper of vh installed (public extension points), so
// that the node the format reader returned is known also when its transform failed.  After
// every Read that made the reader return a node - successful or failed with a continuable
// ErrTransformFailed - what is reachable from that node is measured twice: the tree under the
// root found through Parent links, and the closure over all five links (Parent, FirstChild,
// LastChild, PrevSibling, NextSibling).
package main

import (
	"encoding/json"
	"fmt"
	"io"
	"os"
	"path/filepath"
	"runtime"
	"sort"
	"strconv"
	"strings"
	"time"

	"github.com/jf-tech/go-corelib/caches"
	"github.com/jf-tech/omniparser"
	"github.com/jf-tech/omniparser/errs"
	v21funcs "github.com/jf-tech/omniparser/extensions/omniv21/customfuncs"
	"github.com/jf-tech/omniparser/idr"
	"github.com/jf-tech/omniparser/transformctx"

	"verifharness/cmd/c04/sx"
	"verifharness/vh"
)

// Case describes the input compactly: Open, then Count records joined by Joiner, then Close.
// Record i is Recs[k] with k = Prefix[i] while i < len(Prefix), then Order cyclically (default
// order: 0,1,..,len(Recs)-1).  With Indexed, "#I#" inside a record is replaced by i.
type Case struct {
	Format  string     `json:"format"`
	Schema  string     `json:"schema"`
	Open    string     `json:"open"`
	Recs    []string   `json:"recs"`
	Joiner  string     `json:"joiner"`
	Count   int        `json:"count"`
	Close   string     `json:"close"`
	Target  *sx.Target `json:"target,omitempty"` // xml/json: the FINAL_OUTPUT xpath as a term
	Pass    []bool     `json:"pass,omitempty"`   // per Recs entry: expected to pass the target filter
	TFail   []bool     `json:"tfail,omitempty"`  // per Recs entry: its transform fails (continuable)
	Prefix  []int      `json:"prefix,omitempty"`
	Order   []int      `json:"order,omitempty"`
	Indexed bool       `json:"indexed,omitempty"`
	Kind    string     `json:"kind,omitempty"` // scenario name (for the histogram)
	DynKeys      []string `json:"dyn_keys,omitempty"`      // xpath queries per record, in order; "!" = computed (xpath_dynamic)
	StaticXPaths []string `json:"static_xpaths,omitempty"` // xpaths compiled once (reader creation)
	WarmUp  int        `json:"warm_up,omitempty"`  // heap run: sampling starts after this many records (a bounded cache must be full)
	JSCache bool       `json:"js_cache,omitempty"` // heap run: also look at the entry count of customfuncs.NodeToJSONCache
	Heap    bool       `json:"heap,omitempty"` // live-heap run: no logging wrapper, lazily generated input
	RunAt   int        `json:"run_at,omitempty"`  // records RunAt .. RunAt+RunLen-1 are Recs[1] (rejected by the filter):
	RunLen  int        `json:"run_len,omitempty"` // one long unbroken run of rejections inside ONE Read of the caller
}

// lazyInput produces the input of a case piece by piece, so that a long input is never held in
// memory as a whole.
type lazyInput struct {
	c   *Case
	i   int // next record; -1 before Open, Count after the last record, Count+1 at the end
	buf []byte
}

func (l *lazyInput) Read(p []byte) (int, error) {
	for len(l.buf) == 0 {
		switch {
		case l.i == -1:
			l.buf = []byte(l.c.Open)
		case l.i < l.c.Count:
			rec := l.c.Recs[l.c.recIndex(l.i)]
			if l.c.Indexed {
				rec = strings.ReplaceAll(rec, "#I#", fmt.Sprint(l.i))
			}
			if l.i > 0 {
				rec = l.c.Joiner + rec
			}
			l.buf = []byte(rec)
		case l.i == l.c.Count:
			l.buf = []byte(l.c.Close)
		default:
			return 0, io.EOF
		}
		l.i++
	}
	n := copy(p, l.buf)
	l.buf = l.buf[n:]
	return n, nil
}

func (c *Case) recIndex(i int) int {
	if c.RunLen > 0 && i >= c.RunAt && i < c.RunAt+c.RunLen {
		return 1
	}
	if i < len(c.Prefix) {
		return c.Prefix[i]
	}
	if len(c.Order) == 0 {
		return i % len(c.Recs)
	}
	return c.Order[(i-len(c.Prefix))%len(c.Order)]
}

func (c *Case) passes(i int) bool {
	k := c.recIndex(i)
	return k >= len(c.Pass) || c.Pass[k]
}

func (c *Case) tfails(i int) bool {
	k := c.recIndex(i)
	return k < len(c.TFail) && c.TFail[k]
}

func (c *Case) input() string {
	var sb strings.Builder
	sb.WriteString(c.Open)
	for i := 0; i < c.Count; i++ {
		if i > 0 {
			sb.WriteString(c.Joiner)
		}
		rec := c.Recs[c.recIndex(i)]
		if c.Indexed {
			rec = strings.ReplaceAll(rec, "#I#", fmt.Sprint(i))
		}
		sb.WriteString(rec)
	}
	sb.WriteString(c.Close)
	return sb.String()
}

// measurement is taken right after a Transform.Read during which the reader returned a node.
type measurement struct {
	Size    int  // nodes of the tree under the root reached through Parent links
	Reach   int  // nodes reachable through all five links
	RecSize int  // nodes of the record itself
	OK      bool // the transform of this record succeeded
	Dump    string
}

type result struct {
	Ms     []measurement
	OKs    int
	Failed int
	Fin    string
}

// reach counts the nodes reachable from n through Parent, FirstChild, LastChild, PrevSibling and
// NextSibling.
func reach(n *idr.Node) int {
	seen := map[*idr.Node]bool{n: true}
	todo := []*idr.Node{n}
	for len(todo) > 0 {
		x := todo[len(todo)-1]
		todo = todo[:len(todo)-1]
		for _, y := range []*idr.Node{x.Parent, x.FirstChild, x.LastChild, x.PrevSibling, x.NextSibling} {
			if y != nil && !seen[y] {
				seen[y] = true
				todo = append(todo, y)
			}
		}
	}
	return len(seen)
}

func run(c *Case, wantDumps bool) (res result) {
	done := make(chan result, 1)
	go func() {
		var out result
		defer func() {
			if p := recover(); p != nil {
				out.Fin = fmt.Sprint("panic: ", p)
			}
			done <- out
		}()
		ls, err := vh.NewLoggedSchema("c17-"+c.Format, []byte(c.Schema), nil)
		if err != nil {
			out.Fin = "schema: " + err.Error()
			return
		}
		t, log, err := ls.NewTransform("in", strings.NewReader(c.input()))
		if err != nil {
			out.Fin = "newtransform: " + err.Error()
			return
		}
		seen := 0
		for {
			_, rerr := t.Read()
			// the node(s) the reader returned during this Read (normally one)
			var node *idr.Node
			for ; seen < len(log.Reader); seen++ {
				if ev := log.Reader[seen]; !ev.Release && ev.Node != nil && ev.Err == nil {
					node = ev.Node
				}
			}
			if rerr == io.EOF {
				out.Fin = "EOF"
				return
			}
			ok := rerr == nil
			if rerr != nil && !errs.IsErrTransformFailed(rerr) {
				out.Fin = "error: " + rerr.Error()
				return
			}
			if ok {
				out.OKs++
				raw, err := t.RawRecord()
				if err != nil {
					out.Fin = "rawrecord: " + err.Error()
					return
				}
				if n, isNode := raw.Raw().(*idr.Node); !isNode || n != node {
					out.Fin = "rawrecord: not the node the reader returned"
					return
				}
			} else {
				out.Failed++
			}
			if node == nil {
				continue // a failure that did not come with a record (not generated here)
			}
			m := measurement{Size: vh.TreeSize(vh.Root(node)), Reach: reach(node), RecSize: vh.TreeSize(node), OK: ok}
			if wantDumps {
				m.Dump = vh.CoqTree(node)
			}
			out.Ms = append(out.Ms, m)
		}
	}()
	select {
	case res = <-done:
	case <-time.After(600 * time.Second):
		res.Fin = "hang"
	}
	return res
}

// ---- scenarios ------------------------------------------------------------------------------------

func hdr(format string) string {
	return `"parser_settings": { "version": "omni.2.1", "file_format_type": "` + format + `" }`
}

// FINAL_OUTPUT: b is int-typed, so a record with a non-numeric b fails its transform with a
// continuable error; x (if given) is extra leading text such as the xpath filter.
func finalOutput(x string) string { return finalOutputP(x, "") }

// finalOutputP: the fields live below prefix (group targets: "R/", "DAT/").
func finalOutputP(x, prefix string) string {
	return `"transform_declarations": { "FINAL_OUTPUT": { ` + x + ` "object": {
  "a": { "xpath": "` + prefix + `a" }, "b": { "xpath": "` + prefix + `b", "type": "int" }, "c": { "xpath": "` + prefix + `c" } } } }`
}

func pad(s string, n int) string {
	if len(s) > n {
		return s[:n]
	}
	return s + strings.Repeat(" ", n-len(s))
}

func minInt(a, b int) int {
	if a < b {
		return a
	}
	return b
}

func jsonQuote(s string) string {
	b, _ := json.Marshal(s)
	return string(b)
}

type flatFixture struct {
	format     string
	variant    string // "" = the plain single-record target
	schema     func(filter bool) string
	open, clos string
	rec        func(a, b, c string) string
	sep        string // an insignificant separator the format offers between records ("" = none)
}

func flatFixtures() []flatFixture {
	flt := func(f bool) string {
		if f {
			return `"xpath": ".[a != 'skip']",`
		}
		return ""
	}
	fltFixed := func(f bool) string { // fixed-length values keep their padding
		if f {
			return `"xpath": ".[not(starts-with(a, 'skip'))]",`
		}
		return ""
	}
	return []flatFixture{
		{format: "csv", schema: func(f bool) string {
			return `{` + hdr("csv") + `, "file_declaration": { "delimiter": ",", "data_row_index": 1,
  "columns": [ {"name":"a"}, {"name":"b"}, {"name":"c"} ] }, ` + finalOutput(flt(f)) + `}`
		}, rec: func(a, b, c string) string { return a + "," + b + "," + c + "\n" }, sep: "\n"},
		{format: "csv2", schema: func(f bool) string {
			return `{` + hdr("csv2") + `, "file_declaration": { "delimiter": "|",
  "records": [ { "name": "H", "header": "^H", "min": 0, "max": 1 },
    { "name": "R", "is_target": true, "header": "^R", "columns": [ {"name":"a","index":2}, {"name":"b","index":3}, {"name":"c","index":4} ] } ] }, ` + finalOutput(flt(f)) + `}`
		}, open: "H|head\n", rec: func(a, b, c string) string { return "R|" + a + "|" + b + "|" + c + "\n" }, sep: "\n"},
		{format: "edi", schema: func(f bool) string {
			return `{` + hdr("edi") + `, "file_declaration": { "segment_delimiter": "~", "element_delimiter": "*",
  "ignore_crlf": true,
  "segment_declarations": [ { "name": "HDR", "min": 0 },
    { "name": "DAT", "is_target": true, "min": 0, "max": -1,
      "elements": [ {"name":"a","index":1}, {"name":"b","index":2}, {"name":"c","index":3} ] },
    { "name": "TRL", "min": 0 } ] }, ` + finalOutput(flt(f)) + `}`
		}, open: "HDR*1~", clos: "TRL*9~", rec: func(a, b, c string) string { return "DAT*" + a + "*" + b + "*" + c + "~" }, sep: "\n"},
		{format: "fixed-length", schema: func(f bool) string {
			return `{` + hdr("fixed-length") + `, "file_declaration": { "envelopes": [ { "columns": [
  {"name":"a","start_pos":1,"length":6}, {"name":"b","start_pos":7,"length":5}, {"name":"c","start_pos":12,"length":6} ] } ] }, ` + finalOutput(fltFixed(f)) + `}`
		}, rec: func(a, b, c string) string { return pad(a, 6) + pad(b, 5) + pad(c, 6) + "\n" }, sep: "\n"},
		{format: "fixedlength2", schema: func(f bool) string {
			return `{` + hdr("fixedlength2") + `, "file_declaration": { "envelopes": [
  { "name": "H", "header": "^H", "min": 0, "max": 1 },
  { "name": "R", "is_target": true, "header": "^R", "columns": [
  {"name":"a","start_pos":2,"length":6}, {"name":"b","start_pos":8,"length":5}, {"name":"c","start_pos":13,"length":6} ] } ] }, ` + finalOutput(fltFixed(f)) + `}`
		}, open: "Hhead\n", rec: func(a, b, c string) string { return "R" + pad(a, 6) + pad(b, 5) + pad(c, 6) + "\n" }},
		// ---- targets that have child records / are groups (a rejected instance is a whole subtree) ----
		{format: "edi", variant: "group-target", schema: func(f bool) string {
			x := ""
			if f {
				x = `"xpath": ".[DAT/a != 'skip']",`
			}
			return `{` + hdr("edi") + `, "file_declaration": { "segment_delimiter": "~", "element_delimiter": "*",
  "ignore_crlf": true,
  "segment_declarations": [ { "name": "HDR", "min": 0 },
    { "name": "LP", "type": "segment_group", "is_target": true, "min": 0, "max": -1, "child_segments": [
      { "name": "DAT", "elements": [ {"name":"a","index":1}, {"name":"b","index":2}, {"name":"c","index":3} ] },
      { "name": "SUB", "min": 0, "max": -1, "elements": [ {"name":"d","index":1} ] } ] },
    { "name": "TRL", "min": 0 } ] }, ` + finalOutputP(x, "DAT/") + `}`
		}, open: "HDR*1~", clos: "TRL*9~", rec: func(a, b, c string) string { return "DAT*" + a + "*" + b + "*" + c + "~SUB*1~SUB*2~" }, sep: "\n"},
		{format: "csv2", variant: "child-records", schema: func(f bool) string {
			return `{` + hdr("csv2") + `, "file_declaration": { "delimiter": "|",
  "records": [ { "name": "H", "header": "^H", "min": 0, "max": 1 },
    { "name": "R", "is_target": true, "header": "^R", "columns": [ {"name":"a","index":2}, {"name":"b","index":3}, {"name":"c","index":4} ],
      "child_records": [ { "name": "C", "header": "^C", "min": 0, "max": -1, "columns": [ {"name":"d","index":2} ] } ] } ] }, ` + finalOutput(flt(f)) + `}`
		}, open: "H|head\n", rec: func(a, b, c string) string { return "R|" + a + "|" + b + "|" + c + "\nC|1\nC|2\n" }, sep: "\n"},
		{format: "csv2", variant: "group-target", schema: func(f bool) string {
			x := ""
			if f {
				x = `"xpath": ".[R/a != 'skip']",`
			}
			return `{` + hdr("csv2") + `, "file_declaration": { "delimiter": "|",
  "records": [ { "name": "G", "type": "record_group", "is_target": true, "min": 0, "max": -1, "child_records": [
    { "name": "R", "header": "^R", "columns": [ {"name":"a","index":2}, {"name":"b","index":3}, {"name":"c","index":4} ] },
    { "name": "C", "header": "^C", "min": 0, "max": -1, "columns": [ {"name":"d","index":2} ] } ] } ] }, ` + finalOutputP(x, "R/") + `}`
		}, rec: func(a, b, c string) string { return "R|" + a + "|" + b + "|" + c + "\nC|1\n" }},
		{format: "csv2", variant: "rows-based", schema: func(f bool) string {
			return `{` + hdr("csv2") + `, "file_declaration": { "delimiter": "|",
  "records": [ { "name": "R", "is_target": true, "min": 0, "max": -1, "columns": [ {"name":"a","index":1}, {"name":"b","index":2}, {"name":"c","index":3} ] } ] }, ` + finalOutput(flt(f)) + `}`
		}, rec: func(a, b, c string) string { return a + "|" + b + "|" + c + "\n" }},
		{format: "csv2", variant: "header-footer", schema: func(f bool) string {
			return `{` + hdr("csv2") + `, "file_declaration": { "delimiter": "|",
  "records": [ { "name": "R", "is_target": true, "header": "^B", "footer": "^E", "min": 0, "max": -1,
      "columns": [ {"name":"a","index":2,"line_pattern":"^B"}, {"name":"b","index":3,"line_pattern":"^B"}, {"name":"c","index":2,"line_pattern":"^E"} ] } ] }, ` + finalOutput(flt(f)) + `}`
		}, rec: func(a, b, c string) string { return "B|" + a + "|" + b + "\nM|x\nE|" + c + "\n" }},
		{format: "fixedlength2", variant: "child-envelopes", schema: func(f bool) string {
			return `{` + hdr("fixedlength2") + `, "file_declaration": { "envelopes": [
  { "name": "H", "header": "^H", "min": 0, "max": 1 },
  { "name": "R", "is_target": true, "header": "^R", "columns": [
  {"name":"a","start_pos":2,"length":6}, {"name":"b","start_pos":8,"length":5}, {"name":"c","start_pos":13,"length":6} ],
    "child_envelopes": [ { "name": "C", "header": "^C", "min": 0, "max": -1, "columns": [ {"name":"d","start_pos":2,"length":3} ] } ] } ] }, ` + finalOutput(fltFixed(f)) + `}`
		}, open: "Hhead\n", rec: func(a, b, c string) string { return "R" + pad(a, 6) + pad(b, 5) + pad(c, 6) + "\nC001\nC002\n" }},
		{format: "fixedlength2", variant: "group-target", schema: func(f bool) string {
			x := ""
			if f {
				x = `"xpath": ".[not(starts-with(R/a, 'skip'))]",`
			}
			return `{` + hdr("fixedlength2") + `, "file_declaration": { "envelopes": [
  { "name": "G", "type": "envelope_group", "is_target": true, "min": 0, "max": -1, "child_envelopes": [
    { "name": "R", "header": "^R", "columns": [
      {"name":"a","start_pos":2,"length":6}, {"name":"b","start_pos":8,"length":5}, {"name":"c","start_pos":13,"length":6} ] },
    { "name": "C", "header": "^C", "min": 0, "max": -1, "columns": [ {"name":"d","start_pos":2,"length":3} ] } ] } ] }, ` + finalOutputP(x, "R/") + `}`
		}, rec: func(a, b, c string) string { return "R" + pad(a, 6) + pad(b, 5) + pad(c, 6) + "\nC001\n" }},
		{format: "fixedlength2", variant: "rows-based", schema: func(f bool) string {
			return `{` + hdr("fixedlength2") + `, "file_declaration": { "envelopes": [
  { "name": "R", "is_target": true, "rows": 2, "min": 0, "max": -1, "columns": [
  {"name":"a","start_pos":1,"length":6,"line_index":1}, {"name":"b","start_pos":7,"length":5,"line_index":1}, {"name":"c","start_pos":1,"length":6,"line_index":2} ] } ] }, ` + finalOutput(fltFixed(f)) + `}`
		}, rec: func(a, b, c string) string { return pad(a, 6) + pad(b, 5) + "\n" + pad(c, 6) + "\n" }},
		{format: "fixedlength2", variant: "header-footer", schema: func(f bool) string {
			return `{` + hdr("fixedlength2") + `, "file_declaration": { "envelopes": [
  { "name": "R", "is_target": true, "header": "^B", "footer": "^E", "min": 0, "max": -1, "columns": [
  {"name":"a","start_pos":2,"length":6,"line_pattern":"^B"}, {"name":"b","start_pos":8,"length":5,"line_pattern":"^B"}, {"name":"c","start_pos":2,"length":6,"line_pattern":"^E"} ] } ] }, ` + finalOutput(fltFixed(f)) + `}`
		}, rec: func(a, b, c string) string { return "B" + pad(a, 6) + pad(b, 5) + "\nMx\nE" + pad(c, 6) + "\n" }},
	}
}

// order draws the sequence in which the record kinds follow one another.  Kinds: 0 and 3 pass,
// 1 is rejected by the target filter, 2 fails its transform.
func order(r *vh.Rng, filter bool, tfail string) (prefix, ord []int) {
	good := func() int { return []int{0, 3}[r.Pick(2)] }
	switch tfail {
	case "every-k":
		for i, k := 0, r.Between(2, 5); i < k-1; i++ {
			ord = append(ord, good())
		}
		ord = append(ord, 2)
	case "burst":
		for i, k := 0, r.Between(3, 9); i < k; i++ {
			ord = append(ord, good())
		}
		for i, k := 0, r.Between(3, 8); i < k; i++ {
			ord = append(ord, 2)
		}
	case "start":
		for i, k := 0, r.Between(3, 12); i < k; i++ {
			prefix = append(prefix, 2)
		}
		ord = []int{good(), good()}
	case "most":
		ord = []int{2, 2, 2, good(), 2, 2}
	default:
		ord = []int{good(), good(), good()}
	}
	if filter {
		// 30-70 percent of the records are rejected by the target filter
		n := len(ord)
		rej := r.Between(n*3/7+1, n*7/3+1)
		for i := 0; i < rej; i++ {
			p := r.Pick(len(ord) + 1)
			ord = append(ord[:p:p], append([]int{1}, ord[p:]...)...)
		}
		if len(prefix) > 0 && r.Chance(0.5) {
			prefix = append([]int{1, 1}, prefix...)
		}
		// runs of consecutive rejections (several rejected instances within ONE reader Read)
		for k, runs := 0, r.Between(1, 3); k < runs; k++ {
			p := r.Pick(len(ord) + 1)
			run := make([]int, r.Between(2, 6))
			for i := range run {
				run[i] = 1
			}
			ord = append(ord[:p:p], append(run, ord[p:]...)...)
		}
	}
	return prefix, ord
}

func vals(r *vh.Rng) (a, a2, b, b2, c string) {
	return fmt.Sprintf("v%d", r.Pick(9)), fmt.Sprintf("w%d", r.Pick(9)), fmt.Sprint(r.Between(0, 9999)), fmt.Sprint(r.Between(0, 99)), r.PickStr("abc", "x", "zz9", "w")
}

// numericCase: the FINAL_OUTPUT filter is a numeric comparison (.[b > 5]) and the column is blank
// or not a number on some records: the xpath library cannot evaluate the filter there (it panics
// inside, the query functions turn that into "no match"), so such a record is rejected like any
// other - and must be removed like any other.
func numericCase(fx flatFixture, count int, r *vh.Rng) *Case {
	c := flatCase(fx, true, false, "none", count, r)
	repl := strings.NewReplacer(
		`not(starts-with(R/a, 'skip'))`, `R/b > 5`, `not(starts-with(a, 'skip'))`, `b > 5`,
		`DAT/a != 'skip'`, `DAT/b > 5`, `R/a != 'skip'`, `R/b > 5`, `a != 'skip'`, `b > 5`)
	c.Schema = repl.Replace(c.Schema)
	num := func(n int) string {
		if strings.HasPrefix(fx.format, "fixed") {
			return fmt.Sprintf("%05d", n) // the column is 5 wide: padding blanks would make it non-numeric
		}
		return fmt.Sprint(n)
	}
	a, a2, _, _, cc := vals(r)
	bad := r.PickStr("x9", "", "1e", "--")
	c.Recs = []string{fx.rec(a, num(r.Between(6, 9999)), cc), fx.rec(a2, num(r.Between(0, 5)), cc), fx.rec(a2, bad, cc), fx.rec(a, num(r.Between(6, 99)), cc)}
	c.Pass = []bool{true, false, false, true}
	c.TFail = []bool{false, false, false, false}
	c.Kind = fx.variant + " filter that cannot be evaluated on some records (b > 5, b=" + strconv.Quote(bad) + ")"
	// kind 2 (unevaluable) and kind 1 (b <= 5) mixed into the passing ones, with runs
	c.Prefix = nil
	c.Order = nil
	for i, n := 0, r.Between(6, 14); i < n; i++ {
		c.Order = append(c.Order, []int{0, 3, 2, 2, 1}[r.Pick(5)])
	}
	c.Order = append(c.Order, 0, 2, 2, 2, 3)
	return c
}

func flatCase(fx flatFixture, filter, sep bool, tfail string, count int, r *vh.Rng) *Case {
	c := &Case{Format: fx.format, Schema: fx.schema(filter), Open: fx.open, Close: fx.clos, Count: count,
		Kind: fmt.Sprintf("%s filter=%v sep=%v tfail=%s", fx.variant, filter, sep, tfail)}
	if sep {
		c.Joiner = fx.sep
	}
	a, a2, b, b2, cc := vals(r)
	c.Recs = []string{fx.rec(a, b, cc), fx.rec("skip", b2, cc), fx.rec(a2, "x9", cc), fx.rec(a2, b2, cc)}
	c.Pass = []bool{true, !filter, true, true}
	c.TFail = []bool{false, false, true, false}
	c.Prefix, c.Order = order(r, filter, tfail)
	return c
}

func nt(s string) sx.NT { return sx.NT{Local: s} }

func notChildEq(name, v string) *sx.PExp {
	n := nt(name)
	return &sx.PExp{Op: "not", P: &sx.PExp{Op: "childeq", NT: &n, V: v}}
}

// xmlCase: <lib id=".."><shelf> book* </shelf></lib>, records with attributes; the target's
// trailing predicates are attribute-only, child-value, or absent; the path may use "//".
func xmlCase(pred string, desc bool, tfail string, count int, r *vh.Rng) *Case {
	steps := []sx.Step{{NT: nt("lib")}, {NT: nt("shelf")}, {NT: nt("book")}}
	if desc {
		steps = []sx.Step{{Desc: true, NT: nt("book")}}
		if r.Chance(0.5) {
			steps = []sx.Step{{NT: nt("lib")}, {Desc: true, NT: nt("book")}}
		}
	}
	tg := &sx.Target{Steps: steps}
	lang, kind := [2]string{"", "lang"}, [2]string{"", "kind"}
	filter := true
	switch pred {
	case "attr":
		tg.Filters = []*sx.PExp{{Op: "attreq", Name: &lang, V: "en"}}
	case "attr2":
		tg.Filters = []*sx.PExp{{Op: "attreq", Name: &lang, V: "en"}, {Op: "hasattr", Name: &kind}}
	case "attr-not":
		tg.Filters = []*sx.PExp{{Op: "not", P: &sx.PExp{Op: "attreq", Name: &lang, V: "xx"}}}
	case "child":
		tg.Filters = []*sx.PExp{notChildEq("a", "skip")}
	case "child+attr":
		tg.Filters = []*sx.PExp{{Op: "hasattr", Name: &lang}, notChildEq("a", "skip")}
	default:
		filter = false
	}
	a, a2, b, b2, cc := vals(r)
	book := func(lang, kind, a, b, c string) string {
		k := ""
		if kind != "" {
			k = ` kind="` + kind + `"`
		}
		return `<book lang="` + lang + `"` + k + ` n="7"><a>` + a + `</a><b>` + b + `</b><c>` + c + `</c></book>`
	}
	rejected := book("xx", "", "skip", b2, cc) // fails every one of the predicates above
	if pred == "attr2" && r.Chance(0.5) {
		rejected = book("en", "", a, b2, cc) // passes the first predicate, fails the second
	}
	c := &Case{Format: "xml", Open: `<lib id="1"><shelf>`, Close: `</shelf></lib>`, Count: count, Target: tg,
		Kind: fmt.Sprintf("xml pred=%s desc=%v tfail=%s", pred, desc, tfail),
		Schema: `{` + hdr("xml") + `, ` + finalOutput(`"xpath": `+jsonQuote(tg.XPath())+`,`) + `}`}
	c.Recs = []string{book("en", "k", a, b, cc), rejected, book("en", "k", a2, "x9", cc), book("en", "q", a2, b2, cc)}
	c.Pass = []bool{true, !filter, true, true}
	c.TFail = []bool{false, false, true, false}
	if tfail == "multi-match" { // two <c> children: xpath "c" matches more than one node
		c.Recs[2] = `<book lang="en" kind="k" n="7"><a>` + a2 + `</a><b>1</b><c>1</c><c>2</c></book>`
		tfail = "every-k"
	}
	c.Prefix, c.Order = order(r, filter, tfail)
	return c
}

// xmlShapeCase: record-level shapes whose per-record reader state must not accumulate:
//   "ns-on-record": every target element carries its own namespace declaration(s);
//   "data-names":   the record elements are named after their id (<ord-0000001>), target /orders/*.
func xmlShapeCase(shape string, filter bool, count int, r *vh.Rng) *Case {
	a, a2, b, b2, cc := vals(r)
	c := &Case{Format: "xml", Count: count, Kind: fmt.Sprintf("xml shape=%s filter=%v", shape, filter)}
	var rec func(a, b, c string) string
	var tg *sx.Target
	switch shape {
	case "ns-on-record":
		c.Open, c.Close = "<feed>", "</feed>"
		tg = &sx.Target{Steps: []sx.Step{{NT: nt("feed")}, {NT: nt("item")}}}
		rec = func(a, b, c string) string {
			return `<item xmlns:g="urn:g" xmlns:h="urn:h"><g:id>#I#</g:id><h:x>1</h:x><a>` + a + `</a><b>` + b + `</b><c>` + c + `</c></item>`
		}
	default:
		c.Open, c.Close = "<orders>", "</orders>"
		tg = &sx.Target{Steps: []sx.Step{{NT: nt("orders")}, {NT: sx.NT{Any: true}}}}
		rec = func(a, b, c string) string {
			return `<ord-#I#><a>` + a + `</a><b>` + b + `</b><c>` + c + `</c><line-#I#>1</line-#I#></ord-#I#>`
		}
	}
	c.Indexed = true
	if filter {
		tg.Filters = []*sx.PExp{notChildEq("a", "skip")}
	}
	c.Target = tg
	c.Schema = `{` + hdr("xml") + `, ` + finalOutput(`"xpath": `+jsonQuote(tg.XPath())+`,`) + `}`
	c.Recs = []string{rec(a, b, cc), rec("skip", b2, cc), rec(a2, "x9", cc), rec(a2, b2, cc)}
	c.Pass = []bool{true, !filter, true, true}
	c.TFail = []bool{false, false, true, false}
	c.Prefix, c.Order = order(r, filter, "every-k")
	return c
}

// dynCase: the transform computes an xpath (xpath_dynamic) and custom_func / javascript arguments
// from data of the record, different for every record.
func dynCase(format string, count int, r *vh.Rng) *Case {
	c := &Case{Format: format, Count: count, Indexed: true, Kind: "per-record distinct xpath_dynamic and custom_func arguments"}
	var xp string
	if format == "xml" {
		c.Open, c.Close = "<r>", "</r>"
		xp = "/r/n"
		c.Recs = []string{`<n><key>k#I#</key><attrs><k#I#>v#I#</k#I#></attrs><a>1</a></n>`}
	} else {
		c.Open, c.Close, c.Joiner = "[", "]", ","
		xp = "/*"
		c.Recs = []string{`{"key":"k#I#","attrs":{"k#I#":"v#I#"},"a":"1"}`}
	}
	c.Pass = []bool{true}
	c.StaticXPaths = []string{xp}
	c.DynKeys = []string{"a", "key", "!attrs/k#I#", "key", "key"}
	c.Schema = `{` + hdr(format) + `, "transform_declarations": { "FINAL_OUTPUT": { "xpath": "` + xp + `", "object": {
  "a": { "xpath": "a" },
  "d": { "xpath_dynamic": { "custom_func": { "name": "concat", "args": [ { "const": "attrs/" }, { "xpath": "key" } ] } } },
  "u": { "custom_func": { "name": "upper", "args": [ { "xpath": "key" } ] } },
  "j": { "custom_func": { "name": "javascript", "args": [ { "const": "k + '!'" }, { "const": "k" }, { "xpath": "key" } ] } } } } } }`
	return c
}

// jsCase: a tiny javascript_with_context on every record, over more records than the default LRU
// capacity (65536) of the process-wide node-to-JSON cache; sampling starts once that cache is full.
func jsCase(count int) *Case {
	c := &Case{Format: "json", Count: count, Open: "[", Close: "]", Joiner: ",", Recs: []string{`{"a":"1"}`}, Pass: []bool{true},
		Kind: "javascript_with_context on every record, more records than the LRU capacity", WarmUp: 68000, JSCache: true}
	c.Schema = `{` + hdr("json") + `, "transform_declarations": { "FINAL_OUTPUT": { "xpath": "/*", "object": {
  "j": { "custom_func": { "name": "javascript_with_context", "args": [ { "const": "JSON.parse(_node).a" } ] } } } } } }`
	return c
}

// posCase: a positional trailing filter in the stream xpath.  Under the streaming reader earlier
// siblings are gone, so position() is 1 and last() is 1 for every candidate: the filters used
// here accept every record on HEAD; only the node count matters.
func posCase(format, pred string, count int, r *vh.Rng) *Case {
	a, _, b, _, cc := vals(r)
	c := &Case{Format: format, Count: count, Kind: "positional stream filter " + pred}
	var xp string
	if format == "xml" {
		c.Open, c.Close = "<r>", "</r>"
		xp = "/r/n[" + pred + "]"
		c.Recs = []string{"<n><a>" + a + "</a><b>" + b + "</b><c>" + cc + "</c></n>"}
	} else {
		c.Open, c.Close, c.Joiner = `{"records":[`, `]}`, ","
		xp = "/records/*[" + pred + "]"
		c.Recs = []string{fmt.Sprintf(`{"a":%q,"b":%q,"c":%q}`, a, b, cc)}
	}
	c.Pass = []bool{true}
	c.Schema = `{` + hdr(format) + `, ` + finalOutput(`"xpath": `+jsonQuote(xp)+`,`) + `}`
	return c
}

// jsonCase: records are array elements or the values of an object keyed by id, at the top level
// or nested below objects; records are objects or scalars.
func jsonCase(shape string, scalar, filter bool, tfail string, count int, r *vh.Rng) *Case {
	anyNT := sx.NT{Any: true}
	var steps []sx.Step
	var open, clos string
	keyed := false
	switch shape {
	case "root-array":
		open, clos = "[", "]"
		steps = []sx.Step{{NT: anyNT}}
	case "object-values":
		open, clos, keyed = `{"meta":{"v":1},"recs":{`, `}}`, true
		steps = []sx.Step{{NT: nt("recs")}, {NT: anyNT}}
	case "nested-array":
		open, clos = `{"x":{"meta":[1,2],"recs":[`, `]}}`
		steps = []sx.Step{{NT: nt("x")}, {NT: nt("recs")}, {NT: anyNT}}
	default: // nested-object-values
		open, clos, keyed = `{"x":{"y":{"recs":{`, `}}}}`, true
		steps = []sx.Step{{NT: nt("x")}, {NT: nt("y")}, {NT: nt("recs")}, {NT: anyNT}}
		if r.Chance(0.4) {
			steps = []sx.Step{{Desc: true, NT: nt("recs")}, {NT: anyNT}}
		}
	}
	tg := &sx.Target{Steps: steps}
	if filter {
		if scalar {
			tg.Filters = []*sx.PExp{{Op: "not", P: &sx.PExp{Op: "selfeq", V: "skip"}}}
		} else {
			tg.Filters = []*sx.PExp{notChildEq("a", "skip")}
		}
	}
	a, a2, b, b2, cc := vals(r)
	key := func(s string) string {
		if keyed {
			return `"ord-#I#":` + s
		}
		return s
	}
	c := &Case{Format: "json", Open: open, Close: clos, Joiner: ",", Count: count, Target: tg, Indexed: keyed,
		Kind: fmt.Sprintf("json shape=%s scalar=%v filter=%v tfail=%s", shape, scalar, filter, tfail)}
	if r.Chance(0.3) {
		c.Joiner = " ,\n  "
	}
	if scalar {
		// the record is a string; the transform reads it as an int, so a non-numeric one fails
		c.Schema = `{` + hdr("json") + `, "transform_declarations": { "FINAL_OUTPUT": { "xpath": ` + jsonQuote(tg.XPath()) + `,
  "object": { "v": { "xpath": ".", "type": "int" } } } } }`
		c.Recs = []string{key(`"` + b + `"`), key(`"skip"`), key(`"x9"`), key(b2)}
		c.Pass = []bool{true, !filter, true, true}
		c.TFail = []bool{false, filter == false, true, false} // "skip" is not an int either
	} else {
		c.Schema = `{` + hdr("json") + `, ` + finalOutput(`"xpath": `+jsonQuote(tg.XPath())+`,`) + `}`
		obj := func(a, b, c string) string {
			if keyed { // names that are data, at record level and inside the record
				return key(fmt.Sprintf(`{"a":%q,"b":%q,"c":%q,"by-id":{"line-#I#":1}}`, a, b, c))
			}
			return key(fmt.Sprintf(`{"a":%q,"b":%q,"c":%q}`, a, b, c))
		}
		c.Recs = []string{obj(a, b, cc), obj("skip", b2, cc), obj(a2, "x9", cc), obj(a2, b2, cc)}
		c.Pass = []bool{true, !filter, true, true}
		c.TFail = []bool{false, false, true, false}
	}
	c.Prefix, c.Order = order(r, filter, tfail)
	return c
}

// ---- running one case ------------------------------------------------------------------------------

const coqCap = 4000      // records per Coq case of a record-at-a-time reader (the Go oracle sees all of them)
const coqStreamCap = 80 // records per Coq case of the XML/JSON stream readers: the model is rerun on a shorter input

// xpathCacheKeys lists the expression texts in the process-wide cache of compiled xpaths.
func xpathCacheKeys() []string {
	var ks []string
	for k := range caches.XPathExprCache.DumpForTest() {
		if s, ok := k.(string); ok {
			ks = append(ks, s)
		}
	}
	sort.Strings(ks)
	return ks
}

func coqBytesList(xs []string) string {
	var ys []string
	for _, x := range xs {
		ys = append(ys, vh.CoqHex([]byte(x)))
	}
	return vh.CoqList(ys)
}

func runCase(o *vh.Opts, c *Case, sum *vh.Summary, cw *vh.CaseWriter, verbose bool) (nontrivial bool) {
	vh.Current(o, c)
	var before []string
	if len(c.DynKeys) > 0 {
		before = xpathCacheKeys()
	}
	res := run(c, c.Target != nil && c.Count <= coqStreamCap)
	if len(c.DynKeys) > 0 && res.Fin == "EOF" {
		// ---- the expression cache: the computed xpaths of the records must not be in it ----
		after := xpathCacheKeys()
		isOld := map[string]bool{}
		for _, k := range before {
			isOld[k] = true
		}
		var added []string
		for _, k := range after {
			if !isOld[k] {
				added = append(added, k)
			}
		}
		sum.Hist("xpath-cache-run")
		if len(added) > len(c.StaticXPaths) {
			sum.Fail("the process-wide xpath expression cache grows with the records transformed (computed xpath texts are kept)",
				c, map[string]interface{}{"entries_before": len(before), "entries_after": len(after), "some_added": added[:minInt(len(added), 8)]})
		}
		var qs []string
		for _, x := range c.StaticXPaths {
			qs = append(qs, "(false, "+vh.CoqHex([]byte(x))+")")
		}
		for i := 0; i < c.Count; i++ {
			for _, k := range c.DynKeys {
				dyn, text := k[0] == '!', strings.ReplaceAll(strings.TrimPrefix(k, "!"), "#I#", fmt.Sprint(i))
				qs = append(qs, "("+vh.CoqBool(dyn)+", "+vh.CoqHex([]byte(text))+")")
			}
		}
		if c.Count <= 2000 {
			cw.Add(fmt.Sprintf("C17XPath (mkPCase %s %s %s)", coqBytesList(before), vh.CoqList(qs), coqBytesList(after)), c)
		}
	}
	if verbose {
		fmt.Printf("format=%s kind=%q count=%d joiner=%q open=%q close=%q prefix=%v order=%v\nrecs=%q\n", c.Format, c.Kind, c.Count, c.Joiner, c.Open, c.Close, c.Prefix, c.Order, c.Recs)
		fmt.Printf("implementation: %d records transformed, %d failed transforms, %d reader deliveries measured, end=%s\n", res.OKs, res.Failed, len(res.Ms), res.Fin)
	}
	if res.Fin != "EOF" {
		sum.Fail("the transform did not reach EOF: "+res.Fin, c, nil)
		if verbose {
			fmt.Println("ORACLE FAILS: transform ended with", res.Fin)
		}
		return false
	}
	wantOK, wantFail := 0, 0
	for i := 0; i < c.Count; i++ {
		if c.passes(i) {
			if c.tfails(i) {
				wantFail++
			} else {
				wantOK++
			}
		}
	}
	countsOff := ""
	if res.OKs != wantOK || res.Failed != wantFail || len(res.Ms) != wantOK+wantFail {
		// reported below, after the growth oracle: when both fail, the growth is the finding
		countsOff = fmt.Sprintf("expected %d transformed records and %d failed transforms, got %d and %d (%d reader deliveries)", wantOK, wantFail, res.OKs, res.Failed, len(res.Ms))
	}
	// ---- the property oracle: what is reachable at a delivery is constant after the first few ----
	// (what is reachable = a fixed part + the record itself, so the record's own size is taken out:
	// records of different shapes may alternate)
	base, maxv, at, first, last := 0, 0, -1, -1, -1
	linkDiff := -1
	for k, m := range res.Ms {
		fixed := m.Reach - m.RecSize
		if k < 3 && fixed > base {
			base = fixed
		}
		if k == 0 {
			first = fixed
		}
		last = fixed
		if fixed > maxv {
			maxv, at = fixed, k
		}
		if m.Reach != m.Size && linkDiff < 0 {
			linkDiff = k
		}
	}
	if verbose {
		var head []string
		for k := 0; k < len(res.Ms) && k < 10; k++ {
			s := fmt.Sprint(res.Ms[k].Reach)
			if !res.Ms[k].OK {
				s += "(failed transform)"
			}
			head = append(head, s)
		}
		fmt.Printf("reachable nodes at the first deliveries: %v ... beyond the record itself at the last: %d (max %d at delivery %d)\n", head, last, maxv, at)
	}
	switch {
	case maxv > base:
		sum.Fail("the node graph reachable from a record the reader returned grows with the number of records read",
			c, map[string]interface{}{"reachable_beyond_the_record_at_first": first, "at_last": last, "max": maxv, "max_at": at, "reader_deliveries": len(res.Ms)})
		if verbose {
			fmt.Println("ORACLE FAILS: reachable node count grows:", first, "->", last)
		}
	case linkDiff >= 0:
		m := res.Ms[linkDiff]
		sum.Fail("sibling/child links reach nodes that are not in the tree under the root (a removed node is still linked)",
			c, map[string]interface{}{"delivery": linkDiff, "tree_under_root": m.Size, "reachable_through_all_links": m.Reach})
		if verbose {
			fmt.Println("ORACLE FAILS: link closure differs from the tree at delivery", linkDiff)
		}
	case countsOff != "":
		sum.Fail(countsOff, c, nil)
		return false
	default:
		if verbose {
			fmt.Println("oracle holds: reachable node count is constant")
		}
	}
	if countsOff != "" {
		return false // the sequence of deliveries is not the one the Coq case would describe
	}
	nt := len(res.Ms) >= 10
	// ---- Coq case ----
	if c.Target == nil {
		if c.Count > coqCap {
			return nt
		}
		standalone := c.Format == "csv"
		above, recSize := 0, 0
		if len(res.Ms) > 0 {
			recSize = res.Ms[0].RecSize
			above = res.Ms[0].Size - recSize
		}
		var recs, sizes []string
		for i := 0; i < c.Count; i++ {
			recs = append(recs, "("+vh.CoqNat(recSize)+", "+vh.CoqBool(c.passes(i))+")")
		}
		for _, m := range res.Ms {
			sizes = append(sizes, vh.CoqNat(m.Size))
		}
		cw.Add(fmt.Sprintf("C17Flat (mkFCase %s %s %s %s)", vh.CoqBool(standalone), vh.CoqNat(above), vh.CoqList(recs), vh.CoqList(sizes)), c)
		return nt
	}
	if c.Count > coqStreamCap {
		// model vs implementation on the same input shape with fewer records
		c2 := *c
		c2.Count = coqStreamCap
		c = &c2
		res = run(c, true)
		if res.Fin != "EOF" {
			return nt
		}
	}
	var ds, rel []string
	for _, m := range res.Ms {
		ds = append(ds, "("+m.Dump+", "+vh.CoqNat(m.Size)+")")
		rel = append(rel, "true") // the ingester releases the previous record before the next Read
	}
	xp := c.Target.XPath()
	text := c.input()
	if c.Format == "xml" {
		toks, ok := sx.XMLTokens(text)
		doc, ok2 := sx.XMLFromTokens(toks)
		if ok && ok2 {
			cw.Add(fmt.Sprintf("C17Stream (XCase (mkXCase %s %s %s [] %s %s %s ObsEOF))", sx.XDocCoq(doc), sx.XToksCoq(toks), c.Target.Coq(),
				vh.CoqHex([]byte(xp)), vh.CoqList(rel), vh.CoqList(ds)), c)
		}
	} else {
		toks, ok := sx.JSONTokens(text)
		doc, ok2 := sx.JSONFromTokens(toks)
		if ok && ok2 {
			var sb strings.Builder
			doc.Coq(&sb)
			cw.Add(fmt.Sprintf("C17Stream (JCase (mkJCase (%s) %s %s [] %s %s %s ObsEOF))", sb.String(), sx.JToksCoq(toks), c.Target.Coq(),
				vh.CoqHex([]byte(xp)), vh.CoqList(rel), vh.CoqList(ds)), c)
		}
	}
	return nt
}

// ---- live heap: retention outside the node tree ---------------------------------------------------

// liveHeap is the live heap after garbage collection: the minimum of three collected samples, so
// that a transient (a pool being refilled, a finalizer round) does not count.
func liveHeap() uint64 {
	best := ^uint64(0)
	var ms runtime.MemStats
	for i := 0; i < 3; i++ {
		runtime.GC()
		runtime.ReadMemStats(&ms)
		if ms.HeapAlloc < best {
			best = ms.HeapAlloc
		}
	}
	return best
}

// heapRun streams a long, lazily generated input through a plain (unwrapped) Transform and samples
// the live heap at regular intervals after a warm-up.  The oracle: the live heap in the last third
// of the run is not more than slack bytes above the live heap in the first third.
func heapRun(o *vh.Opts, c *Case, sum *vh.Summary, slack uint64, verbose bool) bool {
	vh.Current(o, c)
	type sample struct {
		Reads int    `json:"reads"`
		Heap  uint64 `json:"live_heap"`
	}
	var samples []sample
	fin := ""
	reads := 0
	t0 := time.Now()
	// stack memory is watched from a second goroutine WHILE Reads are in progress: frames piled up
	// inside one Read (a recursion per skipped record) are gone again by the time it returns
	var ms0 runtime.MemStats
	runtime.GC()
	runtime.ReadMemStats(&ms0)
	stackMax := ms0.StackInuse
	stop, stopped := make(chan struct{}), make(chan struct{})
	go func() {
		defer close(stopped)
		var ms runtime.MemStats
		for {
			select {
			case <-stop:
				return
			case <-time.After(3 * time.Millisecond):
				runtime.ReadMemStats(&ms)
				if ms.StackInuse > stackMax {
					stackMax = ms.StackInuse
				}
			}
		}
	}()
	func() {
		defer func() {
			if p := recover(); p != nil {
				fin = fmt.Sprint("panic: ", p)
			}
		}()
		s, err := omniparser.NewSchema("c17-heap-"+c.Format, strings.NewReader(c.Schema))
		if err != nil {
			fin = "schema: " + err.Error()
			return
		}
		t, err := s.NewTransform("in", &lazyInput{c: c, i: -1}, &transformctx.Ctx{})
		if err != nil {
			fin = "newtransform: " + err.Error()
			return
		}
		expect := 0
		for i := 0; i < c.Count; i++ {
			if c.passes(i) {
				expect++
			}
		}
		every := expect / 16
		if every < 1 {
			every = 1
		}
		start := time.Now()
		for {
			_, err := t.Read()
			if err == io.EOF {
				fin = "EOF"
				break
			}
			if err != nil && !errs.IsErrTransformFailed(err) {
				fin = "error: " + err.Error()
				break
			}
			reads++
			if reads%1000 == 0 && time.Since(start) > heapDeadline {
				fin = fmt.Sprintf("gave up after %v and %d of about %d records: the time per record grows with the number of records read", heapDeadline, reads, expect)
				break
			}
			if reads%every == 0 && reads >= expect/4 && reads >= c.WarmUp {
				samples = append(samples, sample{reads, liveHeap()})
			}
		}
		runtime.KeepAlive(t)
	}()
	close(stop)
	<-stopped
	if c.JSCache && fin == "EOF" {
		// one entry per node a javascript_with_context was evaluated on; node IDs are never reused,
		// so only the LRU capacity of the loading cache (65536 by default) bounds it
		n := len(v21funcs.NodeToJSONCache.DumpForTest())
		sum.Extra["node_to_json_cache_entries_after_"+fmt.Sprint(reads)+"_records"] = n
		if n > 66000 {
			sum.Fail("customfuncs.NodeToJSONCache keeps an entry for every record ever transformed (more entries than its LRU capacity of 65536)",
				c, map[string]interface{}{"entries": n, "records_read": reads})
		}
	}
	if fin != "EOF" {
		sum.Fail("the transform did not reach EOF: "+fin, c, nil)
		return false
	}
	if m, ok := sum.Extra["stack_growth_bytes_max_during_run"].(map[string]int64); ok {
		m[c.Format+" "+c.Kind] = int64(stackMax) - int64(ms0.StackInuse)
	} else {
		sum.Extra["stack_growth_bytes_max_during_run"] = map[string]int64{c.Format + " " + c.Kind: int64(stackMax) - int64(ms0.StackInuse)}
	}
	if stackMax > ms0.StackInuse+stackSlack {
		sum.Fail("goroutine stack memory grows while records are read (frames are piled up per record skipped inside one Read)",
			c, map[string]interface{}{"stack_inuse_before": ms0.StackInuse, "stack_inuse_max_during_run": stackMax, "records_read": reads})
		if verbose {
			fmt.Printf("ORACLE FAILS: StackInuse went from %d to %d during the run\n", ms0.StackInuse, stackMax)
		}
		return true
	}
	if verbose {
		fmt.Printf("stack: StackInuse %d before, max %d during the run\n", ms0.StackInuse, stackMax)
	}
	if len(samples) < 6 {
		return false
	}
	third := len(samples) / 3
	lo, hi := ^uint64(0), ^uint64(0)
	for _, x := range samples[:third] {
		if x.Heap < lo {
			lo = x.Heap
		}
	}
	for _, x := range samples[len(samples)-third:] {
		if x.Heap < hi {
			hi = x.Heap
		}
	}
	if verbose {
		fmt.Printf("format=%s kind=%q count=%d reads=%d\nlive heap samples: %v\n", c.Format, c.Kind, c.Count, reads, samples)
	}
	growth := int64(hi) - int64(lo)
	if os.Getenv("C17_TIMING") != "" {
		fmt.Fprintf(os.Stderr, "heap run %-70s %v growth=%d\n", c.Format+" "+c.Kind, time.Since(t0), growth)
	}
	if m, ok := sum.Extra["heap_growth_bytes_last_third_vs_first_third"].(map[string]int64); ok {
		m[c.Format+" "+c.Kind] = growth
	} else {
		sum.Extra["heap_growth_bytes_last_third_vs_first_third"] = map[string]int64{c.Format + " " + c.Kind: growth}
	}
	if hi > lo && hi-lo > slack {
		per := float64(hi-lo) / float64(samples[len(samples)-1].Reads-samples[third-1].Reads)
		sum.Fail("the live heap of the process grows with the number of records read (something outside the node tree is retained)",
			c, map[string]interface{}{"live_heap_first_third": lo, "live_heap_last_third": hi, "growth_bytes": hi - lo,
				"approx_bytes_per_record": per, "records_read": reads, "samples": samples})
		if verbose {
			fmt.Printf("ORACLE FAILS: live heap grows by %d bytes (about %.0f per record)\n", hi-lo, per)
		}
	} else if verbose {
		fmt.Println("oracle holds: live heap does not grow")
	}
	return true
}

type corpusFile struct {
	Case   Case   `json:"case"`
	Expect string `json:"expect"`
	Note   string `json:"note"`
}

// a heap run of 6*10^4 small records takes about a second; a run that is still going after this
// long is quadratic (something retained is searched again and again)
const heapDeadline = 90 * time.Second

// stack memory in use may grow by this much during a run (goroutines of the runtime, the monitor)
const stackSlack = 4 << 20

func heapSlack(o *vh.Opts) uint64 {
	if o.Tier == "thorough" {
		return 2 << 20
	}
	return 256 << 10
}

func main() {
	o := vh.ParseOpts()
	r := vh.NewRng(o.Seed)
	sum := vh.NewSummary("C17", o,
		"inputs that repeat target records (3*10^3 quick / 2*10^5 thorough) under fixed ancestors, for each of the seven formats: with and without insignificant separators, with 30-70% of the records rejected by the target filter (XML: attribute-only, child-value and // targets; JSON: array elements, object values keyed by id, nested, scalar records; flat formats: FINAL_OUTPUT filter), and with records whose transform fails with a continuable error (every k-th, bursts, at the start, most) while the caller keeps reading; run through the public Transform API with the logging FileFormat wrapper; after every Read during which the reader returned a node (transformed or failed) the node graph reachable from it through all five links and the tree under its root are measured; non-trivial = at least 10 reader deliveries; distinct by the whole case")
	cw := vh.NewCaseWriter(o, "C17", "Base.Tree Model.Stream", "c17case", "check_case17")
	cw.PerFile = 4

	if o.Replay != "" {
		var rf corpusFile
		b, err := os.ReadFile(o.Replay)
		if err != nil || json.Unmarshal(b, &rf) != nil {
			fmt.Println("cannot read replay file", o.Replay, err)
			os.Exit(2)
		}
		var nt bool
		if rf.Case.Heap {
			nt = heapRun(o, &rf.Case, sum, heapSlack(o), true)
		} else {
			nt = runCase(o, &rf.Case, sum, cw, true)
		}
		fmt.Println("case key:", vh.KeyOf(&rf.Case))
		sum.Count(o.Replay, nt)
		cw.Flush()
		sum.CaseFiles = cw.Files
		sum.Write(o)
		vh.Done(o)
		return
	}
	if o.Corpus != "" {
		files, _ := filepath.Glob(filepath.Join(o.Corpus, "*.json"))
		sort.Strings(files)
		for _, f := range files {
			var cf corpusFile
			b, err := os.ReadFile(f)
			if err != nil || json.Unmarshal(b, &cf) != nil {
				sum.Fail("unreadable corpus file "+filepath.Base(f), nil, fmt.Sprint(err))
				continue
			}
			nt := runCase(o, &cf.Case, sum, cw, false)
			canon, _ := json.Marshal(cf.Case)
			sum.Count(string(canon), nt)
			sum.Hist("corpus")
			fmt.Printf("corpus %s key=%s\n", filepath.Base(f), vh.KeyOf(&cf.Case))
		}
	}
	big := o.Count(3000, 200000)
	one := func(c *Case) {
		nt := runCase(o, c, sum, cw, false)
		canon, _ := json.Marshal(c)
		sum.Count(string(canon), nt)
		sum.Hist("format:" + c.Format)
		sum.Hist("kind:" + c.Kind)
		sum.Sample(map[string]interface{}{"format": c.Format, "kind": c.Kind, "recs": c.Recs, "order": c.Order, "prefix": c.Prefix, "count": c.Count})
	}
	size := func(full bool) int {
		if full {
			return big
		}
		if o.Tier == "thorough" {
			return big / 10
		}
		return r.Between(300, 1500)
	}
	tfails := []string{"none", "every-k", "burst", "start", "most"}
	// record-at-a-time readers
	for _, fx := range flatFixtures() {
		if fx.variant != "" {
			continue
		}
		one(flatCase(fx, false, false, "none", big, r))
		one(flatCase(fx, true, fx.sep != "", "burst", size(true), r))
		for _, tf := range tfails {
			filter := r.Chance(0.5)
			one(flatCase(fx, filter, fx.sep != "" && r.Chance(0.4), tf, size(false), r))
		}
		one(flatCase(fx, true, false, "none", size(false), r))
	}
	// filters that cannot be evaluated on some records
	for _, fx := range flatFixtures() {
		if fx.variant == "" || fx.variant == "child-records" || fx.variant == "group-target" {
			one(numericCase(fx, size(false), r))
		}
	}
	// targets with child records / group targets: runs of consecutive rejected instances
	for _, fx := range flatFixtures() {
		if fx.variant == "" {
			continue
		}
		one(flatCase(fx, false, false, "none", size(false), r))
		one(flatCase(fx, true, false, "none", size(true), r))
		one(flatCase(fx, true, fx.sep != "" && r.Chance(0.5), tfails[r.Pick(len(tfails))], size(false), r))
		one(flatCase(fx, r.Chance(0.5), false, tfails[1+r.Pick(4)], size(false), r))
	}
	// XML stream reader (no character data between records: F7 is replayed from the corpus)
	one(xmlCase("none", false, "none", big, r))
	one(xmlCase("attr", false, "none", size(true), r))
	for _, p := range []string{"attr", "attr2", "attr-not", "child", "child+attr", "none"} {
		one(xmlCase(p, false, tfails[r.Pick(len(tfails))], size(false), r))
		one(xmlCase(p, true, tfails[r.Pick(len(tfails))], size(false), r))
	}
	one(xmlCase("attr", false, "multi-match", size(false), r))
	for _, sh := range []string{"ns-on-record", "data-names"} {
		one(xmlShapeCase(sh, false, size(false), r))
		one(xmlShapeCase(sh, true, size(false), r))
	}
	for _, f := range []string{"xml", "json"} {
		for _, p := range []string{"position() > 0", "position() >= 1", "last() >= 1"} {
			one(posCase(f, p, size(false), r))
		}
		one(dynCase(f, size(false), r))
	}
	// JSON stream reader
	one(jsonCase("root-array", false, false, "none", big, r))
	one(jsonCase("object-values", false, true, "none", size(true), r))
	for _, sh := range []string{"root-array", "object-values", "nested-array", "nested-object-values"} {
		one(jsonCase(sh, false, true, tfails[r.Pick(len(tfails))], size(false), r))
		one(jsonCase(sh, false, r.Chance(0.5), tfails[1+r.Pick(4)], size(false), r))
		one(jsonCase(sh, true, true, tfails[r.Pick(len(tfails))], size(false), r))
		one(jsonCase(sh, true, false, "none", size(false), r))
	}
	// ---- live heap over long inputs: every format and record style, with and without filter ----
	long := 40000
	if o.Tier == "thorough" {
		long = 300000
	}
	heap := func(c *Case) {
		c.Heap = true
		c.Kind = "heap " + c.Kind
		nt := heapRun(o, c, sum, heapSlack(o), false)
		canon, _ := json.Marshal(c)
		sum.Count(string(canon), nt)
		sum.Hist("format:" + c.Format)
		sum.Hist("heap-run")
	}
	for i, fx := range flatFixtures() {
		// one long run per fixture in quick (both in thorough): with rejections where an instance
		// is a subtree, without for the plain / rows-based / header-footer records, alternating by seed
		filter := fx.variant == "child-records" || fx.variant == "child-envelopes" || fx.variant == "group-target"
		if fx.variant == "" {
			filter = (int(o.Seed)+i)%2 == 0
		}
		heap(flatCase(fx, filter, false, "none", long, r))
		if o.Tier == "thorough" {
			heap(flatCase(fx, !filter, false, "none", long, r))
		}
	}
	slong := long * 5 / 8 // the stream readers take longer per record
	heap(xmlCase("none", false, "none", slong, r))
	heap(xmlCase("child", false, "none", slong, r))
	heap(jsonCase("root-array", false, false, "none", slong, r))
	heap(jsonCase("object-values", false, true, "none", slong, r))
	// one long unbroken run of rejected records (inside one Read) for every format with a filter
	longRun := func(c *Case) {
		c.RunAt, c.RunLen = c.Count/8, 100000
		c.Count += c.RunLen
		c.Kind += " +run of 10^5 rejections"
		heap(c)
	}
	for _, fx := range flatFixtures() {
		if fx.variant == "" {
			longRun(flatCase(fx, true, false, "none", long/2, r))
		}
	}
	longRun(xmlCase("child", false, "none", long/2, r))
	longRun(jsonCase("root-array", false, true, "none", long/2, r))
	// a process-wide cache keyed by node ID: must stay within its LRU capacity
	if o.Tier == "thorough" {
		heap(jsCase(200000))
	} else {
		heap(jsCase(110000))
	}
	// values computed per record: xpath_dynamic strings, custom_func / javascript arguments
	heap(dynCase("xml", slong, r))
	heap(dynCase("json", slong, r))
	// per-record reader state: declarations on the record element, names that are data
	heap(xmlShapeCase("ns-on-record", int(o.Seed)%2 == 0, slong, r))
	heap(xmlShapeCase("data-names", false, slong, r))
	heap(jsonCase("object-values", false, false, "none", slong, r))
	if o.Tier == "thorough" {
		heap(xmlShapeCase("ns-on-record", int(o.Seed)%2 != 0, slong, r))
		heap(jsonCase("nested-object-values", false, true, "none", slong, r))
	}
	cw.Flush()
	sum.CaseFiles = cw.Files
	sum.Write(o)
	vh.Done(o)
}
