package main

import (
	"bytes"
	"encoding/json"
	"fmt"
	"go/ast"
	"go/printer"
	"go/token"
	"os"
	"path/filepath"
	"strconv"
	"strings"
	"unicode/utf8"
)

// genEdiShape extracts the facts of edi/reader2.go, edi/reader.go, edi/seg.go and the EDI JSON
// schema that the C07 model transcribes by hand; Model/Edi.v is defined over them and the
// theorems of Props/C07.v are re-proved over what is generated here:
//   - readToken: the segment delimiter is cut off by length (token[:len(token)-len(segDelim)]);
//     the LF rule (delimiter literal, suffix literal, bytes dropped); class of "missing segment name"
//   - runeCountAndHasOnlyCRLF: the runes that make a token blank
//   - NewNonValidatingReader: the byte sequences ignore_crlf replaces by nothing, in order
//   - rawSegToNode: class of the missing-element error, the "use the default" condition
//   - getUnprocessedRawSeg: class a NonValidatingReader error is wrapped into
//   - Elem.compIndex: the component index of a declaration without one
//   - ediFileDeclaration.json: minLength of the delimiter / release character strings
func genEdiShape() string {
	ff := "extensions/omniv21/fileformat/edi/"
	fset2, r2 := parseFile(ff + "reader2.go")
	fset1, r1 := parseFile(ff + "reader.go")
	_, sg := parseFile(ff + "seg.go")
	src := func(fset *token.FileSet, n ast.Node) string {
		var b bytes.Buffer
		_ = printer.Fprint(&b, fset, n)
		return strings.Join(strings.Fields(b.String()), " ")
	}

	// package level []byte("...") variables of reader2.go (crBytes, lfBytes)
	byteVars := map[string][]byte{}
	for _, d := range r2.Decls {
		gd, ok := d.(*ast.GenDecl)
		if !ok || gd.Tok != token.VAR {
			continue
		}
		for _, sp := range gd.Specs {
			vs := sp.(*ast.ValueSpec)
			for i, n := range vs.Names {
				if i >= len(vs.Values) {
					continue
				}
				if ce, ok := vs.Values[i].(*ast.CallExpr); ok && len(ce.Args) == 1 {
					if at, ok := ce.Fun.(*ast.ArrayType); ok && at.Len == nil && isIdent(at.Elt, "byte") {
						if bl, ok := ce.Args[0].(*ast.BasicLit); ok && bl.Kind == token.STRING {
							if v, err := strconv.Unquote(bl.Value); err == nil {
								byteVars[n.Name] = []byte(v)
							}
						}
					}
				}
			}
		}
	}
	bytesOf := func(what string, e ast.Expr) []byte {
		switch x := e.(type) {
		case *ast.Ident:
			if v, ok := byteVars[x.Name]; ok {
				return v
			}
		case *ast.BasicLit:
			if x.Kind == token.STRING {
				if v, err := strconv.Unquote(x.Value); err == nil {
					return []byte(v)
				}
			}
		}
		die("reader2.go: %s: byte string not recognised", what)
		return nil
	}
	// class of an error expression by its constructor
	classOf := func(what string, e ast.Expr) string {
		ce, ok := e.(*ast.CallExpr)
		if !ok {
			die("%s: error expression is not a call", what)
		}
		switch fn := ce.Fun.(type) {
		case *ast.Ident:
			if fn.Name == "ErrInvalidEDI" {
				return "RcFatal"
			}
		case *ast.SelectorExpr:
			if isSel(fn, "errors", "New") || isSel(fn, "fmt", "Errorf") || fn.Sel.Name == "FmtErr" {
				return "RcPlain"
			}
			if isSel(fn, "errs", "ErrTransformFailed") {
				return "RcFailed"
			}
		}
		die("%s: error constructor not recognised", what)
		return ""
	}

	// ---- readToken ----
	rt := findMethod(r2, "readToken")
	if rt == nil {
		die("reader2.go: readToken not found")
	}
	stripOK := false
	var lfDelim, lfSuffix []byte
	lfDrop := -1
	missingName := ""
	ast.Inspect(rt.Body, func(n ast.Node) bool {
		switch x := n.(type) {
		case *ast.AssignStmt:
			if len(x.Lhs) == 1 && len(x.Rhs) == 1 && isIdent(x.Lhs[0], "noSegDelim") && x.Tok == token.DEFINE {
				if src(fset2, x.Rhs[0]) == "token[:len(token)-len(r.segDelim.b)]" {
					stripOK = true
				} else {
					die("reader2.go: readToken: the segment delimiter is not cut off as token[:len(token)-len(r.segDelim.b)] but as %s", src(fset2, x.Rhs[0]))
				}
			}
		case *ast.IfStmt:
			be, ok := x.Cond.(*ast.BinaryExpr)
			if ok && be.Op == token.LAND {
				l, lok := be.X.(*ast.BinaryExpr)
				rr, rok := be.Y.(*ast.CallExpr)
				if lok && rok && l.Op == token.EQL && src(fset2, l.X) == "*r.segDelim.strptr" && isSel(rr.Fun, "bytes", "HasSuffix") &&
					len(rr.Args) == 2 && isIdent(rr.Args[0], "noSegDelim") {
					lfDelim = bytesOf("LF rule delimiter", l.Y)
					lfSuffix = bytesOf("LF rule suffix", rr.Args[1])
					if len(x.Body.List) != 1 || x.Else != nil {
						die("reader2.go: readToken: body of the LF rule not recognised")
					}
					s := src(fset2, x.Body.List[0])
					const pre = "noSegDelim = noSegDelim[:len(noSegDelim)-"
					if !strings.HasPrefix(s, pre) || !strings.HasSuffix(s, "]") {
						die("reader2.go: readToken: the LF rule does not shorten noSegDelim by a length: %s", s)
					}
					amt := strings.TrimSuffix(strings.TrimPrefix(s, pre), "]")
					switch {
					case strings.HasPrefix(amt, "utf8.RuneLen(") && strings.HasSuffix(amt, ")"):
						c, err := strconv.Unquote(strings.TrimSuffix(strings.TrimPrefix(amt, "utf8.RuneLen("), ")"))
						if err != nil || utf8.RuneCountInString(c) != 1 {
							die("reader2.go: readToken: LF rule amount %s not recognised", amt)
						}
						rn, _ := utf8.DecodeRuneInString(c)
						lfDrop = utf8.RuneLen(rn)
					case amt == "len(crBytes)":
						lfDrop = len(byteVars["crBytes"])
					default:
						if v, err := strconv.Atoi(amt); err == nil {
							lfDrop = v
						} else {
							die("reader2.go: readToken: LF rule amount %s not recognised", amt)
						}
					}
				}
			}
		case *ast.ReturnStmt:
			if len(x.Results) == 1 {
				if ce, ok := x.Results[0].(*ast.CallExpr); ok && len(ce.Args) == 1 {
					if bl, ok := ce.Args[0].(*ast.BasicLit); ok && bl.Value == `"missing segment name"` {
						missingName = classOf("reader2.go: readToken: missing segment name", x.Results[0])
					}
				}
			}
		}
		return true
	})
	if !stripOK {
		die("reader2.go: readToken: noSegDelim := token[:len(token)-len(r.segDelim.b)] not found")
	}
	if lfDelim == nil || lfDrop < 0 {
		die("reader2.go: readToken: the LF rule (*r.segDelim.strptr == \"\\n\" && bytes.HasSuffix(noSegDelim, crBytes)) not found")
	}
	if missingName == "" {
		die("reader2.go: readToken: return of the missing-segment-name error not found")
	}

	// ---- runeCountAndHasOnlyCRLF ----
	rc := findFunc(r2, "runeCountAndHasOnlyCRLF")
	if rc == nil {
		die("reader2.go: runeCountAndHasOnlyCRLF not found")
	}
	var blank []rune
	found := false
	ast.Inspect(rc.Body, func(n ast.Node) bool {
		is, ok := n.(*ast.IfStmt)
		if !ok || found {
			return true
		}
		var walk func(e ast.Expr) bool
		walk = func(e ast.Expr) bool {
			be, ok := e.(*ast.BinaryExpr)
			if !ok {
				return false
			}
			if be.Op == token.LAND {
				return walk(be.X) && walk(be.Y)
			}
			if be.Op == token.NEQ && isIdent(be.X, "r") {
				if bl, ok := be.Y.(*ast.BasicLit); ok && bl.Kind == token.CHAR {
					if c, err := strconv.Unquote(bl.Value); err == nil {
						rn, _ := utf8.DecodeRuneInString(c)
						blank = append(blank, rn)
						return true
					}
				}
			}
			return false
		}
		if walk(is.Cond) && len(is.Body.List) == 1 && src(fset2, is.Body.List[0]) == "onlyCRLF = false" {
			found = true
		} else {
			blank = nil
		}
		return true
	})
	if !found {
		die("reader2.go: runeCountAndHasOnlyCRLF: `if r != '\\n' && r != '\\r' { onlyCRLF = false }` not recognised")
	}

	// ---- NewNonValidatingReader: ignore_crlf ----
	nn := findFunc(r2, "NewNonValidatingReader")
	if nn == nil {
		die("reader2.go: NewNonValidatingReader not found")
	}
	var strips [][]byte
	seenIgnore := false
	for _, st := range nn.Body.List {
		is, ok := st.(*ast.IfStmt)
		if !ok || src(fset2, is.Cond) != "decl.IgnoreCRLF" {
			continue
		}
		seenIgnore = true
		for _, b := range is.Body.List {
			as, ok := b.(*ast.AssignStmt)
			if !ok || len(as.Rhs) != 1 || !isIdent(as.Lhs[0], "r") {
				die("reader2.go: NewNonValidatingReader: ignore_crlf body not recognised")
			}
			ce, ok := as.Rhs[0].(*ast.CallExpr)
			if !ok || !isSel(ce.Fun, "ios", "NewBytesReplacingReader") || len(ce.Args) != 3 || !isIdent(ce.Args[0], "r") || !isIdent(ce.Args[2], "nil") {
				die("reader2.go: NewNonValidatingReader: ignore_crlf is not r = ios.NewBytesReplacingReader(r, <bytes>, nil)")
			}
			strips = append(strips, bytesOf("ignore_crlf search bytes", ce.Args[1]))
		}
	}
	if !seenIgnore {
		die("reader2.go: NewNonValidatingReader: `if decl.IgnoreCRLF` not found")
	}
	// nothing else may wrap the input before the scanner sees it
	for _, st := range nn.Body.List {
		if as, ok := st.(*ast.AssignStmt); ok && len(as.Lhs) == 1 && isIdent(as.Lhs[0], "r") {
			die("reader2.go: NewNonValidatingReader: the input reader is replaced outside `if decl.IgnoreCRLF`: %s", src(fset2, st))
		}
	}

	// ---- rawSegToNode ----
	rs := findMethod(r1, "rawSegToNode")
	if rs == nil {
		die("reader.go: rawSegToNode not found")
	}
	missingElem, useDefault := "", ""
	ast.Inspect(rs.Body, func(n ast.Node) bool {
		switch x := n.(type) {
		case *ast.ReturnStmt:
			if len(x.Results) == 2 && isIdent(x.Results[0], "nil") && !isIdent(x.Results[1], "nil") {
				if missingElem != "" {
					die("reader.go: rawSegToNode: more than one error return")
				}
				missingElem = classOf("reader.go: rawSegToNode: missing element", x.Results[1])
			}
		case *ast.IfStmt:
			s := src(fset1, x.Cond)
			if strings.Contains(s, "EmptyIfMissing") || strings.Contains(s, "elemDecl.Default") && useDefault == "" && strings.Contains(s, "||") {
				var tr func(e ast.Expr) string
				tr = func(e ast.Expr) string {
					switch y := e.(type) {
					case *ast.ParenExpr:
						return tr(y.X)
					case *ast.BinaryExpr:
						switch y.Op {
						case token.LOR:
							return "(orb " + tr(y.X) + " " + tr(y.Y) + ")"
						case token.LAND:
							return "(andb " + tr(y.X) + " " + tr(y.Y) + ")"
						case token.NEQ:
							if src(fset1, y.X) == "elemDecl.Default" && isIdent(y.Y, "nil") {
								return "has_default"
							}
						}
					case *ast.UnaryExpr:
						if y.Op == token.NOT {
							return "(negb " + tr(y.X) + ")"
						}
					case *ast.SelectorExpr:
						if src(fset1, y) == "elemDecl.EmptyIfMissing" {
							return "empty_if_missing"
						}
					}
					die("reader.go: rawSegToNode: default condition not recognised: %s", s)
					return ""
				}
				if useDefault == "" {
					useDefault = tr(x.Cond)
				}
			}
		}
		return true
	})
	if missingElem == "" || useDefault == "" {
		die("reader.go: rawSegToNode: missing-element return or default condition not found")
	}

	// ---- getUnprocessedRawSeg ----
	gu := findMethod(r1, "getUnprocessedRawSeg")
	if gu == nil {
		die("reader.go: getUnprocessedRawSeg not found")
	}
	wrap := ""
	ast.Inspect(gu.Body, func(n ast.Node) bool {
		cc, ok := n.(*ast.CaseClause)
		if !ok || len(cc.List) != 1 || src(fset1, cc.List[0]) != "err != nil" {
			return true
		}
		if len(cc.Body) == 1 {
			if rtn, ok := cc.Body[0].(*ast.ReturnStmt); ok && len(rtn.Results) == 2 {
				wrap = classOf("reader.go: getUnprocessedRawSeg", rtn.Results[1])
			}
		}
		return true
	})
	if wrap == "" {
		die("reader.go: getUnprocessedRawSeg: `case err != nil: return RawSeg{}, ErrInvalidEDI(...)` not found")
	}

	// ---- Elem.compIndex ----
	ci := findMethod(sg, "compIndex")
	defComp := -1
	if ci != nil && len(ci.Body.List) == 2 {
		if is, ok := ci.Body.List[0].(*ast.IfStmt); ok && len(is.Body.List) == 1 {
			if be, ok := is.Cond.(*ast.BinaryExpr); ok && be.Op == token.EQL && isIdent(be.Y, "nil") {
				if rtn, ok := is.Body.List[0].(*ast.ReturnStmt); ok && len(rtn.Results) == 1 {
					if bl, ok := rtn.Results[0].(*ast.BasicLit); ok && bl.Kind == token.INT {
						defComp, _ = strconv.Atoi(bl.Value)
					}
				}
			}
		}
	}
	if defComp < 0 {
		die("seg.go: Elem.compIndex: `if e.CompIndex == nil { return <int> }; return *e.CompIndex` not recognised")
	}

	// ---- JSON schema: what validation demands of the delimiters ----
	raw, err := os.ReadFile(filepath.Join(*repo, "extensions/omniv21/validation/ediFileDeclaration.json"))
	if err != nil {
		die("ediFileDeclaration.json: %v", err)
	}
	var js struct {
		Properties struct {
			FD struct {
				Properties map[string]struct {
					Type      string `json:"type"`
					MinLength *int   `json:"minLength"`
					MaxLength *int   `json:"maxLength"`
					Pattern   string `json:"pattern"`
				} `json:"properties"`
				Required []string `json:"required"`
			} `json:"file_declaration"`
		} `json:"properties"`
	}
	if err := json.Unmarshal(raw, &js); err != nil {
		die("ediFileDeclaration.json: %v", err)
	}
	minLen := func(k string) int {
		p, ok := js.Properties.FD.Properties[k]
		if !ok || p.Type != "string" {
			die("ediFileDeclaration.json: %s is not a string property", k)
		}
		if p.MaxLength != nil || p.Pattern != "" {
			die("ediFileDeclaration.json: %s carries a constraint (maxLength/pattern) the model does not know", k)
		}
		if p.MinLength == nil {
			return 0
		}
		return *p.MinLength
	}
	req := func(k string) string {
		for _, x := range js.Properties.FD.Required {
			if x == k {
				return "true"
			}
		}
		return "false"
	}

	nl := func(b []byte) string {
		var xs []string
		for _, x := range b {
			xs = append(xs, fmt.Sprintf("%d%%N", x))
		}
		return "(" + strings.Join(xs, " :: ") + " :: nil)"
	}
	var sb strings.Builder
	sb.WriteString("(* GENERATED by harness/cmd/extract from /repo -- do not edit.\n   edi/reader2.go, edi/reader.go, edi/seg.go, validation/ediFileDeclaration.json: the facts\n   Model/Edi.v is defined over. *)\n")
	sb.WriteString("From Coq Require Import Bool List NArith.\nFrom OV Require Import Base.ErrClass.\n")
	sb.WriteString("(* readToken: noSegDelim := token[:len(token)-len(r.segDelim.b)] *)\nDefinition edi_strip_segdelim_by_length : bool := true.\n")
	fmt.Fprintf(&sb, "(* readToken: if *r.segDelim.strptr == <delim> && bytes.HasSuffix(noSegDelim, <suffix>) { drop <n> bytes } *)\n")
	fmt.Fprintf(&sb, "Definition edi_lf_rule_delim : list N := %s.\nDefinition edi_lf_rule_suffix : list N := %s.\nDefinition edi_lf_rule_drop : nat := %d.\n", nl(lfDelim), nl(lfSuffix), lfDrop)
	var bl []string
	for _, rn := range blank {
		bl = append(bl, fmt.Sprintf("%d%%N", rn))
	}
	fmt.Fprintf(&sb, "(* runeCountAndHasOnlyCRLF: the runes of a token that is skipped *)\nDefinition edi_blank_runes : list N := (%s :: nil).\n", strings.Join(bl, " :: "))
	var ss []string
	for _, s := range strips {
		ss = append(ss, nl(s))
	}
	fmt.Fprintf(&sb, "(* NewNonValidatingReader: ignore_crlf replaces these byte sequences by nothing, in this order *)\nDefinition edi_ignore_crlf_strips : list (list N) := (%s :: nil).\n", strings.Join(ss, " :: "))
	fmt.Fprintf(&sb, "(* error classes, by the constructor of the returned error *)\nDefinition edi_missing_name_class : rcls := %s.\nDefinition edi_missing_elem_class : rcls := %s.\nDefinition edi_reader_wrap_class : rcls := %s.\n", missingName, missingElem, wrap)
	fmt.Fprintf(&sb, "(* rawSegToNode: a declaration matching nothing yields its default when *)\nDefinition edi_use_default (empty_if_missing has_default : bool) : bool := %s.\n", useDefault)
	fmt.Fprintf(&sb, "(* Elem.compIndex of a declaration without component_index *)\nDefinition edi_default_comp_index : nat := %d.\n", defComp)
	fmt.Fprintf(&sb, "(* ediFileDeclaration.json: minLength (0 = none) and required *)\n")
	for _, k := range []string{"segment_delimiter", "element_delimiter", "component_delimiter", "repetition_delimiter", "release_character"} {
		fmt.Fprintf(&sb, "Definition edi_schema_minlen_%s : nat := %d.\nDefinition edi_schema_required_%s : bool := %s.\n", k, minLen(k), k, req(k))
	}
	return sb.String()
}
