package main

// gen_encoding: coq/Gen/Encoding.v from header/header.go (supportedEncodingMappings, the default
// and the fallback name used by WrapEncoding) and schema.go (the order in which NewTransform
// applies WrapEncoding and ios.StripBOM to the input before handing it to the ingester).
//
// Only these shapes are translated; anything else fails loudly:
//   name constants      const encodingX = "literal"
//   a map entry         key: func(r io.Reader) io.Reader { return r }                               -> DecIdentity
//                       key: func(r io.Reader) io.Reader { return charmap.<CP>.NewDecoder().Reader(r) } -> Dec<CP>
//                       with <CP> one of ISO8859_1, Windows1252
//   WrapEncoding        f, found := supportedEncodingMappings[strs.StrPtrOrElse(p.Encoding, <default>)]
//                       if !found { f = supportedEncodingMappings[<fallback>] }
//                       return f(input)
//   NewTransform        a chain of StripBOM(..)/WrapEncoding(..) calls (directly nested, or through
//                       local variables) from the parameter `input` to the argument of NewIngester.

import (
	"fmt"
	"go/ast"
	"go/token"
	"strconv"
	"strings"
)

func stringConsts(f *ast.File) map[string]string {
	m := map[string]string{}
	for _, d := range f.Decls {
		gd, ok := d.(*ast.GenDecl)
		if !ok || gd.Tok != token.CONST {
			continue
		}
		for _, s := range gd.Specs {
			vs := s.(*ast.ValueSpec)
			for i, n := range vs.Names {
				if i < len(vs.Values) {
					if bl, ok := vs.Values[i].(*ast.BasicLit); ok && bl.Kind == token.STRING {
						if v, err := strconv.Unquote(bl.Value); err == nil {
							m[n.Name] = v
						}
					}
				}
			}
		}
	}
	return m
}

func strOf(rel string, e ast.Expr, consts map[string]string) string {
	switch x := e.(type) {
	case *ast.BasicLit:
		if x.Kind == token.STRING {
			if v, err := strconv.Unquote(x.Value); err == nil {
				return v
			}
		}
	case *ast.Ident:
		if v, ok := consts[x.Name]; ok {
			return v
		}
	}
	die("%s: encoding name is neither a string literal nor a string constant of the file", rel)
	return ""
}

// decoderOf classifies the body of one encodingMappingFunc literal.
func decoderOf(rel string, e ast.Expr) string {
	fl, ok := e.(*ast.FuncLit)
	if !ok || fl.Type.Params == nil || len(fl.Type.Params.List) != 1 || len(fl.Type.Params.List[0].Names) != 1 ||
		fl.Body == nil || len(fl.Body.List) != 1 {
		die("%s: supportedEncodingMappings value is not a one-statement func literal of one parameter", rel)
	}
	param := fl.Type.Params.List[0].Names[0].Name
	ret, ok := fl.Body.List[0].(*ast.ReturnStmt)
	if !ok || len(ret.Results) != 1 {
		die("%s: supportedEncodingMappings value body is not a single return", rel)
	}
	if isIdent(ret.Results[0], param) {
		return "DecIdentity"
	}
	// charmap.<CP>.NewDecoder().Reader(param)
	if c, ok := ret.Results[0].(*ast.CallExpr); ok && len(c.Args) == 1 && isIdent(c.Args[0], param) {
		if s, ok := c.Fun.(*ast.SelectorExpr); ok && s.Sel.Name == "Reader" {
			if c2, ok := s.X.(*ast.CallExpr); ok && len(c2.Args) == 0 {
				if s2, ok := c2.Fun.(*ast.SelectorExpr); ok && s2.Sel.Name == "NewDecoder" {
					if s3, ok := s2.X.(*ast.SelectorExpr); ok && isIdent(s3.X, "charmap") {
						switch s3.Sel.Name {
						case "ISO8859_1":
							return "DecISO8859_1"
						case "Windows1252":
							return "DecWindows1252"
						}
						die("%s: decoder charmap.%s is not one the model has a table for", rel, s3.Sel.Name)
					}
				}
			}
		}
	}
	die("%s: supportedEncodingMappings value shape not recognised", rel)
	return ""
}

func coqStr(s string) string { return `"` + strings.ReplaceAll(s, `"`, `""`) + `"` }

// stagesOf evaluates how expression e is derived from the parameter `input`.
func stagesOf(rel string, e ast.Expr, env map[string][]string) []string {
	switch x := e.(type) {
	case *ast.ParenExpr:
		return stagesOf(rel, x.X, env)
	case *ast.Ident:
		if st, ok := env[x.Name]; ok {
			return st
		}
	case *ast.CallExpr:
		if s, ok := x.Fun.(*ast.SelectorExpr); ok && len(x.Args) == 1 {
			switch s.Sel.Name {
			case "StripBOM":
				return append(append([]string(nil), stagesOf(rel, x.Args[0], env)...), "StStripBOM")
			case "WrapEncoding":
				return append(append([]string(nil), stagesOf(rel, x.Args[0], env)...), "StDecode")
			}
		}
	}
	die("%s: NewTransform: the reader handed to NewIngester is not derived from `input` by StripBOM/WrapEncoding calls only", rel)
	return nil
}

func containsStage(e ast.Node) bool {
	found := false
	ast.Inspect(e, func(n ast.Node) bool {
		if c, ok := n.(*ast.CallExpr); ok {
			if s, ok := c.Fun.(*ast.SelectorExpr); ok && (s.Sel.Name == "StripBOM" || s.Sel.Name == "WrapEncoding") {
				found = true
			}
		}
		return true
	})
	return found
}

func genEncoding() string {
	rel := "header/header.go"
	_, f := parseFile(rel)
	consts := stringConsts(f)

	// ---- supportedEncodingMappings ----
	var entries []string
	seen := map[string]bool{}
	foundMap := false
	for _, d := range f.Decls {
		gd, ok := d.(*ast.GenDecl)
		if !ok || gd.Tok != token.VAR {
			continue
		}
		for _, s := range gd.Specs {
			vs := s.(*ast.ValueSpec)
			for i, n := range vs.Names {
				if n.Name != "supportedEncodingMappings" || i >= len(vs.Values) {
					continue
				}
				cl, ok := vs.Values[i].(*ast.CompositeLit)
				if !ok {
					die("%s: supportedEncodingMappings is not a composite literal", rel)
				}
				foundMap = true
				for _, el := range cl.Elts {
					kv, ok := el.(*ast.KeyValueExpr)
					if !ok {
						die("%s: supportedEncodingMappings element is not key: value", rel)
					}
					name := strOf(rel, kv.Key, consts)
					if seen[name] {
						die("%s: duplicate encoding name %q", rel, name)
					}
					seen[name] = true
					entries = append(entries, fmt.Sprintf("(%s, %s)", coqStr(name), decoderOf(rel, kv.Value)))
				}
			}
		}
	}
	if !foundMap {
		die("%s: supportedEncodingMappings not found", rel)
	}

	// ---- WrapEncoding: default name and fallback name ----
	fd := findMethod(f, "WrapEncoding")
	if fd == nil || fd.Body == nil || len(fd.Body.List) != 3 || len(fd.Type.Params.List) != 1 || len(fd.Type.Params.List[0].Names) != 1 {
		die("%s: WrapEncoding not found or not three statements of one parameter", rel)
	}
	inParam := fd.Type.Params.List[0].Names[0].Name
	var defName, fbName string
	as, ok := fd.Body.List[0].(*ast.AssignStmt)
	if !ok || len(as.Lhs) != 2 || len(as.Rhs) != 1 {
		die("%s: WrapEncoding: first statement is not `f, found := map[...]`", rel)
	}
	fVar, foundVar := exprString(as.Lhs[0]), exprString(as.Lhs[1])
	ix, ok := as.Rhs[0].(*ast.IndexExpr)
	if !ok || !isIdent(ix.X, "supportedEncodingMappings") {
		die("%s: WrapEncoding: lookup is not in supportedEncodingMappings", rel)
	}
	call, ok := ix.Index.(*ast.CallExpr)
	if !ok || !isSel(call.Fun, "strs", "StrPtrOrElse") || len(call.Args) != 2 {
		die("%s: WrapEncoding: lookup key is not strs.StrPtrOrElse(p.Encoding, <default>)", rel)
	}
	if sel, ok := call.Args[0].(*ast.SelectorExpr); !ok || sel.Sel.Name != "Encoding" {
		die("%s: WrapEncoding: lookup key does not read the Encoding setting", rel)
	}
	defName = strOf(rel, call.Args[1], consts)
	ifs, ok := fd.Body.List[1].(*ast.IfStmt)
	if !ok || ifs.Init != nil || ifs.Else != nil || len(ifs.Body.List) != 1 {
		die("%s: WrapEncoding: second statement is not `if !found { f = ... }`", rel)
	}
	if u, ok := ifs.Cond.(*ast.UnaryExpr); !ok || u.Op != token.NOT || !isIdent(u.X, foundVar) {
		die("%s: WrapEncoding: condition is not !found", rel)
	}
	as2, ok := ifs.Body.List[0].(*ast.AssignStmt)
	if !ok || len(as2.Lhs) != 1 || len(as2.Rhs) != 1 || !isIdent(as2.Lhs[0], fVar) {
		die("%s: WrapEncoding: fallback is not an assignment to f", rel)
	}
	ix2, ok := as2.Rhs[0].(*ast.IndexExpr)
	if !ok || !isIdent(ix2.X, "supportedEncodingMappings") {
		die("%s: WrapEncoding: fallback is not a lookup in supportedEncodingMappings", rel)
	}
	fbName = strOf(rel, ix2.Index, consts)
	ret, ok := fd.Body.List[2].(*ast.ReturnStmt)
	if !ok || len(ret.Results) != 1 {
		die("%s: WrapEncoding: last statement is not a return", rel)
	}
	if c, ok := ret.Results[0].(*ast.CallExpr); !ok || !isIdent(c.Fun, fVar) || len(c.Args) != 1 || !isIdent(c.Args[0], inParam) {
		die("%s: WrapEncoding: does not return f(input)", rel)
	}

	// ---- schema.go NewTransform: order of the stages ----
	rel2 := "schema.go"
	_, f2 := parseFile(rel2)
	nt := findMethod(f2, "NewTransform")
	if nt == nil || nt.Body == nil {
		die("%s: NewTransform not found", rel2)
	}
	env := map[string][]string{}
	inputSeen := false
	for _, p := range nt.Type.Params.List {
		if isSel(p.Type, "io", "Reader") && len(p.Names) == 1 {
			env[p.Names[0].Name] = []string{}
			inputSeen = true
		}
	}
	if !inputSeen {
		die("%s: NewTransform has no single io.Reader parameter", rel2)
	}
	var order []string
	haveOrder := false
	for _, st := range nt.Body.List {
		as, ok := st.(*ast.AssignStmt)
		if !ok {
			if containsStage(st) {
				die("%s: NewTransform: StripBOM/WrapEncoding used outside a top-level assignment", rel2)
			}
			continue
		}
		if len(as.Rhs) != 1 {
			continue
		}
		c, ok := as.Rhs[0].(*ast.CallExpr)
		if !ok {
			continue
		}
		if s, ok := c.Fun.(*ast.SelectorExpr); ok && s.Sel.Name == "NewIngester" {
			if len(c.Args) != 2 {
				die("%s: NewTransform: NewIngester call shape not recognised", rel2)
			}
			order = stagesOf(rel2, c.Args[1], env)
			haveOrder = true
			continue
		}
		if containsStage(c) {
			if len(as.Lhs) < 1 || exprString(as.Lhs[0]) == "" {
				die("%s: NewTransform: stage result not assigned to a variable", rel2)
			}
			env[exprString(as.Lhs[0])] = stagesOf(rel2, c, env)
		}
	}
	if !haveOrder {
		die("%s: NewTransform: NewIngester call not found at top level", rel2)
	}

	var sb strings.Builder
	sb.WriteString("(* GENERATED by harness/cmd/extract from /repo -- do not edit.\n")
	sb.WriteString("   header/header.go: supportedEncodingMappings, WrapEncoding's default and fallback names;\n")
	sb.WriteString("   schema.go: the stages NewTransform applies to the input, first applied first. *)\n")
	sb.WriteString("From Coq Require Import String List.\nImport ListNotations.\nLocal Open Scope string_scope.\n")
	sb.WriteString("Inductive decoder_id := DecIdentity | DecISO8859_1 | DecWindows1252.\n")
	sb.WriteString("Inductive stage := StDecode | StStripBOM.\n")
	sb.WriteString("Definition enc_map : list (string * decoder_id) :=\n  [" + strings.Join(entries, "; ") + "].\n")
	sb.WriteString("Definition default_encoding : string := " + coqStr(defName) + ".\n")
	sb.WriteString("Definition fallback_encoding : string := " + coqStr(fbName) + ".\n")
	sb.WriteString("Definition pipeline_order : list stage := [" + strings.Join(order, "; ") + "].\n")
	return sb.String()
}
