package main

// moreGens lists the further generated files (added property by property).
func moreGens() []struct {
	name string
	fn   func() string
} {
	return []struct {
		name string
		fn   func() string
	}{
		{"Encoding.v", genEncoding},           // C18
		{"Conv.v", genConv},                   // C02
		{"EdiConsts.v", genEdiConsts},         // C07
		{"Safety.v", genSafety},               // C03
		{"DeclHash.v", genDeclHash},           // C13, C15
		{"NodeReset.v", genNodeReset},         // C12
		{"NodeOps.v", genNodeOps},             // C12
		{"C08Facts.v", genC08Facts},           // C08
		{"NavShape.v", genNavShape},           // C11
		{"CsvCfg.v", genCsvCfg},               // C06
		{"Occurs.v", genOccurs},               // C05
		{"DateTime.v", genDateTime},           // C19
		{"StreamSplit.v", genStreamSplit},     // C04, C17
		{"EdiShape.v", genEdiShape},           // C07
		{"ChildrenOrder.v", genChildrenOrder}, // C15
		{"FaultWrap.v", genFaultWrap},         // C16
		{"PkgVars.v", genPkgVars},             // C14
		{"EvalShape.v", genEvalShape},         // C02, C13
		{"LatchShape.v", genLatchShape},       // C01
	}
}
