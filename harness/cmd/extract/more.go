package main

// moreGens lists the further generated files (added property by property).
func moreGens() []struct {
	name string
	fn   func() string
} {
	return []struct {
		name string
		fn   func() string
	}{
		{"Encoding.v", genEncoding},   // C18
		{"Conv.v", genConv},           // C02
		{"EdiConsts.v", genEdiConsts}, // C07
		{"Safety.v", genSafety},       // C03
		{"DeclHash.v", genDeclHash},   // C13, C15
		{"EvalShape.v", genEvalShape}, // C02, C13
	}
}
