package main

// moreGens lists the further generated files (added property by property).
func moreGens() []struct {
	name string
	fn   func() string
} {
	return []struct {
		name string
		fn   func() string
	}{
		{"Safety.v", genSafety}, // C03
	}
}
