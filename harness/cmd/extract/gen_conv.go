package main

// gen_conv: coq/Gen/Conv.v from extensions/omniv21/transform/{value.go,decl.go}:
//   * the nested switch of resultTypeConversion as a table  reflect kind x result type -> conversion
//   * the order in which resolveKind tests the declaration fields
// Only the closed shapes found in the source today are recognised; anything else fails loudly.

import (
	"fmt"
	"go/ast"
	"go/token"
	"os"
	"path/filepath"
	"strings"
)

var convNames = map[string]string{
	"convStrToInt":    "CvStrToInt",
	"convStrToFloat":  "CvStrToFloat",
	"convStrToBool":   "CvStrToBool",
	"convIntToFloat":  "CvIntToFloat",
	"convUintToFloat": "CvUintToFloat",
	"convFloatToInt":  "CvFloatToInt",
	"convToStr":       "CvToStr",
}

// the bodies of the conv* helpers are pinned textually (they are one-liners over strconv/reflect/fmt)
var convBodies = map[string]string{
	"convStrToInt":    "strconv.ParseInt(v.(string), 10, 64)",
	"convStrToFloat":  "strconv.ParseFloat(v.(string), 64)",
	"convStrToBool":   "strconv.ParseBool(v.(string))",
	"convIntToFloat":  "float64(reflect.ValueOf(v).Int()), nil",
	"convUintToFloat": "float64(reflect.ValueOf(v).Uint()), nil",
	"convFloatToInt":  "int64(reflect.ValueOf(v).Float()), nil",
	"convToStr":       "fmt.Sprintf(\"%v\", v), nil",
}

var rtypeNames = map[string]string{
	"resultTypeInt":     "RInt",
	"resultTypeFloat":   "RFloat",
	"resultTypeBoolean": "RBoolean",
	"resultTypeString":  "RString",
}

var allRkinds = []string{"Bool", "Int", "Int8", "Int16", "Int32", "Int64", "Uint", "Uint8", "Uint16", "Uint32", "Uint64",
	"Float32", "Float64", "String", "Slice", "Map"}

func nodeSrc(rel string, fset *token.FileSet, n ast.Node, src []byte) string {
	return string(src[fset.Position(n.Pos()).Offset:fset.Position(n.End()).Offset])
}

func genConv() string {
	rel := "extensions/omniv21/transform/value.go"
	fset, f := parseFile(rel)
	src := readSrc(rel)

	// ---- pin the conv* helper bodies ----
	found := map[string]bool{}
	for _, d := range f.Decls {
		gd, ok := d.(*ast.GenDecl)
		if !ok || gd.Tok != token.VAR {
			continue
		}
		for _, sp := range gd.Specs {
			vs := sp.(*ast.ValueSpec)
			for i, nm := range vs.Names {
				want, ok := convBodies[nm.Name]
				if !ok || i >= len(vs.Values) {
					continue
				}
				fl, ok := vs.Values[i].(*ast.FuncLit)
				if !ok || len(fl.Body.List) != 1 {
					die("%s: %s is not a one-statement func literal", rel, nm.Name)
				}
				ret, ok := fl.Body.List[0].(*ast.ReturnStmt)
				if !ok {
					die("%s: %s body is not a return", rel, nm.Name)
				}
				var parts []string
				for _, r := range ret.Results {
					parts = append(parts, nodeSrc(rel, fset, r, src))
				}
				got := strings.Join(parts, ", ")
				if got != want {
					die("%s: %s body changed: %q (model pins %q)", rel, nm.Name, got, want)
				}
				found[nm.Name] = true
			}
		}
	}
	for nm := range convBodies {
		if !found[nm] {
			die("%s: helper %s not found", rel, nm)
		}
	}

	// ---- the nested switch ----
	fd := findFunc(f, "resultTypeConversion")
	if fd == nil || len(fd.Body.List) != 2 {
		die("%s: resultTypeConversion not found or body shape changed", rel)
	}
	if len(fd.Type.Params.List) != 2 || len(fd.Type.Params.List[0].Names) != 1 || len(fd.Type.Params.List[1].Names) != 1 {
		die("%s: resultTypeConversion parameters not recognised", rel)
	}
	vName := fd.Type.Params.List[0].Names[0].Name
	rtName := fd.Type.Params.List[1].Names[0].Name
	sw, ok := fd.Body.List[0].(*ast.SwitchStmt)
	if !ok || sw.Init != nil || nodeSrc(rel, fset, sw.Tag, src) != "reflect.ValueOf("+vName+").Kind()" {
		die("%s: resultTypeConversion: outer switch is not on reflect.ValueOf(v).Kind()", rel)
	}
	last, ok := fd.Body.List[1].(*ast.ReturnStmt)
	if !ok || len(last.Results) != 2 || !isIdent(last.Results[0], "nil") || !isIdent(last.Results[1], "errTypeConversionNotSupported") {
		die("%s: resultTypeConversion: fall-through is not `return nil, errTypeConversionNotSupported`", rel)
	}
	table := map[string]map[string]string{} // rkind -> rtype -> conv
	for _, st := range sw.Body.List {
		cc := st.(*ast.CaseClause)
		if cc.List == nil {
			die("%s: resultTypeConversion: outer default clause not expected", rel)
		}
		if len(cc.Body) != 1 {
			die("%s: resultTypeConversion: outer case body is not a single inner switch", rel)
		}
		inner, ok := cc.Body[0].(*ast.SwitchStmt)
		if !ok || inner.Init != nil || !isIdent(inner.Tag, rtName) {
			die("%s: resultTypeConversion: inner switch is not on the result type", rel)
		}
		row := map[string]string{}
		for _, ist := range inner.Body.List {
			icc := ist.(*ast.CaseClause)
			if icc.List == nil || len(icc.Body) != 1 {
				die("%s: resultTypeConversion: inner clause shape not recognised", rel)
			}
			ret, ok := icc.Body[0].(*ast.ReturnStmt)
			if !ok {
				die("%s: resultTypeConversion: inner clause is not a return", rel)
			}
			var cv string
			switch len(ret.Results) {
			case 2:
				if isIdent(ret.Results[0], vName) && isIdent(ret.Results[1], "nil") {
					cv = "CvId"
				}
			case 1:
				if call, ok := ret.Results[0].(*ast.CallExpr); ok && len(call.Args) == 1 && isIdent(call.Args[0], vName) {
					if id, ok := call.Fun.(*ast.Ident); ok {
						cv = convNames[id.Name]
					}
				}
			}
			if cv == "" {
				die("%s: resultTypeConversion: return shape not recognised: %s", rel, nodeSrc(rel, fset, ret, src))
			}
			for _, e := range icc.List {
				id, ok := e.(*ast.Ident)
				if !ok || rtypeNames[id.Name] == "" {
					die("%s: resultTypeConversion: unknown result type constant", rel)
				}
				if _, dup := row[rtypeNames[id.Name]]; dup {
					die("%s: duplicate inner case", rel)
				}
				row[rtypeNames[id.Name]] = cv
			}
		}
		for _, e := range cc.List {
			se, ok := e.(*ast.SelectorExpr)
			if !ok || !isIdent(se.X, "reflect") {
				die("%s: resultTypeConversion: outer case is not a reflect kind", rel)
			}
			known := false
			for _, k := range allRkinds {
				if k == se.Sel.Name {
					known = true
				}
			}
			if !known {
				die("%s: resultTypeConversion: reflect kind %s not known to the model", rel, se.Sel.Name)
			}
			if _, dup := table[se.Sel.Name]; dup {
				die("%s: duplicate outer case %s", rel, se.Sel.Name)
			}
			table[se.Sel.Name] = row
		}
	}

	// ---- resolveKind ----
	rel2 := "extensions/omniv21/transform/decl.go"
	_, f2 := parseFile(rel2)
	rk := findMethod(f2, "resolveKind")
	if rk == nil || len(rk.Body.List) != 1 {
		die("%s: resolveKind not found or body shape changed", rel2)
	}
	recv := rk.Recv.List[0].Names[0].Name
	ksw, ok := rk.Body.List[0].(*ast.SwitchStmt)
	if !ok || ksw.Tag != nil || ksw.Init != nil {
		die("%s: resolveKind is not a tagless switch", rel2)
	}
	fieldNames := map[string]string{"Const": "FConst", "External": "FExternal", "CustomFunc": "FCustomFunc", "CustomParse": "FCustomParse",
		"Object": "FObject", "Array": "FArray", "Template": "FTemplate"}
	kindNames := map[string]string{"kindConst": "KConst", "kindExternal": "KExternal", "kindField": "KField", "kindObject": "KObject",
		"kindArray": "KArray", "kindCustomFunc": "KCustomFunc", "kindCustomParse": "KCustomParse", "kindTemplate": "KTemplate"}
	assigned := func(body []ast.Stmt) string {
		if len(body) != 1 {
			die("%s: resolveKind clause body shape", rel2)
		}
		as, ok := body[0].(*ast.AssignStmt)
		if !ok || len(as.Lhs) != 1 || len(as.Rhs) != 1 || exprString(as.Lhs[0]) != recv+".kind" {
			die("%s: resolveKind clause is not `d.kind = ...`", rel2)
		}
		id, ok := as.Rhs[0].(*ast.Ident)
		if !ok || kindNames[id.Name] == "" {
			die("%s: resolveKind assigns an unknown kind", rel2)
		}
		return kindNames[id.Name]
	}
	var order []string
	def := ""
	for i, st := range ksw.Body.List {
		cc := st.(*ast.CaseClause)
		if cc.List == nil {
			if i != len(ksw.Body.List)-1 {
				die("%s: resolveKind default is not last", rel2)
			}
			def = assigned(cc.Body)
			continue
		}
		if len(cc.List) != 1 {
			die("%s: resolveKind case with several expressions", rel2)
		}
		be, ok := cc.List[0].(*ast.BinaryExpr)
		if !ok || be.Op != token.NEQ || !isIdent(be.Y, "nil") {
			die("%s: resolveKind case is not `d.X != nil`", rel2)
		}
		se, ok := be.X.(*ast.SelectorExpr)
		if !ok || !isIdent(se.X, recv) || fieldNames[se.Sel.Name] == "" {
			die("%s: resolveKind tests an unknown field", rel2)
		}
		order = append(order, fmt.Sprintf("(%s, %s)", fieldNames[se.Sel.Name], assigned(cc.Body)))
	}
	if def == "" {
		die("%s: resolveKind has no default", rel2)
	}

	var sb strings.Builder
	sb.WriteString("(* GENERATED by harness/cmd/extract from /repo -- do not edit.\n")
	sb.WriteString("   transform/value.go resultTypeConversion (reflect kind x result type -> conversion) and\n")
	sb.WriteString("   transform/decl.go resolveKind (order in which the declaration fields are tested). *)\n")
	sb.WriteString("From Coq Require Import List.\nImport ListNotations.\n\n")
	sb.WriteString("Inductive kind := KConst | KExternal | KField | KObject | KArray | KCustomFunc | KCustomParse | KTemplate.\n")
	sb.WriteString("Inductive dfield := FConst | FExternal | FCustomFunc | FCustomParse | FObject | FArray | FTemplate.\n")
	sb.WriteString("Inductive rtype := RInt | RFloat | RBoolean | RString.\n")
	sb.WriteString("Inductive rkind := ")
	for _, k := range allRkinds {
		sb.WriteString("Rk" + k + " | ")
	}
	sb.WriteString("RkInvalid.\n")
	sb.WriteString("Inductive conv := CvId | CvStrToInt | CvStrToFloat | CvStrToBool | CvIntToFloat | CvUintToFloat | CvFloatToInt | CvToStr | CvNotSupported.\n\n")
	sb.WriteString("Definition conv_table (k : rkind) (t : rtype) : conv :=\n  match k, t with\n")
	for _, k := range allRkinds {
		row, ok := table[k]
		if !ok {
			continue
		}
		for _, t := range []string{"RInt", "RFloat", "RBoolean", "RString"} {
			if cv, ok := row[t]; ok {
				fmt.Fprintf(&sb, "  | Rk%s, %s => %s\n", k, t, cv)
			}
		}
	}
	sb.WriteString("  | _, _ => CvNotSupported\n  end.\n\n")
	sb.WriteString("Definition kind_order : list (dfield * kind) :=\n  [" + strings.Join(order, "; ") + "].\n")
	sb.WriteString("Definition kind_default : kind := " + def + ".\n")
	return sb.String()
}

func readSrc(rel string) []byte {
	b, err := os.ReadFile(filepath.Join(*repo, rel))
	if err != nil {
		die("cannot read %s: %v", rel, err)
	}
	return b
}
