package main

// Gen/PkgVars.v (C14): every package-level `var` of the library packages of the repository, with
// a coarse kind (from its type / initialiser) and whether any function of its package assigns to
// it, indexes-and-assigns it, increments it or takes its address.  Process-wide mutable state
// lives in exactly these variables: the C14 theorems list the ones the model accounts for, and a
// variable that is not accounted for makes `process_state_accounted` stop checking.
// Files ending in _test.go and files behind the build tag `verif` are not part of the library.
import (
	"fmt"
	"go/ast"
	"go/parser"
	"go/token"
	"os"
	"path/filepath"
	"sort"
	"strings"
)

type pkgVar struct {
	pkg, name, kind string
	written         bool
}

func varKind(typ ast.Expr, val ast.Expr) string {
	kindOfType := func(t ast.Expr) string {
		switch x := t.(type) {
		case *ast.MapType:
			return "KMap"
		case *ast.ArrayType:
			return "KSlice"
		case *ast.StarExpr:
			return "KPtr"
		case *ast.FuncType:
			return "KFunc"
		case *ast.ChanType:
			return "KSync"
		case *ast.SelectorExpr:
			if id, ok := x.X.(*ast.Ident); ok && (id.Name == "sync" || id.Name == "atomic") {
				return "KSync"
			}
			return "KOther"
		case *ast.Ident:
			switch x.Name {
			case "string", "bool", "int", "int8", "int16", "int32", "int64", "uint", "uint8", "uint16", "uint32", "uint64", "float32", "float64", "byte", "rune", "uintptr":
				return "KScalar"
			case "error":
				return "KErr"
			}
			return "KOther"
		case *ast.InterfaceType:
			return "KOther"
		}
		return "KOther"
	}
	if typ != nil {
		return kindOfType(typ)
	}
	switch x := val.(type) {
	case *ast.BasicLit:
		return "KScalar"
	case *ast.Ident:
		if x.Name == "true" || x.Name == "false" {
			return "KScalar"
		}
		return "KOther"
	case *ast.FuncLit:
		return "KFunc"
	case *ast.CompositeLit:
		if x.Type != nil {
			return kindOfType(x.Type)
		}
		return "KOther"
	case *ast.UnaryExpr:
		if x.Op == token.AND {
			return "KPtr"
		}
		return varKind(nil, x.X)
	case *ast.BinaryExpr:
		return "KScalar" // arithmetic / concatenation of constants
	case *ast.CallExpr:
		if s, ok := x.Fun.(*ast.SelectorExpr); ok {
			if id, ok := s.X.(*ast.Ident); ok {
				if (id.Name == "errors" && s.Sel.Name == "New") || (id.Name == "fmt" && s.Sel.Name == "Errorf") {
					return "KErr"
				}
			}
		}
		if id, ok := x.Fun.(*ast.Ident); ok && len(x.Args) == 1 {
			switch id.Name { // conversions such as int64(0), uint(1) << iota
			case "string", "int", "int64", "uint", "uint64", "float64", "byte", "rune":
				return "KScalar"
			}
		}
		return "KCall"
	}
	return "KOther"
}

func rootIdent(e ast.Expr) string {
	for {
		switch x := e.(type) {
		case *ast.Ident:
			return x.Name
		case *ast.IndexExpr:
			e = x.X
		case *ast.SelectorExpr:
			e = x.X
		case *ast.StarExpr:
			e = x.X
		case *ast.ParenExpr:
			e = x.X
		default:
			return ""
		}
	}
}

func libraryDirs() []string {
	var dirs []string
	_ = filepath.Walk(*repo, func(p string, info os.FileInfo, err error) error {
		if err != nil || !info.IsDir() {
			return nil
		}
		rel, _ := filepath.Rel(*repo, p)
		base := filepath.Base(p)
		if rel != "." && (strings.HasPrefix(base, ".") || base == "cli" || base == "samples" || base == "doc" || base == "testdata" || base == "vendor") {
			return filepath.SkipDir
		}
		dirs = append(dirs, rel)
		return nil
	})
	sort.Strings(dirs)
	return dirs
}

func scanPkgVars() []pkgVar {
	var out []pkgVar
	for _, dir := range libraryDirs() {
		ents, _ := os.ReadDir(filepath.Join(*repo, dir))
		var files []*ast.File
		for _, e := range ents {
			n := e.Name()
			if e.IsDir() || !strings.HasSuffix(n, ".go") || strings.HasSuffix(n, "_test.go") {
				continue
			}
			src, err := os.ReadFile(filepath.Join(*repo, dir, n))
			if err != nil {
				continue
			}
			head := string(src)
			if i := strings.Index(head, "\npackage "); i >= 0 {
				head = head[:i]
			}
			if strings.Contains(head, "go:build verif") || strings.Contains(head, "+build verif") {
				continue
			}
			f, err := parser.ParseFile(token.NewFileSet(), n, src, 0)
			if err != nil {
				continue // the build step reports it
			}
			files = append(files, f)
		}
		vars := map[string]*pkgVar{}
		var order []string
		for _, f := range files {
			for _, d := range f.Decls {
				gd, ok := d.(*ast.GenDecl)
				if !ok || gd.Tok != token.VAR {
					continue
				}
				for _, sp := range gd.Specs {
					vs := sp.(*ast.ValueSpec)
					for i, nm := range vs.Names {
						if nm.Name == "_" {
							continue
						}
						var val ast.Expr
						if i < len(vs.Values) {
							val = vs.Values[i]
						}
						vars[nm.Name] = &pkgVar{pkg: filepath.ToSlash(dir), name: nm.Name, kind: varKind(vs.Type, val)}
						order = append(order, nm.Name)
					}
				}
			}
		}
		if len(vars) == 0 {
			continue
		}
		mark := func(e ast.Expr) {
			if v, ok := vars[rootIdent(e)]; ok {
				v.written = true
			}
		}
		for _, f := range files {
			for _, d := range f.Decls {
				fd, ok := d.(*ast.FuncDecl)
				if !ok || fd.Body == nil {
					continue
				}
				ast.Inspect(fd.Body, func(n ast.Node) bool {
					switch x := n.(type) {
					case *ast.AssignStmt:
						if x.Tok != token.DEFINE {
							for _, l := range x.Lhs {
								mark(l)
							}
						}
					case *ast.IncDecStmt:
						mark(x.X)
					case *ast.UnaryExpr:
						if x.Op == token.AND {
							mark(x.X)
						}
					}
					return true
				})
			}
		}
		sort.Strings(order)
		for _, n := range order {
			out = append(out, *vars[n])
		}
	}
	return out
}

func genPkgVars() string {
	var sb strings.Builder
	sb.WriteString("(* GENERATED by harness/cmd/extract from the package-level `var` declarations of the library\n   packages of the repository (go/ast scan; _test.go files and files behind the build tag verif\n   excluded).  pv_written: some function of the package assigns to / increments / takes the\n   address of the variable.  Do not edit. *)\n")
	sb.WriteString("From Coq Require Import String List Bool.\nImport ListNotations.\nLocal Open Scope string_scope.\n\n")
	sb.WriteString("Inductive vkind := KErr | KMap | KSlice | KSync | KPtr | KCall | KScalar | KFunc | KOther.\n")
	sb.WriteString("Record pkgvar := mkPV { pv_pkg : string; pv_name : string; pv_kind : vkind; pv_written : bool }.\n\n")
	sb.WriteString("Definition pkg_vars : list pkgvar := [\n")
	vs := scanPkgVars()
	for i, v := range vs {
		sep := ";"
		if i == len(vs)-1 {
			sep = ""
		}
		fmt.Fprintf(&sb, "  mkPV %q %q %s %v%s\n", v.pkg, v.name, v.kind, v.written, sep)
	}
	sb.WriteString("].\n")
	return sb.String()
}
