package main

// gen_time: coq/Gen/DateTime.v from customfuncs/datetime.go (C19):
//   - the two zone steps of parseDateTime after the parse (guard, operation, whether hasTZ is set),
//   - the epoch unit strings and, per unit, the arithmetic expression of DateTimeToEpoch and of
//     EpochToDateTimeRFC3339, translated into the int64 vocabulary of Model/Int64.v,
//   - the default zone of EpochToDateTimeRFC3339.
// Anything whose shape is not recognised fails loudly; only C19's theorems depend on this file.

import (
	"fmt"
	"go/ast"
	"go/token"
	"strings"
)

const relDT = "customfuncs/datetime.go"

// zexpr translates an int64-valued Go expression over t (time.Time) / n (int64).
func zexpr(e ast.Expr) string {
	switch x := e.(type) {
	case *ast.ParenExpr:
		return zexpr(x.X)
	case *ast.BasicLit:
		if x.Kind == token.INT {
			return x.Value
		}
	case *ast.Ident:
		if x.Name == "n" {
			return "n"
		}
	case *ast.BinaryExpr:
		op := map[token.Token]string{token.ADD: "add64", token.SUB: "sub64", token.MUL: "mul64", token.QUO: "quot64", token.REM: "rem64"}[x.Op]
		if op != "" {
			return "(" + op + " " + zexpr(x.X) + " " + zexpr(x.Y) + ")"
		}
	case *ast.SelectorExpr:
		if isIdent(x.X, "time") {
			switch x.Sel.Name {
			case "Millisecond":
				return "MS_NS"
			case "Second":
				return "NS"
			case "Microsecond":
				return "1000"
			case "Nanosecond":
				return "1"
			}
		}
	case *ast.CallExpr:
		if isIdent(x.Fun, "int64") && len(x.Args) == 1 {
			return zexpr(x.Args[0]) // value-preserving conversion (int, time.Duration)
		}
		if s, ok := x.Fun.(*ast.SelectorExpr); ok && isIdent(s.X, "t") && len(x.Args) == 0 {
			switch s.Sel.Name {
			case "Unix":
				return "(sec t)"
			case "Nanosecond":
				return "(nsec t)"
			case "UnixNano":
				return "(unix_nano t)"
			}
		}
	}
	die("%s: epoch arithmetic: expression shape not recognised", relDT)
	return ""
}

func tzBool(e ast.Expr) string {
	switch x := e.(type) {
	case *ast.ParenExpr:
		return tzBool(x.X)
	case *ast.Ident:
		if x.Name == "hasTZ" {
			return "hasTZ"
		}
	case *ast.UnaryExpr:
		if x.Op == token.NOT {
			return "(negb " + tzBool(x.X) + ")"
		}
	case *ast.BinaryExpr:
		switch x.Op {
		case token.LAND:
			return "(andb " + tzBool(x.X) + " " + tzBool(x.Y) + ")"
		case token.LOR:
			return "(orb " + tzBool(x.X) + " " + tzBool(x.Y) + ")"
		case token.NEQ, token.EQL:
			if id, ok := x.X.(*ast.Ident); ok && (id.Name == "fromTZ" || id.Name == "toTZ") {
				if bl, ok := x.Y.(*ast.BasicLit); ok && bl.Value == `""` {
					v := "tz_empty"
					if x.Op == token.NEQ {
						return "(negb " + v + ")"
					}
					return v
				}
			}
		}
	}
	die("%s: parseDateTime: guard shape not recognised", relDT)
	return ""
}

// tzOp reads `t, err = times.<Op>(t, <tz>)` [`hasTZ = true`] and returns (op, sets).
func tzOp(stmts []ast.Stmt, tz string) (string, bool) {
	if len(stmts) == 0 {
		die("%s: parseDateTime: empty zone step", relDT)
	}
	as, ok := stmts[0].(*ast.AssignStmt)
	if !ok || len(as.Rhs) != 1 {
		die("%s: parseDateTime: zone step does not start with an assignment", relDT)
	}
	c, ok := as.Rhs[0].(*ast.CallExpr)
	if !ok || len(c.Args) != 2 || !isIdent(c.Args[0], "t") || !isIdent(c.Args[1], tz) {
		die("%s: parseDateTime: zone step is not times.<Op>(t, %s)", relDT, tz)
	}
	op := ""
	switch {
	case isSel(c.Fun, "times", "OverwriteTZ"):
		op = "OpOverwrite"
	case isSel(c.Fun, "times", "ConvertTZ"):
		op = "OpConvert"
	default:
		die("%s: parseDateTime: unknown zone operation", relDT)
	}
	sets := false
	for _, st := range stmts[1:] {
		if a, ok := st.(*ast.AssignStmt); ok && len(a.Lhs) == 1 && isIdent(a.Lhs[0], "hasTZ") && len(a.Rhs) == 1 && isIdent(a.Rhs[0], "true") {
			sets = true
			continue
		}
		if ifs, ok := st.(*ast.IfStmt); ok && isErrCheck(ifs) {
			continue
		}
		die("%s: parseDateTime: unexpected statement in a zone step", relDT)
	}
	return op, sets
}

func isErrCheck(ifs *ast.IfStmt) bool {
	b, ok := ifs.Cond.(*ast.BinaryExpr)
	return ok && b.Op == token.NEQ && isIdent(b.X, "err") && isIdent(b.Y, "nil") && ifs.Else == nil
}

func coqB(b bool) string {
	if b {
		return "true"
	}
	return "false"
}

func genDateTime() string {
	_, f := parseFile(relDT)
	consts := stringConsts(f)
	unitName := map[string]string{"epochUnitMilliseconds": "UMillisecond", "epochUnitSeconds": "USecond"}
	for id := range unitName {
		if _, ok := consts[id]; !ok {
			die("%s: constant %s not found", relDT, id)
		}
	}

	// ---- parseDateTime: last three statements = from step, to step, return ----
	pd := findFunc(f, "parseDateTime")
	if pd == nil || pd.Body == nil || len(pd.Body.List) < 4 {
		die("%s: parseDateTime not found", relDT)
	}
	l := pd.Body.List
	fromIf, ok1 := l[len(l)-3].(*ast.IfStmt)
	toIf, ok2 := l[len(l)-2].(*ast.IfStmt)
	ret, ok3 := l[len(l)-1].(*ast.ReturnStmt)
	if !ok1 || !ok2 || !ok3 || fromIf.Else != nil || toIf.Else != nil || fromIf.Init != nil || toIf.Init != nil ||
		len(ret.Results) != 3 || !isIdent(ret.Results[0], "t") || !isIdent(ret.Results[1], "hasTZ") {
		die("%s: parseDateTime does not end with the from step, the to step and `return t, hasTZ, nil`", relDT)
	}
	fromGuard := tzBool(fromIf.Cond)
	fromOp, fromSets := tzOp(fromIf.Body.List, "fromTZ")
	toGuard := tzBool(toIf.Cond)
	if len(toIf.Body.List) != 2 {
		die("%s: parseDateTime: to step is not `if hasTZ {..} else {..}; if err != nil {..}`", relDT)
	}
	inner, ok := toIf.Body.List[0].(*ast.IfStmt)
	errIf, ok2 := toIf.Body.List[1].(*ast.IfStmt)
	if !ok || !ok2 || !isIdent(inner.Cond, "hasTZ") || inner.Else == nil || !isErrCheck(errIf) {
		die("%s: parseDateTime: to step shape not recognised", relDT)
	}
	elseBlk, ok := inner.Else.(*ast.BlockStmt)
	if !ok {
		die("%s: parseDateTime: to step else branch not a block", relDT)
	}
	toOpHas, toSetsHas := tzOp(inner.Body.List, "toTZ")
	toOpNo, toSetsNo := tzOp(elseBlk.List, "toTZ")

	// ---- epoch switches ----
	type unitExpr struct{ unit, expr string }
	caseUnit := func(cc *ast.CaseClause, fn string) string {
		if len(cc.List) != 1 {
			die("%s: %s: switch case with several values", relDT, fn)
		}
		id, ok := cc.List[0].(*ast.Ident)
		if !ok || unitName[id.Name] == "" {
			die("%s: %s: switch case is not one of the epoch unit constants", relDT, fn)
		}
		return id.Name
	}
	findSwitch := func(fd *ast.FuncDecl, fn string) *ast.SwitchStmt {
		for _, st := range fd.Body.List {
			if sw, ok := st.(*ast.SwitchStmt); ok && isIdent(sw.Tag, "unit") {
				return sw
			}
		}
		die("%s: %s: `switch unit` not found", relDT, fn)
		return nil
	}
	var toExprs, fromExprs []unitExpr
	te := findFunc(f, "DateTimeToEpoch")
	fe := findFunc(f, "EpochToDateTimeRFC3339")
	if te == nil || fe == nil {
		die("%s: epoch functions not found", relDT)
	}
	for _, st := range findSwitch(te, "DateTimeToEpoch").Body.List {
		cc := st.(*ast.CaseClause)
		if cc.List == nil {
			continue // default: error
		}
		u := caseUnit(cc, "DateTimeToEpoch")
		if len(cc.Body) != 1 {
			die("%s: DateTimeToEpoch: case body is not a single return", relDT)
		}
		r, ok := cc.Body[0].(*ast.ReturnStmt)
		if !ok || len(r.Results) != 2 {
			die("%s: DateTimeToEpoch: case body is not a return of two values", relDT)
		}
		c, ok := r.Results[0].(*ast.CallExpr)
		if !ok || !isSel(c.Fun, "strconv", "FormatInt") || len(c.Args) != 2 {
			die("%s: DateTimeToEpoch: result is not strconv.FormatInt(<expr>, 10)", relDT)
		}
		if bl, ok := c.Args[1].(*ast.BasicLit); !ok || bl.Value != "10" {
			die("%s: DateTimeToEpoch: result is not formatted in base 10", relDT)
		}
		toExprs = append(toExprs, unitExpr{u, zexpr(c.Args[0])})
	}
	for _, st := range findSwitch(fe, "EpochToDateTimeRFC3339").Body.List {
		cc := st.(*ast.CaseClause)
		if cc.List == nil {
			continue
		}
		u := caseUnit(cc, "EpochToDateTimeRFC3339")
		if len(cc.Body) != 1 {
			die("%s: EpochToDateTimeRFC3339: case body is not a single assignment", relDT)
		}
		as, ok := cc.Body[0].(*ast.AssignStmt)
		if !ok || len(as.Lhs) != 1 || !isIdent(as.Lhs[0], "t") || len(as.Rhs) != 1 {
			die("%s: EpochToDateTimeRFC3339: case body is not `t = ...`", relDT)
		}
		c, ok := as.Rhs[0].(*ast.CallExpr)
		if !ok || !isSel(c.Fun, "time", "Unix") || len(c.Args) != 2 {
			die("%s: EpochToDateTimeRFC3339: case body is not t = time.Unix(a, b)", relDT)
		}
		fromExprs = append(fromExprs, unitExpr{u, "time_unix " + zexpr(c.Args[0]) + " " + zexpr(c.Args[1])})
	}
	if len(toExprs) != 2 || len(fromExprs) != 2 {
		die("%s: the epoch switches do not have exactly the two unit cases", relDT)
	}
	// the epoch string is parsed in base 10, the default zone
	base10, defTZ := false, ""
	ast.Inspect(fe, func(n ast.Node) bool {
		if c, ok := n.(*ast.CallExpr); ok && isSel(c.Fun, "strconv", "ParseInt") && len(c.Args) == 3 {
			if bl, ok := c.Args[1].(*ast.BasicLit); ok && bl.Value == "10" {
				base10 = true
			}
		}
		if as, ok := n.(*ast.AssignStmt); ok && as.Tok == token.DEFINE && len(as.Lhs) == 1 && isIdent(as.Lhs[0], "timezone") && len(as.Rhs) == 1 {
			if bl, ok := as.Rhs[0].(*ast.BasicLit); ok && bl.Kind == token.STRING {
				defTZ = strings.Trim(bl.Value, `"`)
			}
		}
		return true
	})
	if !base10 {
		die("%s: EpochToDateTimeRFC3339 does not parse the epoch with strconv.ParseInt(_, 10, _)", relDT)
	}
	if defTZ == "" {
		die("%s: EpochToDateTimeRFC3339: default zone not found", relDT)
	}

	var sb strings.Builder
	sb.WriteString("(* GENERATED by harness/cmd/extract from /repo customfuncs/datetime.go -- do not edit. *)\n")
	sb.WriteString("From Coq Require Import ZArith String Bool List.\nImport ListNotations.\nFrom OV Require Import Model.Int64.\nLocal Open Scope Z_scope.\n")
	sb.WriteString("(* parseDateTime after the parse: `if <from_step_guard> { t = <from_step_op>(t, fromTZ); [hasTZ = true] }`\n   `if <to_step_guard> { if hasTZ { t = <op>(t, toTZ) [..] } else { t = <op>(t, toTZ) [..] } }` *)\n")
	sb.WriteString("Inductive tzop := OpOverwrite | OpConvert.\n")
	fmt.Fprintf(&sb, "Definition from_step_guard (hasTZ tz_empty : bool) : bool := %s.\n", fromGuard)
	fmt.Fprintf(&sb, "Definition from_step_op : tzop := %s.\nDefinition from_step_sets_has_tz : bool := %s.\n", fromOp, coqB(fromSets))
	fmt.Fprintf(&sb, "Definition to_step_guard (hasTZ tz_empty : bool) : bool := %s.\n", toGuard)
	fmt.Fprintf(&sb, "Definition to_step_op (hasTZ : bool) : tzop := if hasTZ then %s else %s.\n", toOpHas, toOpNo)
	fmt.Fprintf(&sb, "Definition to_step_sets_has_tz (hasTZ : bool) : bool := if hasTZ then %s else %s.\n", coqB(toSetsHas), coqB(toSetsNo))
	sb.WriteString("(* the epoch units: constant strings and, per unit, the expressions of DateTimeToEpoch\n   (strconv.FormatInt(_, 10)) and EpochToDateTimeRFC3339 (strconv.ParseInt(_, 10, 64)) *)\n")
	sb.WriteString("Inductive eunit := USecond | UMillisecond.\n")
	sb.WriteString("Local Open Scope string_scope.\n")
	fmt.Fprintf(&sb, "Definition unit_of_string (s : string) : option eunit :=\n  if String.eqb s %s then Some UMillisecond else if String.eqb s %s then Some USecond else None.\n",
		coqStr(consts["epochUnitMilliseconds"]), coqStr(consts["epochUnitSeconds"]))
	fmt.Fprintf(&sb, "Definition epoch_default_zone : string := %s.\n", coqStr(defTZ))
	sb.WriteString("Local Close Scope string_scope.\n")
	pick := func(xs []unitExpr, id string) string {
		for _, x := range xs {
			if x.unit == id {
				return x.expr
			}
		}
		die("%s: unit %s has no case", relDT, id)
		return ""
	}
	fmt.Fprintf(&sb, "Definition to_epoch_expr (u : eunit) (t : instant) : Z :=\n  match u with\n  | UMillisecond => %s\n  | USecond => %s\n  end.\n",
		pick(toExprs, "epochUnitMilliseconds"), pick(toExprs, "epochUnitSeconds"))
	fmt.Fprintf(&sb, "Definition from_epoch_expr (u : eunit) (n : Z) : instant :=\n  match u with\n  | UMillisecond => %s\n  | USecond => %s\n  end.\n",
		pick(fromExprs, "epochUnitMilliseconds"), pick(fromExprs, "epochUnitSeconds"))
	return sb.String()
}
