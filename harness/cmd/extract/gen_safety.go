package main

// Gen/Safety.v: facts the C03 theorems depend on, re-read from the sources on every run:
//   * the delimiter validation of the csv and csv2 formats (the boolean expression of
//     isValidDelimiter, and whether validateFileDecl applies it to the decoded delimiter);
//   * the JSON-schema bounds (minLength/maxLength/minimum) the in-code validators rely on, read
//     from the compiled-in schema constants (extensions/omniv21/validation/*.go).
import (
	"encoding/json"
	"fmt"
	"go/ast"
	"go/token"
	"strconv"
	"strings"
)

func delimExpr(rel string, e ast.Expr, arg string) string {
	switch x := e.(type) {
	case *ast.ParenExpr:
		return delimExpr(rel, x.X, arg)
	case *ast.UnaryExpr:
		if x.Op == token.NOT {
			return "(negb " + delimExpr(rel, x.X, arg) + ")"
		}
	case *ast.BinaryExpr:
		switch x.Op {
		case token.LAND:
			return "(andb " + delimExpr(rel, x.X, arg) + " " + delimExpr(rel, x.Y, arg) + ")"
		case token.LOR:
			return "(orb " + delimExpr(rel, x.X, arg) + " " + delimExpr(rel, x.Y, arg) + ")"
		case token.NEQ, token.EQL:
			var lit ast.Expr
			if isIdent(x.X, arg) {
				lit = x.Y
			} else if isIdent(x.Y, arg) {
				lit = x.X
			}
			if lit != nil {
				if v, ok := runeLit(lit); ok {
					if x.Op == token.NEQ {
						return "(negb (N.eqb delim " + v + "))"
					}
					return "(N.eqb delim " + v + ")"
				}
			}
		}
	case *ast.CallExpr:
		if isSel(x.Fun, "utf8", "ValidRune") && len(x.Args) == 1 && isIdent(x.Args[0], arg) {
			return "(valid_rune delim)"
		}
	case *ast.Ident:
		if x.Name == "true" || x.Name == "false" {
			return x.Name
		}
	}
	die("%s: isValidDelimiter: expression shape not recognised", rel)
	return ""
}

func runeLit(e ast.Expr) (string, bool) {
	switch x := e.(type) {
	case *ast.BasicLit:
		switch x.Kind {
		case token.INT:
			if n, err := strconv.ParseInt(x.Value, 0, 64); err == nil && n >= 0 {
				return fmt.Sprintf("%d", n), true
			}
		case token.CHAR:
			if r, _, _, err := strconv.UnquoteChar(x.Value[1:len(x.Value)-1], '\''); err == nil {
				return fmt.Sprintf("%d", r), true
			}
		}
	case *ast.SelectorExpr:
		if isSel(x, "utf8", "RuneError") {
			return "RuneError", true
		}
		if isSel(x, "utf8", "MaxRune") {
			return "MaxRune", true
		}
	}
	return "", false
}

// delimCheck returns the Coq body of the delimiter check a format applies at schema validation:
// the translated isValidDelimiter when validateFileDecl rejects `!isValidDelimiter(delim)` for
// delim decoded from decl.Delimiter, and `true` (no check) when there is no such statement.
func delimCheck(rel string) string {
	_, f := parseFile(rel)
	vd := findMethod(f, "validateFileDecl")
	if vd == nil || vd.Body == nil {
		die("%s: validateFileDecl not found", rel)
	}
	applied := false
	ast.Inspect(vd.Body, func(n ast.Node) bool {
		ifs, ok := n.(*ast.IfStmt)
		if !ok {
			return true
		}
		un, ok := ifs.Cond.(*ast.UnaryExpr)
		if !ok || un.Op != token.NOT {
			return true
		}
		call, ok := un.X.(*ast.CallExpr)
		if !ok || !isIdent(call.Fun, "isValidDelimiter") || len(call.Args) != 1 {
			return true
		}
		as, ok := ifs.Init.(*ast.AssignStmt)
		if !ok || len(as.Lhs) != 2 || len(as.Rhs) != 1 || exprString(as.Lhs[0]) != exprString(call.Args[0]) {
			die("%s: validateFileDecl: the argument of isValidDelimiter is not decoded in the if statement", rel)
		}
		dec, ok := as.Rhs[0].(*ast.CallExpr)
		if !ok || !isSel(dec.Fun, "utf8", "DecodeRuneInString") || len(dec.Args) != 1 || exprString(dec.Args[0]) != "decl.Delimiter" {
			die("%s: validateFileDecl: delimiter is not decoded with utf8.DecodeRuneInString(decl.Delimiter)", rel)
		}
		if len(ifs.Body.List) == 0 {
			die("%s: validateFileDecl: delimiter check has an empty body", rel)
		}
		if _, ok := ifs.Body.List[len(ifs.Body.List)-1].(*ast.ReturnStmt); !ok {
			die("%s: validateFileDecl: delimiter check does not return", rel)
		}
		applied = true
		return false
	})
	if !applied {
		return "true"
	}
	fd := findFunc(f, "isValidDelimiter")
	if fd == nil || fd.Body == nil || len(fd.Body.List) != 1 || len(fd.Type.Params.List) != 1 || len(fd.Type.Params.List[0].Names) != 1 {
		die("%s: isValidDelimiter not found or not a single statement", rel)
	}
	ret, ok := fd.Body.List[0].(*ast.ReturnStmt)
	if !ok || len(ret.Results) != 1 {
		die("%s: isValidDelimiter body is not a single return", rel)
	}
	return delimExpr(rel, ret.Results[0], fd.Type.Params.List[0].Names[0].Name)
}

// unmarshalChecked tells whether a format's ValidateSchema acts on the error of
// json.Unmarshal(schemaContent, &runtime): `true` when the error is assigned and the next statement
// is `if err != nil { return ... }`, `false` when it is assigned to the blank identifier.
func unmarshalChecked(rel string) string {
	_, f := parseFile(rel)
	vs := findMethod(f, "ValidateSchema")
	if vs == nil || vs.Body == nil {
		die("%s: ValidateSchema not found", rel)
	}
	for i, st := range vs.Body.List {
		as, ok := st.(*ast.AssignStmt)
		if !ok || len(as.Rhs) != 1 || len(as.Lhs) != 1 {
			continue
		}
		call, ok := as.Rhs[0].(*ast.CallExpr)
		if !ok || !isSel(call.Fun, "json", "Unmarshal") {
			continue
		}
		if isIdent(as.Lhs[0], "_") {
			return "false"
		}
		name := exprString(as.Lhs[0])
		if name == "" || i+1 >= len(vs.Body.List) {
			die("%s: ValidateSchema: json.Unmarshal result shape not recognised", rel)
		}
		ifs, ok := vs.Body.List[i+1].(*ast.IfStmt)
		if !ok || ifs.Init != nil {
			die("%s: ValidateSchema: json.Unmarshal error is not tested by the next statement", rel)
		}
		cond, ok := ifs.Cond.(*ast.BinaryExpr)
		if !ok || cond.Op != token.NEQ || exprString(cond.X) != name || !isIdent(cond.Y, "nil") || len(ifs.Body.List) == 0 {
			die("%s: ValidateSchema: json.Unmarshal error test shape not recognised", rel)
		}
		if _, ok := ifs.Body.List[len(ifs.Body.List)-1].(*ast.ReturnStmt); !ok {
			die("%s: ValidateSchema: json.Unmarshal error test does not return", rel)
		}
		return "true"
	}
	die("%s: ValidateSchema: no json.Unmarshal statement found", rel)
	return ""
}

// topLevelKeysChecked: what validation.SchemaValidate returns on the valid path
// (`if result.Valid() { return X }`): `true` when X is a call of checkTopLevelKeys on the schema
// content, `false` when X is nil.
func topLevelKeysChecked(rel string) string {
	_, f := parseFile(rel)
	fd := findFunc(f, "SchemaValidate")
	if fd == nil || fd.Body == nil {
		die("%s: SchemaValidate not found", rel)
	}
	res := ""
	ast.Inspect(fd.Body, func(n ast.Node) bool {
		ifs, ok := n.(*ast.IfStmt)
		if !ok {
			return true
		}
		call, ok := ifs.Cond.(*ast.CallExpr)
		if !ok {
			return true
		}
		sel, ok := call.Fun.(*ast.SelectorExpr)
		if !ok || sel.Sel.Name != "Valid" || len(ifs.Body.List) == 0 {
			return true
		}
		ret, ok := ifs.Body.List[len(ifs.Body.List)-1].(*ast.ReturnStmt)
		if !ok || len(ret.Results) != 1 {
			die("%s: SchemaValidate: the valid path does not end in a single-value return", rel)
		}
		switch x := ret.Results[0].(type) {
		case *ast.Ident:
			if x.Name == "nil" {
				res = "false"
			}
		case *ast.CallExpr:
			if isIdent(x.Fun, "checkTopLevelKeys") && len(x.Args) == 2 && len(fd.Type.Params.List) >= 2 {
				// ... and the check folds keys the way encoding/json does (simple-fold orbit minimum)
				if foldIsSimpleFoldOrbit(f) {
					res = "true"
				} else {
					res = "false"
				}
			}
		}
		if res == "" {
			die("%s: SchemaValidate: the valid path returns something not recognised", rel)
		}
		return false
	})
	if res == "" {
		die("%s: SchemaValidate: no `if result.Valid()` found", rel)
	}
	return res
}

// ---- error classification shapes of the old csv reader and the by_rows fixed-length reader -------

// isNotParseErrorIf recognises `if _, ok := err.(*stdcsv.ParseError); !ok { ... }` and returns its body.
func isNotParseErrorIf(st ast.Stmt) *ast.BlockStmt {
	ifs, ok := st.(*ast.IfStmt)
	if !ok || ifs.Init == nil {
		return nil
	}
	as, ok := ifs.Init.(*ast.AssignStmt)
	if !ok || len(as.Rhs) != 1 || len(as.Lhs) != 2 {
		return nil
	}
	ta, ok := as.Rhs[0].(*ast.TypeAssertExpr)
	if !ok || !isIdent(ta.X, "err") {
		return nil
	}
	star, ok := ta.Type.(*ast.StarExpr)
	if !ok {
		return nil
	}
	sel, ok := star.X.(*ast.SelectorExpr)
	if !ok || sel.Sel.Name != "ParseError" {
		return nil
	}
	un, ok := ifs.Cond.(*ast.UnaryExpr)
	if !ok || un.Op != token.NOT || exprString(un.X) != exprString(as.Lhs[1]) {
		return nil
	}
	return ifs.Body
}

func assignsReadErr(b *ast.BlockStmt) bool {
	for _, st := range b.List {
		if as, ok := st.(*ast.AssignStmt); ok && len(as.Lhs) == 1 && exprString(as.Lhs[0]) == "r.readErr" {
			return true
		}
	}
	return false
}

func returnsReadErr(b *ast.BlockStmt) bool {
	if len(b.List) == 0 {
		return false
	}
	ret, ok := b.List[len(b.List)-1].(*ast.ReturnStmt)
	return ok && len(ret.Results) >= 1 && exprString(ret.Results[len(ret.Results)-1]) == "r.readErr"
}

// csvShapes: (Read returns a latched readErr first, Read latches a non-ParseError, jumpTo latches
// and returns a non-ParseError)
func csvShapes(rel string) (string, string, string) {
	_, f := parseFile(rel)
	rd := findMethod(f, "Read")
	jt := findMethod(f, "jumpTo")
	if rd == nil || jt == nil || rd.Body == nil || jt.Body == nil {
		die("%s: Read / jumpTo not found", rel)
	}
	first := "false"
	if len(rd.Body.List) > 0 {
		if ifs, ok := rd.Body.List[0].(*ast.IfStmt); ok && ifs.Init == nil {
			if c, ok := ifs.Cond.(*ast.BinaryExpr); ok && c.Op == token.NEQ && exprString(c.X) == "r.readErr" && isIdent(c.Y, "nil") && returnsReadErr(ifs.Body) {
				first = "true"
			}
		}
	}
	latches := "false"
	ast.Inspect(rd.Body, func(n ast.Node) bool {
		if st, ok := n.(ast.Stmt); ok {
			if b := isNotParseErrorIf(st); b != nil && assignsReadErr(b) {
				latches = "true"
			}
		}
		return true
	})
	// jumpTo: a single for loop; inside it `if err == io.EOF { return io.EOF }` and optionally
	// `if err != nil { if _, ok := err.(*ParseError); !ok { r.readErr = ...; return r.readErr } }`
	jump := ""
	var loop *ast.ForStmt
	for _, st := range jt.Body.List {
		if fs, ok := st.(*ast.ForStmt); ok {
			loop = fs
		}
	}
	if loop == nil {
		die("%s: jumpTo: no for loop", rel)
	}
	sawEOF := false
	for _, st := range loop.Body.List {
		ifs, ok := st.(*ast.IfStmt)
		if !ok {
			continue
		}
		c, ok := ifs.Cond.(*ast.BinaryExpr)
		if !ok {
			continue
		}
		if c.Op == token.EQL && isIdent(c.X, "err") && isSel(c.Y, "io", "EOF") {
			sawEOF = true
			continue
		}
		if c.Op == token.NEQ && isIdent(c.X, "err") && isIdent(c.Y, "nil") {
			jump = "false"
			for _, in := range ifs.Body.List {
				if b := isNotParseErrorIf(in); b != nil && assignsReadErr(b) && returnsReadErr(b) {
					jump = "true"
				}
			}
			if jump == "false" {
				die("%s: jumpTo: `if err != nil` body shape not recognised", rel)
			}
		}
	}
	if !sawEOF {
		die("%s: jumpTo: io.EOF test not found", rel)
	}
	if jump == "" {
		jump = "false" // only io.EOF ends the loop: every other error is ignored
	}
	return first, latches, jump
}

// fixedByRowsCleanEOFOnly: in readByRowsEnvelope the early `return nil, err` (as opposed to the
// fatal ErrInvalidEnvelope) is taken only for `err == io.EOF && i == 0`.
func fixedByRowsCleanEOFOnly(rel string) string {
	_, f := parseFile(rel)
	fd := findMethod(f, "readByRowsEnvelope")
	if fd == nil || fd.Body == nil {
		die("%s: readByRowsEnvelope not found", rel)
	}
	res := ""
	ast.Inspect(fd.Body, func(n ast.Node) bool {
		ifs, ok := n.(*ast.IfStmt)
		if !ok || ifs.Init != nil || len(ifs.Body.List) != 1 {
			return true
		}
		ret, ok := ifs.Body.List[0].(*ast.ReturnStmt)
		if !ok || len(ret.Results) != 2 || !isIdent(ret.Results[0], "nil") || !isIdent(ret.Results[1], "err") {
			return true
		}
		// this is the early return of the raw error: look at its condition
		conj := map[string]bool{}
		var walk func(e ast.Expr) bool
		walk = func(e ast.Expr) bool {
			switch x := e.(type) {
			case *ast.ParenExpr:
				return walk(x.X)
			case *ast.BinaryExpr:
				if x.Op == token.LAND {
					return walk(x.X) && walk(x.Y)
				}
				if x.Op == token.EQL && isIdent(x.X, "err") && isSel(x.Y, "io", "EOF") {
					conj["eof"] = true
					return true
				}
				if x.Op == token.EQL && isIdent(x.X, "i") {
					if lit, ok := x.Y.(*ast.BasicLit); ok && lit.Value == "0" {
						conj["i0"] = true
						return true
					}
				}
			}
			return false
		}
		if !walk(ifs.Cond) {
			die("%s: readByRowsEnvelope: condition of the raw-error return not recognised", rel)
		}
		if conj["eof"] {
			res = "true"
		} else {
			res = "false"
		}
		return false
	})
	if res == "" {
		die("%s: readByRowsEnvelope: raw-error return not found", rel)
	}
	return res
}

// foldIsSimpleFoldOrbit: in checkTopLevelKeys the key under which a top level key is remembered is
//   strings.Map(func(r rune) rune { for { r2 := unicode.SimpleFold(r); if r2 <= r { return r2 }; r = r2 } }, key)
// i.e. the smallest rune of every rune's simple-fold orbit -- what encoding/json's key matching
// amounts to.  Any other folding (strings.ToLower, strings.ToUpper, EqualFold on pairs, ...) is
// not recognised and reported as false.
func foldIsSimpleFoldOrbit(f *ast.File) bool {
	fd := findFunc(f, "checkTopLevelKeys")
	if fd == nil || fd.Body == nil {
		return false
	}
	ok := false
	ast.Inspect(fd.Body, func(n ast.Node) bool {
		call, isCall := n.(*ast.CallExpr)
		if !isCall || !isSel(call.Fun, "strings", "Map") || len(call.Args) != 2 {
			return true
		}
		fl, isLit := call.Args[0].(*ast.FuncLit)
		if !isLit || len(fl.Body.List) != 1 {
			return true
		}
		loop, isFor := fl.Body.List[0].(*ast.ForStmt)
		if !isFor || loop.Cond != nil || len(loop.Body.List) != 3 {
			return true
		}
		// r2 := unicode.SimpleFold(r)
		as, ok1 := loop.Body.List[0].(*ast.AssignStmt)
		if !ok1 || len(as.Rhs) != 1 {
			return true
		}
		c, ok2 := as.Rhs[0].(*ast.CallExpr)
		if !ok2 || !isSel(c.Fun, "unicode", "SimpleFold") {
			return true
		}
		// if r2 <= r { return r2 }
		ifs, ok3 := loop.Body.List[1].(*ast.IfStmt)
		if !ok3 {
			return true
		}
		cond, ok4 := ifs.Cond.(*ast.BinaryExpr)
		if !ok4 || cond.Op != token.LEQ || exprString(cond.X) != exprString(as.Lhs[0]) || len(ifs.Body.List) != 1 {
			return true
		}
		ret, ok5 := ifs.Body.List[0].(*ast.ReturnStmt)
		if !ok5 || len(ret.Results) != 1 || exprString(ret.Results[0]) != exprString(as.Lhs[0]) {
			return true
		}
		// r = r2
		as2, ok6 := loop.Body.List[2].(*ast.AssignStmt)
		if !ok6 || len(as2.Lhs) != 1 || exprString(as2.Lhs[0]) != exprString(cond.Y) || exprString(as2.Rhs[0]) != exprString(as.Lhs[0]) {
			return true
		}
		ok = true
		return false
	})
	return ok
}

// schemaConst loads the JSON text of a compiled-in JSON-schema constant.
func schemaConst(rel, name string) map[string]interface{} {
	_, f := parseFile(rel)
	for _, d := range f.Decls {
		gd, ok := d.(*ast.GenDecl)
		if !ok || gd.Tok != token.CONST {
			continue
		}
		for _, sp := range gd.Specs {
			vs := sp.(*ast.ValueSpec)
			for i, n := range vs.Names {
				if n.Name != name || i >= len(vs.Values) {
					continue
				}
				lit, ok := vs.Values[i].(*ast.BasicLit)
				if !ok || lit.Kind != token.STRING {
					die("%s: %s is not a string literal", rel, name)
				}
				s, err := strconv.Unquote(lit.Value)
				if err != nil {
					die("%s: %s cannot be unquoted", rel, name)
				}
				var v map[string]interface{}
				if err := json.Unmarshal([]byte(s), &v); err != nil {
					die("%s: %s is not JSON: %v", rel, name, err)
				}
				return v
			}
		}
	}
	die("%s: constant %s not found", rel, name)
	return nil
}

// dig follows object keys; a missing step yields nil.
func dig(v interface{}, path ...string) interface{} {
	for _, k := range path {
		m, ok := v.(map[string]interface{})
		if !ok {
			return nil
		}
		v = m[k]
	}
	return v
}

// bound renders an integer JSON-schema keyword as a Coq Z option: absent keyword = None.
func bound(v interface{}) string {
	f, ok := v.(float64)
	if !ok {
		return "None"
	}
	return fmt.Sprintf("(Some (%d)%%Z)", int64(f))
}

func genSafety() string {
	ff := "extensions/omniv21/fileformat/"
	vd := "extensions/omniv21/validation/"
	var sb strings.Builder
	sb.WriteString("(* GENERATED by harness/cmd/extract from /repo -- do not edit.\n   Delimiter validation of csv / csv2 and the JSON-schema bounds the C03 theorems refer to. *)\n")
	sb.WriteString("From Coq Require Import NArith ZArith Bool.\nFrom OV Require Import Base.Utf8.\n")
	fmt.Fprintf(&sb, "Definition csv_delim_check (delim : N) : bool := %s.\n", delimCheck(ff+"csv/format.go"))
	fmt.Fprintf(&sb, "Definition csv2_delim_check (delim : N) : bool := %s.\n", delimCheck(ff+"flatfile/csv/format.go"))
	for _, x := range []struct{ name, rel string }{
		{"csv", ff + "csv/format.go"}, {"csv2", ff + "flatfile/csv/format.go"}, {"edi", ff + "edi/format.go"},
		{"fixed", ff + "fixedlength/format.go"}, {"fixed2", ff + "flatfile/fixedlength/format.go"}} {
		fmt.Fprintf(&sb, "Definition %s_unmarshal_checked : bool := %s.\n", x.name, unmarshalChecked(x.rel))
	}
	c1, c2, c3 := csvShapes(ff + "csv/reader.go")
	fmt.Fprintf(&sb, "Definition csv_read_returns_latched_first : bool := %s.\n", c1)
	fmt.Fprintf(&sb, "Definition csv_read_latches_non_parse_error : bool := %s.\n", c2)
	fmt.Fprintf(&sb, "Definition csv_jumpto_fails_on_non_parse_error : bool := %s.\n", c3)
	fmt.Fprintf(&sb, "Definition fixed_by_rows_raw_error_only_clean_eof : bool := %s.\n", fixedByRowsCleanEOFOnly(ff+"fixedlength/reader.go"))
	fmt.Fprintf(&sb, "Definition schema_validate_checks_top_level_keys : bool := %s.\n", topLevelKeysChecked("validation/jsonvalidate.go"))
	csv := schemaConst(vd+"csvFileDeclaration.go", "JSONSchemaCSVFileDeclaration")
	csv2 := schemaConst(vd+"csv2FileDeclaration.go", "JSONSchemaCSV2FileDeclaration")
	fl := schemaConst(vd+"fixedlengthFileDeclaration.go", "JSONSchemaFixedLengthFileDeclaration")
	fl2 := schemaConst(vd+"fixedlength2FileDeclaration.go", "JSONSchemaFixedLength2FileDeclaration")
	d1 := []string{"properties", "file_declaration", "properties", "delimiter"}
	fmt.Fprintf(&sb, "Definition csv_delim_min_len : option Z := %s.\n", bound(dig(csv, append(d1, "minLength")...)))
	fmt.Fprintf(&sb, "Definition csv_delim_max_len : option Z := %s.\n", bound(dig(csv, append(d1, "maxLength")...)))
	fmt.Fprintf(&sb, "Definition csv2_delim_min_len : option Z := %s.\n", bound(dig(csv2, append(d1, "minLength")...)))
	fmt.Fprintf(&sb, "Definition csv2_delim_max_len : option Z := %s.\n", bound(dig(csv2, append(d1, "maxLength")...)))
	fmt.Fprintf(&sb, "Definition csv_data_row_index_min : option Z := %s.\n", bound(dig(csv, "properties", "file_declaration", "properties", "data_row_index", "minimum")))
	fmt.Fprintf(&sb, "Definition csv_header_row_index_min : option Z := %s.\n", bound(dig(csv, "properties", "file_declaration", "properties", "header_row_index", "minimum")))
	fmt.Fprintf(&sb, "Definition csv2_rows_min : option Z := %s.\n", bound(dig(csv2, "definitions", "record_rows_based_type", "properties", "rows", "minimum")))
	col := []string{"definitions", "envelope_columns_type", "items", "properties"}
	fmt.Fprintf(&sb, "Definition fixed_start_pos_min : option Z := %s.\n", bound(dig(fl, append(col, "start_pos", "minimum")...)))
	fmt.Fprintf(&sb, "Definition fixed_length_min : option Z := %s.\n", bound(dig(fl, append(col, "length", "minimum")...)))
	fmt.Fprintf(&sb, "Definition fixed_by_rows_min : option Z := %s.\n", bound(dig(fl, "definitions", "envelope_by_rows_type", "properties", "by_rows", "minimum")))
	col2 := []string{"definitions", "columns_type", "items", "properties"}
	fmt.Fprintf(&sb, "Definition fixed2_start_pos_min : option Z := %s.\n", bound(dig(fl2, append(col2, "start_pos", "minimum")...)))
	fmt.Fprintf(&sb, "Definition fixed2_length_min : option Z := %s.\n", bound(dig(fl2, append(col2, "length", "minimum")...)))
	fmt.Fprintf(&sb, "Definition fixed2_rows_min : option Z := %s.\n", bound(dig(fl2, "definitions", "envelope_rows_based_type", "properties", "rows", "minimum")))
	return sb.String()
}
