// c16: fault-injection oracle + model correspondence for property C16 (input reader failures
// end the transform with a fatal error).
package main

import (
	"bufio"
	"bytes"
	"encoding/hex"
	"encoding/json"
	"fmt"
	"io"
	"os"
	"path/filepath"
	"sort"

	"github.com/jf-tech/go-corelib/ios"

	"verifharness/cmd/c09/iox"
	"verifharness/vh"
)

type faultDesc struct {
	Pos      int    `json:"pos"`
	Where    string `json:"where"`
	Once     bool   `json:"once_then_persistent"`
	WithData bool   `json:"error_returned_with_data"`
	Kind1    string `json:"first_error_value,omitempty"` // see iox.FaultKinds
	Kind2    string `json:"persistent_error_value,omitempty"`
}

type caseDesc struct {
	Variant  string       `json:"variant"`
	Schema   string       `json:"schema"`
	InputHex string       `json:"input_hex"`
	Schedule iox.Schedule `json:"schedule"`
	Fault    faultDesc    `json:"fault"`
}

type env struct {
	nModel   map[string]int
	maxModel int
	cwm      *vh.CaseWriter // format-level reader model cases
	hung     bool           // a run did not return: stop generating, report what we have
	o        *vh.Opts
	sum      *vh.Summary
	cw       *vh.CaseWriter
	variants []iox.Variant
	schemas  map[string]*iox.CapSchema
}

func (e *env) schemaOf(v iox.Variant) *iox.CapSchema {
	if cs, ok := e.schemas[v.Name]; ok {
		return cs
	}
	cs, err := iox.NewCapSchema("fx-"+v.Name, []byte(v.Schema))
	if err != nil {
		e.sum.Fail("fixture schema for "+v.Name+" rejected by NewSchema", map[string]string{"variant": v.Name}, err.Error())
		cs = nil
	}
	e.schemas[v.Name] = cs
	return cs
}

func (e *env) variant(name string) (iox.Variant, bool) {
	for _, v := range e.variants {
		if v.Name == name {
			return v, true
		}
	}
	return iox.Variant{}, false
}

// separators: positions just after a record separator of the format.
func separators(v iox.Variant, in []byte) []int {
	var seps [][]byte
	switch v.FmtIdx {
	case 2:
		seps = [][]byte{[]byte("~"), []byte("\n")}
	case 5:
		seps = [][]byte{[]byte("},"), []byte("}")}
	case 6:
		seps = [][]byte{[]byte("</n>"), []byte("<r>")}
	default:
		seps = [][]byte{[]byte("\n")}
	}
	seen := map[int]bool{}
	var out []int
	for _, s := range seps {
		for i := 0; i+len(s) <= len(in); i++ {
			if bytes.Equal(in[i:i+len(s)], s) && !seen[i+len(s)] && i+len(s) < len(in) {
				seen[i+len(s)] = true
				out = append(out, i+len(s))
			}
		}
	}
	sort.Ints(out)
	return out
}

func faultPositions(r *vh.Rng, v iox.Variant, in []byte) []faultDesc {
	n := len(in)
	out := []faultDesc{{Pos: 0, Where: "before-first-byte"}}
	seps := separators(v, in)
	if len(seps) > 0 && seps[0] > 1 {
		out = append(out, faultDesc{Pos: 1 + r.Pick(seps[0]-1), Where: "inside-first-line"})
	} else if n > 1 {
		out = append(out, faultDesc{Pos: 1, Where: "inside-first-line"})
	}
	if len(seps) > 1 {
		k := 1 + r.Pick(len(seps)-1)
		lo, hi := seps[k-1], seps[k]
		if hi-lo > 1 {
			out = append(out, faultDesc{Pos: lo + 1 + r.Pick(hi-lo-1), Where: "inside-a-record"})
		}
		out = append(out, faultDesc{Pos: seps[r.Pick(len(seps))], Where: "between-records"})
	}
	// inside and right after each of the first lines (header rows, rows to skip, header records)
	start := 0
	for k := 1; k <= 5 && start < n; k++ {
		end := bytes.IndexByte(in[start:], '\n')
		if end < 0 {
			break
		}
		end += start
		if end > start && r.Chance(0.6) {
			out = append(out, faultDesc{Pos: start + r.Pick(end-start+1), Where: fmt.Sprintf("inside-line-%d", k)})
		}
		if r.Chance(0.3) {
			out = append(out, faultDesc{Pos: end + 1, Where: fmt.Sprintf("after-line-%d", k)})
		}
		start = end + 1
	}
	if v.Fixed {
		for k := 0; k < 9 && n > 0; k++ {
			out = append(out, faultDesc{Pos: r.Pick(n + 1), Where: "sample-sweep"})
		}
	}
	if n > 0 {
		out = append(out, faultDesc{Pos: n - 1, Where: "last-byte"})
		out = append(out, faultDesc{Pos: n, Where: "at-the-end"})
		out = append(out, faultDesc{Pos: n, Where: "at-the-end-with-last-chunk"})
		out = append(out, faultDesc{Pos: r.Pick(n), Where: "random"})
	}
	return out
}

func maxReads(base []iox.Step) int { return len(base) + 10 }

func isTerminal(k string) bool { return k != "rec" && k != "failed" }

// checkFault runs one (input, schedule, fault) and evaluates the C16 oracle against the
// fault-free transcript base.
func (e *env) checkFault(v iox.Variant, in []byte, sc iox.Schedule, fd faultDesc, base []iox.Step) (returned bool) {
	cs := e.schemaOf(v)
	desc := caseDesc{v.Name, v.Schema, hex.EncodeToString(in), sc, fd}
	if fd.Kind1 == "" {
		fd.Kind1 = "plain"
	}
	if fd.Kind2 == "" {
		fd.Kind2 = "plain"
	}
	fr := iox.NewFaultReaderK(iox.NewChunkReader(in, sc), fd.Pos, fd.Once, fd.Kind1, fd.Kind2)
	fr.WithData = fd.WithData
	vh.Current(e.o, desc)
	steps, log := iox.RunP(cs, v.FmtIdx, fr, maxReads(base), 3, func() int { return fr.FaultCalls })
	lastReader := cs.Last
	fail := func(what string, extra map[string]interface{}) {
		if extra == nil {
			extra = map[string]interface{}{}
		}
		extra["fault_free"] = base
		extra["with_fault"] = steps
		e.sum.Fail(what, desc, extra)
	}
	for _, s := range steps {
		if s.Kind == "panic" || s.Kind == "hang" {
			fail("transform "+s.Kind+" with a failing input reader ("+s.Txt+")", nil)
			if s.Kind == "hang" {
				e.hung = true
			}
			return fr.FaultCalls > 0
		}
	}
	// i0: the step during which the source first returned the fault
	i0 := -1
	for i, s := range steps {
		if s.Probe > 0 {
			i0 = i
			break
		}
	}
	// j: the first terminal step
	j := -1
	for i, s := range steps {
		if isTerminal(s.Kind) {
			j = i
			break
		}
	}
	if i0 < 0 {
		e.sum.Hist("fault-not-reached")
		// the fault sits at or before the end of the data, so the source can not have reported
		// io.EOF either: a clean io.EOF now means the transform declared the end of the input
		// without learning it from the input reader (a failure there would go unnoticed)
		if j >= 0 && steps[j].Kind == "eof" && fd.Pos <= len(in) {
			fail(fmt.Sprintf("transform ended with a clean io.EOF at Read #%d although the input reader had reported neither io.EOF nor its error (the failing end of the input was never looked at)", j+1), nil)
			return false
		}
		// the transform ended before reading up to the fault: it must behave as without fault
		if d := iox.FirstDiff(trunc(base, len(steps)), trunc(steps, len(base))); d >= 0 && d < minInt(len(base), len(steps)) {
			fail("source never returned the fault, yet the transcript differs from the fault-free one", nil)
		}
		return false
	}
	e.sum.Hist("fault-returned:" + fd.Where)
	// t: where the fault-free run over exactly the bytes delivered before the fault (in[:pos])
	// becomes terminal.  Everything the readers had buffered when the fault arrived is in that
	// prefix, so the fatal result must come no later than one Read after t.
	pre := in
	if fd.Pos < len(in) {
		pre = in[:fd.Pos]
	}
	tr, _ := iox.Run(cs, v.FmtIdx, iox.NewChunkReader(pre, iox.Schedule{Name: "whole"}), len(pre)/2+12, 0)
	t := len(tr) - 1
	switch {
	case j < 0:
		fail(fmt.Sprintf("input reader failed (first during Read #%d) but no non-ErrTransformFailed result within %d Reads (endless per-record failures)", i0+1, len(steps)), nil)
		return true
	case j > t+1:
		fail(fmt.Sprintf("input reader failed (first during Read #%d); the bytes before the fault make up %d results, but the fatal result came only at Read #%d", i0+1, t, j+1), nil)
		return true
	case steps[j].Kind == "eof":
		fail(fmt.Sprintf("input reader failed during Read #%d but the transform ended with a clean io.EOF at Read #%d (fault swallowed)", i0+1, j+1), nil)
		return true
	}
	e.sum.Hist(fmt.Sprintf("fatal-vs-truncated-run-terminal:%+d", j-t))
	if j < i0 {
		// terminal for a reason of its own before the fault was returned; later reads must not
		// touch the source any more -- covered by stickiness below
		e.sum.Hist("terminal-before-fault")
	}
	// sticky: every later step is the same error value
	for k := j + 1; k < len(steps); k++ {
		if steps[k].Kind != steps[j].Kind || !vh.SameErr(steps[k].Err, steps[j].Err) {
			fail(fmt.Sprintf("fatal result of Read #%d is not sticky: Read #%d returned something else", j+1, k+1), nil)
			return true
		}
	}
	if len(steps)-1-j < 3 && steps[j].Kind != "newtransform-error" {
		fail("fewer than 3 Reads were possible after the fatal result", nil)
	}
	// prefix: all results before the fatal one, except possibly the last, equal the fault-free run's
	for k := 0; k < j-1; k++ {
		if k >= len(base) || base[k].Key() != steps[k].Key() {
			fail(fmt.Sprintf("result of Read #%d (more than one before the fatal result at Read #%d) differs from the fault-free run", k+1, j+1), nil)
			return true
		}
	}
	if j >= 1 && (j-1 >= len(base) || base[j-1].Key() != steps[j-1].Key()) {
		e.sum.Hist("last-result-before-fatal-differs:" + iox.FmtName(v.FmtIdx))
	}
	e.readerCase(v, in, sc, fd, log, steps, j)
	e.sum.Hist("fatal-kind:" + iox.FmtName(v.FmtIdx) + ":" + steps[j].Kind)
	e.sum.Hist(fmt.Sprintf("reads-from-fault-to-fatal:%d", j-i0))

	// ---- reader-level class of the error, against the model classification ----
	if steps[j].Kind == "newtransform-error" || log == nil {
		e.cw.Add(fmt.Sprintf("FProbe %s", vh.CoqBool(true)), desc)
		return true
	}
	var rdErr error
	var rdCont bool
	for _, ev := range log.Reader {
		if !ev.Release && ev.Err != nil && (j >= i0) {
			rdErr, rdCont = ev.Err, ev.Cont
		}
	}
	if rdErr != nil && j >= i0 {
		cls := "RcPlain"
		switch iox.Classify(v.FmtIdx, rdErr) {
		case "eof":
			cls = "RcEOF"
		case "failed":
			cls = "RcFailed"
		case "fatal":
			cls = "RcFatal"
		default:
			// a latched instance: the reader itself returns the very same error value again, and
			// says it is not continuable
			if lastReader != nil {
				_, e1 := lastReader.Read()
				_, e2 := lastReader.Read()
				if vh.SameErr(e1, rdErr) && vh.SameErr(e2, rdErr) && !lastReader.IsContinuableError(rdErr) {
					cls = "RcLatched"
				}
			}
		}
		e.sum.Hist("reader-class:" + iox.FmtName(v.FmtIdx) + ":" + cls)
		e.cw.Add(fmt.Sprintf("FReader %s %s %s %s", vh.CoqNat(v.FmtIdx), cls, vh.CoqBool(rdCont), vh.CoqBool(isTerminal(steps[j].Kind) && steps[j].Kind != "eof")), desc)
	}
	return true
}

// readerCase ties the format-level model of the old fixed-length reader (Model/Fault.v fl_rows_run
// / hf_run) to the real code: the lines the real line reader (StripBOM + bufio + ios.ByteReadLine)
// delivers over exactly this input, schedule and fault, and the results of the real reader's
// successive Read calls.
func (e *env) readerCase(v iox.Variant, in []byte, sc iox.Schedule, fd faultDesc, log *vh.Log, steps []iox.Step, j int) {
	var kind string
	switch v.Name {
	case "fixed-length", "fixed-length+crlf", "fixed-length+bom", "fixed-length+strings", "fixed-length+strings+crlf":
		kind = "rows"
	case "fixed-length+headerfooter":
		kind = "hf"
	default:
		return
	}
	if log == nil || j < 0 || steps[j].Kind == "newtransform-error" {
		return
	}
	// a bounded number of small cases per run (quick tier budget)
	if len(in) > 1500 || e.nModel[kind] >= e.maxModel {
		return
	}
	e.nModel[kind]++
	fr := iox.NewFaultReaderK(iox.NewChunkReader(in, sc), fd.Pos, fd.Once, fd.Kind1, fd.Kind2)
	fr.WithData = fd.WithData
	rd, err := ios.StripBOM(fr)
	if err != nil {
		return
	}
	br := bufio.NewReader(rd)
	var lines []string
	var lerr error
	for k := 0; k < 100000; k++ {
		var l []byte
		if l, lerr = ios.ByteReadLine(br); lerr != nil {
			break
		}
		lines = append(lines, vh.CoqHex(l))
	}
	ioe := "(IoFault 1%N)"
	if lerr == io.EOF {
		ioe = "IoEOF"
	}
	var obs []string
	for _, ev := range log.Reader {
		if ev.Release {
			continue
		}
		switch {
		case ev.Err == nil:
			obs = append(obs, "None")
		case ev.Err == io.EOF:
			obs = append(obs, "(Some RcEOF)")
		case vh.IsFatal(v.FmtIdx, ev.Err):
			obs = append(obs, "(Some RcFatal)")
		default:
			obs = append(obs, "(Some RcPlain)")
		}
	}
	if n := len(obs); n == 0 || obs[n-1] == "None" {
		return // the run was cut off before the reader became terminal
	}
	desc := caseDesc{v.Name, v.Schema, hex.EncodeToString(in), sc, fd}
	if kind == "rows" {
		e.cwm.Add(fmt.Sprintf("FRows 1%%nat %s %s %s", vh.CoqList(lines), ioe, vh.CoqList(obs)), desc)
	} else {
		envs := `[(hx "484452", hx "484452", true); (hx "424547", hx "454e44", false)]`
		e.cwm.Add(fmt.Sprintf("FHf %s %s %s %s", envs, vh.CoqList(lines), ioe, vh.CoqList(obs)), desc)
	}
	e.sum.Hist("reader-model-case:" + kind)
}

func trunc(s []iox.Step, n int) []iox.Step {
	if len(s) > n {
		return s[:n]
	}
	return s
}
func minInt(a, b int) int {
	if a < b {
		return a
	}
	return b
}

func (e *env) checkInput(r *vh.Rng, v iox.Variant, in []byte, kind string) {
	cs := e.schemaOf(v)
	if cs == nil {
		return
	}
	whole := iox.Schedule{Name: "whole"}
	vh.Current(e.o, caseDesc{v.Name, v.Schema, hex.EncodeToString(in), whole, faultDesc{Pos: -1, Where: "fault-free"}})
	base, _ := iox.Run(cs, v.FmtIdx, iox.NewChunkReader(in, whole), len(in)/2+12, 0)
	for _, fd := range faultPositions(r, v, in) {
		if v.FaultGuard != nil && !v.FaultGuard(in, fd.Pos) {
			e.sum.Hist("outside-guard:" + v.Name)
			continue
		}
		for _, once := range []bool{false, true} {
			if e.hung {
				return
			}
			fd := fd
			fd.Once = once
			fd.WithData = r.Chance(0.25) || fd.Where == "at-the-end-with-last-chunk"
			fd.Kind1 = iox.FaultKinds[r.Pick(len(iox.FaultKinds))]
			fd.Kind2 = iox.FaultKinds[r.Pick(len(iox.FaultKinds))]
			if r.Chance(0.3) {
				fd.Kind2 = "plain"
			}
			e.sum.Hist("error-value:" + fd.Kind2)
			sc := whole
			if r.Chance(0.5) {
				scs := iox.Schedules(r, in, nil)
				sc = scs[2+r.Pick(2)] // random sizes / empty reads interleaved
				sc.EOFWithLast = false
			}
			ret := e.checkFault(v, in, sc, fd, base)
			cd, _ := json.Marshal([]interface{}{v.Name, hex.EncodeToString(in), fd.Pos, fd.Once, fd.WithData, fd.Kind1, fd.Kind2})
			e.sum.Count(string(cd), ret && fd.Pos > 0 && fd.Pos < len(in))
			e.sum.Hist("fault-at:" + fd.Where)
			if once {
				e.sum.Hist("mode:once-then-persistent")
			} else {
				e.sum.Hist("mode:persistent")
			}
		}
	}
	e.sum.Hist("variant:" + v.Name)
	e.sum.Hist("input:" + kind)
}

type corpusCase struct {
	Variant  string     `json:"variant"`
	InputHex string     `json:"input_hex"`
	Fault    *faultDesc `json:"fault,omitempty"`
	Note     string     `json:"note"`
}

func main() {
	o := vh.ParseOpts()
	r := vh.NewRng(o.Seed)
	sum := vh.NewSummary("C16", o,
		"(input, fault position, fault mode) triples: inputs of the seven formats (x encodings, BOM, CRLF, ...) read through a reader that returns data up to the position and then a non-EOF error (persistent, or one error once and then another one persistently; error values: plain pointer/struct errors, io.ErrUnexpectedEOF, errors wrapping io.EOF, *os.PathError, text EOF); positions include every one of the first five lines (header rows, rows to skip); "+
			"non-trivial = the fault position is strictly inside the input and the source did return the fault; distinct by (variant, input bytes, position, mode)")
	e := &env{o: o, sum: sum, variants: iox.Variants(), schemas: map[string]*iox.CapSchema{}}
	// the (many, tiny) classification cases and the (few, heavier) component cases go to separate
	// shard families so that neither floods the other
	e.cw = vh.NewCaseWriter(o, "C16r", "Base.ErrClass Model.Chunk Model.Fault", "fcase", "Fault.check_case")
	e.cw.PerFile = 700
	cwc := vh.NewCaseWriter(o, "C16", "Base.ErrClass Model.Chunk Model.Fault", "fcase", "Fault.check_case")
	cwc.PerFile = 16
	e.nModel, e.maxModel = map[string]int{}, o.Count(120, 1500)
	e.cwm = vh.NewCaseWriter(o, "C16m", "Base.ErrClass Model.Chunk Model.Fault", "fcase", "Fault.check_case")
	e.cwm.PerFile = 40

	if o.Replay != "" {
		var rp struct {
			Case caseDesc `json:"case"`
		}
		b, err := os.ReadFile(o.Replay)
		if err == nil {
			err = json.Unmarshal(b, &rp)
		}
		v, ok := e.variant(rp.Case.Variant)
		if err != nil || !ok {
			fmt.Println("cannot read replay:", err)
			os.Exit(2)
		}
		in, _ := hex.DecodeString(rp.Case.InputHex)
		cs := e.schemaOf(v)
		base, _ := iox.Run(cs, v.FmtIdx, iox.NewChunkReader(in, iox.Schedule{Name: "whole"}), len(in)/2+12, 0)
		k1, k2 := rp.Case.Fault.Kind1, rp.Case.Fault.Kind2
		if k1 == "" {
			k1 = "plain"
		}
		if k2 == "" {
			k2 = "plain"
		}
		fr := iox.NewFaultReaderK(iox.NewChunkReader(in, rp.Case.Schedule), rp.Case.Fault.Pos, rp.Case.Fault.Once, k1, k2)
		fr.WithData = rp.Case.Fault.WithData
		st, _ := iox.RunP(cs, v.FmtIdx, fr, maxReads(base), 3, func() int { return fr.FaultCalls })
		j1, _ := json.Marshal(base)
		j2, _ := json.Marshal(st)
		fmt.Printf("fault-free: %s\nwith fault: %s\n", j1, j2)
		e.checkFault(v, in, rp.Case.Schedule, rp.Case.Fault, base)
		sum.Evaluations = 1
		sum.Write(o)
		return
	}

	if o.Corpus != "" {
		files, _ := filepath.Glob(filepath.Join(o.Corpus, "*.json"))
		sort.Strings(files)
		for _, f := range files {
			var cc corpusCase
			b, err := os.ReadFile(f)
			if err == nil {
				err = json.Unmarshal(b, &cc)
			}
			v, ok := e.variant(cc.Variant)
			if err != nil || !ok {
				sum.Fail("unreadable corpus case "+filepath.Base(f), nil, fmt.Sprint(err))
				continue
			}
			in, _ := hex.DecodeString(cc.InputHex)
			if cc.Fault != nil {
				cs := e.schemaOf(v)
				whole := iox.Schedule{Name: "whole"}
				base, _ := iox.Run(cs, v.FmtIdx, iox.NewChunkReader(in, whole), len(in)/2+12, 0)
				ret := e.checkFault(v, in, whole, *cc.Fault, base)
				sum.Count("corpus:"+filepath.Base(f), ret && cc.Fault.Pos > 0 && cc.Fault.Pos < len(in))
			} else {
				e.checkInput(r, v, in, "corpus")
			}
			sum.Hist("corpus")
		}
	}

	total := o.Count(330, 3000)
	var hier []iox.Variant
	for _, v := range e.variants {
		if v.Hier {
			hier = append(hier, v)
		}
	}
	for c := 0; c < total && !e.hung; c++ {
		v := e.variants[r.Pick(len(e.variants))]
		if len(hier) > 0 && r.Chance(0.2) {
			v = hier[r.Pick(len(hier))]
		}
		gi := iox.GenInputForFaults(r, v)
		in, kind := gi.In, gi.Kind
		e.checkInput(r, v, in, kind)
		if c < 3 {
			sum.Sample(map[string]interface{}{"variant": v.Name, "input_hex": hex.EncodeToString(trunc2(in, 300))})
		}
	}

	components(r, o, sum, cwc)

	e.cw.Flush()
	cwc.Flush()
	e.cwm.Flush()
	sum.CaseFiles = append(append(e.cw.Files, cwc.Files...), e.cwm.Files...)
	sum.Write(o)
}

func trunc2(b []byte, n int) []byte {
	if len(b) > n {
		return b[:n]
	}
	return b
}
