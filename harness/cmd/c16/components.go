package main

import "verifharness/vh"

func components(r *vh.Rng, o *vh.Opts, sum *vh.Summary, cw *vh.CaseWriter) {}
