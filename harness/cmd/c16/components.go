package main

import (
	"verifharness/cmd/c09/iox"
	"verifharness/vh"
)

// components: the byte-level layers over sources that end in a fault (persistent, or one error
// once and then another one), real code vs the Gallina model of Model/Chunk.v.
func components(r *vh.Rng, o *vh.Opts, sum *vh.Summary, cw *vh.CaseWriter) {
	n := o.Count(200, 4000)
	for i := 0; i < n; i++ {
		iox.Component(r, sum, cw, true)
	}
}
