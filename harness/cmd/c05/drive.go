package main

// Drivers: run the implementation under test on (declarations, units).
//   direct       flatfile.NewHierarchyReader with a harness RecDecl/RecReader over abstract units
//   csv2         the real csv2 FileFormat (ValidateSchema + CreateFormatReader) on a generated schema
//   fixedlength2 the real fixedlength2 FileFormat, same
//   edi          the real EDI FileFormat, same

import (
	"bytes"
	"encoding/json"
	"fmt"
	"io"
	"math"
	"strconv"
	"strings"

	"github.com/jf-tech/omniparser/extensions/omniv21/fileformat"
	"github.com/jf-tech/omniparser/extensions/omniv21/fileformat/edi"
	"github.com/jf-tech/omniparser/extensions/omniv21/fileformat/flatfile"
	csv2 "github.com/jf-tech/omniparser/extensions/omniv21/fileformat/flatfile/csv"
	fixedlength2 "github.com/jf-tech/omniparser/extensions/omniv21/fileformat/flatfile/fixedlength"
	"github.com/jf-tech/omniparser/extensions/omniv21/transform"
	"github.com/jf-tech/omniparser/idr"

	"github.com/antchfx/xpath"
)

// filterXPath is the FINAL_OUTPUT xpath of filtered cases: the target itself, unless some unit in it
// (any depth) carries the flag value 'X'
const filterXPath = ".[not(.//f = 'X')]"

var filterExpr = xpath.MustCompile(filterXPath)

func flagOf(u Unit) string {
	if u.Rej {
		return "X"
	}
	return "K"
}

const undeclaredName = 24 // 'X': never used by a declaration
const maxLines = 14       // id columns declared per record (lines of a multi-line record; words have <= 14 units)

// ---- names <-> text ------------------------------------------------------------------------------

// declText is the `name` written into the schema.  Declaration names are local xpath step names:
// they need not be unique, a group and a record may share one, and (EDI) a group may carry the
// name of a segment.  Names 1..26 print as a letter, others as d<k> -- groups and records alike.
func declText(d *Decl, ediSeg bool) string {
	if ediSeg && !d.Group {
		return nameStr(d.Leaf.N)
	}
	if d.Name >= 1 && d.Name <= 26 {
		return nameStr(d.Name)
	}
	return fmt.Sprintf("d%d", d.Name)
}

func parseName(s string) int {
	if len(s) == 1 && s[0] >= 'A' && s[0] <= 'Z' {
		return int(s[0]-'A') + 1
	}
	if len(s) > 1 && (s[0] == 'd' || s[0] == 'g') {
		if n, err := strconv.Atoi(s[1:]); err == nil {
			return n
		}
	}
	if n, err := strconv.Atoi(s); err == nil {
		return n
	}
	return -1
}

// project turns a delivered node into (name, ids, texts, child instances): children named c<i> are
// id columns/elements, f is the filter flag, x<i> the extra text element; every other element
// child is a child instance.
func project(n *idr.Node) *Inst {
	budget := 20000
	return projectN(n, 0, &budget)
}

// projectN is defensive: a corrupted (cyclic / shared) node graph must not take the harness down.
func projectN(n *idr.Node, depth int, budget *int) *Inst {
	in := &Inst{Name: parseName(n.Data)}
	if depth > 40 {
		panic("delivered node tree deeper than 40 levels (cyclic?)")
	}
	// x<i>: the text of line i; x<i>a, x<i>b, ...: the fields of line i (csv2)
	type lineTxt struct {
		idx    int
		fields []string
		whole  bool
	}
	var lines []*lineTxt
	lineOf := func(i int) *lineTxt {
		for _, l := range lines {
			if l.idx == i {
				return l
			}
		}
		l := &lineTxt{idx: i}
		lines = append(lines, l)
		return l
	}
	for c := n.FirstChild; c != nil; c = c.NextSibling {
		*budget--
		if *budget < 0 {
			panic("delivered node tree has more than 20000 nodes (cyclic?)")
		}
		if c.Type != idr.ElementNode {
			continue
		}
		if c.Data == "f" {
			continue // the filter flag
		}
		if len(c.Data) > 1 && c.Data[0] == 'x' {
			t := ""
			if c.FirstChild != nil {
				t = c.FirstChild.Data
			}
			name := c.Data[1:]
			field := -1
			if last := name[len(name)-1]; last >= 'a' && last <= 'z' {
				field = int(last - 'a')
				name = name[:len(name)-1]
			}
			i, _ := strconv.Atoi(name)
			l := lineOf(i)
			if field < 0 {
				l.whole = true
				l.fields = []string{t}
			} else {
				for len(l.fields) <= field {
					l.fields = append(l.fields, "")
				}
				l.fields[field] = t
			}
			continue
		}
		if len(c.Data) > 1 && c.Data[0] == 'c' {
			id := -1
			if t := c.FirstChild; t != nil && t.Type == idr.TextNode {
				if v, err := strconv.Atoi(t.Data); err == nil {
					id = v
				}
			}
			in.IDs = append(in.IDs, id)
			continue
		}
		in.Kids = append(in.Kids, projectN(c, depth+1, budget))
	}
	for _, l := range lines {
		if l.whole {
			in.X = append(in.X, l.fields[0])
			continue
		}
		// csv2: a field beyond the row's last one reads as "": drop trailing empties, join the rest
		f := l.fields
		for len(f) > 1 && f[len(f)-1] == "" {
			f = f[:len(f)-1]
		}
		in.X = append(in.X, strings.Join(f, ","))
	}
	return in
}

// adoptIDs: if the delivered instances have exactly the shape and texts of the expected ones, give
// them the expected unit ids.
func adoptIDs(got, want []*Inst) bool {
	if len(got) != len(want) {
		return false
	}
	var same func(a, b *Inst) bool
	same = func(a, b *Inst) bool {
		if a.Name != b.Name || len(a.X) != len(b.X) || len(a.Kids) != len(b.Kids) {
			return false
		}
		for i := range a.X {
			if a.X[i] != b.X[i] {
				return false
			}
		}
		for i := range a.Kids {
			if !same(a.Kids[i], b.Kids[i]) {
				return false
			}
		}
		return true
	}
	for i := range got {
		if !same(got[i], want[i]) {
			return false
		}
	}
	var cp func(a, b *Inst)
	cp = func(a, b *Inst) {
		a.IDs = append([]int(nil), b.IDs...)
		for i := range a.Kids {
			cp(a.Kids[i], b.Kids[i])
		}
	}
	for i := range got {
		cp(got[i], want[i])
	}
	return true
}

// alignIDs gives the lines of delivered pattern-case instances their unit ids: the texts are
// matched against the input lines from left to right (a text that cannot be found gets id 0).
func alignIDs(deliv []*Inst, us []Unit) {
	p := 0
	var rec func(in *Inst)
	rec = func(in *Inst) {
		in.IDs = nil
		for _, t := range in.X {
			id := 0
			for q := p; q < len(us); q++ {
				if us[q].Raw == t {
					id, p = us[q].ID, q+1
					break
				}
			}
			in.IDs = append(in.IDs, id)
		}
		for _, k := range in.Kids {
			rec(k)
		}
	}
	for _, d := range deliv {
		rec(d)
	}
}

// ---- direct driver ----------------------------------------------------------------------------------

type hDecl struct {
	d    *Decl
	kids []flatfile.RecDecl
}

func (h *hDecl) DeclName() string { return strconv.Itoa(h.d.Name) }
func (h *hDecl) Target() bool     { return h.d.Target }
func (h *hDecl) Group() bool      { return h.d.Group }
func (h *hDecl) MinOccurs() int   { return h.d.Min }
func (h *hDecl) MaxOccurs() int {
	if h.d.Max < 0 {
		return math.MaxInt32 * 2 // like maths.MaxIntValue: never reached
	}
	return h.d.Max
}
func (h *hDecl) ChildDecls() []flatfile.RecDecl { return h.kids }

func toHDecls(ds []*Decl) []flatfile.RecDecl {
	if len(ds) == 0 {
		return nil
	}
	out := make([]flatfile.RecDecl, len(ds))
	for i, d := range ds {
		out[i] = &hDecl{d: d, kids: toHDecls(d.Kids)}
	}
	return out
}

type hReader struct {
	rest  []Unit
	calls int
}

func (r *hReader) MoreUnprocessedData() (bool, error) { return len(r.rest) > 0, nil }
func (r *hReader) ReadAndMatch(decl flatfile.RecDecl, createIDR bool) (bool, *idr.Node, error) {
	r.calls++
	d := decl.(*hDecl).d
	n := leafTake(d.Leaf, r.rest)
	if n < 0 {
		return false, nil, nil
	}
	if !createIDR {
		return true, nil, nil
	}
	node := idr.CreateNode(idr.ElementNode, decl.DeclName())
	for _, u := range r.rest[:n] {
		c := idr.CreateNode(idr.ElementNode, "c1")
		idr.AddChild(node, c)
		idr.AddChild(c, idr.CreateNode(idr.TextNode, strconv.Itoa(u.ID)))
		f := idr.CreateNode(idr.ElementNode, "f")
		idr.AddChild(node, f)
		idr.AddChild(f, idr.CreateNode(idr.TextNode, flagOf(u)))
	}
	r.rest = r.rest[n:]
	return true, node, nil
}

type nodeReader interface {
	Read() (*idr.Node, error)
	Release(*idr.Node)
}

// stepper drives one reader Read by Read (so that several readers can be alive and advanced in
// turns); release: 0 always, 1 never, 2 every other one.
type stepper struct {
	rd       nodeReader
	res      *Result
	done     bool
	i, cap   int
	release  int
	classify func(error, *Result)
}

func (s *stepper) step() {
	if s.done {
		return
	}
	defer func() {
		if p := recover(); p != nil {
			s.res.Term = "panic"
			s.res.Detail = fmt.Sprint(p)
			s.done = true
		}
	}()
	if s.i > s.cap {
		s.res.Term, s.res.Detail, s.done = "other", "no terminal result within the Read cap", true
		return
	}
	i := s.i
	s.i++
	n, err := s.rd.Read()
	if err == nil {
		if n == nil {
			s.res.Term, s.res.Detail, s.done = "other", "Read returned (nil, nil)", true
			return
		}
		s.res.Deliv = append(s.res.Deliv, project(n))
		if s.release == 0 || (s.release == 2 && i%2 == 0) {
			s.rd.Release(n)
		}
		return
	}
	s.res.Detail = err.Error()
	if err == io.EOF {
		s.res.Term = "eof"
	} else {
		s.classify(err, s.res)
	}
	s.done = true
}

// pump reads until the first terminal result.
func pump(rd nodeReader, cap int, release int, classify func(error, *Result)) *Result {
	s := &stepper{rd: rd, res: &Result{}, cap: cap, release: release, classify: classify}
	for !s.done {
		s.step()
	}
	return s.res
}

func runDirect(ds []*Decl, us []Unit, release int, filter bool) *Result {
	var expr *xpath.Expr
	if filter {
		expr = filterExpr
	}
	rr := &hReader{rest: append([]Unit(nil), us...)}
	var hr *flatfile.HierarchyReader
	func() {
		defer func() { _ = recover() }()
		hr = flatfile.NewHierarchyReader(toHDecls(ds), rr, expr)
	}()
	if hr == nil {
		return &Result{Term: "panic", Detail: "NewHierarchyReader panicked"}
	}
	return pump(hr, len(us)+3, release, func(err error, res *Result) {
		switch {
		case flatfile.IsErrFewerThanMinOccurs(err):
			e := err.(flatfile.ErrFewerThanMinOccurs)
			res.Term, res.MinName, res.MinOcc = "min", parseName(e.RecDecl.DeclName()), e.ActualOcccurs
		case flatfile.IsErrUnexpectedData(err):
			res.Term = "unexpected"
		default:
			res.Term = "other"
		}
	})
}

// ---- schema generation ---------------------------------------------------------------------------------

type jobj map[string]interface{}

// omitDefaults: leave min/max out when they equal the format's default, so the default rules are
// exercised (csv2/fixedlength2: 0 / -1; EDI: 1 / 1)
func occurs(o jobj, d *Decl, defMin, defMax int, omitDefaults bool) {
	mx := d.Max
	if mx < 0 {
		mx = -1
	}
	if !(omitDefaults && d.Min == defMin) {
		o["min"] = d.Min
	}
	if !(omitDefaults && mx == defMax) {
		o["max"] = mx
	}
}

func leafLines(l Leaf) int {
	switch l.Kind {
	case "name":
		return 1
	case "rows":
		return l.K
	case "pat":
		if l.FRe == "" {
			return 1
		}
	}
	return maxLines
}

func csvRecords(ds []*Decl, omit bool, pat bool) []jobj {
	out := []jobj{}
	for _, d := range ds {
		o := jobj{"name": declText(d, false)}
		if d.Target {
			o["is_target"] = true
		}
		occurs(o, d, 0, -1, omit)
		if d.Group {
			o["type"] = "record_group"
		} else {
			switch d.Leaf.Kind {
			case "name":
				o["header"] = "^" + nameStr(d.Leaf.N) + ","
			case "rows":
				if !(omit && d.Leaf.K == 1) {
					o["rows"] = d.Leaf.K
				}
			case "hf":
				o["header"] = "^" + nameStr(d.Leaf.N) + ","
				o["footer"] = "^" + nameStr(d.Leaf.F) + ","
			case "pat":
				o["header"] = d.Leaf.HRe
				if d.Leaf.FRe != "" {
					o["footer"] = d.Leaf.FRe
				}
			}
			cols := []jobj{}
			for i := 1; i <= leafLines(d.Leaf); i++ {
				if pat {
					for f := 0; f < 4; f++ {
						cols = append(cols, jobj{"name": fmt.Sprintf("x%d%c", i, 'a'+f), "index": f + 1, "line_index": i})
					}
					continue
				}
				cols = append(cols, jobj{"name": fmt.Sprintf("c%d", i), "index": 2, "line_index": i})
				cols = append(cols, jobj{"name": "f", "index": 3, "line_index": i})
			}
			o["columns"] = cols
		}
		if len(d.Kids) > 0 || d.Group {
			o["child_records"] = csvRecords(d.Kids, omit, pat)
		}
		out = append(out, o)
	}
	return out
}

func fixedEnvelopes(ds []*Decl, omit bool, pat bool) []jobj {
	out := []jobj{}
	for _, d := range ds {
		o := jobj{"name": declText(d, false)}
		if d.Target {
			o["is_target"] = true
		}
		occurs(o, d, 0, -1, omit)
		if d.Group {
			o["type"] = "envelope_group"
		} else {
			switch d.Leaf.Kind {
			case "name":
				o["header"] = "^" + nameStr(d.Leaf.N)
			case "rows":
				if !(omit && d.Leaf.K == 1) {
					o["rows"] = d.Leaf.K
				}
			case "hf":
				o["header"] = "^" + nameStr(d.Leaf.N)
				o["footer"] = "^" + nameStr(d.Leaf.F)
			case "pat":
				o["header"] = d.Leaf.HRe
				if d.Leaf.FRe != "" {
					o["footer"] = d.Leaf.FRe
				}
			}
			cols := []jobj{}
			for i := 1; i <= leafLines(d.Leaf); i++ {
				if pat {
					cols = append(cols, jobj{"name": fmt.Sprintf("x%d", i), "start_pos": 1, "length": 400, "line_index": i})
					continue
				}
				cols = append(cols, jobj{"name": fmt.Sprintf("c%d", i), "start_pos": 2, "length": 4, "line_index": i})
				cols = append(cols, jobj{"name": "f", "start_pos": 6, "length": 1, "line_index": i})
			}
			o["columns"] = cols
		}
		if len(d.Kids) > 0 || d.Group {
			o["child_envelopes"] = fixedEnvelopes(d.Kids, omit, pat)
		}
		out = append(out, o)
	}
	return out
}

func ediSegments(ds []*Decl, omit bool) []jobj {
	out := []jobj{}
	for _, d := range ds {
		o := jobj{"name": declText(d, true)}
		if d.Target {
			o["is_target"] = true
		}
		occurs(o, d, 1, 1, omit)
		if d.Group {
			o["type"] = "segment_group"
		} else {
			o["elements"] = []jobj{{"name": "c1", "index": 1, "default": "-1"}, {"name": "f", "index": 2, "default": "K"},
				{"name": "x1", "index": 3, "default": ""}}
		}
		if len(d.Kids) > 0 || d.Group {
			o["child_segments"] = ediSegments(d.Kids, omit)
		}
		out = append(out, o)
	}
	return out
}

func schemaFor(driver string, ds []*Decl, omit bool, relChar bool, pat bool) string {
	var fd jobj
	switch driver {
	case "csv2":
		fd = jobj{"delimiter": ",", "records": csvRecords(ds, omit, pat)}
	case "fixedlength2":
		fd = jobj{"envelopes": fixedEnvelopes(ds, omit, pat)}
	default:
		fd = jobj{"segment_delimiter": "~", "element_delimiter": "*", "segment_declarations": ediSegments(ds, omit)}
		if relChar {
			fd["release_character"] = "?"
		}
	}
	b, _ := json.Marshal(jobj{"file_declaration": fd})
	return string(b)
}

func inputFor(driver string, us []Unit) []byte {
	var sb bytes.Buffer
	for _, u := range us {
		if u.Raw != "" && driver != "edi" {
			sb.WriteString(u.Raw + "\n" + strings.Repeat("\n", u.Blank))
			continue
		}
		switch driver {
		case "csv2":
			fmt.Fprintf(&sb, "%s,%d,%s", nameStr(u.Name), u.ID, flagOf(u))
			if u.Pad > 0 {
				sb.WriteString("," + strings.Repeat("p", u.Pad))
			}
			sb.WriteString("\n" + strings.Repeat("\n", u.Blank))
		case "fixedlength2":
			fmt.Fprintf(&sb, "%s%04d%s%s\n%s", nameStr(u.Name), u.ID, flagOf(u), strings.Repeat("p", u.Pad), strings.Repeat("\n", u.Blank))
		default:
			fmt.Fprintf(&sb, "%s*%d*%s*%s~", nameStr(u.Name), u.ID, flagOf(u), u.Txt)
		}
	}
	return sb.Bytes()
}

func formatOf(driver string) (fileformat.FileFormat, string, func(error) bool) {
	switch driver {
	case "csv2":
		return csv2.NewCSVFileFormat("c05"), "csv2", csv2.IsErrInvalidCSV
	case "fixedlength2":
		return fixedlength2.NewFixedLengthFileFormat("c05"), "fixedlength2", fixedlength2.IsErrInvalidFixedLength
	default:
		return edi.NewEDIFileFormat("c05"), "edi", edi.IsErrInvalidEDI
	}
}

// validate runs the real schema validation; nil runtime = rejected.
func validate(driver, schema string, filter bool) (rt interface{}, err error) {
	defer func() {
		if p := recover(); p != nil {
			rt, err = nil, fmt.Errorf("panic in ValidateSchema: %v", p)
		}
	}()
	ff, format, _ := formatOf(driver)
	fo := &transform.Decl{}
	if filter {
		x := filterXPath
		fo.XPath = &x
	}
	return ff.ValidateSchema(format, []byte(schema), fo)
}

// formatStepper creates the real format reader; the schema must have been accepted.
func formatStepper(driver string, rt interface{}, input []byte, nunits int, release int) (*stepper, *Result) {
	ff, _, isFatal := formatOf(driver)
	rd, err := ff.CreateFormatReader("in", bytes.NewReader(input), rt)
	if err != nil {
		return nil, &Result{Term: "other", Detail: "CreateFormatReader: " + err.Error()}
	}
	return &stepper{rd: rd, res: &Result{}, cap: nunits + 3, release: release, classify: func(err error, res *Result) {
		if isFatal(err) {
			res.Term = "fatal"
		} else {
			res.Term = "other"
		}
	}}, nil
}

// runFormat runs the real format reader to its terminal result.
func runFormat(driver string, rt interface{}, input []byte, nunits int, release int) *Result {
	s, bad := formatStepper(driver, rt, input, nunits, release)
	if bad != nil {
		return bad
	}
	for !s.done {
		s.step()
	}
	return s.res
}
