package main

// Data types of the C05 harness, the direct Go implementation of the documented recursive greedy
// matcher (the property oracle; written from the docs, independent of the Coq model and of the
// stack machines under test), and the Coq printers.

import (
	"fmt"
	"regexp"
	"strings"

	"verifharness/vh"
)

// Leaf says what a non-group declaration matches on (see Model/Hier.v `leaf`).
type Leaf struct {
	Kind string `json:"kind"`        // "name" | "rows" | "hf" | "pat"
	N    int    `json:"n,omitempty"` // name / header name
	K    int    `json:"k,omitempty"` // rows
	F    int    `json:"f,omitempty"` // footer name
	// "pat": header / footer regular expressions, matched against the raw line (csv2: the fields
	// joined by the delimiter).  HP / FP: the pattern numbers the harness assigns (FP -1: no footer)
	HRe string `json:"header,omitempty"`
	FRe string `json:"footer,omitempty"`
	HP  int    `json:"hp,omitempty"`
	FP  int    `json:"fp,omitempty"`
}

// Decl is one declaration.  Max < 0 = unbounded.
type Decl struct {
	Name   int     `json:"name"`
	Group  bool    `json:"group,omitempty"`
	Target bool    `json:"target,omitempty"`
	Min    int     `json:"min"`
	Max    int     `json:"max"`
	Leaf   Leaf    `json:"leaf"`
	Kids   []*Decl `json:"kids,omitempty"`
}

// Unit is one input unit: the name the matchers look at and a payload id.
type Unit struct {
	Name int `json:"n"`
	ID   int `json:"id"`
	// Rej: the unit carries the flag value the FINAL_OUTPUT xpath filter rejects (a target instance
	// containing such a unit is completed and counted like any other, but not delivered)
	Rej bool `json:"rej,omitempty"`
	// Txt: EDI only: the escaped text of an extra element, as it is written into the input
	Txt string `json:"txt,omitempty"`
	// Raw: pattern cases (Case.Pat): the whole physical line; Name is then the bit mask of the
	// case's patterns this line matches, computed with Go's regexp (assignPatMasks)
	Raw string `json:"raw,omitempty"`
	// csv2/fixedlength2 text layout: extra trailing characters on the line (ignored by the column
	// declarations), and blank lines after it (the readers skip blank lines: they are not units)
	Pad   int `json:"pad,omitempty"`
	Blank int `json:"blank,omitempty"`
}

// Inst is a delivered instance projected to (declaration name, unit ids, child instances).
type Inst struct {
	Name int      `json:"name"`
	IDs  []int    `json:"ids,omitempty"`
	X    []string `json:"x,omitempty"` // EDI: the unescaped text element of every unit taken
	Kids []*Inst  `json:"kids,omitempty"`
}

// Result is what a run produced: the deliveries in order and the terminal class.
type Result struct {
	Deliv   []*Inst `json:"deliveries"`
	Term    string  `json:"term"` // eof | min | unexpected | fatal | panic | other
	MinName int     `json:"min_name,omitempty"`
	MinOcc  int     `json:"min_occ,omitempty"`
	Detail  string  `json:"detail,omitempty"` // message text: shown, never compared
	Pops    int     `json:"-"`
	// LeftAtTop: the first unit left over when the top-level sequence completed (nil if none)
	LeftAtTop *Unit `json:"-"`
}

func instEq(a, b *Inst) bool {
	if a.Name != b.Name || len(a.IDs) != len(b.IDs) || len(a.Kids) != len(b.Kids) || len(a.X) != len(b.X) {
		return false
	}
	for i := range a.X {
		if a.X[i] != b.X[i] {
			return false
		}
	}
	for i := range a.IDs {
		if a.IDs[i] != b.IDs[i] {
			return false
		}
	}
	for i := range a.Kids {
		if !instEq(a.Kids[i], b.Kids[i]) {
			return false
		}
	}
	return true
}

// sameResult compares an implementation result with the specification's; typed says whether the
// driver can tell min/unexpected apart without looking at message texts.
func sameResult(impl, spec *Result, typed bool) string {
	if len(impl.Deliv) != len(spec.Deliv) {
		return fmt.Sprintf("delivered %d target instances, the greedy matcher yields %d", len(impl.Deliv), len(spec.Deliv))
	}
	for i := range impl.Deliv {
		if !instEq(impl.Deliv[i], spec.Deliv[i]) {
			return fmt.Sprintf("delivery #%d does not contain exactly its child instances", i+1)
		}
	}
	it, st := impl.Term, spec.Term
	if !typed && (st == "min" || st == "unexpected") {
		st = "fatal"
	}
	if it != st {
		return fmt.Sprintf("terminal result is %s, the greedy matcher yields %s", impl.Term, spec.Term)
	}
	if typed && st == "min" && (impl.MinName != spec.MinName || impl.MinOcc != spec.MinOcc) {
		return fmt.Sprintf("minimum reported for declaration %d with %d occurrences, expected %d with %d", impl.MinName, impl.MinOcc, spec.MinName, spec.MinOcc)
	}
	return ""
}

// ---- leaf matching (shared by the oracle and by the harness RecReader of the direct driver) ----

// leafTake returns how many units an instance of the leaf takes from the front of us, or -1.
func leafTake(l Leaf, us []Unit) int {
	switch l.Kind {
	case "name":
		if len(us) > 0 && us[0].Name == l.N {
			return 1
		}
	case "rows":
		if len(us) >= l.K {
			return l.K
		}
	case "hf":
		if len(us) > 0 && us[0].Name == l.N {
			for i, u := range us {
				if u.Name == l.F {
					return i + 1
				}
			}
		}
	case "pat":
		// Go's regexp directly on the raw line: independent of the library's matchLine/matchHeader
		if len(us) > 0 && reOf(l.HRe).MatchString(us[0].Raw) {
			if l.FRe == "" {
				return 1
			}
			fre := reOf(l.FRe)
			for i, u := range us {
				if fre.MatchString(u.Raw) {
					return i + 1
				}
			}
		}
	}
	return -1
}

var reCache = map[string]*regexp.Regexp{}

func reOf(p string) *regexp.Regexp {
	re, ok := reCache[p]
	if !ok {
		re = regexp.MustCompile(p)
		reCache[p] = re
	}
	return re
}

// assignPatMasks numbers the patterns of a pattern case (preorder: header, then footer) and sets
// every unit's Name to the bit mask of the patterns its raw line matches.
func assignPatMasks(c *Case) {
	var pats []string
	walk(c.Decls, func(d *Decl) {
		if d.Group || d.Leaf.Kind != "pat" {
			return
		}
		d.Leaf.HP = len(pats)
		pats = append(pats, d.Leaf.HRe)
		d.Leaf.FP = -1
		if d.Leaf.FRe != "" {
			d.Leaf.FP = len(pats)
			pats = append(pats, d.Leaf.FRe)
		}
	})
	for i := range c.Units {
		m := 0
		for k, p := range pats {
			if reOf(p).MatchString(c.Units[i].Raw) {
				m |= 1 << uint(k)
			}
		}
		c.Units[i].Name = m
	}
}

// ---- the documented greedy matcher ------------------------------------------------------------

type specErr struct {
	term    string
	minName int
	minOcc  int
}

type specRun struct {
	deliv   []*Inst
	pops    int
	steps   int
	withTxt bool // EDI: instances carry the unescaped text of their units
	relChar bool // the text is escaped with the release character
	pat     bool // pattern case: the text of a unit is its raw line
}

func starts(d *Decl, us []Unit) bool {
	if d.Group {
		return len(d.Kids) > 0 && starts(d.Kids[0], us)
	}
	return leafTake(d.Leaf, us) >= 0
}

func (s *specRun) inst(d *Decl, us []Unit) (*Inst, []Unit, *specErr) {
	in := &Inst{Name: d.Name}
	if !d.Group {
		n := leafTake(d.Leaf, us)
		if n < 0 {
			return nil, us, &specErr{term: "unexpected"}
		}
		for _, u := range us[:n] {
			in.IDs = append(in.IDs, u.ID)
			if s.withTxt {
				if s.pat {
					in.X = append(in.X, u.Raw)
				} else {
					in.X = append(in.X, unescapeTxt(u.Txt, s.relChar))
				}
			}
		}
		us = us[n:]
	}
	kids, rest, err := s.seq(d.Kids, us)
	if err != nil {
		return nil, rest, err
	}
	in.Kids = kids
	return in, rest, nil
}

func (s *specRun) occ(d *Decl, us []Unit) ([]*Inst, []Unit, *specErr) {
	var out []*Inst
	n := 0
	for (d.Max < 0 || n < d.Max) && starts(d, us) {
		s.steps++
		if s.steps > 100000 {
			return nil, us, &specErr{term: "other"}
		}
		in, rest, err := s.inst(d, us)
		if err != nil {
			return nil, rest, err
		}
		if d.Target {
			s.deliv = append(s.deliv, in)
		}
		out = append(out, in)
		us = rest
		n++
	}
	if n < d.Min {
		return nil, us, &specErr{term: "min", minName: d.Name, minOcc: n}
	}
	s.pops++
	return out, us, nil
}

func (s *specRun) seq(ds []*Decl, us []Unit) ([]*Inst, []Unit, *specErr) {
	var out []*Inst
	for _, d := range ds {
		is, rest, err := s.occ(d, us)
		if err != nil {
			return nil, rest, err
		}
		out = append(out, is...)
		us = rest
	}
	return out, us, nil
}

// unescapeTxt: release character '?' followed by any character stands for that character
func unescapeTxt(t string, relChar bool) string {
	if !relChar {
		return t
	}
	var sb strings.Builder
	for i := 0; i < len(t); i++ {
		if t[i] == '?' && i+1 < len(t) {
			i++
		}
		sb.WriteByte(t[i])
	}
	return sb.String()
}

// hasRejected: does the instance contain (at any depth) a unit the filter rejects
func hasRejected(in *Inst, rej map[int]bool) bool {
	for _, id := range in.IDs {
		if rej[id] {
			return true
		}
	}
	for _, k := range in.Kids {
		if hasRejected(k, rej) {
			return true
		}
	}
	return false
}

// goSpecCase: the documented matcher for a case: with a FINAL_OUTPUT filter, the deliveries are
// the matcher's deliveries minus the rejected ones; everything else (counting, max, terminal
// result) is untouched.
func goSpecCase(c *Case, ds []*Decl) *Result {
	s := &specRun{withTxt: c.Driver == "edi" || (c.Pat && c.Driver != "direct"), relChar: c.RelChar, pat: c.Pat}
	r := s.run(ds, c.Units)
	if c.Filter {
		rej := map[int]bool{}
		for _, u := range c.Units {
			if u.Rej {
				rej[u.ID] = true
			}
		}
		var kept []*Inst
		for _, d := range r.Deliv {
			if !hasRejected(d, rej) {
				kept = append(kept, d)
			}
		}
		r.Deliv = kept
	}
	return r
}

func goSpec(ds []*Decl, us []Unit) *Result {
	s := &specRun{}
	return s.run(ds, us)
}

func (s *specRun) run(ds []*Decl, us []Unit) *Result {
	_, rest, err := s.seq(ds, us)
	r := &Result{Deliv: s.deliv, Pops: s.pops}
	switch {
	case err != nil:
		r.Term, r.MinName, r.MinOcc = err.term, err.minName, err.minOcc
	case len(rest) > 0:
		r.Term = "unexpected"
		u := rest[0]
		r.LeftAtTop = &u
	default:
		r.Term = "eof"
	}
	return r
}

// ---- guards -------------------------------------------------------------------------------------

func walk(ds []*Decl, f func(d *Decl)) {
	for _, d := range ds {
		f(d)
		walk(d.Kids, f)
	}
}

func countTargets(ds []*Decl) int {
	n := 0
	walk(ds, func(d *Decl) {
		if d.Target {
			n++
		}
	})
	return n
}

// declsOK = what the validators enforce per declaration (group non-empty, min <= max, rows >= 1)
func declsOK(ds []*Decl) bool {
	ok := true
	walk(ds, func(d *Decl) {
		if d.Group && len(d.Kids) == 0 {
			ok = false
		}
		if !d.Group && d.Leaf.Kind == "rows" && d.Leaf.K < 1 {
			ok = false
		}
		if d.Max >= 0 && d.Min > d.Max {
			ok = false
		}
	})
	return ok
}

func maxPositive(ds []*Decl) bool {
	ok := true
	walk(ds, func(d *Decl) {
		if d.Max == 0 {
			ok = false
		}
	})
	return ok
}

// inGuard = hypotheses of machine_eq_spec
func inGuard(ds []*Decl) bool { return declsOK(ds) && maxPositive(ds) && countTargets(ds) <= 1 }

// noRootRepeat = guard of edi_eq_spec_nested: when the declared top-level sequence has completed
// and input is left, the next unit does not start the first top-level declaration again.
func noRootRepeat(ds []*Decl, spec *Result, us []Unit) bool {
	if spec.LeftAtTop == nil || len(ds) == 0 {
		return true
	}
	// the rest of the input at that point: the suffix beginning with the left-over unit
	for i := range us {
		if us[i].ID == spec.LeftAtTop.ID {
			return !starts(ds[0], us[i:])
		}
	}
	return true
}

// ---- Coq printers ---------------------------------------------------------------------------------

func coqLeaf(l Leaf) string {
	switch l.Kind {
	case "name":
		return fmt.Sprintf("(LName %d)", l.N)
	case "rows":
		return fmt.Sprintf("(LRows %d)", l.K)
	case "pat":
		if l.FP < 0 {
			return fmt.Sprintf("(LPat %d None)", l.HP)
		}
		return fmt.Sprintf("(LPat %d (Some %d))", l.HP, l.FP)
	default:
		return fmt.Sprintf("(LHF %d %d)", l.N, l.F)
	}
}

func coqDecl(d *Decl) string {
	mx := "None"
	if d.Max >= 0 {
		mx = fmt.Sprintf("(Some %d)", d.Max)
	}
	lf := d.Leaf
	if d.Group {
		lf = Leaf{Kind: "rows"}
	}
	return fmt.Sprintf("(D %d %s %s %d %s %s %s)", d.Name, vh.CoqBool(d.Group), vh.CoqBool(d.Target), d.Min, mx, coqLeaf(lf), coqDecls(d.Kids))
}

func coqDecls(ds []*Decl) string {
	xs := make([]string, len(ds))
	for i, d := range ds {
		xs[i] = coqDecl(d)
	}
	return vh.CoqList(xs)
}

func coqUnits(us []Unit) string {
	xs := make([]string, len(us))
	for i, u := range us {
		xs[i] = fmt.Sprintf("Un %d%%N %d%%N", u.Name, u.ID)
	}
	return vh.CoqList(xs)
}

// coqRawOcc: (min, max) of every declaration in preorder as written into the generated schema
// (None = left out because equal to the format's default and omit_defaults is set)
func coqRawOcc(driver string, ds []*Decl, omit bool) string {
	defMin, defMax := 0, -1
	if driver == "edi" {
		defMin, defMax = 1, 1
	}
	var xs []string
	walk(ds, func(d *Decl) {
		mx := d.Max
		if mx < 0 {
			mx = -1
		}
		mn, mxs := fmt.Sprintf("(Some (%d)%%Z)", d.Min), fmt.Sprintf("(Some (%d)%%Z)", mx)
		if omit && d.Min == defMin {
			mn = "None"
		}
		if omit && mx == defMax {
			mxs = "None"
		}
		xs = append(xs, "("+mn+", "+mxs+")")
	})
	return vh.CoqList(xs)
}

// coqRej: the ids of the units the filter rejects (empty without a filter)
func coqRej(c *Case) string {
	var xs []string
	if c.Filter {
		for _, u := range c.Units {
			if u.Rej {
				xs = append(xs, fmt.Sprintf("%d%%N", u.ID))
			}
		}
	}
	return "(rejN " + vh.CoqList(xs) + ")"
}

func coqInst(i *Inst) string {
	ids := make([]string, len(i.IDs))
	for k, x := range i.IDs {
		ids[k] = fmt.Sprintf("%d%%N", x)
	}
	ks := make([]string, len(i.Kids))
	for k, x := range i.Kids {
		ks[k] = coqInst(x)
	}
	return fmt.Sprintf("(In_ %d%%N %s %s)", i.Name, vh.CoqList(ids), vh.CoqList(ks))
}

func coqResult(r *Result) (string, string) {
	ds := make([]string, len(r.Deliv))
	for i, d := range r.Deliv {
		ds[i] = coqInst(d)
	}
	var t string
	switch r.Term {
	case "eof":
		t = "OEof"
	case "min":
		t = fmt.Sprintf("(OMin %d %d)", r.MinName, r.MinOcc)
	case "unexpected":
		t = "OUnexpected"
	case "fatal":
		t = "OFatal"
	case "panic":
		t = "OPanic"
	default:
		t = "OOther"
	}
	return vh.CoqList(ds), t
}

// ---- pretty --------------------------------------------------------------------------------------

func nameStr(n int) string {
	if n >= 1 && n <= 26 {
		return string(rune('A' + n - 1))
	}
	if n == undeclaredName {
		return "?"
	}
	return fmt.Sprintf("d%d", n)
}

func wordStr(us []Unit) string {
	var sb strings.Builder
	for _, u := range us {
		sb.WriteString(nameStr(u.Name))
	}
	return sb.String()
}
