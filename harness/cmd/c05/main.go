// c05: correspondence + oracle harness for property C05 (hierarchical segment/record structure is
// matched greedily and completely).
package main

import (
	"encoding/hex"
	"encoding/json"
	"fmt"
	"os"
	"os/exec"
	"path/filepath"
	"sort"
	"strings"

	"verifharness/vh"
)

// Case is one replayable run: which implementation, the declarations, the units.
type Case struct {
	Driver string  `json:"driver"` // direct | csv2 | fixedlength2 | edi
	Decls  []*Decl `json:"decls"`
	Units  []Unit  `json:"units"`
	// RawHex, when present, is the exact input text (corpus cases whose point is the text:
	// missing final terminator, undecodable bytes); Units then says how it is meant to be read.
	RawHex  string `json:"raw_hex,omitempty"`
	Release int    `json:"release,omitempty"`       // 0 Release after every Read, 1 never, 2 alternate
	Omit    bool   `json:"omit_defaults,omitempty"` // leave out min/max equal to the format default
	// Filter: FINAL_OUTPUT carries an xpath filter on the target that rejects instances containing a
	// unit flagged Rej
	Filter bool `json:"filter,omitempty"`
	// RelChar: EDI schema declares release_character '?'; unit texts are escaped with it
	RelChar bool `json:"release_char,omitempty"`
	// Pat: pattern case: units are raw lines, record declarations carry header/footer regexps
	Pat bool `json:"pat,omitempty"`
}

type corpusFile struct {
	Name   string `json:"name"`
	Expect string `json:"expect"` // known-finding | pass
	What   string `json:"what"`
	Case   Case   `json:"case"`
}

type H struct {
	o        *vh.Opts
	sum      *vh.Summary
	cw       *vh.CaseWriter
	ran      map[string]int
	toCoq    int
	rng      *vh.Rng
	rings    map[string][]*Case // the last few accepted cases per format driver
	fmtCases int
	verbose  bool
	trace    string // when set: the last 16 cases are written here before each run (crash localisation)
	recent   []Case
	traceF   *os.File
	traceLen int
}

func cloneDecls(ds []*Decl) []*Decl {
	var out []*Decl
	for _, d := range ds {
		c := *d
		c.Kids = cloneDecls(d.Kids)
		out = append(out, &c)
	}
	return out
}

// effective declarations: what the format makes of them
//
//	edi: a segment declaration's name IS the segment name
//	csv2/fixedlength2: no target declared => the first top-level declaration is the target
func effective(driver string, ds []*Decl) []*Decl {
	ds = cloneDecls(ds)
	switch driver {
	case "edi":
		walk(ds, func(d *Decl) {
			if !d.Group {
				d.Name = d.Leaf.N
			}
		})
	case "csv2", "fixedlength2":
		if countTargets(ds) == 0 && len(ds) > 0 {
			ds[0].Target = true
		}
	}
	return ds
}

func kindOf(driver string) string {
	switch driver {
	case "direct":
		return "KHier"
	case "edi":
		return "KEdi"
	}
	return "KFlat"
}

// modelAccepts = Model/Hier.v flat_validb / edi_validb (evaluated again inside Coq on the VC case)
func modelAccepts(driver string, ds []*Decl) bool {
	if !declsOK(ds) {
		return false
	}
	if driver == "edi" {
		return countTargets(ds) == 1
	}
	return countTargets(ds) <= 1
}

type outcome struct {
	impl, spec *Result
	guard      bool
	oracle     string // "" = holds / not evaluated
	accepted   bool
	ran        bool
}

// runCase runs one case on the implementation, evaluates the oracle, and (optionally) writes the
// Coq case.  forceOracle evaluates the oracle even outside the guards (corpus cases).
func (h *H) runCase(c *Case, toCoq, forceOracle bool) *outcome {
	out := &outcome{}
	if c.Pat {
		assignPatMasks(c)
	}
	if h.trace != "" {
		h.recent = append(h.recent, *c)
		if len(h.recent) > 8 {
			h.recent = h.recent[len(h.recent)-8:]
		}
		if h.traceF == nil {
			h.traceF, _ = os.Create(h.trace)
		}
		if h.traceF != nil {
			// one descriptor, rewritten in place; padded so that a shorter record leaves no garbage
			b, _ := json.Marshal(h.recent)
			for len(b) < h.traceLen {
				b = append(b, ' ')
			}
			h.traceLen = len(b)
			_, _ = h.traceF.WriteAt(b, 0)
		}
	}
	h.ran[c.Driver]++
	rawDecls := c.Decls
	if c.Driver == "edi" {
		rawDecls = effective("edi", c.Decls) // names only
	}
	eff := effective(c.Driver, c.Decls)
	out.spec = goSpecCase(c, eff)
	typed := c.Driver == "direct"
	var impl *Result
	if c.Driver == "direct" {
		out.accepted = true
		impl = runDirect(eff, c.Units, c.Release, c.Filter)
	} else {
		schema := schemaFor(c.Driver, eff0(c), c.Omit, c.RelChar, c.Pat)
		rt, err := validate(c.Driver, schema, c.Filter)
		out.accepted = err == nil
		want := modelAccepts(c.Driver, c.Decls)
		h.sum.Hist(fmt.Sprintf("validate:%s:accepted=%v", c.Driver, out.accepted))
		if toCoq || out.accepted != want {
			h.cw.Add(fmt.Sprintf("VC %s %s %s", kindOf(c.Driver), coqDecls(rawDecls), vh.CoqBool(out.accepted)),
				map[string]interface{}{"case": c, "accepted": out.accepted, "validation_error": fmt.Sprint(err)})
			h.toCoq++
			if out.accepted && h.toCoq%4 == 0 {
				// the min/max as written into the schema, resolved by the extracted rules
				h.cw.Add(fmt.Sprintf("OC %d %s %s", map[string]int{"csv2": 0, "fixedlength2": 1, "edi": 2}[c.Driver], coqRawOcc(c.Driver, rawDecls, c.Omit), coqDecls(rawDecls)),
					map[string]interface{}{"case": c, "occurs": "min/max as written vs resolved"})
				h.toCoq++
				h.sum.Hist("occurs-resolution-case")
			}
		}
		if !out.accepted {
			return out
		}
		input := inputFor(c.Driver, c.Units)
		if c.RawHex != "" {
			input, _ = hex.DecodeString(c.RawHex)
		}
		impl = runFormat(c.Driver, rt, input, len(c.Units), c.Release)
	}
	if c.Pat && c.Driver != "direct" {
		// delivered lines are identified by their text; where the delivered instances have the shape
		// and the texts the matcher expects they are those units, otherwise align from the left
		if !adoptIDs(impl.Deliv, out.spec.Deliv) {
			alignIDs(impl.Deliv, c.Units)
		}
	}
	out.impl, out.ran = impl, true
	out.guard = inGuard(eff) && c.RawHex == ""
	if c.Driver == "edi" {
		out.guard = out.guard && noRootRepeat(eff, out.spec, c.Units)
	}
	if out.guard || forceOracle {
		out.oracle = sameResult(impl, out.spec, typed)
	}
	if impl.Term == "panic" && inGuard(eff) {
		out.oracle = "panic inside Read: " + impl.Detail
	}
	h.sum.Hist("driver:" + c.Driver)
	h.sum.Hist("terminal:" + impl.Term)
	h.sum.Hist(fmt.Sprintf("decls:%d", countDecls(eff)))
	h.sum.Hist(fmt.Sprintf("units:%d", len(c.Units)))
	// a raw-text corpus case on which the tokenizer loses a unit (F8) is outside the unit-level model
	if toCoq && !(c.RawHex != "" && out.oracle != "") {
		dl, tm := coqResult(impl)
		h.cw.Add(fmt.Sprintf("HC (mkHCase %s %s %s %s %s %s %s %s)", kindOf(c.Driver), coqDecls(rawDecls), coqUnits(c.Units), coqRej(c), dl, tm, vh.CoqBool(out.guard), vh.CoqBool(inGuard(eff) && c.RawHex == "")),
			map[string]interface{}{"case": c, "observed": impl, "greedy_matcher": out.spec, "in_guard": out.guard})
		h.toCoq++
	}
	return out
}

// eff0: declarations as written into the schema (no target defaulting: validation does that)
func eff0(c *Case) []*Decl {
	if c.Driver == "edi" {
		return effective("edi", c.Decls)
	}
	return c.Decls
}

func countDecls(ds []*Decl) int {
	n := 0
	walk(ds, func(*Decl) { n++ })
	return n
}

func (h *H) count(c *Case, out *outcome) {
	if !out.ran {
		return
	}
	b, _ := json.Marshal(c)
	h.sum.Count(string(b), out.spec.Pops >= 1 || len(out.impl.Deliv) >= 1)
}

func (h *H) report(c *Case, out *outcome) {
	if out.oracle == "" {
		return
	}
	h.sum.Fail(out.oracle, c, map[string]interface{}{"observed": out.impl, "greedy_matcher": out.spec,
		"word": wordStr(c.Units), "in_guard": out.guard})
}

// decorate adds, to a share of the generated cases, the FINAL_OUTPUT filter with randomly flagged
// units, and for EDI the release character with escaped text in an extra element.
func (h *H) decorate(c *Case) {
	if c.Pat {
		return
	}
	r := h.rng
	us := append([]Unit(nil), c.Units...)
	if !c.Filter && r.Chance(0.35) {
		c.Filter = true
		for i := range us {
			us[i].Rej = r.Chance(0.35)
		}
		h.sum.Hist("with-filter")
	}
	if c.Driver == "edi" {
		c.RelChar = r.Chance(0.5)
		for i := range us {
			us[i].Txt = genTxt(r, c.RelChar)
		}
		if c.RelChar {
			h.sum.Hist("edi:release-character")
		}
	}
	c.Units = us
}

// genTxt: an element value.  With a release character: plain letters, escaped release characters
// (??), escaped delimiters (?~ ?*), hence runs of '?' of even and odd length, and often an escaped
// release character right before the real segment terminator.
func genTxt(r *vh.Rng, relChar bool) string {
	pieces := []string{"a", "b", "really", "", "Q"}
	if relChar {
		pieces = []string{"a", "b", "??", "?~", "?*", "????", "??", "?~", "three"}
	}
	t := ""
	for i, n := 0, r.Between(0, 4); i < n; i++ {
		t += pieces[r.Pick(len(pieces))]
	}
	if relChar && r.Chance(0.3) {
		t += "??"
	}
	return t
}

func (h *H) generated(c *Case, toCoq bool) {
	h.decorate(c)
	out := h.runCase(c, toCoq, false)
	if c.Driver != "direct" && out.ran {
		ring := h.rings[c.Driver]
		ring = append(ring, c)
		if len(ring) > 6 {
			ring = ring[1:]
		}
		h.rings[c.Driver] = ring
		h.fmtCases++
		if h.fmtCases%120 == 0 && len(ring) >= 3 {
			mode := []string{"alternate", "concurrent"}[(h.fmtCases/120)%2]
			h.together(ring[len(ring)-3], ring[len(ring)-2], ring[len(ring)-1], mode)
		}
	}
	h.count(c, out)
	h.report(c, out)
	if toCoq && out.ran {
		h.sum.Sample(map[string]interface{}{"case": c, "word": wordStr(c.Units), "observed": out.impl, "greedy_matcher": out.spec})
	}
}

// implStepper builds the real reader for a format case (nil if the schema is rejected).
func implStepper(c *Case) *stepper {
	if c.Driver == "direct" {
		return nil
	}
	rt, err := validate(c.Driver, schemaFor(c.Driver, eff0(c), c.Omit, c.RelChar, c.Pat), c.Filter)
	if err != nil {
		return nil
	}
	input := inputFor(c.Driver, c.Units)
	if c.RawHex != "" {
		input, _ = hex.DecodeString(c.RawHex)
	}
	st, _ := formatStepper(c.Driver, rt, input, len(c.Units), c.Release)
	return st
}

func soloResult(c *Case) *Result {
	st := implStepper(c)
	if st == nil {
		return nil
	}
	for !st.done {
		st.step()
	}
	return st.res
}

// together: readers must not share state.  Case x runs to its terminal result; then readers for a
// and b are alive at once -- advanced in turns on one goroutine ("alternate") or on two goroutines
// ("concurrent") -- and each must give exactly the result it gives alone.
func (h *H) together(x, a, b *Case, mode string) {
	ra, rb := soloResult(a), soloResult(b)
	if ra == nil || rb == nil {
		return
	}
	h.ran["together:"+mode]++
	if h.trace != "" {
		h.recent = append(h.recent, *x, *a, *b)
	}
	if sx := implStepper(x); sx != nil {
		for !sx.done {
			sx.step()
		}
		// keep reading at the terminal result: the EDI reader re-reads its input at EOF
		func() {
			defer func() { _ = recover() }()
			for i := 0; i < 3; i++ {
				_, _ = sx.rd.Read()
			}
		}()
	}
	sa, sb := implStepper(a), implStepper(b)
	if sa == nil || sb == nil {
		return
	}
	if mode == "alternate" {
		for k := 0; !sa.done || !sb.done; k++ {
			for i := 0; i <= k%3; i++ {
				sa.step()
			}
			for i := 0; i <= (k+1)%2; i++ {
				sb.step()
			}
		}
	} else {
		done := make(chan bool, 2)
		for _, st := range []*stepper{sa, sb} {
			go func(st *stepper) {
				for !st.done {
					st.step()
				}
				done <- true
			}(st)
		}
		<-done
		<-done
	}
	for i, pair := range [][2]*Result{{sa.res, ra}, {sb.res, rb}} {
		if why := sameResult(pair[0], pair[1], false); why != "" {
			which := []string{"a", "b"}[i]
			h.sum.Fail("two readers alive at once ("+mode+") after an earlier reader ran to its end: reader "+which+" no longer gives the result it gives alone: "+strings.Replace(why, "the greedy matcher yields", "alone it gives", 1),
				map[string]interface{}{"together": mode, "first": x, "a": a, "b": b},
				map[string]interface{}{"together": pair[0], "alone": pair[1]})
			return
		}
	}
}

// ---- corpus and replay ------------------------------------------------------------------------------------

func (h *H) corpus(dir string) {
	files, _ := filepath.Glob(filepath.Join(dir, "*.json"))
	sort.Strings(files)
	for _, f := range files {
		b, err := os.ReadFile(f)
		var cf corpusFile
		if err == nil {
			err = json.Unmarshal(b, &cf)
		}
		if err != nil {
			fmt.Printf("corpus %s: unreadable: %v\n", f, err)
			h.sum.Fail("corpus file unreadable", map[string]string{"file": filepath.Base(f)}, fmt.Sprint(err))
			continue
		}
		c := cf.Case
		out := h.runCase(&c, true, true)
		h.count(&c, out)
		h.sum.Hist("corpus:" + cf.Expect)
		key := vh.KeyOf(&c)
		status := "holds"
		if !out.ran {
			status = "schema rejected"
			h.sum.Fail("corpus case: schema rejected", &c, cf.Name)
		} else if out.oracle != "" {
			status = "FAILS: " + out.oracle
			// known findings are reported with the listed input as the case, so that the key is the
			// one recorded in KNOWN_FINDINGS.txt; a `pass` case that fails is a regression
			h.sum.Fail(cf.What+" ["+out.oracle+"]", &c, map[string]interface{}{"corpus": cf.Name, "expect": cf.Expect,
				"observed": out.impl, "greedy_matcher": out.spec})
		}
		fmt.Printf("corpus %-28s expect=%-13s key=%s %s\n", cf.Name, cf.Expect, key, status)
	}
}

func (h *H) replay(file string) {
	b, err := os.ReadFile(file)
	if err != nil {
		fmt.Println("replay:", err)
		os.Exit(2)
	}
	var body struct {
		Case json.RawMessage `json:"case"`
	}
	var c Case
	if err = json.Unmarshal(b, &body); err == nil {
		var sq struct {
			Sequence []Case `json:"sequence"`
		}
		if json.Unmarshal(body.Case, &sq) == nil && len(sq.Sequence) > 0 {
			fmt.Printf("replay of a sequence of %d inputs read in one process (a process crash reproduces as a crash)\n", len(sq.Sequence))
			for i := range sq.Sequence {
				out := h.runCase(&sq.Sequence[i], false, true)
				fmt.Printf("  #%d driver=%s word=%s oracle=%q\n", i+1, sq.Sequence[i].Driver, wordStr(sq.Sequence[i].Units), out.oracle)
			}
			return
		}
		var tg struct {
			Together string `json:"together"`
			First    *Case  `json:"first"`
			A        *Case  `json:"a"`
			B        *Case  `json:"b"`
		}
		if json.Unmarshal(body.Case, &tg) == nil && tg.Together != "" && tg.First != nil && tg.A != nil && tg.B != nil {
			fmt.Printf("replay: reader for %s/%s runs to its end, then readers for %s/%s and %s/%s are alive at once (%s)\n",
				tg.First.Driver, wordStr(tg.First.Units), tg.A.Driver, wordStr(tg.A.Units), tg.B.Driver, wordStr(tg.B.Units), tg.Together)
			h.together(tg.First, tg.A, tg.B, tg.Together)
			if len(h.sum.Failures) == 0 {
				fmt.Println("oracle           holds: both readers give the result they give alone")
			} else {
				fmt.Println("oracle          ", h.sum.Failures[0].What)
				d, _ := json.Marshal(h.sum.Failures[0].Detail)
				fmt.Printf("detail           %.1500s\n", d)
			}
			return
		}
		err = json.Unmarshal(body.Case, &c)
	}
	if err != nil || c.Driver == "" {
		fmt.Println("replay: no C05 case in", file, err)
		os.Exit(2)
	}
	out := h.runCase(&c, true, true)
	h.count(&c, out)
	h.report(&c, out)
	show := func(what string, r *Result) {
		j, _ := json.Marshal(r)
		fmt.Printf("%-16s %s\n", what, j)
	}
	fmt.Printf("replay driver=%s word=%s\n", c.Driver, wordStr(c.Units))
	dj, _ := json.Marshal(c.Decls)
	fmt.Printf("declarations     %s\n", dj)
	if out.ran {
		show("implementation", out.impl)
	} else {
		fmt.Println("implementation   schema rejected")
	}
	show("greedy matcher", out.spec)
	fmt.Printf("oracle           %s\n", map[bool]string{true: "holds", false: out.oracle}[out.oracle == ""])
}

// ---- main ---------------------------------------------------------------------------------------------------

// supervise runs the harness in a child process, so that a fatal runtime error of the
// implementation (stack overflow, concurrent map write: not recoverable) still ends in a concrete
// replay: the child is run again with tracing and the last case it started is reported.
func supervise(o *vh.Opts) {
	run := func(trace string) error {
		cmd := exec.Command(os.Args[0], os.Args[1:]...)
		cmd.Env = append(os.Environ(), "C05_WORKER=1", "C05_TRACE="+trace)
		cmd.Stdout = os.Stdout
		cmd.Stderr = nil
		return cmd.Run()
	}
	if err := run(""); err == nil {
		return
	}
	trace := filepath.Join(o.Out, "trace_cases.json")
	err := run(trace)
	if err == nil {
		return // not reproducible: the second run completed and wrote its summary
	}
	sum := vh.NewSummary("C05", o, "run aborted by a fatal runtime error of the implementation")
	var recent []Case
	if b, e := os.ReadFile(trace); e == nil && json.Unmarshal(b, &recent) == nil && len(recent) > 0 {
		// shortest suffix of the last cases that crashes a fresh process
		seq := recent[len(recent)-1:]
		for k := 1; k <= len(recent); k *= 2 {
			cand := recent[len(recent)-k:]
			b, _ := json.Marshal(cand)
			f := filepath.Join(o.Out, "seq_cases.json")
			_ = os.WriteFile(f, b, 0o644)
			cmd := exec.Command(os.Args[0], os.Args[1:]...)
			cmd.Env = append(os.Environ(), "C05_WORKER=1", "C05_SEQ="+f)
			if cmd.Run() != nil {
				seq = cand
				break
			}
		}
		last := seq[len(seq)-1]
		fmt.Printf("the implementation crashed the process; shortest crashing sequence has %d case(s), last: driver=%s word=%s\n", len(seq), last.Driver, wordStr(last.Units))
		sum.Fail("fatal runtime error (process crash) inside the implementation when these inputs are read one after the other in one process", map[string]interface{}{"process_crash": true, "sequence": seq}, err.Error())
	} else {
		sum.Fail("fatal runtime error (process crash) of the harness before any case ran", map[string]string{"error": err.Error()}, nil)
	}
	sum.Evaluations = 1
	sum.Write(o)
}

func main() {
	o := vh.ParseOpts()
	if os.Getenv("C05_WORKER") == "" {
		supervise(o)
		return
	}
	r := vh.NewRng(o.Seed)
	h := &H{o: o, ran: map[string]int{}, trace: os.Getenv("C05_TRACE"), rng: r, rings: map[string][]*Case{}}
	if f := os.Getenv("C05_SEQ"); f != "" {
		// crash localisation: run just these cases, in order
		var seq []Case
		b, _ := os.ReadFile(f)
		_ = json.Unmarshal(b, &seq)
		h.sum = vh.NewSummary("C05", o, "")
		h.cw = vh.NewCaseWriter(o, "C05seq", "Model.Hier Model.HierSpec Model.HierOcc", "c05case", "check_case")
		for i := range seq {
			h.runCase(&seq[i], false, true)
		}
		return
	}
	h.sum = vh.NewSummary("C05", o,
		"(implementation, declaration hierarchy, unit word) triples; non-trivial = the word drives at least one pop of the stack (an occurrence loop of some declaration completes and a sibling/parent continues) or a delivery; distinct by (driver, declarations, word)")
	h.cw = vh.NewCaseWriter(o, "C05", "Model.Hier Model.HierSpec Model.HierOcc", "c05case", "check_case")

	if o.Replay != "" {
		h.replay(o.Replay)
		h.cw.Flush()
		h.sum.CaseFiles = h.cw.Files
		h.sum.Write(o)
		return
	}
	if o.Corpus != "" {
		h.corpus(o.Corpus)
	}

	formats := []string{"csv2", "fixedlength2", "edi"}
	fmtTick := 0
	// also: run the case through one of the real format readers (rotating)
	viaFormat := func(ds []*Decl, us []Unit, toCoq bool) {
		drv := formats[fmtTick%3]
		fmtTick++
		c := &Case{Driver: drv, Decls: ds, Units: us, Release: r.Pick(3), Omit: r.Chance(0.5)}
		if drv == "edi" {
			if countTargets(ds) != 1 || !declsOK(ds) {
				h.generated(c, toCoq) // validation X-check only: rejected
				return
			}
			eff := effective("edi", ds)
			if !noRootRepeat(eff, goSpec(eff, us), us) {
				// F14 class: outside the documented behaviour (no Go oracle), but the model and the
				// repeated-top-level characterisation spec_repeat are compared with what is observed
				h.sum.Hist("edi:root-repeat-class(spec_repeat only)")
				h.generated(c, true)
				return
			}
		}
		h.generated(c, toCoq)
	}

	// ---- (a) small scope, as search support ----
	var enumRun, enumSpace int
	cf := 1 // the Coq model evaluates a sample of the runs; the Go-side oracle sees all of them
	if o.Tier == "thorough" {
		cf = 4
	}
	coqEvery := func(n int) bool { return n > 0 && r.Pick(n*cf) == 0 }
	// n = 1: exhaustive
	for occ := range occurrences {
		for tgt := -1; tgt <= 0; tgt++ {
			ds := build(forests(1, 3)[0], []attr{{occ: occ, name: 1}}, tgt)
			allWords(alphabet(1), 6, func(us []Unit) {
				w := append([]Unit(nil), us...)
				enumRun++
				enumSpace++
				h.generated(&Case{Driver: "direct", Decls: ds, Units: w, Release: enumRun % 3}, coqEvery(8))
				if enumRun%5 == 0 {
					viaFormat(ds, w, coqEvery(4))
				}
			})
		}
	}
	// n = 1, target with a filter: every word up to length 4 with EVERY pattern of rejected units
	// (among them: the instance that reaches max is the rejected one and another follows)
	for occ := range occurrences {
		ds := build(forests(1, 3)[0], []attr{{occ: occ, name: 1}}, 0)
		allWords(alphabet(1), 4, func(us []Unit) {
			for pat := 0; pat < 1<<uint(len(us)); pat++ {
				w := append([]Unit(nil), us...)
				for i := range w {
					w[i].Rej = pat&(1<<uint(i)) != 0
				}
				enumRun++
				h.generated(&Case{Driver: "direct", Decls: ds, Units: w, Release: enumRun % 3, Filter: true}, coqEvery(20))
				if enumRun%2 == 0 {
					drv := formats[fmtTick%3]
					fmtTick++
					c := &Case{Driver: drv, Decls: ds, Units: w, Release: enumRun % 3, Omit: pat%2 == 0, Filter: true}
					eff := effective(drv, ds)
					if drv != "edi" || noRootRepeat(eff, goSpec(eff, w), w) {
						h.generated(c, coqEvery(6))
					}
				}
			}
		})
	}
	// n = 2: every hierarchy; every word up to length 4 (quick) / 6 (thorough)
	wl := 4
	if o.Tier == "thorough" {
		wl = 5
	}
	for _, f := range forests(2, 3) {
		nested := len(f) == 1
		for o1 := range occurrences {
			for o2 := range occurrences {
				for g := 0; g < 2; g++ {
					if g == 1 && !nested {
						continue
					}
					for n1 := 1; n1 <= 2; n1++ {
						if g == 1 && n1 == 2 {
							continue
						}
						for n2 := 1; n2 <= 2; n2++ {
							for tgt := -1; tgt <= 3; tgt++ {
								// tgt 2, 3: the two declarations carry the SAME name (target = first / second)
								t := tgt
								if tgt >= 2 {
									t = tgt - 2
								}
								ds := build(f, []attr{{occ: o1, group: g == 1, name: n1}, {occ: o2, name: n2}}, t)
								if tgt >= 2 {
									walk(ds, func(d *Decl) { d.Name = 100 })
									h.sum.Hist("duplicate-names")
								}
								allWords(alphabet(2), wl, func(us []Unit) {
									if tgt >= 2 && len(us) > 3 {
										return // same-name variants: words up to length 3 (longer ones are in the sampled stream)
									}
									w := append([]Unit(nil), us...)
									enumRun++
									h.generated(&Case{Driver: "direct", Decls: ds, Units: w, Release: enumRun % 3}, coqEvery(700))
									if enumRun%150 == 0 {
										viaFormat(ds, w, coqEvery(5))
									}
								})
							}
						}
					}
				}
			}
		}
	}
	exhaustive := enumRun
	// n = 3, 4 (and longer words for n = 2): sampled uniformly from the scope
	nsample := o.Count(120000, 3000000)
	shapes := map[int][][]*shape{2: forests(2, 3), 3: forests(3, 3), 4: forests(4, 3)}
	for i := 0; i < nsample; i++ {
		n := 3 + r.Pick(2)
		if r.Chance(0.1) {
			n = 2
		}
		f := shapes[n][r.Pick(len(shapes[n]))]
		nn := n
		if nn > 3 {
			nn = 3
		}
		attrs := make([]attr, n)
		for k := range attrs {
			attrs[k] = attr{occ: r.Pick(len(occurrences)), group: r.Chance(0.5), name: r.Between(1, nn)}
		}
		ds := build(f, attrs, r.Between(-1, n-1))
		dup := r.Chance(0.4) && dupNames(r, ds, 0.6, false)
		if dup {
			h.sum.Hist("duplicate-names")
		}
		w := randWord(r, alphabet(nn), 6)
		enumRun++
		h.generated(&Case{Driver: "direct", Decls: ds, Units: w, Release: r.Pick(3)}, coqEvery(100))
		if i%40 == 0 || (dup && i%8 == 0) {
			viaFormat(ds, w, coqEvery(4))
		}
	}
	fmt.Printf("small scope: %d (hierarchy, word) pairs run on the hierarchy reader (%d of them by exhaustive enumeration of <=2 declarations, words <= %d; the rest sampled from <=4 declarations, depth <=3, words <=6)\n",
		enumRun, exhaustive, wl)

	// ---- (b) random larger hierarchies, derived words with damage; invalid hierarchies ----
	nbig := o.Count(6000, 120000)
	for i := 0; i < nbig; i++ {
		flat := r.Chance(0.7)
		ds := genBig(r, flat)
		nn := maxName(ds)
		if r.Chance(0.45) && dupNames(r, ds, 0.5, !flat) {
			h.sum.Hist("duplicate-names")
		}
		us := derive(r, ds, nn)
		spoiled := false
		if r.Chance(0.08) {
			spoil(r, ds)
			spoiled = true
			h.sum.Hist("spoiled-hierarchy")
		}
		if flat || spoiled || r.Chance(0.3) {
			h.generated(&Case{Driver: "direct", Decls: ds, Units: us, Release: r.Pick(3)}, coqEvery(6))
		}
		if flat {
			drv := formats[i%2]
			h.generated(&Case{Driver: drv, Decls: ds, Units: us, Release: r.Pick(3), Omit: r.Chance(0.5)}, coqEvery(4))
		} else {
			fmtTick = 2
			if r.Chance(0.25) {
				// the word twice: the top-level sequence starts again (F14 class: spec_repeat only)
				us2 := append(append([]Unit(nil), us...), us...)
				for k := range us2 {
					us2[k].ID = k + 1
				}
				us = us2
			}
			viaFormat(ds, us, coqEvery(4))
		}
	}

	// ---- (c) long inputs: hundreds of multi-line envelopes/records, blank lines inside and between
	//         them, a leading filler line whose length is swept (every alignment to the 4096-byte
	//         reader buffer occurs), through the real csv2 / fixedlength2 readers ----
	nlong := o.Count(70, 1500)
	var longs []*Case
	for i := 0; i < nlong; i++ {
		c := genLong(r, []string{"fixedlength2", "csv2"}[i%2], i/2%64, i/2%5)
		h.generated(c, i%12 == 0 && i < 96) // few long cases go to Coq: a case file with dozens of them needs gigabytes to parse
		h.sum.Hist("long-input")
		longs = append(longs, c)
		if len(longs) >= 3 && i%6 == 5 {
			n := len(longs)
			h.together(longs[n-3], longs[n-2], longs[n-1], []string{"alternate", "concurrent"}[i/6%2])
		}
	}

	// ---- (c2) directed: at every refill of the 4096-byte buffer a multi-line envelope has a blank
	//          line inside, directly followed by a line that starts 0..6 bytes before the end of
	//          the buffered data ----
	ndir := o.Count(40, 600)
	for i := 0; i < ndir; i++ {
		drv := "fixedlength2"
		if i%5 == 4 {
			drv = "csv2"
		}
		c := genDirected(r, drv, i%5, i/5)
		h.generated(c, i%10 == 0 && i < 60)
		h.sum.Hist("directed-refill-input")
	}

	// ---- (e) pattern cases: regexps of every kind as header/footer, white-space-only lines as units ----
	npat := o.Count(3000, 60000)
	for i := 0; i < npat; i++ {
		c := genPat(r)
		h.generated(c, coqEvery(12))
		h.sum.Hist("pattern-case")
		if countTargets(c.Decls) <= 1 {
			fc := *c
			fc.Driver = []string{"csv2", "fixedlength2"}[i%2]
			fc.Decls = cloneDecls(c.Decls)
			fc.Omit = r.Chance(0.5)
			h.generated(&fc, coqEvery(6))
		}
	}

	// ---- (d) EDI inputs of several scanner-buffer refills, and readers alive at once ----
	nedi := o.Count(90, 2000)
	var edis []*Case
	for i := 0; i < nedi; i++ {
		c := genEdiLong(r)
		h.generated(c, i%6 == 0 && i < 300)
		h.sum.Hist("edi-long-input")
		edis = append(edis, c)
		if n := len(edis); n >= 3 && i%2 == 1 {
			h.together(edis[n-3], edis[n-2], edis[n-1], []string{"alternate", "concurrent"}[i/2%2])
		}
	}

	h.sum.Extra["runs_by_driver"] = h.ran
	h.sum.Extra["small_scope_pairs"] = enumRun
	h.sum.Extra["small_scope_exhaustive_pairs"] = exhaustive
	h.sum.Extra["cases_evaluated_in_coq"] = h.toCoq
	fmt.Printf("runs by driver: %v; cases handed to the Coq model: %d; oracle failures: %d\n", h.ran, h.toCoq, len(h.sum.Failures))
	h.cw.Flush()
	h.sum.CaseFiles = h.cw.Files
	h.sum.Write(o)
}

// spoil makes the hierarchy leave what validation accepts / the guards of the theorems.
func spoil(r *vh.Rng, ds []*Decl) {
	var all []*Decl
	walk(ds, func(d *Decl) { all = append(all, d) })
	d := all[r.Pick(len(all))]
	switch r.Pick(5) {
	case 0: // min > max
		d.Min, d.Max = 2, 1
	case 1: // empty group
		d.Group, d.Kids, d.Leaf = true, nil, Leaf{}
	case 2: // no target at all
		for _, x := range all {
			x.Target = false
		}
	case 3: // max = 0
		d.Min, d.Max = 0, 0
	case 4: // a second target, not nested with the first
		if countTargets(ds) == 1 && len(ds) > 1 {
			var first int
			for i, t := range ds {
				if countTargets([]*Decl{t}) == 1 {
					first = i
				}
			}
			other := ds[(first+1)%len(ds)]
			other.Target = true
		}
	}
}
