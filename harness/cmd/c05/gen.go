package main

// Generators: the small-scope enumeration (search support) and the random larger hierarchies.

import (
	"verifharness/vh"
)

// shape of a forest: each node lists its children
type shape struct{ kids []*shape }

// forests(n, depth): all ordered forests with exactly n nodes and height <= depth
func forests(n, depth int) [][]*shape {
	if n == 0 {
		return [][]*shape{{}}
	}
	if depth == 0 {
		return nil
	}
	var out [][]*shape
	// first tree has k nodes (1 root + k-1 below), the remaining forest n-k
	for k := 1; k <= n; k++ {
		for _, sub := range forests(k-1, depth-1) {
			for _, rest := range forests(n-k, depth) {
				f := append([]*shape{{kids: sub}}, rest...)
				out = append(out, f)
			}
		}
	}
	return out
}

var occurrences = [][2]int{{0, 1}, {0, 2}, {0, -1}, {1, 1}, {1, 2}, {1, -1}, {2, 2}, {2, -1}}

type attr struct {
	occ   int  // index into occurrences
	group bool // only meaningful for nodes with children
	name  int  // leaf name for non-group nodes
}

func countNodes(f []*shape) int {
	n := 0
	for _, s := range f {
		n += 1 + countNodes(s.kids)
	}
	return n
}

// build instantiates a shape with attributes (preorder) and the target index (-1 none)
func build(f []*shape, attrs []attr, target int) []*Decl {
	idx := 0
	var rec func(f []*shape) []*Decl
	rec = func(f []*shape) []*Decl {
		var out []*Decl
		for _, s := range f {
			a := attrs[idx]
			d := &Decl{Name: 100 + idx, Min: occurrences[a.occ][0], Max: occurrences[a.occ][1], Target: idx == target}
			idx++
			if a.group && len(s.kids) > 0 {
				d.Group = true
			} else {
				d.Leaf = Leaf{Kind: "name", N: a.name}
			}
			d.Kids = rec(s.kids)
			out = append(out, d)
		}
		return out
	}
	return rec(f)
}

// allWords calls f on every word of length <= maxLen over the alphabet
func allWords(alpha []int, maxLen int, f func(us []Unit)) {
	var rec func(prefix []Unit)
	rec = func(prefix []Unit) {
		f(prefix)
		if len(prefix) == maxLen {
			return
		}
		for _, a := range alpha {
			rec(append(prefix, Unit{Name: a, ID: len(prefix) + 1}))
		}
	}
	rec(nil)
}

func randWord(r *vh.Rng, alpha []int, maxLen int) []Unit {
	n := r.Between(0, maxLen)
	us := make([]Unit, n)
	for i := range us {
		us[i] = Unit{Name: alpha[r.Pick(len(alpha))], ID: i + 1}
	}
	return us
}

func alphabet(nnames int) []int {
	var a []int
	for i := 1; i <= nnames; i++ {
		a = append(a, i)
	}
	return append(a, undeclaredName)
}

// ---- random larger hierarchies -------------------------------------------------------------------------

type bigGen struct {
	r      *vh.Rng
	next   int
	nnames int
	flat   bool // rows / header-footer leaves allowed
	budget int
}

func (g *bigGen) occ() (int, int) {
	switch g.r.Pick(10) {
	case 0:
		return 0, 1
	case 1:
		return 1, 1
	case 2:
		return 0, -1
	case 3:
		return 1, -1
	case 4:
		return 2, 3
	case 5:
		return 0, 2
	case 6:
		return 1, 2
	case 7:
		return 2, 2
	case 8:
		return 3, -1
	}
	return 0, 3
}

func (g *bigGen) leaf() Leaf {
	if g.flat {
		switch g.r.Pick(8) {
		case 0:
			return Leaf{Kind: "rows", K: g.r.Between(1, 3)}
		case 1:
			return Leaf{Kind: "hf", N: g.r.Between(1, g.nnames), F: g.r.Between(1, g.nnames)}
		}
	}
	return Leaf{Kind: "name", N: g.r.Between(1, g.nnames)}
}

func (g *bigGen) decls(depth int, top bool) []*Decl {
	n := g.r.Between(1, 3)
	var out []*Decl
	for i := 0; i < n && g.budget > 0; i++ {
		g.budget--
		d := &Decl{Name: 100 + g.next}
		g.next++
		d.Min, d.Max = g.occ()
		hasKids := depth > 1 && g.budget > 0 && g.r.Chance(0.45)
		if hasKids {
			d.Kids = g.decls(depth-1, false)
		}
		if len(d.Kids) > 0 && g.r.Chance(0.6) {
			d.Group = true
		} else {
			d.Leaf = g.leaf()
		}
		out = append(out, d)
	}
	return out
}

func genBig(r *vh.Rng, flat bool) []*Decl {
	g := &bigGen{r: r, nnames: r.Between(2, 5), flat: flat, budget: r.Between(3, 9)}
	ds := g.decls(r.Between(1, 4), true)
	// one target somewhere (or, for the flat formats, sometimes none: the first becomes the target)
	var all []*Decl
	walk(ds, func(d *Decl) { all = append(all, d) })
	if !(flat && r.Chance(0.15)) {
		all[r.Pick(len(all))].Target = true
	}
	return ds
}

// derive emits a word of the hierarchy's language (counts within [min, max]), then damages it
// with some probability.
func derive(r *vh.Rng, ds []*Decl, nnames int) []Unit {
	var names []int
	var inst func(d *Decl)
	seq := func(ds []*Decl) {
		for _, d := range ds {
			hi := d.Max
			if hi < 0 || hi > d.Min+2 {
				hi = d.Min + 2
			}
			k := r.Between(d.Min, hi)
			if r.Chance(0.5) && d.Min == 0 {
				k = 0
			}
			for i := 0; i < k && len(names) < 14; i++ {
				inst(d)
			}
		}
	}
	inst = func(d *Decl) {
		if !d.Group {
			switch d.Leaf.Kind {
			case "name":
				names = append(names, d.Leaf.N)
			case "rows":
				for i := 0; i < d.Leaf.K; i++ {
					names = append(names, r.Between(1, nnames))
				}
			case "hf":
				names = append(names, d.Leaf.N)
				if d.Leaf.F != d.Leaf.N {
					for i, k := 0, r.Between(0, 2); i < k; i++ {
						x := r.Between(1, nnames)
						if x != d.Leaf.F {
							names = append(names, x)
						}
					}
					names = append(names, d.Leaf.F)
				}
			}
		}
		seqInner(d.Kids, &names, r, nnames, inst)
	}
	seq(ds)
	// damage
	for r.Chance(0.45) && len(names) < 14 {
		switch r.Pick(4) {
		case 0: // insert
			p := r.Pick(len(names) + 1)
			x := r.Between(1, nnames)
			if r.Chance(0.3) {
				x = undeclaredName
			}
			names = append(names[:p], append([]int{x}, names[p:]...)...)
		case 1: // drop
			if len(names) > 0 {
				p := r.Pick(len(names))
				names = append(names[:p], names[p+1:]...)
			}
		case 2: // replace
			if len(names) > 0 {
				names[r.Pick(len(names))] = r.Between(1, nnames)
			}
		case 3: // truncate
			if len(names) > 0 {
				names = names[:r.Pick(len(names))]
			}
		}
	}
	if len(names) > 14 {
		names = names[:14]
	}
	us := make([]Unit, len(names))
	for i, n := range names {
		us[i] = Unit{Name: n, ID: i + 1}
	}
	return us
}

func seqInner(ds []*Decl, names *[]int, r *vh.Rng, nnames int, inst func(d *Decl)) {
	for _, d := range ds {
		hi := d.Max
		if hi < 0 || hi > d.Min+2 {
			hi = d.Min + 2
		}
		k := r.Between(d.Min, hi)
		for i := 0; i < k && len(*names) < 14; i++ {
			inst(d)
		}
	}
}

func maxName(ds []*Decl) int {
	m := 1
	walk(ds, func(d *Decl) {
		if !d.Group {
			if d.Leaf.N > m && d.Leaf.N != undeclaredName {
				m = d.Leaf.N
			}
			if d.Leaf.Kind == "hf" && d.Leaf.F > m {
				m = d.Leaf.F
			}
		}
	})
	return m
}

// dupNames makes declaration names collide: every declaration takes, with probability p, the name
// of a random other declaration (same-named groups under different parents with different leading
// records, same-named records in different groups, a group and a record sharing a name, same-named
// siblings); with edi, a group sometimes takes the name of a segment.  Declarations are identified
// by position everywhere in the harness and the model; the name is only a label.
func dupNames(r *vh.Rng, ds []*Decl, p float64, edi bool) bool {
	var all []*Decl
	walk(ds, func(d *Decl) { all = append(all, d) })
	if len(all) < 2 {
		return false
	}
	names := make([]int, len(all))
	for i, d := range all {
		names[i] = d.Name
	}
	changed := false
	for i, d := range all {
		if !r.Chance(p) {
			continue
		}
		j := r.Pick(len(all))
		if j == i {
			j = (j + 1) % len(all)
		}
		if edi && !d.Group {
			continue // an EDI segment declaration is named by its segment
		}
		nm := names[j]
		if edi && !all[j].Group {
			nm = all[j].Leaf.N
		}
		if nm != d.Name {
			d.Name = nm
			changed = true
		}
	}
	return changed
}

// genLong: a long input (several reader-buffer refills) of multi-line envelopes.
//
//	variant 0/1  E (target): rows 2 / rows 3
//	variant 2    E (target): header H ... footer T
//	variant 3    G (target) = [ E rows 2 (1..1), D (0..2) ]: the multi-line record leads a group
//	variant 4    G (target) = [ E header H ... footer T (1..1), D (0..2) ]
//
// preceded by one filler line F whose padding is pad (swept by the caller) and followed by an
// optional trailer Z; blank lines are sprinkled inside and between the envelopes.
func genLong(r *vh.Rng, driver string, pad int, variant int) *Case {
	const F, R, H, M, T, D, Z = 6, 18, 8, 13, 20, 4, 26
	filler := &Decl{Name: 100, Min: 1, Max: 1, Leaf: Leaf{Kind: "name", N: F}}
	var env *Decl
	switch variant {
	case 0:
		env = &Decl{Name: 101, Min: 0, Max: -1, Leaf: Leaf{Kind: "rows", K: 2}}
	case 1:
		env = &Decl{Name: 101, Min: 0, Max: -1, Leaf: Leaf{Kind: "rows", K: 3}}
	case 2:
		env = &Decl{Name: 101, Min: 0, Max: -1, Leaf: Leaf{Kind: "hf", N: H, F: T}}
	case 3:
		env = &Decl{Name: 101, Group: true, Min: 0, Max: -1, Kids: []*Decl{
			{Name: 102, Min: 1, Max: 1, Leaf: Leaf{Kind: "rows", K: 2}},
			{Name: 103, Min: 0, Max: 2, Leaf: Leaf{Kind: "name", N: D}}}}
	default:
		env = &Decl{Name: 101, Group: true, Min: 0, Max: -1, Kids: []*Decl{
			{Name: 102, Min: 1, Max: 1, Leaf: Leaf{Kind: "hf", N: H, F: T}},
			{Name: 103, Min: 0, Max: 2, Leaf: Leaf{Kind: "name", N: D}}}}
	}
	env.Target = true
	ds := []*Decl{filler, env}
	var names []int
	names = append(names, F)
	nenv := r.Between(150, 420)
	for e := 0; e < nenv; e++ {
		switch variant {
		case 0:
			names = append(names, R, R)
		case 1:
			names = append(names, R, R, R)
		case 2, 4:
			names = append(names, H)
			for i, k := 0, r.Between(0, 3); i < k; i++ {
				names = append(names, M)
			}
			names = append(names, T)
		case 3:
			names = append(names, R, R)
		}
		if variant >= 3 {
			for i, k := 0, r.Pick(3); i < k; i++ {
				names = append(names, D)
			}
		}
	}
	if variant == 2 || variant == 4 {
		if r.Chance(0.5) {
			ds = append(ds, &Decl{Name: 104, Min: 0, Max: 1, Leaf: Leaf{Kind: "name", N: Z}})
			names = append(names, Z)
		}
	}
	if r.Chance(0.2) { // damage near the end: a dangling line
		names = append(names, []int{R, H, M, undeclaredName}[r.Pick(4)])
	}
	us := make([]Unit, len(names))
	for i, n := range names {
		us[i] = Unit{Name: n, ID: i + 1}
		if r.Chance(0.15) {
			us[i].Blank = r.Between(1, 2)
		}
		if r.Chance(0.05) {
			us[i].Pad = r.Between(1, 9)
		}
	}
	us[0].Pad = pad
	return &Case{Driver: driver, Decls: ds, Units: us, Release: r.Pick(3), Omit: r.Chance(0.5)}
}

// genEdiLong: an EDI input of several scanner-buffer refills (the EDI reader's buffer is 128
// bytes): H, then groups G = [A, B*] (target), then a LAST declaration that is optional and
// repeatable (the reader re-reads its input at EOF once per unwinding step there).
func genEdiLong(r *vh.Rng) *Case {
	const H, A, B, T = 8, 1, 2, 20
	g := &Decl{Name: 101, Group: true, Target: true, Min: 0, Max: -1, Kids: []*Decl{
		{Name: A, Min: 1, Max: 1, Leaf: Leaf{Kind: "name", N: A}},
		{Name: B, Min: 0, Max: -1, Leaf: Leaf{Kind: "name", N: B}}}}
	if r.Chance(0.3) {
		g.Kids[1].Kids = []*Decl{{Name: 3, Min: 0, Max: 2, Leaf: Leaf{Kind: "name", N: 3}}}
	}
	ds := []*Decl{{Name: H, Min: 1, Max: 1, Leaf: Leaf{Kind: "name", N: H}}, g,
		{Name: T, Min: 0, Max: -1, Leaf: Leaf{Kind: "name", N: T}}}
	names := []int{H}
	for e, n := 0, r.Between(8, 40); e < n; e++ {
		names = append(names, A)
		for i, k := 0, r.Pick(4); i < k; i++ {
			names = append(names, B)
			if len(g.Kids[1].Kids) > 0 && r.Chance(0.4) {
				names = append(names, 3)
			}
		}
	}
	for i, k := 0, r.Pick(4); i < k; i++ {
		names = append(names, T)
	}
	if r.Chance(0.15) {
		names = append(names, undeclaredName)
	}
	us := make([]Unit, len(names))
	for i, n := range names {
		us[i] = Unit{Name: n, ID: i + 1}
	}
	return &Case{Driver: "edi", Decls: ds, Units: us, Release: r.Pick(3), Omit: r.Chance(0.5)}
}

// genDirected: a long fixedlength2 input in which, at EVERY refill of the reader's 4096-byte
// buffer, a multi-line envelope has "a non-final line; blank line(s); the next line of the same
// envelope starting d bytes before the end of what is buffered" (d = 0: exactly at the boundary,
// d >= 1: straddling it).  The byte offsets are computed while generating: a fixedlength2 line is
// name(1) id(4) flag(1) padding '\n' followed by the unit's blank lines; bufio refills when a line
// is not completely buffered and then holds [start of that line, +4096).
//
//	variant 0/1  E (target): rows 2 / rows 3
//	variant 2    E (target): header H, middle lines M, footer T
//	variant 3/4  G (target) = [ E rows 2 | header/footer (1..1), D (0..2) ]: E leads a group
func genDirected(r *vh.Rng, driver string, variant int, sweep int) *Case {
	const bufSize = 4096
	const F, R, H, M, T, D = 6, 18, 8, 13, 20, 4
	c := genLong(r, driver, 0, variant)
	c.Units = nil
	var us []Unit
	off, bufEnd := 0, bufSize
	// emit appends a unit and advances the simulated reader
	emit := func(name, pad, blank int) {
		us = append(us, Unit{Name: name, ID: len(us) + 1, Pad: pad, Blank: blank})
		start, end := off, off+7+pad
		if end > bufEnd {
			bufEnd = start + bufSize
		}
		off = end
		for i := 0; i < blank; i++ {
			if off+1 > bufEnd {
				bufEnd = off + bufSize
			}
			off++
		}
	}
	basePad := 12 + r.Pick(12)
	emit(F, r.Pick(40), 0)
	hits := 0
	for refills := 0; refills < 7 && len(us) < 3000; {
		// the lines of one envelope
		var lines []int
		switch variant {
		case 0, 3:
			lines = []int{R, R}
		case 1:
			lines = []int{R, R, R}
		default:
			lines = []int{H}
			for i, k := 0, r.Between(0, 2); i < k; i++ {
				lines = append(lines, M)
			}
			lines = append(lines, T)
		}
		gap := bufEnd - off
		if gap > 7+2+7 && gap < len(lines)*7+2+7+60 {
			// directed: the blank goes after line j (non-final); lines up to j are unpadded except
			// line j, whose padding puts the start of line j+1 at bufEnd - d
			j := (sweep + hits) % (len(lines) - 1)
			d := (sweep/2 + hits) % 7
			nblank := 1 + (sweep+hits)%2
			need := bufEnd - d - nblank - off - 7*(j+1)
			if need >= 0 {
				for i := 0; i < j; i++ {
					emit(lines[i], 0, 0)
				}
				emit(lines[j], need, nblank)
				before := bufEnd
				for i := j + 1; i < len(lines); i++ {
					emit(lines[i], basePad, 0)
				}
				if bufEnd != before {
					refills++
					hits++
				}
				if variant >= 3 {
					for i, k := 0, r.Pick(3); i < k; i++ {
						emit(D, basePad, 0)
					}
				}
				continue
			}
		}
		before := bufEnd
		for i, n := range lines {
			blank := 0
			if i < len(lines)-1 && r.Chance(0.1) {
				blank = 1
			}
			emit(n, basePad+r.Pick(3), blank)
		}
		if variant >= 3 {
			for i, k := 0, r.Pick(3); i < k; i++ {
				emit(D, basePad, 0)
			}
		}
		if bufEnd != before {
			refills++ // an undirected refill (the gap did not allow the placement)
		}
	}
	// a few more envelopes after the last refill
	for e := 0; e < 5; e++ {
		switch variant {
		case 0, 3:
			emit(R, basePad, 0)
			emit(R, basePad, 0)
		case 1:
			emit(R, basePad, 0)
			emit(R, basePad, 0)
			emit(R, basePad, 0)
		default:
			emit(H, basePad, 0)
			emit(T, basePad, 0)
		}
	}
	c.Decls = c.Decls[:2] // filler + envelope (no trailer)
	c.Units = us
	return c
}

// ---- pattern cases: header/footer regular expressions of every kind, raw lines on which "has that
//      prefix" / "contains" / "equals" differ, white-space-only lines as legal units ----

var patPool = []string{`^B$`, `^E$`, `TOTAL`, `,X,`, `^H,`, `^ABC`, `^ABC.*$`, `^(B|C)`, `^[A-C]`, `3$`,
	`^\s*$`, `^ `, `\.`, `^a\+b`, `^T`, `E`, `^\t`, `^D`, `^Z9$`, `^(Eggs|TOTAL),`, `[0-9]$`, `B`}

var linePool = []string{"B", "E", "Bananas,3", "Eggs,12", "TOTAL", "xTOTAL", "TOTAL,9", "a,X,b", "H,1", "ABC",
	"ABCD,2", "C,1", "A,3", "a+b", "a.b", "T", "   ", "\t", " \t ", "  ", "Ex", "BE", "D,4", "Z9", "Z9x", " B",
	" ", "\t\t", "H", "aTOTALb,1"}

func linesMatching(p string) []string {
	var out []string
	for _, l := range linePool {
		if reOf(p).MatchString(l) {
			out = append(out, l)
		}
	}
	return out
}

func genPat(r *vh.Rng) *Case {
	next := 0
	var mk func(depth int, n int) []*Decl
	mk = func(depth int, n int) []*Decl {
		var out []*Decl
		for i := 0; i < n; i++ {
			d := &Decl{Name: 100 + next}
			next++
			o := occurrences[r.Pick(len(occurrences))]
			d.Min, d.Max = o[0], o[1]
			if depth > 1 && next < 5 && r.Chance(0.35) {
				d.Kids = mk(depth-1, r.Between(1, 2))
			}
			if len(d.Kids) > 0 && r.Chance(0.5) {
				d.Group = true
			} else {
				switch r.Pick(4) {
				case 0:
					d.Leaf = Leaf{Kind: "rows", K: r.Between(1, 3)}
				case 1:
					d.Leaf = Leaf{Kind: "pat", HRe: patPool[r.Pick(len(patPool))], FRe: patPool[r.Pick(len(patPool))]}
				default:
					d.Leaf = Leaf{Kind: "pat", HRe: patPool[r.Pick(len(patPool))]}
				}
			}
			out = append(out, d)
		}
		return out
	}
	ds := mk(2, r.Between(1, 3))
	var all []*Decl
	walk(ds, func(d *Decl) { all = append(all, d) })
	if r.Chance(0.85) {
		all[r.Pick(len(all))].Target = true
	}
	anyLine := func() string {
		if r.Chance(0.25) {
			return []string{"   ", "\t", " \t ", "  ", " ", "\t\t"}[r.Pick(6)]
		}
		return linePool[r.Pick(len(linePool))]
	}
	matching := func(p string) string {
		if ls := linesMatching(p); len(ls) > 0 && r.Chance(0.9) {
			return ls[r.Pick(len(ls))]
		}
		return anyLine()
	}
	var lines []string
	var inst func(d *Decl)
	seq := func(ds []*Decl) {
		for _, d := range ds {
			hi := d.Max
			if hi < 0 || hi > d.Min+1 {
				hi = d.Min + 1
			}
			for i, k := 0, r.Between(d.Min, hi); i < k && len(lines) < 14; i++ {
				inst(d)
			}
		}
	}
	inst = func(d *Decl) {
		if !d.Group {
			switch d.Leaf.Kind {
			case "rows":
				for i := 0; i < d.Leaf.K; i++ {
					lines = append(lines, anyLine())
				}
			case "pat":
				lines = append(lines, matching(d.Leaf.HRe))
				if d.Leaf.FRe != "" {
					for i, k := 0, r.Pick(3); i < k; i++ {
						lines = append(lines, anyLine())
					}
					lines = append(lines, matching(d.Leaf.FRe))
				}
			}
		}
		seq(d.Kids)
	}
	seq(ds)
	for r.Chance(0.4) && len(lines) < 14 {
		switch r.Pick(3) {
		case 0:
			p := r.Pick(len(lines) + 1)
			lines = append(lines[:p], append([]string{anyLine()}, lines[p:]...)...)
		case 1:
			if len(lines) > 0 {
				p := r.Pick(len(lines))
				lines = append(lines[:p], lines[p+1:]...)
			}
		case 2:
			if len(lines) > 0 {
				lines[r.Pick(len(lines))] = anyLine()
			}
		}
	}
	if len(lines) > 14 {
		lines = lines[:14]
	}
	us := make([]Unit, len(lines))
	for i, l := range lines {
		us[i] = Unit{ID: i + 1, Raw: l}
		if r.Chance(0.08) {
			us[i].Blank = 1
		}
	}
	return &Case{Driver: "direct", Decls: ds, Units: us, Release: r.Pick(3), Pat: true}
}
