// c14: concurrency harness for property C14 (schemas and process-wide state are safe to share
// between goroutines).  Oracle on the implementation: every goroutine's full transcript equals the
// transcript of the same (schema, input) run alone beforehand; the schema's validated
// declarations and format runtime are unchanged; and the SAME workload, built with -race and run
// as a child process, reports no data race.
package main

import (
	"bytes"
	"crypto/sha256"
	"encoding/hex"
	"encoding/json"
	"flag"
	"fmt"
	"io"
	"os"
	"os/exec"
	"path/filepath"
	"reflect"
	"regexp"
	"runtime"
	"sort"
	"strings"
	"sync"
	"time"

	"github.com/jf-tech/omniparser"
	"github.com/jf-tech/omniparser/customfuncs"
	"github.com/jf-tech/omniparser/errs"
	"github.com/jf-tech/omniparser/extensions/omniv21"
	v21 "github.com/jf-tech/omniparser/extensions/omniv21/customfuncs"
	"github.com/jf-tech/omniparser/extensions/omniv21/fileformat"
	"github.com/jf-tech/omniparser/extensions/omniv21/fileformat/csv"
	"github.com/jf-tech/omniparser/extensions/omniv21/fileformat/edi"
	"github.com/jf-tech/omniparser/extensions/omniv21/fileformat/fixedlength"
	csv2 "github.com/jf-tech/omniparser/extensions/omniv21/fileformat/flatfile/csv"
	fixedlength2 "github.com/jf-tech/omniparser/extensions/omniv21/fileformat/flatfile/fixedlength"
	fjson "github.com/jf-tech/omniparser/extensions/omniv21/fileformat/json"
	fxml "github.com/jf-tech/omniparser/extensions/omniv21/fileformat/xml"
	"github.com/jf-tech/omniparser/extensions/omniv21/transform"
	"github.com/jf-tech/omniparser/idr"
	"github.com/jf-tech/omniparser/schemahandler"
	"github.com/jf-tech/omniparser/transformctx"

	"verifharness/vh"
)

// ---- capturing wrappers (public extension points only) --------------------------------------------

type capture struct {
	decl *transform.Decl
	rt   interface{}
}

type capFormat struct {
	inner fileformat.FileFormat
	cap   *capture
}

func (f *capFormat) ValidateSchema(format string, content []byte, decl *transform.Decl) (interface{}, error) {
	rt, err := f.inner.ValidateSchema(format, content, decl)
	if err == nil {
		f.cap.decl, f.cap.rt = decl, rt
	}
	return rt, err
}

type idLog struct {
	ids []int64 // record nodes
	all []int64 // every node of every record tree handed out
}

func (f *capFormat) CreateFormatReader(name string, input io.Reader, rt interface{}) (fileformat.FormatReader, error) {
	r, err := f.inner.CreateFormatReader(name, input, rt)
	if err != nil {
		return nil, err
	}
	return &capReader{inner: r, log: currentLog(name)}, nil
}

// transforms are told their log through the input name (unique per transform)
var logs sync.Map

func currentLog(name string) *idLog {
	if l, ok := logs.Load(name); ok {
		return l.(*idLog)
	}
	return nil
}

type capReader struct {
	inner fileformat.FormatReader
	log   *idLog
}

func (r *capReader) Read() (*idr.Node, error) {
	n, err := r.inner.Read()
	if n != nil && r.log != nil {
		r.log.ids = append(r.log.ids, n.ID)
		var walk func(x *idr.Node)
		walk = func(x *idr.Node) {
			r.log.all = append(r.log.all, x.ID)
			for c := x.FirstChild; c != nil; c = c.NextSibling {
				walk(c)
			}
		}
		walk(n)
	}
	return n, err
}
func (r *capReader) Release(n *idr.Node)               { r.inner.Release(n) }
func (r *capReader) IsContinuableError(err error) bool { return r.inner.IsContinuableError(err) }
func (r *capReader) FmtErr(format string, args ...interface{}) error {
	return r.inner.FmtErr(format, args...)
}

func builtinFormats(name string) []fileformat.FileFormat {
	return []fileformat.FileFormat{
		csv.NewCSVFileFormat(name), csv2.NewCSVFileFormat(name), edi.NewEDIFileFormat(name),
		fixedlength.NewFixedLengthFileFormat(name), fixedlength2.NewFixedLengthFileFormat(name),
		fjson.NewJSONFileFormat(name), fxml.NewXMLFileFormat(name),
	}
}

type sharedSchema struct {
	Name   string
	Schema omniparser.Schema
	cap    *capture
	Text   string
	ref    string // dump taken right after validation
}

// The application's extension list: ONE slice, built by append (spare capacity), shared by every
// goroutine that creates schemas.  Ordinary schemas are created with sharedExts[:1]... (the
// capturing extension only), schemas named x2-... with the whole list (the second extension
// brings its own custom_func).  NewSchema must not write to the caller's slice.
var captures sync.Map // unique schema name -> *capture

func capHandler(ctx *schemahandler.CreateCtx) (schemahandler.SchemaHandler, error) {
	var cp *capture
	if c, ok := captures.Load(ctx.Name); ok {
		cp = c.(*capture)
	} else {
		cp = &capture{}
	}
	var wrapped []fileformat.FileFormat
	for _, f := range builtinFormats(ctx.Name) {
		wrapped = append(wrapped, &capFormat{inner: f, cap: cp})
	}
	c2 := *ctx
	c2.CreateParams = &omniv21.CreateParams{CustomFileFormats: wrapped}
	return omniv21.CreateSchemaHandler(&c2)
}

var sharedExts = func() []omniparser.Extension {
	l := make([]omniparser.Extension, 0, 4)
	l = append(l, omniparser.Extension{
		CreateSchemaHandler: func(ctx *schemahandler.CreateCtx) (schemahandler.SchemaHandler, error) {
			if strings.HasPrefix(ctx.Name, "x2-") {
				return nil, errs.ErrSchemaNotSupported
			}
			return capHandler(ctx)
		},
		CustomFuncs: customfuncs.Merge(customfuncs.CommonCustomFuncs, v21.OmniV21CustomFuncs),
	})
	l = append(l, omniparser.Extension{
		CreateSchemaHandler: func(ctx *schemahandler.CreateCtx) (schemahandler.SchemaHandler, error) {
			if !strings.HasPrefix(ctx.Name, "x2-") {
				return nil, errs.ErrSchemaNotSupported
			}
			return capHandler(ctx)
		},
		CustomFuncs: customfuncs.Merge(customfuncs.CommonCustomFuncs, v21.OmniV21CustomFuncs, customfuncs.CustomFuncs{
			"verif_tag": func(_ *transformctx.Ctx, s string) (string, error) { return "[" + s + "]", nil },
			// this extension binds the builtin NAME `upper` to its own function
			"upper": func(_ *transformctx.Ctx, s string) (string, error) { return "<<" + strings.ToUpper(s) + ">>", nil },
		}),
	})
	return l
}()

func newSchema(name, text string) (*sharedSchema, error) {
	ss := &sharedSchema{Name: name, cap: &capture{}, Text: text}
	uname := nextName(name)
	captures.Store(uname, ss.cap)
	defer captures.Delete(uname)
	exts := sharedExts[:1]
	if strings.HasPrefix(name, "x2-") {
		exts = sharedExts
	}
	s, err := omniparser.NewSchema(uname, strings.NewReader(text), exts...)
	if err != nil {
		return nil, err
	}
	ss.Schema = s
	ss.ref = ss.dump()
	return ss, nil
}

// deepDump renders any value reachable from v (through pointers, unexported fields, maps in key
// order); regexps by their source; functions by nil-ness.  Addresses are not printed.
func deepDump(v interface{}) string {
	var sb strings.Builder
	seen := map[uintptr]bool{}
	var walk func(rv reflect.Value, depth int)
	walk = func(rv reflect.Value, depth int) {
		if depth > 60 {
			sb.WriteString("<deep>")
			return
		}
		if !rv.IsValid() {
			sb.WriteString("nil")
			return
		}
		if rv.Type() == reflect.TypeOf((*regexp.Regexp)(nil)).Elem() {
			sb.WriteString("re")
			return
		}
		switch rv.Kind() {
		case reflect.Ptr:
			if rv.IsNil() {
				sb.WriteString("nil")
				return
			}
			if rv.Type() == reflect.TypeOf(&regexp.Regexp{}) {
				if rv.CanInterface() {
					sb.WriteString("re(" + rv.Interface().(*regexp.Regexp).String() + ")")
				} else {
					sb.WriteString("re(*)")
				}
				return
			}
			if seen[rv.Pointer()] {
				sb.WriteString("<cycle>")
				return
			}
			seen[rv.Pointer()] = true
			sb.WriteString("&")
			walk(rv.Elem(), depth+1)
		case reflect.Interface:
			if rv.IsNil() {
				sb.WriteString("nil")
				return
			}
			walk(rv.Elem(), depth+1)
		case reflect.Struct:
			sb.WriteString(rv.Type().String() + "{")
			for i := 0; i < rv.NumField(); i++ {
				sb.WriteString(rv.Type().Field(i).Name + ":")
				walk(rv.Field(i), depth+1)
				sb.WriteString(";")
			}
			sb.WriteString("}")
		case reflect.Slice, reflect.Array:
			if rv.Kind() == reflect.Slice && rv.IsNil() {
				sb.WriteString("nil[]")
				return
			}
			sb.WriteString("[")
			for i := 0; i < rv.Len(); i++ {
				walk(rv.Index(i), depth+1)
				sb.WriteString(",")
			}
			sb.WriteString("]")
		case reflect.Map:
			if rv.IsNil() {
				sb.WriteString("nilmap")
				return
			}
			keys := rv.MapKeys()
			sort.Slice(keys, func(i, j int) bool { return fmt.Sprint(keys[i]) < fmt.Sprint(keys[j]) })
			sb.WriteString("map{")
			for _, k := range keys {
				sb.WriteString(fmt.Sprint(k) + ":")
				walk(rv.MapIndex(k), depth+1)
				sb.WriteString(",")
			}
			sb.WriteString("}")
		case reflect.Func, reflect.Chan, reflect.UnsafePointer:
			if rv.IsNil() {
				sb.WriteString("nilfn")
			} else {
				sb.WriteString("fn")
			}
		case reflect.String:
			fmt.Fprintf(&sb, "%q", rv.String())
		case reflect.Bool:
			fmt.Fprint(&sb, rv.Bool())
		case reflect.Int, reflect.Int8, reflect.Int16, reflect.Int32, reflect.Int64:
			fmt.Fprint(&sb, rv.Int())
		case reflect.Uint, reflect.Uint8, reflect.Uint16, reflect.Uint32, reflect.Uint64, reflect.Uintptr:
			fmt.Fprint(&sb, rv.Uint())
		case reflect.Float32, reflect.Float64:
			fmt.Fprint(&sb, rv.Float())
		default:
			sb.WriteString("?")
		}
	}
	walk(reflect.ValueOf(v), 0)
	return sb.String()
}

func (ss *sharedSchema) dump() string {
	h := sha256.Sum256([]byte(transform.VerifDeclDump(ss.cap.decl) + "\x00" + deepDump(ss.cap.rt) + "\x00" +
		deepDump(ss.Schema.Header()) + "\x00" + string(ss.Schema.Content())))
	return hex.EncodeToString(h[:])
}

// ---- workloads ----------------------------------------------------------------------------------------

const jsSchema = `{"parser_settings": {"version": "omni.2.1", "file_format_type": "json"},
 "transform_declarations": {"FINAL_OUTPUT": {"xpath": "/*", "object": {
   "sum": {"custom_func": {"name": "javascript", "args": [{"const": "a + b * 2"}, {"const": "a"}, {"xpath": "v", "type": "int"}, {"const": "b"}, {"xpath": "w", "type": "float"}]}},
   "who": {"custom_func": {"name": "javascript", "args": [{"const": "typeof leak === 'undefined' ? s.toUpperCase() : 'LEAK'"}, {"const": "s"}, {"xpath": "s"}]}},
   "node": {"custom_func": {"name": "javascript_with_context", "args": [{"const": "JSON.parse(_node).v"}]}},
   "tags": {"custom_func": {"name": "javascript", "args": [{"const": "t.split('/').map(function(x){return x.trim()})"}, {"const": "t"}, {"xpath": "t"}]}},
   "bad": {"custom_func": {"name": "javascript", "ignore_error": true, "args": [{"const": "q.nope.nope"}, {"const": "q"}, {"xpath": "v", "type": "int"}]}},
   "copy": {"custom_func": {"name": "copy"}}
 }}}}`

const jsSchema2 = `{"parser_settings": {"version": "omni.2.1", "file_format_type": "json"},
 "transform_declarations": {"FINAL_OUTPUT": {"xpath": "/*", "object": {
   "leak": {"custom_func": {"name": "javascript", "args": [{"const": "leak + '!' + (typeof a) + (typeof s)"}, {"const": "leak"}, {"xpath": "s"}]}},
   "id": {"custom_func": {"name": "javascript_with_context", "args": [{"const": "var n = JSON.parse(_node); n.s + ':' + n.v"}]}}
 }}}}`

const ctxSchema = `{"parser_settings": {"version": "omni.2.1", "file_format_type": "json"},
 "transform_declarations": {"FINAL_OUTPUT": {"xpath": "/*", "object": {
   "node": {"custom_func": {"name": "javascript_with_context", "args": [{"const": "_node"}]}},
   "v": {"xpath": "v", "custom_func": {"name": "javascript_with_context", "args": [{"const": "_node"}]}},
   "s": {"xpath": "s", "custom_func": {"name": "javascript_with_context", "args": [{"const": "_node"}]}},
   "t": {"xpath": "t", "custom_func": {"name": "javascript_with_context", "args": [{"const": "_node + '|' + k"}, {"const": "k"}, {"xpath": "../v"}]}}
 }}}}`

// args named like built-in globals: the shadow / restore path of execProgram
const shadowSchema = `{"parser_settings": {"version": "omni.2.1", "file_format_type": "json"},
 "transform_declarations": {"FINAL_OUTPUT": {"xpath": "/*", "object": {
   "sh": {"custom_func": {"name": "javascript", "args": [{"const": "JSON + ':' + Math"}, {"const": "JSON"}, {"xpath": "s"}, {"const": "Math"}, {"xpath": "v", "type": "int"}]}},
   "sh2": {"custom_func": {"name": "javascript", "args": [{"const": "Object + (typeof Date) + parseInt"}, {"const": "Object"}, {"xpath": "w"}, {"const": "parseInt"}, {"xpath": "v"}]}},
   "sh3": {"custom_func": {"name": "javascript", "args": [{"const": "Math * 2"}, {"const": "Math"}, {"xpath": "v", "type": "int"}]}}
 }}}}`

// scripts that USE those built-ins, on whatever pooled VM they get
const usersSchema = `{"parser_settings": {"version": "omni.2.1", "file_format_type": "json"},
 "transform_declarations": {"FINAL_OUTPUT": {"xpath": "/*", "object": {
   "u1": {"custom_func": {"name": "javascript", "args": [{"const": "JSON.stringify({a: Math.max(v, 3), s: s})"}, {"const": "v"}, {"xpath": "v", "type": "int"}, {"const": "s"}, {"xpath": "s"}]}},
   "u2": {"custom_func": {"name": "javascript", "args": [{"const": "Math.floor(w) + ':' + JSON.parse(j).x + ':' + parseInt(v, 10) + ':' + Object.keys({q: 1}).length"}, {"const": "w"}, {"xpath": "w", "type": "float"}, {"const": "j"}, {"const": "{\"x\":1}"}, {"const": "v"}, {"xpath": "v"}]}},
   "u3": {"custom_func": {"name": "javascript_with_context", "args": [{"const": "JSON.parse(_node).v + ':' + Math.abs(-1)"}]}}
 }}}}`

// handled by the SECOND extension of the shared list (its own custom_func)
const x2Schema = `{"parser_settings": {"version": "omni.2.1", "file_format_type": "json"},
 "transform_declarations": {"FINAL_OUTPUT": {"xpath": "/*", "object": {
   "tag": {"custom_func": {"name": "verif_tag", "args": [{"xpath": "s"}]}},
   "up": {"custom_func": {"name": "upper", "args": [{"xpath": "s"}]}},
   "v": {"xpath": "v", "type": "int"}}}}}`

// a javascript call that FAILS EARLY (an arg name that is not a string, after an ordinary arg)
// among ordinary calls, and a script that looks at a global it does not define
const badNameSchema = `{"parser_settings": {"version": "omni.2.1", "file_format_type": "json"},
 "transform_declarations": {"FINAL_OUTPUT": {"xpath": "/*", "object": {
   "a_bad": {"custom_func": {"name": "javascript", "ignore_error": true, "args": [{"const": "1"}, {"const": "leaked"}, {"xpath": "s"}, {"const": "2", "type": "int"}, {"xpath": "v"}]}},
   "a_bad2": {"custom_func": {"name": "javascript_with_context", "ignore_error": true, "args": [{"const": "2"}, {"const": "leak"}, {"xpath": "v"}, {"const": "7", "type": "int"}, {"xpath": "s"}]}},
   "obs": {"custom_func": {"name": "javascript", "args": [{"const": "typeof leaked === 'undefined' ? (typeof leak === 'undefined' ? 'none' : 'leak=' + leak) : 'leaked=' + leaked"}]}},
   "z_ok": {"custom_func": {"name": "javascript", "args": [{"const": "a + 1"}, {"const": "a"}, {"xpath": "v", "type": "int"}]}}
 }}}}`

// semantic expectations that do not depend on any other run of the process: a transcript that is
// equal to its solo run can still be wrong when the solo run is poisoned by process history
func semantic(schema, line string) string {
	if !strings.HasPrefix(line, "OK: ") {
		return ""
	}
	switch schema {
	case "x2-tag":
		if !strings.Contains(line, `"up":"\u003c\u003c`) {
			return "schema x2-tag was created with an extension that binds `upper` to its own function (<<...>>), but another function ran"
		}
	case "ext", "xpath", "fl-hf":
		if strings.Contains(line, "<<") || strings.Contains(line, `\u003c\u003c`) {
			return "schema " + schema + " uses the builtin custom_funcs, but the function another extension binds to the same name ran"
		}
	case "badname":
		if !strings.Contains(line, `"obs":"none"`) {
			return "a javascript script saw a global it never declared: args of a failed call leaked"
		}
	}
	return ""
}

// a script that throws at run time for some records, without ignore_error: the record fails and
// the error TEXT (which carries goja's position information) is part of the transcript
const jsThrowSchema = `{"parser_settings": {"version": "omni.2.1", "file_format_type": "json"},
 "transform_declarations": {"FINAL_OUTPUT": {"xpath": "/*", "object": {
   "dbl": {"custom_func": {"name": "javascript", "args": [{"const": "v * 2"}, {"const": "v"}, {"xpath": "v", "type": "int"}]}},
   "boom": {"custom_func": {"name": "javascript", "args": [{"const": "(v % 3 === 0) ? nowhere.nope.nope : s.toUpperCase()"}, {"const": "v"}, {"xpath": "v", "type": "int"}, {"const": "s"}, {"xpath": "s"}]}},
   "stack": {"custom_func": {"name": "javascript", "args": [{"const": "(v % 5 === 0) ? (function(){ throw new Error('five ' + v) })() : 'ok'"}, {"const": "v"}, {"xpath": "v", "type": "int"}]}}
 }}}}`

// javascript_with_context SEVERAL TIMES on the SAME node
const ctx3Schema = `{"parser_settings": {"version": "omni.2.1", "file_format_type": "json"},
 "transform_declarations": {"FINAL_OUTPUT": {"xpath": "/*", "object": {
   "v3": {"custom_func": {"name": "javascript_with_context", "args": [{"const": "JSON.parse(_node).v"}]}},
   "s3": {"custom_func": {"name": "javascript_with_context", "args": [{"const": "JSON.parse(_node).s"}]}},
   "t3": {"custom_func": {"name": "javascript_with_context", "args": [{"const": "JSON.parse(_node).t + '|' + k"}, {"const": "k"}, {"xpath": "w"}]}},
   "w3": {"custom_func": {"name": "javascript_with_context", "args": [{"const": "JSON.parse(_node).w"}]}},
   "all": {"custom_func": {"name": "javascript_with_context", "args": [{"const": "_node"}]}},
   "kid": {"xpath": "v", "object": {
      "k1": {"custom_func": {"name": "javascript_with_context", "args": [{"const": "_node"}]}},
      "k2": {"custom_func": {"name": "javascript_with_context", "args": [{"const": "_node + _node"}]}}}}
 }}}}`

// custom_funcs with 2-4 args mixing per-transform external properties and per-record fields
const extSchema = `{"parser_settings": {"version": "omni.2.1", "file_format_type": "json"},
 "transform_declarations": {"FINAL_OUTPUT": {"xpath": "/*", "object": {
   "c1": {"custom_func": {"name": "concat", "args": [{"external": "tenant"}, {"const": "-"}, {"xpath": "s"}, {"xpath": "v"}]}},
   "c2": {"custom_func": {"name": "coalesce", "args": [{"xpath": "missing"}, {"external": "region"}, {"xpath": "s"}]}},
   "c3": {"custom_func": {"name": "upper", "args": [{"custom_func": {"name": "concat", "args": [{"external": "tenant"}, {"xpath": "s"}]}}]}},
   "c4": {"custom_func": {"name": "javascript", "args": [{"const": "a + '/' + b + '/' + c"}, {"const": "a"}, {"external": "tenant"}, {"const": "b"}, {"xpath": "v", "type": "int"}, {"const": "c"}, {"external": "region"}]}},
   "c5": {"custom_func": {"name": "concat", "args": [{"xpath": "t"}, {"external": "region"}]}},
   "c6": {"custom_func": {"name": "lower", "args": [{"external": "tenant"}]}}
 }}}}`

// old fixed-length, envelopes by header/footer regexps, several lines per envelope
const flHFSchema = `{"parser_settings": {"version": "omni.2.1", "file_format_type": "fixed-length"},
 "file_declaration": {"envelopes": [
   {"name": "GLOBAL", "by_header_footer": {"header": "^HDR", "footer": "^HEND"}, "not_target": true,
    "columns": [{"name": "carrier", "start_pos": 4, "length": 6, "line_pattern": "^HC"}]},
   {"by_header_footer": {"header": "^B0", "footer": "^E9"}, "columns": [
     {"name": "a", "start_pos": 3, "length": 6, "line_pattern": "^1"},
     {"name": "b", "start_pos": 3, "length": 5, "line_pattern": "^2"},
     {"name": "c", "start_pos": 3, "length": 6, "line_pattern": "^3"},
     {"name": "d", "start_pos": 9, "length": 3, "line_pattern": "^3"}]},
   {"by_header_footer": {"header": "^Z0", "footer": "^Z9"}, "not_target": true}]},
 "transform_declarations": {"FINAL_OUTPUT": {"object": {
   "a": {"xpath": "a"}, "b": {"xpath": "b", "type": "int"}, "c": {"xpath": "c"}, "d": {"xpath": "d"},
   "carrier": {"custom_func": {"name": "lower", "args": [{"xpath": "../GLOBAL/carrier"}]}}}}}}`

// old fixed-length, envelopes of three rows
const flRowsSchema = `{"parser_settings": {"version": "omni.2.1", "file_format_type": "fixed-length"},
 "file_declaration": {"envelopes": [{"by_rows": 3, "columns": [
     {"name": "a", "start_pos": 3, "length": 6, "line_pattern": "^1"},
     {"name": "b", "start_pos": 3, "length": 5, "line_pattern": "^2"},
     {"name": "c", "start_pos": 3, "length": 6, "line_pattern": "^3"},
     {"name": "a2", "start_pos": 9, "length": 2, "line_pattern": "^1"}]}]},
 "transform_declarations": {"FINAL_OUTPUT": {"object": {
   "a": {"xpath": "a"}, "b": {"xpath": "b", "type": "int"}, "c": {"xpath": "c"}, "a2": {"xpath": "a2"}}}}}`

// EDI with nested segment groups
const ediNestedSchema = `{"parser_settings": {"version": "omni.2.1", "file_format_type": "edi"},
 "file_declaration": {"segment_delimiter": "~", "element_delimiter": "*", "ignore_crlf": true,
  "segment_declarations": [{"name": "ISA", "child_segments": [
    {"name": "grp", "type": "segment_group", "min": 0, "max": -1, "is_target": true, "child_segments": [
      {"name": "ST", "elements": [{"name": "id", "index": 1}]},
      {"name": "item", "type": "segment_group", "min": 0, "max": -1, "child_segments": [
        {"name": "LX", "elements": [{"name": "n", "index": 1}]},
        {"name": "N9", "min": 0, "max": 5, "elements": [{"name": "ref", "index": 1}, {"name": "val", "index": 2, "default": ""}]}]},
      {"name": "SE"}]},
    {"name": "IEA", "min": 0}]}]},
 "transform_declarations": {"FINAL_OUTPUT": {"object": {
   "id": {"xpath": "ST/id"},
   "items": {"array": [{"xpath": "item", "object": {"n": {"xpath": "LX/n", "type": "int"},
      "refs": {"array": [{"xpath": "N9", "custom_func": {"name": "concat", "args": [{"xpath": "ref"}, {"const": "="}, {"xpath": "val"}]}}]}}}]}}}}}`

// csv2 with nested child records
const csv2NestedSchema = `{"parser_settings": {"version": "omni.2.1", "file_format_type": "csv2"},
 "file_declaration": {"delimiter": ",", "records": [{"name": "H", "header": "^H,", "is_target": true,
   "columns": [{"name": "num", "index": 2}, {"name": "who", "index": 3}],
   "child_records": [{"name": "D", "header": "^D,", "min": 1, "max": -1, "columns": [{"name": "item", "index": 2}, {"name": "qty", "index": 3}]}]}]},
 "transform_declarations": {"FINAL_OUTPUT": {"object": {
   "num": {"xpath": "num", "type": "int"}, "who": {"xpath": "who"},
   "items": {"array": [{"xpath": "D", "object": {"item": {"xpath": "item"}, "qty": {"xpath": "qty", "type": "int"}}}]}}}}}`

func genFLHF(r *vh.Rng, n int) []byte {
	var sb strings.Builder
	sb.WriteString("HDR\nHC " + pad6(r.PickStr("AcmeCo", "PostNL", "UPS")) + "\nHEND\n")
	for i := 0; i < n; i++ {
		fmt.Fprintf(&sb, "B0\n1 %s\n2 %s\nX filler line\n3 %s%03d\nE9\n", pad6(r.PickStr("x", "abc", "Q9", "zz top", "w")), pad5(fmt.Sprint(r.Between(0, 9999))), pad6(r.PickStr("cc", "d", "hello")), r.Pick(1000))
	}
	sb.WriteString("Z0\nZ9\n")
	return []byte(sb.String())
}

func genFLRows(r *vh.Rng, n int) []byte {
	var sb strings.Builder
	for i := 0; i < n; i++ {
		fmt.Fprintf(&sb, "1 %s%02d\n2 %s\n3 %s\n", pad6(r.PickStr("x", "abc", "Q9", "zz top", "w")), r.Pick(100), pad5(fmt.Sprint(r.Between(0, 9999))), pad6(r.PickStr("cc", "d", "hello")))
	}
	return []byte(sb.String())
}

func genEDINested(r *vh.Rng, n int) []byte {
	var sb strings.Builder
	sb.WriteString("ISA*00~\n")
	for i := 0; i < n; i++ {
		fmt.Fprintf(&sb, "ST*%d~", r.Between(1, 9999))
		for k, m := 0, r.Between(0, 3); k < m; k++ {
			fmt.Fprintf(&sb, "LX*%d~", k+1)
			for q, z := 0, r.Pick(3); q < z; q++ {
				fmt.Fprintf(&sb, "N9*%s*%s~", r.PickStr("PO", "BM", "CN"), r.PickStr("x1", "", "77"))
			}
		}
		sb.WriteString("SE*1~\n")
	}
	sb.WriteString("IEA*1~")
	return []byte(sb.String())
}

func genCSV2Nested(r *vh.Rng, n int) []byte {
	var sb strings.Builder
	for i := 0; i < n; i++ {
		fmt.Fprintf(&sb, "H,%d,%s\n", r.Between(1, 9999), r.PickStr("ann", "bob", "héllo"))
		for k, m := 0, r.Between(1, 4); k < m; k++ {
			fmt.Fprintf(&sb, "D,%s,%d\n", r.PickStr("nut", "bolt", "日本"), r.Between(1, 50))
		}
	}
	return []byte(sb.String())
}

func padN(s string, n int) string {
	for len([]rune(s)) < n {
		s += " "
	}
	return string([]rune(s)[:n])
}
func pad6(s string) string { return padN(s, 6) }
func pad5(s string) string { return padN(s, 5) }

// namespace-prefixed XML; partner A and partner B bind the SAME namespace URI to different prefixes
func nsSchema(p string) string {
	return `{"parser_settings": {"version": "omni.2.1", "file_format_type": "xml"},
 "transform_declarations": {"FINAL_OUTPUT": {"xpath": "/` + p + `:orders/` + p + `:order", "object": {
   "id": {"xpath": "@id", "type": "int"},
   "item": {"xpath": "` + p + `:item"},
   "qty": {"xpath": "` + p + `:qty", "type": "int"},
   "note": {"xpath": "` + p + `:note/@` + p + `:lang", "keep_empty_or_null": true},
   "n": {"xpath": "count(` + p + `:*)", "type": "int"}
 }}}}`
}

func genNSInput(p string) func(r *vh.Rng, n int) []byte {
	return func(r *vh.Rng, n int) []byte {
		var sb strings.Builder
		fmt.Fprintf(&sb, `<%s:orders xmlns:%s="uri://example.com/orders">`, p, p)
		for i := 0; i < n; i++ {
			fmt.Fprintf(&sb, `<%s:order id="%d"><%s:item>%s</%s:item><%s:qty>%d</%s:qty><%s:note %s:lang="%s">n</%s:note></%s:order>`,
				p, r.Between(1, 9999), p, r.PickStr("x", "abc", "héllo", "Q9", "日本"), p, p, r.Between(0, 99), p, p, p, r.PickStr("en", "de", "ja"), p, p)
			if r.Chance(0.3) {
				sb.WriteString("\n")
			}
		}
		fmt.Fprintf(&sb, `</%s:orders>`, p)
		return []byte(sb.String())
	}
}

const xpathSchema = `{"parser_settings": {"version": "omni.2.1", "file_format_type": "xml"},
 "transform_declarations": {"FINAL_OUTPUT": {"xpath": "/r/n[matches(a, '^[a-zQx日hz0w]')]", "object": {
   "a": {"xpath": "a"},
   "upper": {"xpath": "a", "template": "up"},
   "b_if_num": {"xpath": "b[matches(., '^-?[0-9]+$')]", "type": "int"},
   "cnt": {"xpath": "count(../n)", "type": "int", "keep_empty_or_null": true},
   "dyn": {"xpath_dynamic": {"custom_func": {"name": "concat", "args": [{"const": "*[starts-with(name(), '"}, {"xpath": "k"}, {"const": "')]"}]}}},
   "kids": {"array": [{"xpath": "*[string-length(.) > 1]", "custom_func": {"name": "lower", "args": [{"xpath": "."}]}}]},
   "c": {"xpath": "c", "template": "up"}
 }},
 "up": {"custom_func": {"name": "upper", "args": [{"xpath": "."}]}}}}`

type job struct {
	Schema int               `json:"schema"`
	Label  string            `json:"label"`
	Input  []byte            `json:"-"`
	InHex  string            `json:"input_hex"`
	Ext    map[string]string `json:"externals,omitempty"` // per-transform external properties
}

func genJSInput(r *vh.Rng, n int) []byte {
	var sb strings.Builder
	sb.WriteString("[")
	for i := 0; i < n; i++ {
		if i > 0 {
			sb.WriteString(",")
		}
		fmt.Fprintf(&sb, `{"v":"%d","w":"%d.5","s":%q,"t":" a%d / b /c%d "}`, r.Between(-9, 999), r.Between(0, 99),
			r.PickStr("x", "héllo", "a b", "日本", "Q9"), r.Pick(10), r.Pick(10))
	}
	sb.WriteString("]")
	return []byte(sb.String())
}

func genXMLInput(r *vh.Rng, n int) []byte {
	var sb strings.Builder
	sb.WriteString("<r>")
	for i := 0; i < n; i++ {
		fmt.Fprintf(&sb, "<n><a>%s</a><b>%s</b><c>%s</c><k>%s</k></n>", r.PickStr("x", "abc", "héllo", "Q9", "zz top", "日本", "0", "w", "Ab"),
			r.PickStr("1", "22", "x1", "-5", "1.5"), r.PickStr("cc", "d", ""), r.PickStr("a", "b", "c", "k"))
	}
	sb.WriteString("</r>")
	return []byte(sb.String())
}

var uniq int64
var uniqMu sync.Mutex

func nextName(prefix string) string {
	uniqMu.Lock()
	defer uniqMu.Unlock()
	uniq++
	return fmt.Sprintf("%s-%06d", prefix, uniq)
}

// runJob drives one Transform to its terminal result; the transcript has every Read result
// (output bytes or error text) and every record's checksum.
func runJob(ss *sharedSchema, in []byte, ext ...map[string]string) (transcript []string, ids []int64, all []int64) {
	defer func() {
		if p := recover(); p != nil {
			transcript = append(transcript, fmt.Sprintf("PANIC: %v", p))
		}
	}()
	name := nextName("in")
	log := &idLog{}
	logs.Store(name, log)
	defer logs.Delete(name)
	tctx := &transformctx.Ctx{}
	if len(ext) > 0 && ext[0] != nil {
		tctx.ExternalProperties = ext[0]
	}
	t, err := ss.Schema.NewTransform(name, bytes.NewReader(in), tctx)
	if err != nil {
		return []string{"NewTransform: " + strings.ReplaceAll(err.Error(), name, "IN")}, nil, nil
	}
	for i := 0; i < 10000; i++ {
		b, err := t.Read()
		if err == io.EOF {
			transcript = append(transcript, "EOF")
			return transcript, log.ids, log.all
		}
		if err != nil {
			transcript = append(transcript, "ERR: "+strings.ReplaceAll(err.Error(), name, "IN"))
			if !errs.IsErrTransformFailed(err) {
				return transcript, log.ids, log.all
			}
			continue
		}
		line := "OK: " + string(b)
		if raw, err := t.RawRecord(); err == nil {
			line += " #" + raw.Checksum()
		} else {
			line += " #rawerr"
		}
		transcript = append(transcript, line)
	}
	transcript = append(transcript, "NO-TERMINAL-RESULT")
	return transcript, log.ids, log.all
}

type mixDesc struct {
	Kind       string   `json:"kind"` // mixed | contention
	Procs      int      `json:"gomaxprocs"`
	Goroutines int      `json:"goroutines"`
	NodePool   bool     `json:"node_pool"`
	JSCache    string   `json:"js_caches"`
	Jobs       [][]job  `json:"jobs"`
	Schemas    []string `json:"schemas"`
}

type workload struct {
	schemas []*sharedSchema
	gen     []func(r *vh.Rng, n int) []byte
}

type spec struct {
	name, text string
	gen        func(r *vh.Rng, n int) []byte
}

func specs() []spec {
	var out []spec
	add := func(name, text string, gen func(r *vh.Rng, n int) []byte) { out = append(out, spec{name, text, gen}) }
	for _, f := range vh.Fixtures() {
		add("fx-"+f.Format, f.Schema, f.Gen)
	}
	add("js", jsSchema, genJSInput)
	add("js2", jsSchema2, genJSInput)
	add("xpath", xpathSchema, genXMLInput)
	add("nsA", nsSchema("a"), genNSInput("a"))
	add("nsB", nsSchema("b"), genNSInput("b"))
	add("ctx", ctxSchema, genJSInput)
	add("ctx3", ctx3Schema, genJSInput)
	add("ext", extSchema, genJSInput)
	add("fl-hf", flHFSchema, genFLHF)
	add("fl-rows", flRowsSchema, genFLRows)
	add("edi-nested", ediNestedSchema, genEDINested)
	add("csv2-nested", csv2NestedSchema, genCSV2Nested)
	add("shadow", shadowSchema, genJSInput)
	add("users", usersSchema, genJSInput)
	add("x2-tag", x2Schema, genJSInput)
	add("badname", badNameSchema, genJSInput)
	add("jsthrow", jsThrowSchema, genJSInput)
	return out
}

func buildWorkload(sum *vh.Summary) *workload { return buildWorkloadOnly(sum, nil) }

// buildWorkloadOnly validates only the schemas named in need (nil: all); the others keep their
// slot (indices are stable) but have no Schema object
func buildWorkloadOnly(sum *vh.Summary, need map[string]bool) *workload {
	w := &workload{}
	for _, sp := range specs() {
		if need != nil && !need[sp.name] {
			w.schemas = append(w.schemas, &sharedSchema{Name: sp.name})
			w.gen = append(w.gen, sp.gen)
			continue
		}
		ss, err := newSchema(sp.name, sp.text)
		if err != nil {
			if sum != nil {
				sum.Fail("workload schema "+sp.name+" rejected by NewSchema", map[string]string{"schema": sp.name}, err.Error())
			}
			continue
		}
		w.schemas = append(w.schemas, ss)
		w.gen = append(w.gen, sp.gen)
	}
	return w
}

// coldStart: the very first thing the process does with omniparser - 16 goroutines create schemas
// of all formats at the same time (each in its own order), before anything has been warmed up
// sequentially.  State that NewSchema initialises lazily and process-wide is initialised here.
func coldStart() (fails [][2]string) {
	sp := specs()
	var mu sync.Mutex
	var wg sync.WaitGroup
	start := make(chan struct{})
	dumps := make([]map[string]string, 16)
	for g := 0; g < 16; g++ {
		wg.Add(1)
		go func(g int) {
			defer wg.Done()
			dumps[g] = map[string]string{}
			<-start
			for k := range sp {
				x := sp[(k+g*3)%len(sp)]
				ss, err := newSchema(x.name, x.text)
				if err != nil {
					mu.Lock()
					fails = append(fails, [2]string{"cold start: NewSchema of workload schema " + x.name + " failed while other goroutines create schemas", err.Error()})
					mu.Unlock()
					continue
				}
				dumps[g][x.name] = ss.ref
			}
		}(g)
	}
	close(start)
	wg.Wait()
	for g := 1; g < 16; g++ {
		for n, d := range dumps[g] {
			if d0, ok := dumps[0][n]; ok && d0 != d {
				fails = append(fails, [2]string{"cold start: schema " + n + " validated concurrently by two goroutines has different declarations", ""})
			}
		}
	}
	if len(fails) > 8 {
		fails = fails[:8]
	}
	return
}

// one concurrent mix; returns failures (what, detail) and the per-goroutine record-node ID sequences
var curOpts *vh.Opts

func runMix(r *vh.Rng, w0 *workload, tier string) (desc mixDesc, fails [][2]string, seqs [][]int64, c0, c1 int64) {
	desc = genMix(r, w0)
	if curOpts != nil {
		vh.Current(curOpts, desc) // if the process dies in this mix, this is the failing input
	}
	fails, seqs, c0, c1 = execMix(desc, w0)
	return
}

// contention mixes: many goroutines, GOMAXPROCS 16, many small records, all of them through the
// JavaScript schemas - node IDs key NodeToJSONCache (a transform must never see another
// transform's record in _node), args named like built-ins run the shadow/restore path while
// other goroutines use the same built-ins on pooled VMs
func genContention(r *vh.Rng, w *workload) (desc mixDesc) {
	desc.Kind = "contention"
	desc.Procs = 16
	desc.Goroutines = r.Between(8, 16)
	desc.NodePool = r.Chance(0.5)
	desc.JSCache = []string{"default", "default", "capacity-one"}[r.Pick(3)]
	var pick []int
	for i, s := range w.schemas {
		desc.Schemas = append(desc.Schemas, s.Name)
		switch s.Name {
		case "ctx", "ctx3", "shadow", "users", "js", "jsthrow", "badname":
			pick = append(pick, i)
		}
	}
	flavour := r.Pick(3) // 0: node IDs / _node, 1: shadowing vs users, 2: everything
	desc.Jobs = make([][]job, desc.Goroutines)
	for g := 0; g < desc.Goroutines; g++ {
		for k := 0; k < 2; k++ {
			si := pick[r.Pick(len(pick))]
			name := ""
			switch flavour {
			case 0:
				name = []string{"ctx3", "ctx"}[(g+k)%2]
			case 1:
				name = []string{"shadow", "users"}[(g+k)%2]
			}
			for _, i := range pick {
				if w.schemas[i].Name == name {
					si = i
				}
			}
			in := w.gen[si](r, r.Between(15, 40))
			desc.Jobs[g] = append(desc.Jobs[g], job{Schema: si, Label: w.schemas[si].Name, Input: in, InHex: hex.EncodeToString(in)})
		}
	}
	return
}

// formats mixes: tree formats (namespace-prefixed XML of two partners, JSON) and flat formats
// (csv, csv2, fixed-length, fixedlength2, EDI) share the node pool: a node released by one format
// is handed to another; the two XML partners bind one namespace URI to different prefixes
func genFormats(r *vh.Rng, w *workload) (desc mixDesc) {
	desc.Kind = "formats"
	desc.Procs = []int{1, 2, 16}[r.Pick(3)]
	desc.Goroutines = r.Between(4, 12)
	desc.NodePool = true
	desc.JSCache = "default"
	var tree, flat []int
	for i, s := range w.schemas {
		desc.Schemas = append(desc.Schemas, s.Name)
		switch s.Name {
		case "nsA", "nsB", "fx-json", "fx-xml", "js":
			tree = append(tree, i)
			if s.Name == "nsA" || s.Name == "nsB" {
				tree = append(tree, i, i)
			}
		case "fx-csv", "fx-csv2", "fx-edi", "fx-fixed-length", "fx-fixedlength2":
			flat = append(flat, i)
		}
	}
	desc.Jobs = make([][]job, desc.Goroutines)
	for g := 0; g < desc.Goroutines; g++ {
		for k, n := 0, r.Between(2, 4); k < n; k++ {
			set := tree
			if (g+k)%2 == 1 {
				set = flat
			}
			si := set[r.Pick(len(set))]
			in := w.gen[si](r, r.Between(8, 30))
			desc.Jobs[g] = append(desc.Jobs[g], job{Schema: si, Label: w.schemas[si].Name, Input: in, InHex: hex.EncodeToString(in)})
		}
	}
	return
}

var mixCounter int

// firstuse mixes: ONE fresh Schema object, 16 goroutines start their first transform over it
// together (state a reader writes lazily on the shared declarations is written concurrently),
// inputs with multi-line envelopes so that readers are mid-envelope while they interleave;
// every goroutine has its own external properties
func genFirstUse(r *vh.Rng, w *workload) (desc mixDesc) {
	desc.Kind = "firstuse"
	desc.Procs = 16
	desc.Goroutines = 16
	desc.NodePool = r.Chance(0.5)
	desc.JSCache = "default"
	for _, s := range w.schemas {
		desc.Schemas = append(desc.Schemas, s.Name)
	}
	// rotation through all schemas; those with per-envelope / per-declaration reader state first,
	// so that the short -race child sees them too
	order := []string{"fl-hf", "fl-rows", "ext", "edi-nested", "csv2-nested", "fx-fixed-length", "fx-csv", "fx-edi", "fx-csv2", "fx-fixedlength2", "nsA", "ctx3", "xpath"}
	var rot []int
	for _, n := range order {
		for i, s := range w.schemas {
			if s.Name == n {
				rot = append(rot, i)
			}
		}
	}
	for i, s := range w.schemas {
		listed := false
		for _, n := range order {
			listed = listed || n == s.Name
		}
		if !listed {
			rot = append(rot, i)
		}
	}
	si := rot[(mixCounter/4)%len(rot)]
	desc.Jobs = make([][]job, desc.Goroutines)
	for g := 0; g < desc.Goroutines; g++ {
		for k := 0; k < 2; k++ {
			in := w.gen[si](r, r.Between(8, 25))
			desc.Jobs[g] = append(desc.Jobs[g], job{Schema: si, Label: w.schemas[si].Name, Input: in, InHex: hex.EncodeToString(in)})
		}
	}
	return
}

func genMix(r *vh.Rng, w *workload) (desc mixDesc) {
	// every run has all three kinds of mixes, in rotation
	mixCounter++
	defer func() {
		// distinct external properties for every goroutine
		for g := range desc.Jobs {
			for k := range desc.Jobs[g] {
				desc.Jobs[g][k].Ext = map[string]string{"tenant": fmt.Sprintf("Tenant%d", g), "region": fmt.Sprintf("r%d-%d", g, k)}
			}
		}
	}()
	switch mixCounter % 4 {
	case 1:
		return genContention(r, w)
	case 2:
		return genFormats(r, w)
	case 3:
		return genFirstUse(r, w)
	}
	desc.Kind = "mixed"
	desc.Procs = []int{1, 2, 16}[r.Pick(3)]
	desc.Goroutines = r.Between(2, 16)
	desc.NodePool = r.Chance(0.6)
	desc.JSCache = []string{"default", "default", "capacity-one", "disabled"}[r.Pick(4)]
	for _, s := range w.schemas {
		desc.Schemas = append(desc.Schemas, s.Name)
	}
	// at least two goroutines share one Schema object
	shared := r.Pick(len(w.schemas))
	desc.Jobs = make([][]job, desc.Goroutines)
	for g := 0; g < desc.Goroutines; g++ {
		for k, n := 0, r.Between(1, 3); k < n; k++ {
			si := r.Pick(len(w.schemas))
			if g < 2 && k == 0 {
				si = shared
			} else if r.Chance(0.4) {
				si = shared
			}
			in := w.gen[si](r, r.Between(1, 12))
			desc.Jobs[g] = append(desc.Jobs[g], job{Schema: si, Label: w.schemas[si].Name, Input: in, InHex: hex.EncodeToString(in)})
		}
	}
	return
}

func applyJSCache(mode string) {
	switch mode {
	case "disabled":
		v21.VerifSetDisableCaching(true)
		v21.VerifResetCaches(0, 0)
	case "capacity-one":
		v21.VerifSetDisableCaching(false)
		v21.VerifResetCaches(1, 1)
	default:
		v21.VerifSetDisableCaching(false)
		v21.VerifResetCaches(0, 0)
	}
}

func execMix(desc mixDesc, w0 *workload) (fails [][2]string, seqs [][]int64, c0, c1 int64) {
	// Fresh Schema objects for the concurrent phase: their FIRST use is concurrent, so state that
	// is written lazily on first use is exercised (and raced) as well; the alone runs use another
	// fresh set afterwards.
	need := map[string]bool{}
	for g := range desc.Jobs {
		for _, j := range desc.Jobs[g] {
			need[j.Label] = true
		}
	}
	if desc.Kind == "formats" {
		for _, n := range []string{"nsA", "nsB", "fx-csv", "fx-json", "fx-fixed-length", "fx-edi"} {
			need[n] = true
		}
	}
	w := buildWorkloadOnly(nil, need)
	wAlone := buildWorkloadOnly(nil, need)
	if len(w.schemas) != len(w0.schemas) || len(wAlone.schemas) != len(w0.schemas) {
		fails = append(fails, [2]string{"workload schemas could not be rebuilt", ""})
		return
	}
	if desc.Kind == "formats" {
		// deterministic first: transforms in flight taking turns on one goroutine
		fails = append(fails, handoff(w, wAlone)...)
	}
	// configuration of the process-wide state: set before any goroutine starts
	runtime.GOMAXPROCS(desc.Procs)
	idr.VerifSetNodeCaching(desc.NodePool)
	idr.VerifResetNodePool()
	applyJSCache(desc.JSCache)
	expected := make([][][]string, desc.Goroutines)
	// ---- concurrently ----
	idr.VerifResetNodePool()
	c0 = idr.VerifNodeIDCounter()
	got := make([][][]string, desc.Goroutines)
	seqs = make([][]int64, desc.Goroutines)
	allIDs := make([][]int64, desc.Goroutines)
	var wg sync.WaitGroup
	start := make(chan struct{})
	for g := 0; g < desc.Goroutines; g++ {
		wg.Add(1)
		go func(g int) {
			defer wg.Done()
			<-start
			for _, j := range desc.Jobs[g] {
				tr, ids, all := runJob(w.schemas[j.Schema], j.Input, j.Ext)
				got[g] = append(got[g], tr)
				seqs[g] = append(seqs[g], ids...)
				allIDs[g] = append(allIDs[g], all...)
			}
		}(g)
	}
	close(start)
	done := make(chan struct{})
	go func() { wg.Wait(); close(done) }()
	select {
	case <-done:
	case <-time.After(60 * time.Second):
		fails = append(fails, [2]string{"concurrent transforms did not finish within 60 s", ""})
		return
	}
	c1 = idr.VerifNodeIDCounter()
	// every node the readers handed out during the mix has its own ID (node IDs key the
	// transform result cache and NodeToJSONCache: two live nodes with one ID see each other's data)
	owner := map[int64]int{}
	total := 0
	for g := range allIDs {
		for _, id := range allIDs[g] {
			total++
			if g0, dup := owner[id]; dup {
				fails = append(fails, [2]string{"two nodes handed out by the readers during one concurrent mix carry the same node ID",
					fmt.Sprintf("ID %d: goroutine %d and goroutine %d (of %d node IDs observed; counter %d -> %d)", id, g0, g, total, c0, c1)})
				break
			}
			owner[id] = g
		}
		if len(fails) > 0 {
			break
		}
	}
	// ---- each transform alone (fresh Schema objects, nothing else running) ----
	for g := range desc.Jobs {
		for _, j := range desc.Jobs[g] {
			idr.VerifResetNodePool()   // alone: not even another transform's released nodes
			applyJSCache(desc.JSCache) // ... nor a program somebody else compiled
			tr, _, _ := runJob(wAlone.schemas[j.Schema], j.Input, j.Ext)
			expected[g] = append(expected[g], tr)
		}
	}
	for g := range got {
		for k := range got[g] {
			for _, tr := range [][]string{got[g][k], expected[g][k]} {
				for _, line := range tr {
					if why := semantic(desc.Jobs[g][k].Label, line); why != "" {
						fails = append(fails, [2]string{why, trunc(line)})
						break
					}
				}
			}
			if !reflect.DeepEqual(got[g][k], expected[g][k]) {
				d := diffFirst(expected[g][k], got[g][k])
				fails = append(fails, [2]string{fmt.Sprintf("goroutine %d, transform %d over schema %s: transcript differs from the same transform run alone", g, k, desc.Jobs[g][k].Label), d})
			}
		}
	}
	for _, ws := range []*workload{w, wAlone} {
		for _, s := range ws.schemas {
			if s.Schema == nil {
				continue
			}
			if s.dump() != s.ref {
				fails = append(fails, [2]string{"validated declarations / format runtime of schema " + s.Name + " are not what they were right after validation: a transform wrote to the schema", ""})
			}
		}
	}
	return
}

func diffFirst(a, b []string) string {
	for i := 0; i < len(a) || i < len(b); i++ {
		var x, y string
		if i < len(a) {
			x = a[i]
		}
		if i < len(b) {
			y = b[i]
		}
		if x != y {
			return fmt.Sprintf("result %d: alone %q, concurrent %q", i, trunc(x), trunc(y))
		}
	}
	return ""
}

func trunc(s string) string {
	if len(s) > 300 {
		return s[:300] + "..."
	}
	return s
}

func reset() {
	runtime.GOMAXPROCS(runtime.NumCPU())
	idr.VerifSetNodeCaching(true)
	v21.VerifSetDisableCaching(false)
	v21.VerifResetCaches(0, 0)
}

// ---- the race-detector child --------------------------------------------------------------------------

var raceChild = flag.Bool("race-child", false, "run the workload only (this binary was built with -race)")
var worker = flag.Bool("worker", false, "do the work in this process (the parent survives a fatal runtime error of the worker)")

func buildAndRunRace(o *vh.Opts, sum *vh.Summary, mixes int) {
	exe, err := os.Executable()
	if err != nil {
		sum.Extra["race_detector"] = "unavailable: " + err.Error()
		return
	}
	binDir := filepath.Dir(exe)
	root := filepath.Dir(filepath.Dir(binDir))
	harness := filepath.Join(root, "harness")
	modfile := filepath.Join(root, "work", "harness.mod")
	out := filepath.Join(binDir, "c14race")
	t0 := time.Now()
	cmd := exec.Command("go", "build", "-race", "-modfile", modfile, "-tags", "verif", "-o", out, "./cmd/c14")
	cmd.Dir = harness
	cmd.Env = append(os.Environ(), "GOFLAGS=-mod=mod", "GOPROXY=off", "GOSUMDB=off", "GOTOOLCHAIN=local", "CGO_ENABLED=1")
	if b, err := cmd.CombinedOutput(); err != nil {
		sum.Extra["race_detector"] = "unavailable: go build -race failed: " + trunc(string(b)+err.Error())
		return
	}
	sum.Extra["race_build_s"] = time.Since(t0).Seconds()
	t1 := time.Now()
	child := exec.Command(out, "-race-child", "-seed", fmt.Sprint(o.Seed), "-tier", o.Tier, "-n", fmt.Sprint(mixes), "-out", filepath.Join(o.Out, "race"))
	child.Env = append(os.Environ(), "GORACE=halt_on_error=0 exitcode=66")
	var buf bytes.Buffer
	child.Stdout, child.Stderr = &buf, &buf
	err = child.Run()
	sum.Extra["race_run_s"] = time.Since(t1).Seconds()
	report := buf.String()
	if strings.Contains(report, "WARNING: DATA RACE") {
		first := report[strings.Index(report, "WARNING: DATA RACE"):]
		if len(first) > 6000 {
			first = first[:6000]
		}
		sum.Fail("the race detector reports a data race on shared state while transforms run concurrently",
			map[string]interface{}{"seed": o.Seed, "mixes": mixes, "racing": raceSites(first)}, first)
		sum.Extra["race_detector"] = "DATA RACE reported"
		return
	}
	if err != nil {
		sum.Fail("the -race build of the concurrent workload failed to run to completion",
			map[string]interface{}{"seed": o.Seed, "mixes": mixes}, trunc(report)+" "+err.Error())
		return
	}
	sum.Extra["race_detector"] = fmt.Sprintf("built with -race and run as a child process over %d concurrent mixes: no data race reported", mixes)
	sum.Extra["race_child_output"] = trunc(report)
}

// the first frames of both accesses, as a stable description of the race
func raceSites(report string) []string {
	var out []string
	re := regexp.MustCompile(`(?m)^  (github\.com/jf-tech/omniparser[^\s(]*|[a-zA-Z0-9_/.\-]+\.[A-Za-z0-9_().*]+)\(`)
	for _, m := range re.FindAllStringSubmatch(report, 6) {
		out = append(out, m[1])
	}
	return out
}

func main() {
	o := vh.ParseOpts()
	r := vh.NewRng(o.Seed)
	if *raceChild {
		cold := coldStart()
		w := buildWorkload(nil)
		defer fmt.Printf("race child: cold start failures: %d\n", len(cold))
		n := o.Count(24, 400)
		bad := 0
		for i := 0; i < n; i++ {
			_, fails, _, _, _ := runMix(r, w, o.Tier)
			bad += len(fails)
		}
		reset()
		fmt.Printf("race child: %d mixes, %d transcript/dump failures\n", n, bad)
		return
	}
	if !*worker {
		// Unsynchronised access to a Go map or a corrupted runtime is a FATAL error that recover()
		// cannot catch: the work runs in a child so that such a death is reported as a failure of
		// the property with the seed that reproduces it.
		exe, err := os.Executable()
		if err == nil {
			cmd := exec.Command(exe, append(append([]string{}, os.Args[1:]...), "-worker")...)
			out, werr := cmd.CombinedOutput()
			if werr == nil {
				os.Stdout.Write(out)
				return
			}
			if _, serr := os.Stat(filepath.Join(o.Out, "summary.json")); serr != nil || true {
				sum := vh.NewSummary("C14", o, "worker process died")
				if pb, perr := os.ReadFile(filepath.Join(o.Out, "summary.json")); perr == nil {
					var partial vh.Summary
					if json.Unmarshal(pb, &partial) == nil {
						sum.Failures = append(sum.Failures, partial.Failures...) // what it found before it died
					}
				}
				text := string(out)
				if i := strings.Index(text, "fatal error:"); i >= 0 {
					text = text[i:]
				} else if i := strings.Index(text, "panic:"); i >= 0 {
					text = text[i:]
				}
				if len(text) > 6000 {
					text = text[:6000]
				}
				var failing interface{} = map[string]interface{}{"seed": o.Seed, "tier": o.Tier, "n": o.N}
				if cb, cerr := os.ReadFile(filepath.Join(o.Out, "current.json")); cerr == nil {
					var d mixDesc
					if json.Unmarshal(cb, &d) == nil && len(d.Jobs) > 0 {
						failing = d // the concurrent mix that was running
					}
				}
				sum.Fail("the process died with a fatal runtime error while transforms ran concurrently (unsynchronised access to shared state)",
					failing, text)
				vh.Done(o)
				sum.Write(o)
				return
			}
		}
	}
	sum := vh.NewSummary("C14", o,
		"concurrent mixes: N in 2..16 goroutines, each driving 1..3 Transforms over shared Schema objects (seven formats, javascript, xpath with regexps/dynamic xpaths/templates), GOMAXPROCS in {1,2,16}, node pool on/off, JS caches default/capacity one/off; non-trivial = at least two goroutines share one Schema object (always); distinct by (config, jobs)")
	cw := vh.NewCaseWriter(o, "C14", "Model.Js Model.Conc", "ccase", "check_case")
	for _, f := range coldStart() { // before ANY sequential use of omniparser in this process
		sum.Fail(f[0], map[string]interface{}{"kind": "coldstart", "what": f[0]}, f[1])
	}
	sum.Hist("coldstart:16-goroutines-all-schemas")
	if len(sum.Failures) > 0 {
		sum.Write(o)
	}
	w := buildWorkload(sum)
	curOpts = o
	if o.Replay != "" {
		replay(o, w)
		sum.Write(o)
		return
	}
	total := o.Count(100, 2000)
	// prologue, single goroutine, fully deterministic: transforms in flight taking turns
	for _, f := range handoff(w, buildWorkload(nil)) {
		sum.Fail(f[0], map[string]interface{}{"kind": "handoff", "what": f[0]}, f[1])
	}
	reset()
	if len(sum.Failures) > 0 {
		sum.Write(o) // kept by the parent should this process die later on
	}
	{ // what the workload looks like: the first results of each schema run alone
		r0 := vh.NewRng(o.Seed + 7777)
		sample := map[string][]string{}
		okc := 0
		for i, ss := range w.schemas {
			tr, _, _ := runJob(ss, w.gen[i](r0, 6), map[string]string{"tenant": "T0", "region": "r0"})
			for _, l := range tr {
				if strings.HasPrefix(l, "OK: ") {
					okc++
				}
				if why := semantic(ss.Name, l); why != "" {
					sum.Fail(why, map[string]string{"kind": "solo-run", "schema": ss.Name}, trunc(l))
					break
				}
			}
			if len(tr) > 3 {
				tr = tr[:3]
			}
			for k := range tr {
				tr[k] = trunc(tr[k])
			}
			sample[ss.Name] = tr
		}
		sum.Extra["transcript_samples"] = sample
		if okc < len(w.schemas) {
			sum.Fail("workload sanity: too few successful records when the schemas run alone", map[string]int{"ok_records": okc}, sample)
		}
	}
	for n := 0; n < total; n++ {
		desc, fails, seqs, c0, c1 := runMix(r, w, o.Tier)
		canon, _ := json.Marshal(desc)
		sharers := map[int]int{}
		for g := range desc.Jobs {
			seen := map[int]bool{}
			for _, j := range desc.Jobs[g] {
				if !seen[j.Schema] {
					seen[j.Schema] = true
					sharers[j.Schema]++
				}
			}
		}
		nt := false
		for _, c := range sharers {
			if c >= 2 {
				nt = true
			}
		}
		sum.Count(string(canon), nt)
		sum.Hist("mix:" + desc.Kind)
		sum.Hist(fmt.Sprintf("gomaxprocs:%d", desc.Procs))
		sum.Hist(fmt.Sprintf("goroutines:%d-%d", desc.Goroutines/4*4, desc.Goroutines/4*4+3))
		sum.Hist("js_caches:" + desc.JSCache)
		sum.Hist(fmt.Sprintf("node_pool:%v", desc.NodePool))
		for g := range desc.Jobs {
			for _, j := range desc.Jobs[g] {
				sum.Hist("schema:" + j.Label)
			}
		}
		if n < 2 {
			sum.Sample(map[string]interface{}{"gomaxprocs": desc.Procs, "goroutines": desc.Goroutines, "node_pool": desc.NodePool,
				"js_caches": desc.JSCache, "jobs_of_goroutine_0": desc.Jobs[0]})
		}
		for _, f := range fails {
			sum.Fail(f[0], desc, f[1])
		}
		var ss []string
		for _, s := range seqs {
			var xs []string
			for _, id := range s {
				xs = append(xs, vh.CoqN(int(id)))
			}
			ss = append(ss, vh.CoqList(xs))
		}
		cw.Add(fmt.Sprintf("mkCCase %s %s %s %s", vh.CoqN(int(c0)), vh.CoqN(int(c1)), vh.CoqBool(desc.NodePool), vh.CoqList(ss)),
			map[string]interface{}{"gomaxprocs": desc.Procs, "goroutines": desc.Goroutines, "node_pool": desc.NodePool, "c0": c0, "c1": c1, "record_node_ids": seqs})
	}
	reset()
	vh.Done(o)
	buildAndRunRace(o, sum, o.Count(24, 400))
	cw.Flush()
	sum.CaseFiles = cw.Files
	sum.Write(o)
}

// replay re-runs the concurrent mix of a replay file written by bin/check (same jobs, same
// configuration) twenty times on the current tree and prints what differs from the runs alone.
func replay(o *vh.Opts, w *workload) {
	b, err := os.ReadFile(o.Replay)
	if err != nil {
		fmt.Println("replay:", err)
		return
	}
	var f struct {
		Oracle string  `json:"oracle"`
		Case   mixDesc `json:"case"`
	}
	if err := json.Unmarshal(b, &f); err != nil || len(f.Case.Jobs) == 0 {
		fmt.Println("replay: the file has no concurrent mix (a race report or a process death is reproduced by re-running the check with its seed)")
		return
	}
	fmt.Println("replaying:", f.Oracle)
	for g := range f.Case.Jobs {
		for k := range f.Case.Jobs[g] {
			f.Case.Jobs[g][k].Input, _ = hex.DecodeString(f.Case.Jobs[g][k].InHex)
		}
	}
	bad := 0
	for i := 0; i < 20; i++ {
		fails, _, _, _ := execMix(f.Case, w)
		for _, x := range fails {
			bad++
			fmt.Printf("run %d: %s\n    %s\n", i, x[0], x[1])
		}
	}
	reset()
	fmt.Printf("%d goroutines, GOMAXPROCS %d, node pool %v, js caches %s: %d failure(s) in 20 runs\n",
		f.Case.Goroutines, f.Case.Procs, f.Case.NodePool, f.Case.JSCache, bad)
}

// ---- deterministic hand-off between transforms in flight ------------------------------------------------

type stepper struct {
	t    omniparser.Transform
	name string
	out  []string
	done bool
}

func newStepper(ss *sharedSchema, in []byte) *stepper {
	name := nextName("in")
	t, err := ss.Schema.NewTransform(name, bytes.NewReader(in), &transformctx.Ctx{})
	if err != nil {
		return &stepper{name: name, out: []string{"NewTransform: " + strings.ReplaceAll(err.Error(), name, "IN")}, done: true}
	}
	return &stepper{t: t, name: name}
}

func (s *stepper) read(n int) {
	defer func() {
		if p := recover(); p != nil {
			s.out = append(s.out, fmt.Sprintf("PANIC: %v", p))
			s.done = true
		}
	}()
	for i := 0; i < n && !s.done; i++ {
		b, err := s.t.Read()
		switch {
		case err == io.EOF:
			s.out = append(s.out, "EOF")
			s.done = true
		case err != nil:
			s.out = append(s.out, "ERR: "+strings.ReplaceAll(err.Error(), s.name, "IN"))
			if !errs.IsErrTransformFailed(err) {
				s.done = true
			}
		default:
			s.out = append(s.out, "OK: "+string(b))
		}
	}
}

// Two or three transforms are in flight on ONE goroutine and take turns: A reads a few records,
// B starts and reads, A continues ...  Pairs: the two XML partners (same namespace URI, different
// prefixes), and a tree format with a flat format (node pool hand-over).  Each transcript must
// equal the one of the same transform driven alone.
func handoff(w, wAlone *workload) (fails [][2]string) {
	idx := func(ws *workload, name string) int {
		for i, s := range ws.schemas {
			if s.Name == name {
				return i
			}
		}
		return -1
	}
	r := vh.NewRng(int64(mixCounter) + 99)
	for _, pair := range [][2]string{{"nsA", "nsB"}, {"nsB", "nsA"}, {"nsA", "fx-csv"}, {"fx-json", "fx-fixed-length"}, {"nsB", "fx-edi"}} {
		ia, ib := idx(w, pair[0]), idx(w, pair[1])
		if ia < 0 || ib < 0 {
			continue
		}
		inA, inB := w.gen[ia](r, 7), w.gen[ib](r, 5)
		idr.VerifSetNodeCaching(true)
		idr.VerifResetNodePool()
		a := newStepper(w.schemas[ia], inA)
		a.read(2)
		b := newStepper(w.schemas[ib], inB)
		b.read(2)
		a.read(3)
		b.read(100)
		a.read(100)
		for k, st := range []*stepper{a, b} {
			idr.VerifResetNodePool()
			name, in, si := pair[k], [][]byte{inA, inB}[k], []int{ia, ib}[k]
			alone := newStepper(wAlone.schemas[si], in)
			alone.read(1000)
			if !reflect.DeepEqual(alone.out, st.out) {
				fails = append(fails, [2]string{fmt.Sprintf("hand-off %s <-> %s on one goroutine: the transcript of %s differs from the same transform driven alone", pair[0], pair[1], name),
					diffFirst(alone.out, st.out) + fmt.Sprintf(" (alone: %d results, interleaved: %d)", len(alone.out), len(st.out))})
			}
		}
	}
	return
}
