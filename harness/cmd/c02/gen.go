package main

// Generators: declaration trees (as an AST that prints both the schema JSON and the Coq term of
// Model.Decl.decl), xpaths inside the fragment of Model/XPathFrag.v, and record documents.

import (
	"encoding/json"
	"fmt"
	"sort"
	"strings"

	"verifharness/vh"
)

// ---- declaration AST ---------------------------------------------------------------------------

type KV struct {
	Key string
	D   *GDecl
}

type GFunc struct {
	Name        string
	Args        []*GDecl
	IgnoreError bool
}

// GDecl mirrors the public fields of transform.Decl.  HasObject / HasArray distinguish nil from
// empty.
type GDecl struct {
	Const, External, XPath, Template *string
	XDyn                             *GDecl
	Func                             *GFunc
	Object                           []KV
	HasObject                        bool
	Array                            []*GDecl
	HasArray                         bool
	Type                             *string
	NoTrim, Keep                     bool
}

func sp(s string) *string { return &s }

func jstr(s string) string {
	b, _ := json.Marshal(s)
	return string(b)
}

// JSON renders the declaration as schema text.
func (d *GDecl) JSON() string {
	var parts []string
	add := func(k, v string) { parts = append(parts, jstr(k)+": "+v) }
	if d.XPath != nil {
		add("xpath", jstr(*d.XPath))
	}
	if d.XDyn != nil {
		add("xpath_dynamic", d.XDyn.JSON())
	}
	if d.Const != nil {
		add("const", jstr(*d.Const))
	}
	if d.External != nil {
		add("external", jstr(*d.External))
	}
	if d.Template != nil {
		add("template", jstr(*d.Template))
	}
	if d.Func != nil {
		var fp []string
		fp = append(fp, `"name": `+jstr(d.Func.Name))
		if d.Func.Args != nil {
			var as []string
			for _, a := range d.Func.Args {
				as = append(as, a.JSON())
			}
			fp = append(fp, `"args": [`+strings.Join(as, ", ")+`]`)
		}
		if d.Func.IgnoreError {
			fp = append(fp, `"ignore_error": true`)
		}
		add("custom_func", "{"+strings.Join(fp, ", ")+"}")
	}
	if d.HasObject {
		var ks []string
		for _, kv := range d.Object {
			ks = append(ks, jstr(kv.Key)+": "+kv.D.JSON())
		}
		add("object", "{"+strings.Join(ks, ", ")+"}")
	}
	if d.HasArray {
		var es []string
		for _, e := range d.Array {
			es = append(es, e.JSON())
		}
		add("array", "["+strings.Join(es, ", ")+"]")
	}
	if d.Type != nil {
		add("type", jstr(*d.Type))
	}
	if d.NoTrim {
		add("no_trim", "true")
	}
	if d.Keep {
		add("keep_empty_or_null", "true")
	}
	return "{" + strings.Join(parts, ", ") + "}"
}

func coqOptStr(s *string) string {
	if s == nil {
		return "None"
	}
	return "(Some " + vh.CoqHex([]byte(*s)) + ")"
}

var rtypeCoq = map[string]string{"int": "RInt", "float": "RFloat", "boolean": "RBoolean", "string": "RString"}

// Coq renders the declaration as a Model.Decl.decl term.
func (d *GDecl) Coq() string {
	var sb strings.Builder
	sb.WriteString("(Decl ")
	sb.WriteString(coqOptStr(d.Const) + " " + coqOptStr(d.External) + " " + coqOptStr(d.XPath) + " ")
	if d.XDyn != nil {
		sb.WriteString("(Some " + d.XDyn.Coq() + ") ")
	} else {
		sb.WriteString("None ")
	}
	if d.Func != nil {
		var as []string
		for _, a := range d.Func.Args {
			as = append(as, a.Coq())
		}
		sb.WriteString("(Some " + vh.CoqHex([]byte(d.Func.Name)) + ") " + vh.CoqList(as) + " " + vh.CoqBool(d.Func.IgnoreError) + " ")
	} else {
		sb.WriteString("None [] false ")
	}
	sb.WriteString("None " + coqOptStr(d.Template) + " ")
	if d.HasObject {
		var ks []string
		for _, kv := range d.Object {
			ks = append(ks, "("+vh.CoqHex([]byte(kv.Key))+", "+kv.D.Coq()+")")
		}
		sb.WriteString("(Some " + vh.CoqList(ks) + ") ")
	} else {
		sb.WriteString("None ")
	}
	if d.HasArray {
		var es []string
		for _, e := range d.Array {
			es = append(es, e.Coq())
		}
		sb.WriteString("(Some " + vh.CoqList(es) + ") ")
	} else {
		sb.WriteString("None ")
	}
	if d.Type != nil {
		sb.WriteString("(Some " + rtypeCoq[*d.Type] + ") ")
	} else {
		sb.WriteString("None ")
	}
	sb.WriteString(vh.CoqBool(d.NoTrim) + " " + vh.CoqBool(d.Keep) + ")")
	return sb.String()
}

func (d *GDecl) isXPathSet() bool { return d.XPath != nil || d.XDyn != nil }

// Decls is transform_declarations: FINAL_OUTPUT plus templates, sorted by name when printed.
type Decls map[string]*GDecl

func (ds Decls) names() []string {
	var ns []string
	for n := range ds {
		ns = append(ns, n)
	}
	sort.Strings(ns)
	return ns
}

func (ds Decls) JSON() string {
	var ps []string
	for _, n := range ds.names() {
		ps = append(ps, jstr(n)+": "+ds[n].JSON())
	}
	return "{" + strings.Join(ps, ",\n  ") + "}"
}

func (ds Decls) Coq() string {
	var ps []string
	for _, n := range ds.names() {
		ps = append(ps, "("+vh.CoqHex([]byte(n))+", "+ds[n].Coq()+")")
	}
	return vh.CoqList(ps)
}

// ParseDecls reads transform_declarations JSON back into the AST (corpus / replay files).
func ParseDecls(text string) (Decls, error) {
	var raw map[string]json.RawMessage
	if err := json.Unmarshal([]byte(text), &raw); err != nil {
		return nil, err
	}
	ds := Decls{}
	for k, v := range raw {
		d, err := parseDecl(v)
		if err != nil {
			return nil, err
		}
		ds[k] = d
	}
	return ds, nil
}

func parseDecl(b json.RawMessage) (*GDecl, error) {
	var m struct {
		Const        *string         `json:"const"`
		External     *string         `json:"external"`
		XPath        *string         `json:"xpath"`
		XPathDynamic json.RawMessage `json:"xpath_dynamic"`
		Template     *string         `json:"template"`
		CustomFunc   *struct {
			Name        string            `json:"name"`
			Args        []json.RawMessage `json:"args"`
			IgnoreError bool              `json:"ignore_error"`
		} `json:"custom_func"`
		Object map[string]json.RawMessage `json:"object"`
		Array  []json.RawMessage          `json:"array"`
		Type   *string                    `json:"type"`
		NoTrim bool                       `json:"no_trim"`
		Keep   bool                       `json:"keep_empty_or_null"`
	}
	if err := json.Unmarshal(b, &m); err != nil {
		return nil, err
	}
	d := &GDecl{Const: m.Const, External: m.External, XPath: m.XPath, Template: m.Template, Type: m.Type, NoTrim: m.NoTrim, Keep: m.Keep}
	var err error
	if m.XPathDynamic != nil {
		if d.XDyn, err = parseDecl(m.XPathDynamic); err != nil {
			return nil, err
		}
	}
	if m.CustomFunc != nil {
		d.Func = &GFunc{Name: m.CustomFunc.Name, IgnoreError: m.CustomFunc.IgnoreError}
		for _, a := range m.CustomFunc.Args {
			ad, err := parseDecl(a)
			if err != nil {
				return nil, err
			}
			d.Func.Args = append(d.Func.Args, ad)
		}
	}
	if m.Object != nil {
		d.HasObject = true
		var ks []string
		for k := range m.Object {
			ks = append(ks, k)
		}
		sort.Strings(ks)
		for _, k := range ks {
			cd, err := parseDecl(m.Object[k])
			if err != nil {
				return nil, err
			}
			d.Object = append(d.Object, KV{k, cd})
		}
	}
	if m.Array != nil {
		d.HasArray = true
		for _, e := range m.Array {
			ed, err := parseDecl(e)
			if err != nil {
				return nil, err
			}
			d.Array = append(d.Array, ed)
		}
	}
	return d, nil
}

// Inline substitutes every template reference by its body with the reference's xpath /
// xpath_dynamic put on it (the documented meaning of a template).  ok=false if a reference
// cannot be resolved that way.
func Inline(ds Decls, d *GDecl, depth int) (*GDecl, bool) {
	if depth > 40 {
		return nil, false
	}
	c := *d
	ok := true
	if d.XDyn != nil {
		if c.XDyn, ok = Inline(ds, d.XDyn, depth+1); !ok {
			return nil, false
		}
	}
	isTemplate := d.Template != nil && d.Const == nil && d.External == nil && d.Func == nil && !d.HasObject && !d.HasArray
	if isTemplate {
		body, found := ds[*d.Template]
		if !found || (body.isXPathSet() && d.isXPathSet()) {
			return nil, false
		}
		b := *body
		if d.isXPathSet() {
			b.XPath, b.XDyn = d.XPath, d.XDyn
		}
		return Inline(ds, &b, depth+1)
	}
	if d.Func != nil {
		f := *d.Func
		f.Args = nil
		for _, a := range d.Func.Args {
			ia, ok := Inline(ds, a, depth+1)
			if !ok {
				return nil, false
			}
			f.Args = append(f.Args, ia)
		}
		if d.Func.Args != nil && f.Args == nil {
			f.Args = []*GDecl{}
		}
		c.Func = &f
	}
	if d.HasObject {
		c.Object = nil
		for _, kv := range d.Object {
			ik, ok := Inline(ds, kv.D, depth+1)
			if !ok {
				return nil, false
			}
			c.Object = append(c.Object, KV{kv.Key, ik})
		}
	}
	if d.HasArray {
		c.Array = nil
		for _, e := range d.Array {
			ie, ok := Inline(ds, e, depth+1)
			if !ok {
				return nil, false
			}
			c.Array = append(c.Array, ie)
		}
	}
	return &c, true
}

// ---- generator ---------------------------------------------------------------------------------

var vocab = []string{"a", "b", "c", "x", "y", "n", "item"}
var attrNames = []string{"id", "k"}
var predVals = []string{"1", "2", "v", "w", "x", "true", "42"}

type gen struct {
	r *vh.Rng
	// templates available to reference (name -> body has xpath set)
	tmplNames []string
	tmplXPath map[string]bool
	tmplKind  map[string]string // resolved kind of the body: const external field object array func
	// statistics for the non-triviality rule
	twins, tmplRefs, bigArrays int
	upwards, weird             int
	dynArrays                  int
	pendingSib                 *GDecl // an array to be placed as a sibling member of the enclosing object
	nsDoc                      bool   // the XML document being generated uses prefixed element names
	recID                      string
	tmplUse                    map[string]int
	// guards (lifted once the corresponding fix: commits are in /repo)
	allowEmpty         bool
	allowArrayUnderDyn bool
}

func (g *gen) kindOf(d *GDecl) string {
	switch {
	case d.Const != nil:
		return "const"
	case d.External != nil:
		return "external"
	case d.Func != nil:
		return "func"
	case d.HasObject:
		return "object"
	case d.HasArray:
		return "array"
	case d.Template != nil:
		return g.tmplKind[*d.Template]
	}
	return "field"
}

func (g *gen) name() string { return vocab[g.r.Pick(len(vocab))] }

// xpath inside the fragment; rel=true avoids '..' (used where several context nodes may flow in)
func (g *gen) xpath() string {
	r := g.r
	if r.Chance(0.04) {
		return "."
	}
	var sb strings.Builder
	switch r.Pick(12) {
	case 0:
		sb.WriteString("../")
	case 1:
		sb.WriteString("/")
	}
	nsteps := r.Between(1, 3)
	usedDesc := false
	for i := 0; i < nsteps; i++ {
		desc := false
		if i > 0 {
			if !usedDesc && r.Chance(0.12) {
				sb.WriteString("//")
				desc, usedDesc = true, true
			} else {
				sb.WriteString("/")
			}
		} else if !usedDesc && sb.Len() == 0 && r.Chance(0.08) {
			sb.WriteString("//")
			desc, usedDesc = true, true
		}
		last := i == nsteps-1
		if last && !desc && r.Chance(0.08) {
			if r.Chance(0.5) {
				sb.WriteString("@" + attrNames[r.Pick(len(attrNames))])
			} else {
				sb.WriteString("@*")
			}
			break
		}
		if last && r.Chance(0.06) {
			sb.WriteString("text()")
			break
		}
		if r.Chance(0.15) {
			sb.WriteString("*")
		} else {
			if r.Chance(0.06) {
				sb.WriteString("v:")
			}
			sb.WriteString(g.name())
		}
		if r.Chance(0.25) {
			switch r.Pick(7) {
			case 5:
				if !desc {
					sb.WriteString("[last()]")
				}
			case 6:
				if !desc {
					sb.WriteString(r.PickStr("[position()<last()]", "[position() < last()]"))
				}
			case 0:
				if !desc {
					fmt.Fprintf(&sb, "[%d]", r.Between(1, 3))
				}
			case 1:
				if !desc {
					fmt.Fprintf(&sb, "[position()=%d]", r.Between(1, 3))
				}
			case 2:
				fmt.Fprintf(&sb, "[%s='%s']", g.name(), predVals[r.Pick(len(predVals))])
			case 3:
				fmt.Fprintf(&sb, "[@%s='%s']", attrNames[r.Pick(len(attrNames))], predVals[r.Pick(len(predVals))])
			case 4:
				fmt.Fprintf(&sb, "[.='%s']", predVals[r.Pick(len(predVals))])
			}
		}
		if usedDesc && desc {
			// nothing may follow a '//' step but plain child steps; keep it last half of the time
			if r.Chance(0.5) {
				break
			}
		}
	}
	return sb.String()
}

var constPool = []string{"k", " padded ", "42", "-7", "3.5", "true", "F", "", "  ", "x y", "1.250", "007", "a", "b/c", "abc ", "+5", "zz",
	"010", "0100", "-017", "08", "09", "0x1F", "0o17", "0b11", "1_000", " 7 ", "1e3", "1E+2", "1.5e-2", "2e", "TRUE", "t", "yes", "1"}

// int64 boundary literals: only ever placed as `{const, type: int|string}` object members, so that
// they never reach a float cast (the model covers float64 for <= 15 significant digits)
var bigInts = []string{"9223372036854775807", "9223372036854775808", "-9223372036854775808", "-9223372036854775809"}

func (g *gen) flags(d *GDecl) {
	r := g.r
	if r.Chance(0.28) {
		d.Type = sp(r.PickStr("int", "float", "boolean", "string"))
	}
	d.NoTrim = r.Chance(0.2)
	d.Keep = r.Chance(0.25)
}

type gctx struct {
	depth      int  // remaining nesting
	underArray bool // directly an element of an array: no nested array (schema), xpath is the match-all
	inArg      bool // custom_func argument: no object (schema)
	inDyn      bool // inside an xpath_dynamic subtree
	noTemplate bool
}

// dynamic xpath: computed from const / field / custom_func
func (g *gen) xdyn(c gctx) *GDecl {
	r := g.r
	switch r.Pick(6) {
	case 4, 5:
		// computed from an ARRAY argument (its elements are declarations of their own below the
		// xpath_dynamic); half of the time the textually equal array is also a member of the
		// enclosing object, evaluated on the same node before (F28: double validation of the
		// xpath_dynamic of a template reference doubled the elements unless the cache masked it)
		arr := &GDecl{HasArray: true, Array: []*GDecl{{Const: sp(g.name())}, {Const: sp(g.name())}}}
		if r.Chance(0.3) {
			arr.Array = append(arr.Array, &GDecl{XPath: sp("@k")})
		}
		if r.Chance(0.5) {
			g.pendingSib = arr
		}
		g.dynArrays++
		if r.Chance(0.5) {
			// the NUMBER of elements decides which name is selected: len(join("", [x, y])) = 2 picks
			// names[2]; a doubled array picks names[4]
			two := &GDecl{HasArray: true, Array: []*GDecl{{Const: sp("x")}, {Const: sp("y")}}}
			if g.pendingSib != nil {
				g.pendingSib = two
			}
			return &GDecl{Func: &GFunc{Name: "verif_pick", Args: []*GDecl{
				{Func: &GFunc{Name: "verif_len", Args: []*GDecl{{Func: &GFunc{Name: "verif_join", Args: []*GDecl{{Const: sp("")}, two}}}}}},
				{Const: sp("a")}, {Const: sp("b")}, {Const: sp(g.name())}, {Const: sp("c")}, {Const: sp(g.name())}}}}
		}
		inner := &GDecl{Func: &GFunc{Name: "verif_join", Args: []*GDecl{{Const: sp("/")}, arr}}}
		if r.Chance(0.3) {
			return &GDecl{Func: &GFunc{Name: "concat", Args: []*GDecl{inner, {Const: sp("")}}}}
		}
		return inner
	case 0:
		return &GDecl{Const: sp(g.xpath())}
	case 1:
		// the text of an attribute names the element to select (attribute values come from
		// predVals: names and integers, all inside the fragment)
		return &GDecl{XPath: sp(r.PickStr("@id", "@k", "*/@id", "*[1]/@k"))}
	case 2:
		return &GDecl{Func: &GFunc{Name: "concat", Args: []*GDecl{
			{Const: sp(g.name() + "/")}, {Const: sp(g.name())}}}}
	default:
		return &GDecl{Func: &GFunc{Name: "coalesce", Args: []*GDecl{
			{XPath: sp(r.PickStr("@id", "@k", "*/@k"))}, {Const: sp(g.xpath())}}}}
	}
}

func (g *gen) anchor(d *GDecl, c gctx, pStatic, pDyn float64) {
	r := g.r
	x := r.Float64()
	switch {
	case x < pStatic:
		d.XPath = sp(g.xpath())
	case x < pStatic+pDyn && !c.inDyn:
		d.XDyn = g.xdyn(c)
	}
}

var funcNames = []string{"verif_join", "concat", "coalesce", "lower", "upper", "verif_add", "verif_neg", "verif_not", "verif_echo",
	"verif_count", "verif_nonempty", "verif_text", "verif_len", "verif_pick"}

func (g *gen) arg(c gctx, want string) *GDecl {
	r := g.r
	ac := gctx{depth: c.depth - 1, inArg: true, inDyn: c.inDyn}
	if r.Chance(0.7) {
		// an argument that usually has the wanted type
		switch want {
		case "int":
			if r.Chance(0.5) {
				return &GDecl{Const: sp(fmt.Sprint(r.Between(-9, 99))), Type: sp("int")}
			}
			return &GDecl{XPath: sp(g.xpath()), Type: sp("int"), Keep: r.Chance(0.2)}
		case "float":
			return &GDecl{Const: sp(r.PickStr("1.5", "-0.25", "3", "12.75")), Type: sp("float")}
		case "bool":
			return &GDecl{Const: sp(r.PickStr("true", "false", "T", "0")), Type: sp("boolean")}
		case "strarray":
			return &GDecl{HasArray: true, Array: []*GDecl{{Const: sp(g.name())}, {XPath: sp(g.xpath())}}, Keep: r.Chance(0.2)}
		case "string":
			if r.Chance(0.5) {
				return &GDecl{XPath: sp(g.xpath()), NoTrim: r.Chance(0.3), Keep: r.Chance(0.2)}
			}
			return &GDecl{Const: sp(constPool[r.Pick(len(constPool))]), NoTrim: r.Chance(0.4)}
		}
	}
	return g.decl(ac)
}

func (g *gen) fn(c gctx) *GDecl {
	r := g.r
	name := funcNames[r.Pick(len(funcNames))]
	f := &GFunc{Name: name, IgnoreError: r.Chance(0.3)}
	var wants []string
	switch name {
	case "concat", "coalesce":
		for i := r.Between(0, 3); i > 0; i-- {
			wants = append(wants, "string")
		}
	case "lower", "upper", "verif_nonempty", "verif_len":
		wants = []string{"string"}
	case "verif_add":
		wants = []string{"int", "int"}
	case "verif_neg":
		wants = []string{"float"}
	case "verif_not":
		wants = []string{"bool"}
	case "verif_echo":
		wants = []string{r.PickStr("string", "int", "float", "bool", "any")}
	case "verif_count":
		for i := r.Between(0, 3); i > 0; i-- {
			wants = append(wants, "any")
		}
	case "verif_text":
	case "verif_join":
		wants = []string{"string"}
		for i := r.Between(0, 3); i > 0; i-- {
			wants = append(wants, r.PickStr("string", "strarray"))
		}
	case "verif_pick":
		wants = []string{"int"}
		for i := r.Between(0, 3); i > 0; i-- {
			wants = append(wants, "string")
		}
	}
	// arity faults
	if r.Chance(0.06) && len(wants) > 0 {
		wants = wants[:len(wants)-1]
	} else if r.Chance(0.04) {
		wants = append(wants, "string")
	}
	for _, w := range wants {
		f.Args = append(f.Args, g.arg(c, w))
	}
	if f.Args == nil && r.Chance(0.5) {
		f.Args = []*GDecl{}
	}
	d := &GDecl{Func: f}
	g.anchor(d, c, 0.3, 0.05)
	g.flags(d)
	return d
}

func (g *gen) decl(c gctx) *GDecl {
	r := g.r
	x := r.Pick(100)
	canNest := c.depth > 0
	switch {
	case x < 34:
		d := &GDecl{}
		g.anchor(d, c, 0.85, 0.07)
		g.flags(d)
		return d
	case x < 44:
		d := &GDecl{Const: sp(constPool[r.Pick(len(constPool))])}
		g.flags(d)
		if len(*d.Const) > 15 && d.Type != nil && *d.Type == "float" {
			// int64 boundary literals: outside the float class the model covers (<= 15 digits)
			d.Type = sp("int")
		}
		return d
	case x < 47:
		d := &GDecl{External: sp(r.PickStr("ext1", "ext2", "ext3", "ext4", "ext5", "missing"))}
		g.flags(d)
		return d
	case x < 66 && canNest && !c.inArg:
		return g.object(c)
	case x < 78 && canNest && !c.underArray && (!c.inDyn || g.allowArrayUnderDyn):
		return g.array(c)
	case x < 90 && canNest:
		return g.fn(c)
	case x < 100 && len(g.tmplNames) > 0 && !c.noTemplate:
		t := g.tmplNames[r.Pick(len(g.tmplNames))]
		k := g.tmplKind[t]
		// most of the time keep the reference where the JSON schema would also accept the body
		// (then the inlining oracle applies); otherwise let it stand
		if ((c.inArg && k == "object") || (c.underArray && k == "array")) && r.Chance(0.9) {
			d := &GDecl{}
			g.anchor(d, c, 0.9, 0.0)
			g.flags(d)
			return d
		}
		d := &GDecl{Template: sp(t)}
		if !g.tmplXPath[t] && (k == "field" || k == "object" || k == "func" || r.Chance(0.1)) {
			g.anchor(d, c, 0.3, 0.25)
		}
		g.tmplRefs++
		g.tmplUse[t]++
		return d
	}
	d := &GDecl{}
	g.anchor(d, c, 0.9, 0.0)
	g.flags(d)
	return d
}

var keyPool = []string{"a", "b", "c", "d", "e", "f", "k.1", "p%q", "Z", "m-n", "a.b", "a-b", "z z"}

// field names that stress the fqdn escaping (strs.BuildFQDNWithEsc / LastNameletOfFQDNWithEsc)
var weirdKeys = []string{"%", "%%", "a%", "%a", ".", "..", "a.", ".a", " a", "a ", " ", "é.ü", "日本", "%.", ".%", "a%%b", "x.y.z",
	"%%%", "a.%", "q%.", "FINAL_OUTPUT", "elem[1]", "a\tb", "ö%"}

// namesObject: an object of constants under awkward names, with nested objects under awkward names
func (g *gen) namesObject(depth int) *GDecl {
	r := g.r
	d := &GDecl{HasObject: true}
	used := map[string]bool{}
	for i := r.Between(2, 5); i > 0; i-- {
		k := weirdKeys[r.Pick(len(weirdKeys))]
		if used[k] {
			continue
		}
		used[k] = true
		if depth > 0 && r.Chance(0.4) {
			d.Object = append(d.Object, KV{k, g.namesObject(depth - 1)})
		} else {
			d.Object = append(d.Object, KV{k, &GDecl{Const: sp(r.PickStr("v", "w", "1", "k"))}})
		}
	}
	sort.Slice(d.Object, func(i, j int) bool { return d.Object[i].Key < d.Object[j].Key })
	return d
}

// upward: a declaration anchored on an ANCESTOR of the cursor (a node the stream reader keeps
// for the whole input, with one node ID) whose children read the record's data back down
func (g *gen) upward() *GDecl {
	r := g.r
	up := r.PickStr("..", "..", "../..")
	down := "n/"
	if up == "../.." {
		down = "*/n/"
	}
	if r.Chance(0.3) {
		down = strings.Replace(down, "n/", "*/", 1)
	}
	if r.Chance(0.35) {
		return &GDecl{XPath: sp(up), Func: &GFunc{Name: "concat", Args: []*GDecl{
			{XPath: sp(down + r.PickStr("@id", "id"))}, {Const: sp("-")}, {XPath: sp(down + g.name())}}}}
	}
	d := &GDecl{XPath: sp(up), HasObject: true, Keep: r.Chance(0.3)}
	d.Object = append(d.Object, KV{"i", &GDecl{XPath: sp(down + r.PickStr("@id", "id"))}})
	d.Object = append(d.Object, KV{"j", &GDecl{XPath: sp(down + g.name())}})
	if r.Chance(0.5) {
		d.Object = append(d.Object, KV{"l", &GDecl{HasArray: true, Array: []*GDecl{{XPath: sp(down + "*")}}}})
	}
	return d
}

func (g *gen) object(c gctx) *GDecl {
	r := g.r
	d := &GDecl{HasObject: true, Keep: r.Chance(0.2)}
	g.anchor(d, c, 0.45, 0.05)
	n := r.Between(1, 4)
	if g.allowEmpty && r.Chance(0.05) {
		n = 0
	}
	used := map[string]bool{}
	cc := gctx{depth: c.depth - 1, inDyn: c.inDyn}
	for i := 0; i < n; i++ {
		k := keyPool[r.Pick(len(keyPool))]
		if r.Chance(0.12) {
			k = weirdKeys[r.Pick(len(weirdKeys))]
		}
		if used[k] {
			continue
		}
		used[k] = true
		d.Object = append(d.Object, KV{k, g.decl(cc)})
	}
	if g.pendingSib != nil {
		// sorts before the ordinary keys, so it is evaluated (and cached) first
		if !used["0sib"] {
			used["0sib"] = true
			d.Object = append(d.Object, KV{"0sib", g.pendingSib})
		}
		g.pendingSib = nil
	}
	if r.Chance(0.06) && !used["big"] {
		used["big"] = true
		d.Object = append(d.Object, KV{"big", &GDecl{Const: sp(bigInts[r.Pick(len(bigInts))]), Type: sp(r.PickStr("int", "int", "string")), Keep: r.Chance(0.3)}})
	}
	// textually identical declarations at one cursor: a twin under another key, and the same
	// declaration under array AND under object
	if len(d.Object) > 0 && r.Chance(0.3) {
		src := d.Object[r.Pick(len(d.Object))].D
		if src.Const != nil && len(*src.Const) > 15 {
			src = &GDecl{XPath: sp(g.xpath())}
		}
		for _, k := range []string{"t1", "t2"} {
			if used[k] {
				continue
			}
			used[k] = true
			switch {
			case src.HasArray || r.Chance(0.35):
				d.Object = append(d.Object, KV{k, src})
			case src.XPath != nil && r.Chance(0.5):
				// the declaration as an array element, and again as a member of an object that is
				// anchored on the same xpath: both are evaluated AT the matched node, one with its
				// xpath already consumed by the array, the other not
				d.Object = append(d.Object, KV{k, &GDecl{HasArray: true, Array: []*GDecl{src}}})
				if !used["t3"] {
					used["t3"] = true
					d.Object = append(d.Object, KV{"t3", &GDecl{XPath: src.XPath, HasObject: true, Object: []KV{{"c", src}}}})
				}
			default:
				d.Object = append(d.Object, KV{k, &GDecl{HasArray: true, Array: []*GDecl{src}}})
			}
			g.twins++
			break
		}
	}
	sort.Slice(d.Object, func(i, j int) bool { return d.Object[i].Key < d.Object[j].Key })
	return d
}

func (g *gen) array(c gctx) *GDecl {
	r := g.r
	d := &GDecl{HasArray: true, Keep: r.Chance(0.2)}
	n := r.Between(1, 3)
	if r.Chance(0.12) {
		n = r.Between(10, 14)
		g.bigArrays++
	}
	if g.allowEmpty && r.Chance(0.05) {
		n = 0
	}
	cc := gctx{depth: c.depth - 1, underArray: true, inDyn: c.inDyn}
	for i := 0; i < n; i++ {
		if n >= 10 {
			// many small, distinguishable children: order is what is being looked at
			if r.Chance(0.7) {
				d.Array = append(d.Array, &GDecl{Const: sp(fmt.Sprintf("e%d", i+1))})
			} else {
				d.Array = append(d.Array, &GDecl{XPath: sp(g.xpath())})
			}
			continue
		}
		d.Array = append(d.Array, g.decl(cc))
	}
	if d.Array == nil {
		d.Array = []*GDecl{}
	}
	return d
}

// schema generates transform_declarations; kind names a deliberate defect ("" = valid by
// construction).
func (g *gen) schema() (Decls, string) {
	r := g.r
	ds := Decls{}
	g.tmplNames, g.tmplXPath, g.tmplUse, g.tmplKind = nil, map[string]bool{}, map[string]int{}, map[string]string{}
	g.twins, g.tmplRefs, g.bigArrays, g.upwards, g.weird, g.dynArrays, g.pendingSib = 0, 0, 0, 0, 0, 0, nil
	nt := r.Pick(4)
	// templates are generated last-to-first so that t_i only references t_j with j > i
	var names []string
	for i := nt; i >= 1; i-- {
		name := fmt.Sprintf("t%d", i)
		body := g.decl(gctx{depth: 2})
		ds[name] = body
		names = append(names, name)
		g.tmplNames = append(g.tmplNames, name)
		g.tmplXPath[name] = body.isXPathSet()
		g.tmplKind[name] = g.kindOf(body)
		if body.Template != nil && g.kindOf(body) != "" && g.tmplXPath[*body.Template] {
			g.tmplXPath[name] = true
		}
	}
	fo := g.object(gctx{depth: 4})
	if r.Chance(0.12) {
		fo = g.decl(gctx{depth: 4})
	}
	if fo.HasObject && r.Chance(0.15) {
		// an array of 10..14 plain constants at the top: its declared order is directly visible
		n := r.Between(10, 14)
		a := &GDecl{HasArray: true}
		for i := 1; i <= n; i++ {
			a.Array = append(a.Array, &GDecl{Const: sp(fmt.Sprintf("e%d", i))})
		}
		fo.Object = append(fo.Object, KV{"zarr", a})
		g.bigArrays++
	}
	if fo.HasObject {
		has := map[string]bool{}
		for _, kv := range fo.Object {
			has[kv.Key] = true
		}
		add := func(k string, d *GDecl) {
			if !has[k] {
				has[k] = true
				fo.Object = append(fo.Object, KV{k, d})
			}
		}
		if r.Chance(0.2) {
			add("up", g.upward())
			g.upwards++
		}
		if r.Chance(0.2) {
			// a function that fails on some records (verif_nonempty on an absent / empty value,
			// verif_pick out of range) with ignore_error inside a TEMPLATE body, referenced as a
			// member and as an array element; and the same call twice on one node, lenient
			// (ignore_error) first and strict second: they must not share a cache entry
			nm := r.PickStr("item", "a", "b", g.name())
			call := func(ignore bool) *GDecl {
				if r.Chance(0.7) {
					return &GDecl{Func: &GFunc{Name: "verif_nonempty", Args: []*GDecl{{XPath: sp(nm + "[1]")}}, IgnoreError: ignore}}
				}
				return &GDecl{Func: &GFunc{Name: "verif_pick", Args: []*GDecl{{XPath: sp("@id"), Type: sp("int")}, {Const: sp("p")}, {Const: sp("q")}}, IgnoreError: ignore}}
			}
			body := call(true)
			if r.Chance(0.4) {
				body = &GDecl{HasObject: true, Object: []KV{{"f", call(true)}, {"k", &GDecl{Const: sp("k")}}}}
			}
			ds["tign"] = body
			add("ign", &GDecl{Template: sp("tign")})
			if r.Chance(0.5) {
				add("igna", &GDecl{HasArray: true, Array: []*GDecl{{Template: sp("tign")}, {Const: sp("z")}}})
			}
			if r.Chance(0.6) {
				lenient := call(true)
				strict := *lenient
				sf := *lenient.Func
				sf.IgnoreError = false
				strict.Func = &sf
				add("ig1", lenient)
				add("ig2", &strict)
			}
		}
		if r.Chance(0.2) {
			// an xpath_dynamic whose declaration FAILS to evaluate (swallowed: the carrier is just
			// omitted) next to the textually identical declaration as an ordinary member evaluated
			// later on the same node, where the same failure must fail the record
			var dyn *GDecl
			switch r.Pick(4) {
			case 0:
				// several matches on most records; where there is exactly one, its text (an
				// attribute value: a name or an integer) is a harmless xpath
				dyn = &GDecl{XPath: sp(r.PickStr("item/@k", "*/@k", "*/@id", "*/*/@k"))}
			case 1:
				dyn = &GDecl{External: sp("missing")}
			case 2:
				dyn = &GDecl{Const: sp(r.PickStr("x", "0x1F", "1_000")), Type: sp("int")} // failing cast
			default:
				dyn = &GDecl{Func: &GFunc{Name: "verif_nonempty", Args: []*GDecl{{XPath: sp("nosuch")}}}}
			}
			add("d1", &GDecl{XDyn: dyn, Keep: r.Chance(0.3)})
			add("d2", dyn)
			if r.Chance(0.3) {
				add("d0", &GDecl{HasArray: true, Array: []*GDecl{{XDyn: dyn}, {Const: sp("k")}}})
			}
		}
		if r.Chance(0.25) {
			// external properties, also cast and below an object
			ex := &GDecl{External: sp(r.PickStr("ext1", "ext2", "ext3", "ext4", "ext5"))}
			g.flags(ex)
			add("ex", ex)
			if r.Chance(0.4) {
				add("exo", &GDecl{HasObject: true, Object: []KV{{"e", &GDecl{External: sp(r.PickStr("ext2", "ext3", "ext5")), Type: sp(r.PickStr("int", "string", "boolean"))}}}})
			}
		}
		if r.Chance(0.4) {
			// a string function over leaf arguments, some of them cast to a non-string type
			fname := r.PickStr("upper", "lower", "concat", "concat", "coalesce")
			na := 1
			if fname == "concat" || fname == "coalesce" {
				na = r.Between(1, 3)
			}
			f := &GFunc{Name: fname, IgnoreError: r.Chance(0.3)}
			for i := 0; i < na; i++ {
				var a *GDecl
				switch r.Pick(3) {
				case 0:
					a = &GDecl{Const: sp(r.PickStr("65", "ab", "1.5", "true", " x ", "", "0"))}
				case 1:
					a = &GDecl{XPath: sp(r.PickStr("a", "b", "item", "@id", "x", "nosuch"))}
				default:
					a = &GDecl{External: sp(r.PickStr("ext2", "ext3", "ext1"))}
				}
				if r.Chance(0.5) {
					a.Type = sp(r.PickStr("int", "float", "boolean", "string"))
				}
				a.Keep = r.Chance(0.2)
				f.Args = append(f.Args, a)
			}
			fd := &GDecl{Func: f}
			g.flags(fd)
			add("sfn", fd)
		}
		if r.Chance(0.3) {
			// an array element that is null for some matches and asks to keep it; directly and
			// through a template
			nm := "item"
			if r.Chance(0.3) {
				nm = g.name()
			}
			el := &GDecl{Func: &GFunc{Name: "verif_echo", Args: []*GDecl{{XPath: sp(".")}}}, Keep: r.Chance(0.8)}
			if r.Chance(0.4) {
				ds["tnull"] = el
				add("pnull", &GDecl{HasArray: true, Array: []*GDecl{{Template: sp("tnull"), XPath: sp(nm)}}})
			} else {
				e2 := *el
				e2.XPath = sp(nm)
				add("pnull", &GDecl{HasArray: true, Array: []*GDecl{&e2}})
			}
		}
		if r.Chance(0.15) {
			// F28 shape, made visible: a template reference whose xpath_dynamic is computed from
			// the NUMBER of elements of an array below it: two elements select "." (the record),
			// a doubled array selects ".." (its parent); half of the time the equal array is also
			// a member evaluated before it on the same node
			two := &GDecl{HasArray: true, Array: []*GDecl{{Const: sp("x")}, {Const: sp("y")}}}
			ds["tdyn"] = &GDecl{HasObject: true, Object: []KV{{"v", &GDecl{XPath: sp("@id")}}, {"w", &GDecl{Const: sp("k")}}}}
			add("dynref", &GDecl{Template: sp("tdyn"), XDyn: &GDecl{Func: &GFunc{Name: "verif_pick", Args: []*GDecl{
				{Func: &GFunc{Name: "verif_len", Args: []*GDecl{{Func: &GFunc{Name: "verif_join", Args: []*GDecl{{Const: sp("")}, two}}}}}},
				{Const: sp("a")}, {Const: sp("b")}, {Const: sp(".")}, {Const: sp("c")}, {Const: sp("..")}}}}})
			if r.Chance(0.5) {
				add("0sib", two)
			}
			g.dynArrays++
		}
		if r.Chance(0.15) {
			add(weirdKeys[r.Pick(len(weirdKeys))], g.namesObject(2))
			g.weird++
		}
		if r.Chance(0.4) {
			nm := g.name()
			if r.Chance(0.5) {
				nm = "item"
			}
			add("pid", &GDecl{XPath: sp(nm), Keep: r.Chance(0.3)})
			add("parr", &GDecl{HasArray: true, Array: []*GDecl{{XPath: sp(nm)}}})
			if r.Chance(0.3) {
				add("pv", &GDecl{HasArray: true, Array: []*GDecl{{XPath: sp("v:" + nm)}}})
			}
			if r.Chance(0.6) {
				add("plast", &GDecl{XPath: sp(r.PickStr(nm+"[last()]", "*[last()]", nm+"[2]")), Keep: r.Chance(0.3)})
				add("pinit", &GDecl{HasArray: true, Array: []*GDecl{{XPath: sp(r.PickStr(nm+"[position()<last()]", nm+"[position() < last()]", "*[position()<last()]"))}}})
				add("pobj", &GDecl{XPath: sp(r.PickStr(nm+"[last()]", "*[last()]")), HasObject: true, Object: []KV{{"t", &GDecl{XPath: sp(".")}}}})
			}
		}
		sort.Slice(fo.Object, func(i, j int) bool { return fo.Object[i].Key < fo.Object[j].Key })
	}
	fo.XDyn = nil
	fo.XPath = nil
	ds["FINAL_OUTPUT"] = fo
	kind := ""
	if r.Chance(0.04) {
		// deliberate defects the validation must reject
		switch r.Pick(4) {
		case 0:
			ds["FINAL_OUTPUT"] = &GDecl{HasObject: true, Object: []KV{{"a", fo}, {"m", &GDecl{Template: sp("nosuch")}}}}
			kind = "missing-template"
		case 1:
			ds["cyc1"] = &GDecl{HasObject: true, Object: []KV{{"q", &GDecl{Template: sp("cyc2")}}}}
			ds["cyc2"] = &GDecl{HasArray: true, Array: []*GDecl{{Template: sp("cyc1")}}}
			ds["FINAL_OUTPUT"] = &GDecl{HasObject: true, Object: []KV{{"a", fo}, {"m", &GDecl{Template: sp("cyc1")}}}}
			kind = "template-cycle"
		case 2:
			ds["tx"] = &GDecl{XPath: sp("a")}
			ds["FINAL_OUTPUT"] = &GDecl{HasObject: true, Object: []KV{{"a", fo}, {"m", &GDecl{Template: sp("tx"), XPath: sp("b")}}}}
			kind = "xpath-on-both"
		case 3:
			ds["FINAL_OUTPUT"] = &GDecl{HasObject: true, Object: []KV{{"a", fo}, {"m", &GDecl{XPath: sp("b"), XDyn: &GDecl{Const: sp("c")}}}}}
			kind = "xpath-and-dynamic"
		}
	}
	return ds, kind
}

// ---- records -------------------------------------------------------------------------------------

var textPool = []string{"v", "w", " v ", "1", "2", "42", "-7", "3.5", "true", "false", "x", "", " ", "\tTab\n", "a b", "007",
	"1.250", "T", " nb　", "b", "c", "+5", ".5", "10.", "1234567", "0.000125",
	// literals that tell strconv.ParseInt(s, 10, 64) from a base-guessing parse, and ParseBool's exact set
	"010", "0100", "-017", "0020", "08", "09", "0x1F", "0o17", "0b11", "1_000", " 7 ", "TRUE", "t", "yes", "False"}

func (g *gen) text() string { return textPool[g.r.Pick(len(textPool))] }

func xmlEsc(s string) string {
	s = strings.ReplaceAll(s, "&", "&amp;")
	s = strings.ReplaceAll(s, "<", "&lt;")
	s = strings.ReplaceAll(s, ">", "&gt;")
	s = strings.ReplaceAll(s, "\"", "&quot;")
	s = strings.ReplaceAll(s, "\t", "&#9;")
	s = strings.ReplaceAll(s, "\n", "&#10;")
	return s
}

func (g *gen) xmlElem(sb *strings.Builder, name string, depth int) {
	r := g.r
	sb.WriteString("<" + name)
	used := map[string]bool{}
	if depth == 3 && g.recID != "" {
		// the record element: an id that differs from record to record
		used["id"] = true
		sb.WriteString(` id="` + g.recID + `"`)
	}
	for i := r.Pick(3); i > 0; i-- {
		a := attrNames[r.Pick(len(attrNames))]
		if used[a] {
			continue
		}
		used[a] = true
		sb.WriteString(" " + a + `="` + xmlEsc(predVals[r.Pick(len(predVals))]) + `"`)
	}
	sb.WriteString(">")
	nk := 0
	if depth > 0 {
		nk = r.Pick(5)
	}
	if nk == 0 || r.Chance(0.3) {
		sb.WriteString(xmlEsc(g.text()))
	}
	if depth == 3 && r.Chance(0.5) {
		// directly under the record (which carries attributes): 2..3 children with one name, so
		// that last() / position() have something to count
		for i := r.Between(2, 3); i > 0; i-- {
			sb.WriteString("<item")
			if r.Chance(0.5) {
				sb.WriteString(` k="` + xmlEsc(predVals[r.Pick(len(predVals))]) + `"`)
			}
			if r.Chance(0.3) {
				sb.WriteString("></item>") // an empty one: its text is a null / omitted value
			} else {
				sb.WriteString(">" + xmlEsc(g.text()) + "</item>")
			}
		}
	}
	if depth == 3 && g.nsDoc && r.Chance(0.7) {
		// directly under the record: the same local name with and without a prefix
		sb.WriteString("<v:item>" + xmlEsc(g.text()) + "</v:item><item>" + xmlEsc(g.text()) + "</item>")
		if r.Chance(0.3) {
			sb.WriteString("<v:item>" + xmlEsc(g.text()) + "</v:item>")
		}
	}
	for i := 0; i < nk; i++ {
		cn := g.name()
		if g.nsDoc && r.Chance(0.3) {
			cn = "v:" + cn // same local names, some prefixed some not
		}
		if r.Chance(0.25) {
			cn = name // nested same name (x inside x)
		}
		g.xmlElem(sb, cn, depth-1)
		if g.nsDoc && r.Chance(0.4) {
			// a sibling with the same local name and the other prefix status
			if strings.HasPrefix(cn, "v:") {
				g.xmlElem(sb, strings.TrimPrefix(cn, "v:"), depth-1)
			} else {
				g.xmlElem(sb, "v:"+cn, depth-1)
			}
		}
		if r.Chance(0.15) {
			sb.WriteString(xmlEsc(g.text()))
		}
	}
	sb.WriteString("</" + name + ">")
}

func (g *gen) xmlDoc(nrec int) string {
	var sb strings.Builder
	g.nsDoc = g.r.Chance(0.5)
	if g.nsDoc {
		sb.WriteString(`<r xmlns:v="urn:v">`)
	} else {
		sb.WriteString("<r>")
	}
	for i := 0; i < nrec; i++ {
		g.recID = ""
		if g.r.Chance(0.6) {
			g.recID = fmt.Sprint(i + 1)
		}
		g.xmlElem(&sb, "n", 3)
		if g.r.Chance(0.3) {
			sb.WriteString("\n")
		}
	}
	sb.WriteString("</r>")
	return sb.String()
}

func (g *gen) jsonVal(sb *strings.Builder, depth int) {
	r := g.r
	x := r.Pick(10)
	switch {
	case depth > 0 && x < 4:
		sb.WriteString("{")
		used := map[string]bool{}
		first := true
		for i := r.Pick(5); i > 0; i-- {
			k := g.name()
			if used[k] {
				continue
			}
			used[k] = true
			if !first {
				sb.WriteString(",")
			}
			first = false
			sb.WriteString(jstr(k) + ":")
			g.jsonVal(sb, depth-1)
		}
		sb.WriteString("}")
	case depth > 0 && x < 6:
		sb.WriteString("[")
		n := r.Pick(4)
		for i := 0; i < n; i++ {
			if i > 0 {
				sb.WriteString(",")
			}
			g.jsonVal(sb, depth-1)
		}
		sb.WriteString("]")
	case x < 7:
		sb.WriteString(r.PickStr("1", "2", "42", "-7", "3.5", "0", "1.25"))
	case x < 8:
		sb.WriteString(r.PickStr("true", "false", "null"))
	default:
		sb.WriteString(jstr(g.text()))
	}
}

func (g *gen) jsonDoc(nrec int) string {
	var sb strings.Builder
	sb.WriteString("[")
	for i := 0; i < nrec; i++ {
		if i > 0 {
			sb.WriteString(",")
		}
		sb.WriteString("{")
		used := map[string]bool{}
		first := true
		if g.r.Chance(0.6) {
			// a property that differs from record to record
			used["id"] = true
			first = false
			sb.WriteString(fmt.Sprintf(`"id":%d`, i+1))
		}
		for j := g.r.Between(2, 6); j > 0; j-- {
			k := g.name()
			if used[k] {
				continue
			}
			used[k] = true
			if !first {
				sb.WriteString(",")
			}
			first = false
			sb.WriteString(jstr(k) + ":")
			g.jsonVal(&sb, 3)
		}
		sb.WriteString("}")
	}
	sb.WriteString("]")
	return sb.String()
}

var flatCols = []string{"a", "b", "c", "x"}

func (g *gen) flatCell() string {
	return g.r.PickStr("v", "w", "1", "2", "42", "-7", "3.5", "true", "x", "", "a b", "007", "T",
		"010", "08", "0x1F", "1e3", "1_0", "TRUE", "0o17", "-017", "1E+2", "yes")
}

func (g *gen) csvDoc(nrec int) string {
	var sb strings.Builder
	sb.WriteString("a,b,c,x\n")
	for i := 0; i < nrec; i++ {
		var cells []string
		for range flatCols {
			cells = append(cells, g.flatCell())
		}
		sb.WriteString(strings.Join(cells, ",") + "\n")
	}
	return sb.String()
}

func (g *gen) fixedDoc(nrec int) string {
	var sb strings.Builder
	for i := 0; i < nrec; i++ {
		for range flatCols {
			c := g.flatCell()
			if len(c) > 5 {
				c = c[:5]
			}
			sb.WriteString(c + strings.Repeat(" ", 5-len(c)))
		}
		sb.WriteString("\n")
	}
	return sb.String()
}

// formats the harness generates records for: header of the schema up to transform_declarations,
// and the FINAL_OUTPUT xpath that selects the records
type format struct {
	Name   string
	Header string
	Target *string
}

var formats = map[string]format{
	"xml":  {"xml", `"parser_settings": {"version": "omni.2.1", "file_format_type": "xml"}`, sp("/r/n")},
	"json": {"json", `"parser_settings": {"version": "omni.2.1", "file_format_type": "json"}`, sp("/*")},
	"csv": {"csv", `"parser_settings": {"version": "omni.2.1", "file_format_type": "csv"},
 "file_declaration": {"delimiter": ",", "header_row_index": 1, "data_row_index": 2,
   "columns": [{"name":"a"},{"name":"b"},{"name":"c"},{"name":"x"}]}`, nil},
	"fixed-length": {"fixed-length", `"parser_settings": {"version": "omni.2.1", "file_format_type": "fixed-length"},
 "file_declaration": {"envelopes": [{"columns": [
   {"name":"a","start_pos":1,"length":5},{"name":"b","start_pos":6,"length":5},
   {"name":"c","start_pos":11,"length":5},{"name":"x","start_pos":16,"length":5}]}]}`, nil},
}

func schemaText(f format, ds Decls) string {
	return "{" + f.Header + ",\n \"transform_declarations\": " + ds.JSON() + "}"
}
