// c02: correspondence + oracle harness for property C02 (emitted JSON equals the documented
// evaluation of FINAL_OUTPUT) and the evaluator-level part of C13 (transform cache on/off).
package main

import (
	"encoding/json"
	"fmt"
	"os"
	"path/filepath"
	"regexp"
	"sort"
	"strings"

	"verifharness/vh"
)

// Case is the replayable description of one (schema, input) pair; corpus and replay files use
// exactly this shape (bin/check wraps it into {"case": ...}).
type Case struct {
	Format string `json:"format"`
	Decls  string `json:"transform_declarations"` // JSON text of the transform_declarations object
	Input  string `json:"input"`
	Note   string `json:"note,omitempty"`
	// Expect pins the outcome per record for corpus regression cases (canonical JSON, "!err" for a
	// per-record failure); empty = only the oracles and the model decide.
	Expect []string `json:"expect,omitempty"`
}

var longNumRe = regexp.MustCompile(`[0-9]{16,}e`)

type harness struct {
	nSecond int
	o       *vh.Opts
	sum     *vh.Summary
	cw      *vh.CaseWriter
}

func coqPath(p []int) string {
	var xs []string
	for _, i := range p {
		xs = append(xs, vh.CoqNat(i))
	}
	return vh.CoqList(xs)
}

func coqExt() string { return coqExtOf(externals) }

func coqExtOf(externals map[string]string) string {
	var ks []string
	for k := range externals {
		ks = append(ks, k)
	}
	sort.Strings(ks)
	var es []string
	for _, k := range ks {
		es = append(es, "("+vh.CoqHex([]byte(k))+", "+vh.CoqHex([]byte(externals[k]))+")")
	}
	return vh.CoqList(es)
}

// runCase runs one case through the implementation, evaluates the Go-side oracles and emits the
// Coq correspondence case.  nontrivial is decided by the caller (generator statistics) or, for
// corpus cases, from the dump.
func (h *harness) runCase(c Case, ds Decls, wantReject string, nontrivial bool, fromGen bool) {
	h.runCaseM(c, ds, wantReject, nontrivial, fromGen, true)
}

// runCaseM: model = also emit the Coq correspondence case (false for schemas using functions the
// model does not have, e.g. javascript: the Go-side oracles still all apply)
func (h *harness) runCaseM(c Case, ds Decls, wantReject string, nontrivial bool, fromGen bool, model bool) {
	f, ok := formats[c.Format]
	if !ok {
		h.sum.Fail("unknown format in case", c, nil)
		return
	}
	schema := "{" + f.Header + ",\n \"transform_declarations\": " + c.Decls + "}"
	vh.Current(h.o, c)
	out := runSchema(schema, c.Input, ds["FINAL_OUTPUT"])
	canon, _ := json.Marshal(c)
	if out.Panic != "" {
		h.sum.Fail("panic escaped NewSchema/NewTransform/Read", c, out.Panic)
		return
	}
	if out.Clobbered != "" {
		h.sum.Fail("bytes returned by Transform.Read changed after later Reads (the caller keeps them)", c, out.Clobbered)
		return
	}
	if out.Rejected {
		h.sum.Hist("schema:rejected")
		h.sum.Count(string(canon), false)
		if wantReject == "" && fromGen {
			// the generator meant this schema to be valid: the model must agree it is not, else
			// the correspondence case below reports it
			h.sum.Hist("schema:rejected-unexpected")
		}
		if model {
			h.cw.Add(fmt.Sprintf("mkCase %s None [] %s []", ds.Coq(), coqExt()),
				map[string]interface{}{"case": c, "rejected": out.RejectMsg})
		}
		return
	}
	if wantReject != "" {
		h.sum.Fail("schema with a deliberate defect ("+wantReject+") was accepted", c, nil)
		return
	}
	if out.Decl == nil {
		h.sum.Fail("FileFormat.ValidateSchema was not handed the validated FINAL_OUTPUT", c, nil)
		return
	}
	h.sum.Hist("schema:accepted")
	if out.Fatal != "" {
		h.sum.Hist("run:fatal")
	}
	term, classes, du := dumpDecl(out.Decl)
	if du.problem != "" {
		h.sum.Fail("validated declaration tree is inconsistent: "+du.problem, c, nil)
		return
	}
	h.sum.Hist(fmt.Sprintf("decls:%d-%d", du.nodes/10*10, du.nodes/10*10+9))
	if du.dupHash {
		h.sum.Hist("schema:shared-hash")
	}
	h.sum.Count(string(canon), nontrivial && len(out.Recs) > 0)

	// ---- oracle 1: transform cache on = off = what Read returned -------------------------------
	var recTerms []string
	var outs []string
	for i, ro := range out.Recs {
		outs = append(outs, ro.Read)
		h.sum.Hist("record:" + map[bool]string{true: "failed", false: "ok"}[ro.Read == "!err"])
		if ro.On != ro.Off {
			h.sum.Fail("transform cache changes the result (ParseNode with cache on vs off)", c,
				map[string]interface{}{"record": i, "cache_on": ro.On, "cache_off": ro.Off})
			return
		}
		if ro.On != ro.Read {
			h.sum.Fail("Transform.Read differs from ParseNode on the same node", c,
				map[string]interface{}{"record": i, "read": ro.Read, "parse_node": ro.On})
			return
		}
		recTerms = append(recTerms, fmt.Sprintf("mkRec %s %s %s", ro.Tree, coqPath(ro.Cursor), ro.ReadObs))
	}
	if len(c.Expect) > 0 {
		if strings.Join(c.Expect, "\n") != strings.Join(outs, "\n") {
			h.sum.Fail("regression case: outcome differs from the pinned one", c, map[string]interface{}{"expected": c.Expect, "observed": outs})
			return
		}
	}

	// ---- oracle 2: a template reference = its body inlined ----------------------------------------
	if len(ds) > 1 {
		if fo, ok := Inline(ds, ds["FINAL_OUTPUT"], 0); ok {
			ids := Decls{"FINAL_OUTPUT": fo}
			iout := runSchema(schemaText(f, ids), c.Input, nil)
			if iout.Rejected && strings.Contains(iout.RejectMsg, "validation failed:\ntransform_declarations") {
				// the JSON schema has no syntax for the inlined form (an object as argument, an
				// xpath on a const, ...): this oracle does not apply, the model's eval_spec does
				h.sum.Hist("oracle:inlined-form-not-expressible")
			} else if iout.Rejected || iout.Panic != "" {
				h.sum.Fail("schema with templates inlined by substitution is not accepted", c, iout.RejectMsg+iout.Panic)
				return
			} else {
				var iouts []string
				for _, ro := range iout.Recs {
					iouts = append(iouts, ro.Read)
				}
				if strings.Join(iouts, "\n") != strings.Join(outs, "\n") {
					h.sum.Fail("template reference does not behave as its body inlined", c,
						map[string]interface{}{"with_templates": outs, "inlined": iouts, "inlined_schema": ids.JSON()})
					return
				}
				h.sum.Hist("oracle:inlined")
			}
		}
	}

	// ---- oracle 3: the value of a child does not depend on its siblings --------------------------
	fo := ds["FINAL_OUTPUT"]
	if fo.HasObject && len(fo.Object) >= 2 {
		// up to two children, chosen deterministically
		step := 1
		if len(fo.Object) > 2 {
			step = (len(fo.Object) + 1) / 2
		}
		for ki := 0; ki < len(fo.Object); ki += step {
			kv := fo.Object[ki]
			one := *fo
			one.Object = []KV{kv}
			ods := Decls{}
			for k, v := range ds {
				ods[k] = v
			}
			ods["FINAL_OUTPUT"] = &one
			oout := runSchema(schemaText(f, ods), c.Input, nil)
			if oout.Rejected || oout.Panic != "" || len(oout.Recs) != len(out.Recs) {
				h.sum.Fail("FINAL_OUTPUT restricted to one child behaves differently at schema/reader level", c, kv.Key)
				return
			}
			for i, ro := range out.Recs {
				if ro.Read == "!err" {
					continue
				}
				alone := oout.Recs[i].Read
				want := memberOf(ro.Read, kv.Key, fo.Keep)
				if alone != want {
					h.sum.Fail("value of a declaration depends on its sibling declarations", c,
						map[string]interface{}{"record": i, "child": kv.Key, "in_full_object": ro.Read, "alone": alone, "expected_alone": want})
					return
				}
			}
			h.sum.Hist("oracle:sibling-independence")
		}
	}

	// ---- oracle 5: constants and plain fields directly from the documented rules ------------------
	if !h.checkMembers(c, "const/field/string-function members", out.Recs, func(i int) []memberExp { return out.Recs[i].Direct }, false, "oracle:direct-member") {
		return
	}
	// ... and on FINAL_OUTPUT restricted to exactly those members, where nothing else can make a
	// record fail
	if fo.HasObject && len(out.Recs) > 0 && len(out.Recs[0].Direct) > 0 && len(out.Recs[0].Direct) < len(fo.Object) {
		keys := map[string]bool{}
		for _, me := range out.Recs[0].Direct {
			keys[me.Key] = true
		}
		rds, rfo := restrictTo(ds, keys)
		rout := runSchema(schemaText(f, rds), c.Input, rfo)
		if !rout.Rejected && rout.Panic == "" && len(rout.Recs) == len(out.Recs) {
			if !h.checkMembers(c, "const/field/string-function members alone", rout.Recs, func(i int) []memberExp { return rout.Recs[i].Direct }, true, "oracle:direct-member-complete") {
				return
			}
		}
	}

	// ---- oracle 6: output field names are exactly the declared names ----------------------------------
	var cps []constPath
	constPaths(fo, nil, &cps)
	if len(cps) > 0 {
		for i, ro := range out.Recs {
			if ro.Read == "!err" {
				continue
			}
			var v interface{}
			if err := json.Unmarshal([]byte(ro.Read), &v); err != nil {
				continue
			}
			for _, cp := range cps {
				got, ok := lookupPath(v, cp.Path)
				if !ok || got != cp.Val {
					h.sum.Fail("a constant is not emitted under exactly its declared field names", c,
						map[string]interface{}{"record": i, "path": cp.Path, "expected": cp.Val, "observed_present": ok, "observed": got, "output": ro.Read})
					return
				}
			}
			h.sum.Hist("oracle:declared-names")
		}
	}

	// ---- oracle 7: bare-name xpaths select the unprefixed children only (own XML reading) ------------
	if c.Format == "xml" && fo.XPath != nil && *fo.XPath == "/r/n" {
		// templates by substitution first: the independent reading then sees what they stand for
		xfo := fo
		if ifo, ok := Inline(ds, fo, 0); ok {
			xfo = ifo
		}
		xd := xmlDirect(c.Input, xfo)
		if len(xd) == len(out.Recs) && len(xd) > 0 && len(xd[0]) > 0 {
			if !h.checkMembers(c, "bare-name xpath (children with that local name and no prefix)", out.Recs, func(i int) []memberExp { return xd[i] }, false, "oracle:xml-name-test") {
				return
			}
			keys := map[string]bool{}
			for _, me := range xd[0] {
				keys[me.Key] = true
			}
			if len(keys) < len(fo.Object) {
				rds, rfo := restrictTo(ds, keys)
				rout := runSchema(schemaText(f, rds), c.Input, nil)
				if irfo, ok := Inline(ds, rfo, 0); ok {
					rfo = irfo
				}
				rxd := xmlDirect(c.Input, rfo)
				if !rout.Rejected && rout.Panic == "" && len(rout.Recs) == len(rxd) {
					if !h.checkMembers(c, "bare-name xpath members alone", rout.Recs, func(i int) []memberExp { return rxd[i] }, true, "oracle:xml-name-test-complete") {
						return
					}
				}
			}
		}
	}

	// ---- oracle 4: an array of plain constants is emitted in declared order -----------------------
	if fo.HasObject {
		for _, kv := range fo.Object {
			if !kv.D.HasArray || len(kv.D.Array) == 0 {
				continue
			}
			var want []interface{}
			plain := true
			for _, e := range kv.D.Array {
				if e.Const == nil || e.Type != nil || e.NoTrim || e.Keep || strings.TrimSpace(*e.Const) != *e.Const || *e.Const == "" {
					plain = false
					break
				}
				want = append(want, *e.Const)
			}
			if !plain {
				continue
			}
			wb, _ := json.Marshal(map[string]interface{}{kv.Key: want})
			for i, ro := range out.Recs {
				if ro.Read == "!err" {
					continue
				}
				if got := memberOf(ro.Read, kv.Key, false); got != canonBytes(wb) {
					h.sum.Fail("array elements are not emitted in declared order", c,
						map[string]interface{}{"record": i, "member": kv.Key, "observed": got, "declared": canonBytes(wb)})
					return
				}
			}
			h.sum.Hist("oracle:array-declared-order")
		}
	}

	// the model covers float64 for <= 15 significant digits: a longer number next to a float cast
	// (digit texts concatenated by InnerText) is checked by the Go-side oracles only
	if strings.Contains(c.Decls, `"float"`) {
		for _, o := range outs {
			if longNumRe.MatchString(o) {
				h.sum.Hist("model:skipped-long-float")
				return
			}
		}
	}
	// ---- oracle 8: ONE Schema, several transforms with different external properties ---------------
	var second *runOut
	if strings.Contains(c.Decls, `"external"`) && len(out.Recs) > 0 {
		for _, inter := range []bool{false, true} {
			both := runSchemaN(schema, []string{c.Input, c.Input}, []map[string]string{externals, externalsB}, fo, inter)
			fresh := runSchemaN(schema, []string{c.Input}, []map[string]string{externalsB}, fo, false)[0]
			how := map[bool]string{false: "one after the other", true: "interleaved"}[inter]
			reads := func(o *runOut) []string {
				var x []string
				for _, ro := range o.Recs {
					x = append(x, ro.Read)
				}
				return x
			}
			if strings.Join(reads(both[0]), "\n") != strings.Join(outs, "\n") {
				h.sum.Fail("two transforms of one Schema ("+how+"): the first differs from the same transform run alone", c,
					map[string]interface{}{"alone": outs, "first_of_two": reads(both[0])})
				return
			}
			if strings.Join(reads(both[1]), "\n") != strings.Join(reads(fresh), "\n") {
				h.sum.Fail("two transforms of one Schema ("+how+") with different external properties: the second differs from a fresh Schema run with its own properties", c,
					map[string]interface{}{"externals_first": externals, "externals_second": externalsB, "second_of_two": reads(both[1]), "fresh_schema": reads(fresh)})
				return
			}
			if !h.checkMembers(c, "second transform of one Schema ("+how+"), its own external properties", both[1].Recs,
				func(i int) []memberExp { return both[1].Recs[i].Direct }, false, "oracle:second-transform-direct") {
				return
			}
			h.sum.Hist("oracle:two-transforms-" + map[bool]string{false: "sequential", true: "interleaved"}[inter])
			second = both[1]
		}
	}
	if !model {
		return
	}
	h.nSecond++
	if second != nil && h.nSecond%3 == 0 {
		var recTerms2 []string
		for _, ro := range second.Recs {
			recTerms2 = append(recTerms2, fmt.Sprintf("mkRec %s %s %s", ro.Tree, coqPath(ro.Cursor), ro.ReadObs))
		}
		clsT := make([]string, len(classes))
		for i, k := range classes {
			clsT[i] = vh.CoqN(k)
		}
		h.cw.Add(fmt.Sprintf("mkCase %s (Some %s) %s %s %s", ds.Coq(), term, vh.CoqList(clsT), coqExtOf(externalsB), vh.CoqList(recTerms2)),
			map[string]interface{}{"case": c, "second_transform_externals": externalsB})
	}
	desc := map[string]interface{}{"case": c, "outcomes": outs}
	h.sum.Sample(desc)
	clsTerms := make([]string, len(classes))
	for i, k := range classes {
		clsTerms[i] = vh.CoqN(k)
	}
	h.cw.Add(fmt.Sprintf("mkCase %s (Some %s) %s %s %s", ds.Coq(), term, vh.CoqList(clsTerms), coqExt(), vh.CoqList(recTerms)), desc)
}

// memberOf computes what the object restricted to one key must canonically be.
func memberOf(full, key string, keep bool) string {
	var v interface{}
	dec := json.NewDecoder(strings.NewReader(full))
	dec.UseNumber()
	if err := dec.Decode(&v); err != nil {
		return "!undecodable " + full
	}
	m, ok := v.(map[string]interface{})
	if !ok {
		// the full object was omitted (null): no child contributed
		if keep {
			return "{}"
		}
		return "null"
	}
	x, present := m[key]
	if !present {
		if keep {
			return "{}"
		}
		return "null"
	}
	b, _ := json.Marshal(map[string]interface{}{key: x})
	return canonBytes(b)
}

// checkMembers compares per-record member expectations with what was emitted.  complete = the
// expectations cover EVERY member of the evaluated FINAL_OUTPUT, so a record may only fail when
// one of them says so.
func (h *harness) checkMembers(c Case, what string, recs []*recObs, exps func(i int) []memberExp, complete bool, hist string) bool {
	for i, ro := range recs {
		mustFail := ""
		for _, me := range exps(i) {
			if me.State == "fail" {
				mustFail = me.Key
			}
		}
		if mustFail != "" {
			if ro.Read != "!err" {
				h.sum.Fail(what+": the record must fail (several nodes selected, or a cast fails) but a result was emitted", c,
					map[string]interface{}{"record": i, "member": mustFail, "observed": ro.Read, "complete": complete})
				return false
			}
			continue
		}
		if ro.Read == "!err" {
			if complete && len(exps(i)) > 0 {
				h.sum.Fail(what+": the record fails although every member evaluates by the documented rules", c,
					map[string]interface{}{"record": i, "expected_members": exps(i)})
				return false
			}
			continue
		}
		for _, me := range exps(i) {
			got := memberOf(ro.Read, me.Key, false)
			want := me.Val
			if me.State == "absent" {
				want = "null"
			}
			if got != want {
				h.sum.Fail(what+": member differs from the documented evaluation", c,
					map[string]interface{}{"record": i, "member": me.Key, "observed": got, "documented": want, "complete": complete})
				return false
			}
			h.sum.Hist(hist)
		}
	}
	return true
}

// restrictTo returns the declarations with FINAL_OUTPUT reduced to the given members.
func restrictTo(ds Decls, keys map[string]bool) (Decls, *GDecl) {
	fo := ds["FINAL_OUTPUT"]
	one := *fo
	one.Object = nil
	for _, kv := range fo.Object {
		if keys[kv.Key] {
			one.Object = append(one.Object, kv)
		}
	}
	ods := Decls{}
	for k, v := range ds {
		ods[k] = v
	}
	ods["FINAL_OUTPUT"] = &one
	return ods, &one
}

func (h *harness) corpusFile(p string) {
	b, err := os.ReadFile(p)
	if err != nil {
		h.sum.Fail("cannot read corpus file "+p, nil, err.Error())
		return
	}
	var wrap struct {
		Case *Case `json:"case"`
	}
	var c Case
	if json.Unmarshal(b, &wrap) == nil && wrap.Case != nil {
		c = *wrap.Case
	} else if err := json.Unmarshal(b, &c); err != nil {
		h.sum.Fail("cannot decode corpus file "+p, nil, err.Error())
		return
	}
	ds, err := ParseDecls(c.Decls)
	if err != nil || ds["FINAL_OUTPUT"] == nil {
		h.sum.Fail("corpus file "+p+": transform_declarations not usable", c, fmt.Sprint(err))
		return
	}
	// canonical text, so that the case hashes the same however the file was formatted
	c.Decls = ds.JSON()
	h.sum.Hist("source:corpus")
	if strings.Contains(c.Decls, "javascript_with_context") {
		h.jsReplay(c, ds)
		return
	}
	h.runCaseM(c, ds, "", true, false, !strings.Contains(c.Decls, `"javascript"`))
}

func main() {
	o := vh.ParseOpts()
	r := vh.NewRng(o.Seed)
	sum := vh.NewSummary("C02", o,
		"generated schemas (declaration trees: nesting <= 5, templates, twins, xpath_dynamic, all flags, arrays of 1..14 children) x generated XML/JSON/csv/fixed-length documents, each record transformed by Transform.Read and by ParseNode with the transform cache on and off; non-trivial = the schema places >= 2 declarations with equal public content at one cursor (twin or array+object placement), or uses one template at two or more references, or has an array with >= 10 children; distinct by (format, declarations, input)")
	cw := vh.NewCaseWriter(o, "C02", "Base.Tree Gen.Conv Model.Value Model.XPathFrag Model.Decl Model.Eval", "c02case", "check_case")
	cw.PerFile = 50
	h := &harness{o: o, sum: sum, cw: cw}

	if o.Replay != "" {
		h.corpusFile(o.Replay)
		cw.Flush()
		sum.CaseFiles = cw.Files
		sum.Write(o)
		return
	}
	if o.Corpus != "" {
		files, _ := filepath.Glob(filepath.Join(o.Corpus, "*.json"))
		sort.Strings(files)
		for _, p := range files {
			h.corpusFile(p)
		}
	}

	g := &gen{r: r, allowEmpty: true, allowArrayUnderDyn: true}
	total := o.Count(500, 10000)
	fnames := []string{"xml", "xml", "xml", "xml", "json", "json", "json", "csv", "fixed-length"}
	for i := 0; i < total; i++ {
		fname := fnames[r.Pick(len(fnames))]
		f := formats[fname]
		ds, defect := g.schema()
		fo := ds["FINAL_OUTPUT"]
		if f.Target != nil && (fo.HasObject || fo.Func != nil || (fo.Template != nil && !g.tmplXPath[*fo.Template]) ||
			(fo.Const == nil && fo.External == nil && !fo.HasArray && fo.Template == nil)) {
			fo.XPath = f.Target
		}
		nrec := r.Between(1, 5)
		var input string
		switch fname {
		case "xml":
			input = g.xmlDoc(nrec)
		case "json":
			input = g.jsonDoc(nrec)
		case "csv":
			input = g.csvDoc(nrec)
		default:
			input = g.fixedDoc(nrec)
		}
		sum.Hist("format:" + fname)
		if defect != "" {
			sum.Hist("defect:" + defect)
		}
		twoRefs := false
		for _, n := range g.tmplUse {
			if n >= 2 {
				twoRefs = true
			}
		}
		if g.twins > 0 {
			sum.Hist("nontrivial:twin-declarations")
		}
		if twoRefs {
			sum.Hist("nontrivial:template-at-two-references")
		}
		if g.bigArrays > 0 {
			sum.Hist("nontrivial:array>=10")
		}
		if g.upwards > 0 {
			sum.Hist("shape:anchored-on-ancestor")
		}
		if g.dynArrays > 0 {
			sum.Hist("shape:array-below-xpath_dynamic")
		}
		if g.weird > 0 {
			sum.Hist("shape:awkward-field-names")
		}
		if fname == "xml" && g.nsDoc {
			sum.Hist("shape:prefixed-elements")
		}
		sum.Hist(fmt.Sprintf("records:%d", nrec))
		c := Case{Format: fname, Decls: ds.JSON(), Input: input}
		h.runCase(c, ds, defect, g.twins > 0 || twoRefs || g.bigArrays > 0, true)
	}
	// ---- second stream: many same-shaped records through javascript_with_context ----
	for i := 0; i < o.Count(30, 600); i++ {
		h.jsRecords(r, i)
	}
	// ---- third stream: type casts of awkward literals ----
	for i := 0; i < o.Count(100, 2000); i++ {
		h.castRecords(r, i)
	}
	cw.Flush()
	sum.CaseFiles = cw.Files
	sum.Write(o)
}
