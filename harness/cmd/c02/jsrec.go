package main

// A second stream: MANY (10..40) same-shaped small records in one input, read both through
// ordinary field members and through javascript_with_context on the record node itself
// (`_node` is the record's JSON, cached process-wide by node ID).  Node IDs of one record are
// distinct, so only something keyed by node ID ACROSS records can go wrong here.  Oracles on the
// implementation: the javascript member equals the field member; every record's output equals
// what the same record gives when it is the only record of the input.  (No model cases: the
// javascript engine is outside the model.)

import (
	"fmt"
	"strings"

	"verifharness/vh"
)

func jsArg(expr string) *GDecl {
	return &GDecl{Func: &GFunc{Name: "javascript_with_context", Args: []*GDecl{{Const: sp(expr)}}}}
}

func (h *harness) jsRecords(r *vh.Rng, idx int) {
	fname := r.PickStr("json", "json", "xml")
	f := formats[fname]
	nrec := r.Between(10, 40)
	nfields := r.Between(2, 4)
	names := []string{"a", "b", "c", "x"}[:nfields]
	// record i: field j = distinct small strings; same shape (same node count) for every record
	val := func(i, j int) string { return fmt.Sprintf("%s%d_%d", names[j], i+1, r.Pick(3)) }
	vals := make([][]string, nrec)
	for i := range vals {
		vals[i] = make([]string, nfields)
		for j := range vals[i] {
			vals[i][j] = val(i, j)
		}
	}
	one := func(i int) string {
		var sb strings.Builder
		if fname == "json" {
			sb.WriteString("{")
			for j, n := range names {
				if j > 0 {
					sb.WriteString(",")
				}
				sb.WriteString(jstr(n) + ":" + jstr(vals[i][j]))
			}
			sb.WriteString("}")
		} else {
			sb.WriteString("<n>")
			for j, n := range names {
				sb.WriteString("<" + n + ">" + xmlEsc(vals[i][j]) + "</" + n + ">")
			}
			sb.WriteString("</n>")
		}
		return sb.String()
	}
	wrap := func(recs []string) string {
		if fname == "json" {
			return "[" + strings.Join(recs, ",") + "]"
		}
		return "<r>" + strings.Join(recs, "") + "</r>"
	}
	var all []string
	for i := 0; i < nrec; i++ {
		all = append(all, one(i))
	}
	fo := &GDecl{HasObject: true, XPath: f.Target}
	for _, n := range names {
		fo.Object = append(fo.Object, KV{n, &GDecl{XPath: sp(n)}})
		fo.Object = append(fo.Object, KV{"j" + n, jsArg("JSON.parse(_node)." + n)})
	}
	fo.Object = append(fo.Object, KV{"node", jsArg("_node")})
	if r.Chance(0.5) {
		// the same through a nested object anchored on a child: _node is then the child
		fo.Object = append(fo.Object, KV{"sub", &GDecl{XPath: sp(names[0]), HasObject: true, Object: []KV{
			{"t", &GDecl{XPath: sp(".")}}, {"jt", jsArg("JSON.parse(_node)")}}}})
	}
	ds := Decls{"FINAL_OUTPUT": fo}
	c := Case{Format: fname, Decls: ds.JSON(), Input: wrap(all), Note: "many same-shaped records read through javascript_with_context and through fields"}
	vh.Current(h.o, c)
	h.sum.Hist("stream:js-records")
	h.sum.Hist("format:" + fname)
	h.sum.Hist(fmt.Sprintf("js-records:%d-%d", nrec/10*10, nrec/10*10+9))
	out := runSchema(schemaText(f, ds), c.Input, nil)
	h.sum.Count(c.Decls+c.Input, true)
	if out.Clobbered != "" {
		h.sum.Fail("bytes returned by Transform.Read changed after later Reads (the caller keeps them)", c, out.Clobbered)
		return
	}
	if out.Rejected || out.Panic != "" || out.Fatal != "" || len(out.Recs) != nrec {
		h.sum.Fail("many-records stream: schema or run did not complete", c,
			map[string]interface{}{"rejected": out.RejectMsg, "panic": out.Panic, "fatal": out.Fatal, "records": len(out.Recs), "expected_records": nrec})
		return
	}
	for i, ro := range out.Recs {
		if ro.Read == "!err" {
			h.sum.Fail("many-records stream: a record failed", c, map[string]interface{}{"record": i})
			return
		}
		// javascript member = field member, and both = the generated data
		for j, n := range names {
			want := canonBytes([]byte("{" + jstr(n) + ":" + jstr(vals[i][j]) + "}"))
			if got := memberOf(ro.Read, n, false); got != want {
				h.sum.Fail("field member differs from the record's data", c, map[string]interface{}{"record": i, "member": n, "observed": got, "expected": want})
				return
			}
			wantj := canonBytes([]byte("{" + jstr("j"+n) + ":" + jstr(vals[i][j]) + "}"))
			if got := memberOf(ro.Read, "j"+n, false); got != wantj {
				h.sum.Fail("javascript_with_context on the record node differs from the field member reading the same data (something keyed by node ID across records)", c,
					map[string]interface{}{"record": i, "member": "j" + n, "observed": got, "field_member": vals[i][j]})
				return
			}
		}
		h.sum.Hist("oracle:js-equals-field")
	}
	// every record alone (sampled: first, last and up to 6 in between)
	step := nrec / 6
	if step == 0 {
		step = 1
	}
	for i := 0; i < nrec; i += step {
		alone := runSchema(schemaText(f, ds), wrap([]string{one(i)}), nil)
		if alone.Rejected || alone.Panic != "" || len(alone.Recs) != 1 {
			h.sum.Fail("many-records stream: the record alone did not run", c, map[string]interface{}{"record": i})
			return
		}
		if alone.Recs[0].Read != out.Recs[i].Read {
			h.sum.Fail("a record's output differs from what the same record gives as the only record of the input", c,
				map[string]interface{}{"record": i, "in_stream": out.Recs[i].Read, "alone": alone.Recs[0].Read})
			return
		}
		h.sum.Hist("oracle:record-alone")
	}
	if idx < 1 {
		h.sum.Sample(map[string]interface{}{"case": c, "first_outcome": out.Recs[0].Read})
	}
}

// jsReplay re-runs a case of this stream from a replay / corpus file: every member "jX" must equal
// the member "X" of the same record.
func (h *harness) jsReplay(c Case, ds Decls) {
	f, ok := formats[c.Format]
	if !ok {
		h.sum.Fail("unknown format in case", c, nil)
		return
	}
	vh.Current(h.o, c)
	out := runSchema(schemaText(f, ds), c.Input, nil)
	h.sum.Count(c.Decls+c.Input, true)
	if out.Rejected || out.Panic != "" {
		h.sum.Fail("many-records stream: schema or run did not complete", c, out.RejectMsg+out.Panic)
		return
	}
	fo := ds["FINAL_OUTPUT"]
	has := map[string]bool{}
	for _, kv := range fo.Object {
		has[kv.Key] = true
	}
	for i, ro := range out.Recs {
		if ro.Read == "!err" {
			h.sum.Fail("many-records stream: a record failed", c, map[string]interface{}{"record": i})
			return
		}
		for _, kv := range fo.Object {
			if !strings.HasPrefix(kv.Key, "j") || !has[kv.Key[1:]] {
				continue
			}
			fv := strings.Replace(memberOf(ro.Read, kv.Key[1:], false), jstr(kv.Key[1:])+":", jstr(kv.Key)+":", 1)
			if got := memberOf(ro.Read, kv.Key, false); got != fv {
				h.sum.Fail("javascript_with_context on the record node differs from the field member reading the same data (something keyed by node ID across records)", c,
					map[string]interface{}{"record": i, "member": kv.Key, "observed": got, "field_member": fv})
				return
			}
		}
	}
}

// ---- third stream: type casts of awkward literals (Go-side oracle only) -------------------------
// strconv.ParseInt(s, 10, 64) / ParseFloat(s, 64) / ParseBool(s) on the trimmed text: zero-padded
// decimals are decimals, base prefixes and underscores fail the record, Inf / NaN parse but cannot
// be emitted.  Includes the literals outside the model's float class (hex floats, Inf, NaN).
var castLits = []string{"010", "0100", "-017", "0020", "08", "09", "0x1F", "0o17", "0b11", "1_000", "+5", " 7 ", "7",
	"1e3", "1E+2", "0x1p-2", "Inf", "-inf", "NaN", "nan", "Infinity", "1_0.5", "010.5", ".5", "5.", "1e400", "0x10",
	"TRUE", "t", "1", "yes", "T", "false", "F", "0", "no", "True", "tRUE", ""}

func (h *harness) castRecords(r *vh.Rng, idx int) {
	f := formats["xml"]
	cols := []string{"a", "b", "c"}
	nrec := r.Between(1, 3)
	var sb strings.Builder
	sb.WriteString("<r>")
	for i := 0; i < nrec; i++ {
		sb.WriteString("<n>")
		for _, cn := range cols {
			sb.WriteString("<" + cn + ">" + xmlEsc(castLits[r.Pick(len(castLits))]) + "</" + cn + ">")
		}
		sb.WriteString("</n>")
	}
	sb.WriteString("</r>")
	fo := &GDecl{HasObject: true, XPath: f.Target}
	nmem := r.Between(1, 3)
	for i := 0; i < nmem; i++ {
		d := &GDecl{Type: sp(r.PickStr("int", "int", "float", "boolean", "string")), NoTrim: r.Chance(0.15), Keep: r.Chance(0.2)}
		switch r.Pick(3) {
		case 0:
			d.Const = sp(castLits[r.Pick(len(castLits))])
		case 1:
			d.XPath = sp(cols[r.Pick(len(cols))])
		default:
			d.External = sp(r.PickStr("ext2", "ext3", "ext4", "ext5"))
		}
		fo.Object = append(fo.Object, KV{fmt.Sprintf("m%d", i), d})
	}
	ds := Decls{"FINAL_OUTPUT": fo}
	c := Case{Format: "xml", Decls: ds.JSON(), Input: sb.String(), Note: "type casts of awkward literals"}
	vh.Current(h.o, c)
	h.sum.Hist("stream:casts")
	out := runSchema(schemaText(f, ds), c.Input, fo)
	h.sum.Count(c.Decls+c.Input, true)
	if out.Rejected || out.Panic != "" || out.Clobbered != "" || len(out.Recs) != nrec {
		h.sum.Fail("cast stream: schema or run did not complete", c,
			map[string]interface{}{"rejected": out.RejectMsg, "panic": out.Panic, "clobbered": out.Clobbered, "records": len(out.Recs)})
		return
	}
	for _, ro := range out.Recs {
		if ro.On != ro.Read || ro.Off != ro.Read {
			h.sum.Fail("cast stream: Read, cached and uncached ParseNode differ", c, map[string]interface{}{"read": ro.Read, "on": ro.On, "off": ro.Off})
			return
		}
	}
	h.checkMembers(c, "type cast (strconv base 10 / ParseFloat / ParseBool on the trimmed text)", out.Recs,
		func(i int) []memberExp { return out.Recs[i].Direct }, true, "oracle:cast-direct")
}
