package main

// Running the implementation: NewSchema with a FileFormat wrapper that receives the validated
// FINAL_OUTPUT declaration and sees every record node before the ingester transforms it.

import (
	"bytes"
	"encoding/json"
	"encoding/xml"
	"errors"
	"fmt"
	"io"
	"math"
	"math/big"
	"regexp"
	"sort"
	"strconv"
	"strings"

	"github.com/jf-tech/go-corelib/strs"
	"github.com/jf-tech/omniparser"
	"github.com/jf-tech/omniparser/customfuncs"
	"github.com/jf-tech/omniparser/errs"
	"github.com/jf-tech/omniparser/extensions/omniv21"
	v21 "github.com/jf-tech/omniparser/extensions/omniv21/customfuncs"
	"github.com/jf-tech/omniparser/extensions/omniv21/fileformat"
	"github.com/jf-tech/omniparser/extensions/omniv21/fileformat/csv"
	"github.com/jf-tech/omniparser/extensions/omniv21/fileformat/fixedlength"
	fjson "github.com/jf-tech/omniparser/extensions/omniv21/fileformat/json"
	fxml "github.com/jf-tech/omniparser/extensions/omniv21/fileformat/xml"
	"github.com/jf-tech/omniparser/extensions/omniv21/transform"
	"github.com/jf-tech/omniparser/idr"
	"github.com/jf-tech/omniparser/schemahandler"
	"github.com/jf-tech/omniparser/transformctx"

	"verifharness/vh"
)

// ---- custom functions registered by the harness (mirrored by Model.Eval.std_call) ----------

var verifFuncs = customfuncs.CustomFuncs{
	"verif_add":  func(_ *transformctx.Ctx, a, b int64) (int64, error) { return a + b, nil },
	"verif_neg":  func(_ *transformctx.Ctx, f float64) (float64, error) { return 0 - f, nil }, // 0 - f: no negative zero
	"verif_not":  func(_ *transformctx.Ctx, b bool) (bool, error) { return !b, nil },
	"verif_echo": func(_ *transformctx.Ctx, v interface{}) (interface{}, error) { return v, nil },
	"verif_count": func(_ *transformctx.Ctx, vs ...interface{}) (int64, error) {
		n := int64(0)
		for _, v := range vs {
			if v != nil {
				n++
			}
		}
		return n, nil
	},
	"verif_nonempty": func(_ *transformctx.Ctx, s string) (string, error) {
		if s == "" {
			return "", errors.New("empty")
		}
		return s, nil
	},
	"verif_join": func(_ *transformctx.Ctx, sep string, parts ...interface{}) (string, error) {
		var ss []string
		add := func(v interface{}) error {
			str, ok := v.(string)
			if !ok {
				return errors.New("not a string")
			}
			ss = append(ss, str)
			return nil
		}
		for _, p := range parts {
			switch x := p.(type) {
			case nil:
			case []interface{}:
				for _, e := range x {
					if err := add(e); err != nil {
						return "", err
					}
				}
			default:
				if err := add(x); err != nil {
					return "", err
				}
			}
		}
		return strings.Join(ss, sep), nil
	},
	"verif_text": func(_ *transformctx.Ctx, n *idr.Node) (string, error) { return n.InnerText(), nil },
	"verif_len":  func(_ *transformctx.Ctx, s string) (int64, error) { return int64(len(s)), nil },
	"verif_pick": func(_ *transformctx.Ctx, i int64, ss ...string) (string, error) {
		if i < 0 || i >= int64(len(ss)) {
			return "", errors.New("out of range")
		}
		return ss[i], nil
	},
}

var allFuncs = customfuncs.Merge(customfuncs.CommonCustomFuncs, v21.OmniV21CustomFuncs, verifFuncs)

var externals = map[string]string{"ext1": " ex ", "ext2": "7", "ext3": "010", "ext4": "0x1F", "ext5": "1e3"}

// the properties of a second transform created from the same Schema ("missing" stays missing)
var externalsB = map[string]string{"ext1": "other", "ext2": "x8", "ext3": "12", "ext4": "31", "ext5": "true"}

// ---- observation of one record --------------------------------------------------------------------

type recObs struct {
	Tree     string // Coq term of the whole node tree
	Cursor   []int  // path of the record node from the root
	Size     int
	On, Off  string // canonical JSON of ParseNode with the transform cache on / off ("!err" on error)
	Read     string // canonical JSON of what Transform.Read returned ("!err" = ErrTransformFailed)
	Direct   []memberExp
	retained []byte
	ReadObs  string // Coq term of the observed outcome
}

// capture = what one Schema hands to the harness; runCap = one transform of it
type capture struct {
	decl *transform.Decl
	fo   *GDecl  // the generated FINAL_OUTPUT (nil: no direct expectations)
	cur  *runCap // the transform being created: its reader binds to it
}

type runCap struct {
	ext  map[string]string
	recs []*recObs
}

// expectation for one member of FINAL_OUTPUT computed directly from the documented rules
type memberExp struct {
	Key   string
	State string // "fail" | "absent" | "present"
	Val   string // canonical JSON of {key: value} when present
}

// expectNorm is D4 written directly in Go: trim unless no_trim, cast, omit empty unless keep.
func expectNorm(d *GDecl, s string) (string, interface{}) {
	if !d.NoTrim {
		s = strings.TrimSpace(s)
	}
	var v interface{} = s
	if d.Type != nil {
		switch *d.Type {
		case "int":
			i, err := strconv.ParseInt(s, 10, 64)
			if err != nil {
				return "fail", nil
			}
			v = i
		case "float":
			f, err := strconv.ParseFloat(s, 64)
			if err != nil || math.IsInf(f, 0) || math.IsNaN(f) {
				// a cast error fails the record; so does a value json.Marshal cannot emit
				return "fail", nil
			}
			v = f
		case "boolean":
			b, err := strconv.ParseBool(s)
			if err != nil {
				return "fail", nil
			}
			v = b
		}
	}
	if str, ok := v.(string); ok && str == "" && !d.Keep {
		return "absent", nil
	}
	return "present", v
}

// directExpectations evaluates the members of FINAL_OUTPUT that are plain constants or plain
// fields with a static xpath straight from the documented rules, with the xpath engine as a
// black box: no node -> null result, one -> its text, several -> the record fails.
// leafValue evaluates a constant / external / plain field (static xpath or none) at node n straight
// from the documented rules: state "fail" | "absent" | "present" and the normalised value.
func leafValue(d *GDecl, n *idr.Node, externals map[string]string) (string, interface{}, bool) {
	if d.Func != nil || d.Template != nil || d.HasObject || d.HasArray || d.XDyn != nil {
		return "", nil, false
	}
	switch {
	case d.Const != nil:
		st, v := expectNorm(d, *d.Const)
		return st, v, true
	case d.External != nil:
		if ev, ok := externals[*d.External]; ok {
			st, v := expectNorm(d, ev)
			return st, v, true
		}
		return "fail", nil, true
	}
	nodes := []*idr.Node{n}
	if d.XPath != nil && strings.TrimSpace(*d.XPath) != "" {
		var err error
		nodes, err = idr.MatchAll(n, *d.XPath)
		if err != nil {
			return "fail", nil, true
		}
	}
	switch {
	case len(nodes) == 0:
		if d.Keep {
			return "present", nil, true
		}
		return "absent", nil, true
	case len(nodes) > 1:
		return "fail", nil, true
	}
	st, v := expectNorm(d, nodes[0].InnerText())
	return st, v, true
}

// stringFuncValue: custom_func members calling a built-in function whose parameters are all
// strings, with leaf arguments.  D3: arguments positionally, an absent value as "", and a present
// value that is not a string (a type: int / float / boolean cast) FAILS the record - it is never
// converted.
func stringFuncValue(d *GDecl, n *idr.Node, externals map[string]string) (string, interface{}, bool) {
	if d.Func == nil || d.isXPathSet() || d.Const != nil || d.External != nil || d.HasObject || d.HasArray {
		return "", nil, false
	}
	name := d.Func.Name
	if name != "upper" && name != "lower" && name != "concat" && name != "coalesce" {
		return "", nil, false
	}
	// whether the member is understood is decided by its SHAPE, never by how a record evaluates
	for _, a := range d.Func.Args {
		if a.Func != nil || a.Template != nil || a.HasObject || a.HasArray || a.XDyn != nil {
			return "", nil, false
		}
	}
	var args []string
	for _, a := range d.Func.Args {
		st, v, ok := leafValue(a, n, externals)
		if !ok {
			return "", nil, false
		}
		switch st {
		case "fail":
			return "fail", nil, true
		case "absent":
			args = append(args, "")
		default:
			if v == nil {
				args = append(args, "")
			} else if str, isStr := v.(string); isStr {
				args = append(args, str)
			} else {
				return "fail", nil, true // int64 / float64 / bool is not assignable to string
			}
		}
	}
	var res string
	switch name {
	case "upper", "lower":
		if len(args) != 1 {
			return "fail", nil, true
		}
		if name == "upper" {
			res = strings.ToUpper(args[0])
		} else {
			res = strings.ToLower(args[0])
		}
	case "concat":
		res = strings.Join(args, "")
	case "coalesce":
		for _, x := range args {
			if x != "" {
				res = x
				break
			}
		}
	}
	st, v := expectNorm(d, res)
	return st, v, true
}

func directExpectations(fo *GDecl, n *idr.Node, externals map[string]string) []memberExp {
	var out []memberExp
	if fo == nil || !fo.HasObject {
		return nil
	}
	for _, kv := range fo.Object {
		state, val, ok := leafValue(kv.D, n, externals)
		if !ok {
			state, val, ok = stringFuncValue(kv.D, n, externals)
		}
		if !ok {
			continue
		}
		me := memberExp{Key: kv.Key, State: state}
		if state == "present" {
			b, _ := json.Marshal(map[string]interface{}{kv.Key: val})
			me.Val = canonBytes(b)
		}
		out = append(out, me)
	}
	return out
}

type capFormat struct {
	inner fileformat.FileFormat
	cap   *capture
}

func (f *capFormat) ValidateSchema(format string, content []byte, decl *transform.Decl) (interface{}, error) {
	rt, err := f.inner.ValidateSchema(format, content, decl)
	if err == nil {
		f.cap.decl = decl
	}
	return rt, err
}

func (f *capFormat) CreateFormatReader(name string, input io.Reader, rt interface{}) (fileformat.FormatReader, error) {
	r, err := f.inner.CreateFormatReader(name, input, rt)
	if err != nil {
		return nil, err
	}
	return &capReader{inner: r, cap: f.cap, run: f.cap.cur}, nil
}

type capReader struct {
	inner fileformat.FormatReader
	cap   *capture
	run   *runCap
}

func pathOf(n *idr.Node) []int {
	var p []int
	for n.Parent != nil {
		i := 0
		for s := n.PrevSibling; s != nil; s = s.PrevSibling {
			i++
		}
		p = append([]int{i}, p...)
		n = n.Parent
	}
	return p
}

func canonJSON(v interface{}, err error) string {
	if err != nil {
		return "!err"
	}
	b, merr := json.Marshal(v)
	if merr != nil {
		return "!err" // the ingester reports a value json cannot emit as a failure of this record
	}
	return canonBytes(b)
}

// canonBytes re-encodes JSON with sorted keys and numbers as canonical decimals.
func canonBytes(b []byte) string {
	dec := json.NewDecoder(bytes.NewReader(b))
	dec.UseNumber()
	var v interface{}
	if err := dec.Decode(&v); err != nil {
		return "!decode"
	}
	var sb strings.Builder
	canonVal(&sb, v)
	return sb.String()
}

func canonNum(s string) (m *big.Int, e int) {
	mant, exp := s, 0
	if i := strings.IndexAny(s, "eE"); i >= 0 {
		mant = s[:i]
		fmt.Sscanf(s[i+1:], "%d", &exp)
	}
	neg := strings.HasPrefix(mant, "-")
	mant = strings.TrimPrefix(strings.TrimPrefix(mant, "-"), "+")
	if i := strings.Index(mant, "."); i >= 0 {
		exp -= len(mant) - i - 1
		mant = mant[:i] + mant[i+1:]
	}
	m = new(big.Int)
	m.SetString(mant, 10)
	if m.Sign() == 0 {
		return m, 0
	}
	ten := big.NewInt(10)
	for {
		q, r := new(big.Int).QuoRem(m, ten, new(big.Int))
		if r.Sign() != 0 {
			break
		}
		m = q
		exp++
	}
	if neg {
		m.Neg(m)
	}
	return m, exp
}

func canonVal(sb *strings.Builder, v interface{}) {
	switch x := v.(type) {
	case nil:
		sb.WriteString("null")
	case bool:
		fmt.Fprintf(sb, "%v", x)
	case json.Number:
		m, e := canonNum(string(x))
		fmt.Fprintf(sb, "%se%d", m.String(), e)
	case string:
		sb.WriteString(jstr(x))
	case []interface{}:
		sb.WriteString("[")
		for i, e := range x {
			if i > 0 {
				sb.WriteString(",")
			}
			canonVal(sb, e)
		}
		sb.WriteString("]")
	case map[string]interface{}:
		var ks []string
		for k := range x {
			ks = append(ks, k)
		}
		sort.Strings(ks)
		sb.WriteString("{")
		for i, k := range ks {
			if i > 0 {
				sb.WriteString(",")
			}
			sb.WriteString(jstr(k) + ":")
			canonVal(sb, x[k])
		}
		sb.WriteString("}")
	}
}

// obsTerm prints decoded JSON as a Model.Value.obs term.
func obsTerm(v interface{}) string {
	switch x := v.(type) {
	case nil:
		return "ONull"
	case bool:
		return "(OBool " + vh.CoqBool(x) + ")"
	case json.Number:
		m, e := canonNum(string(x))
		return fmt.Sprintf("(ONum (%s)%%Z (%d)%%Z)", m.String(), e)
	case string:
		return "(OStr " + vh.CoqHex([]byte(x)) + ")"
	case []interface{}:
		var es []string
		for _, e := range x {
			es = append(es, obsTerm(e))
		}
		return "(OList " + vh.CoqList(es) + ")"
	case map[string]interface{}:
		var ks []string
		for k := range x {
			ks = append(ks, k)
		}
		sort.Strings(ks)
		var es []string
		for _, k := range ks {
			es = append(es, "("+vh.CoqHex([]byte(k))+", "+obsTerm(x[k])+")")
		}
		return "(OObj " + vh.CoqList(es) + ")"
	}
	return "ONull"
}

func (r *capReader) Read() (*idr.Node, error) {
	n, err := r.inner.Read()
	if err != nil || n == nil || r.cap.decl == nil || r.run == nil {
		return n, err
	}
	root := vh.Root(n)
	ro := &recObs{Tree: vh.CoqTree(root), Cursor: pathOf(n), Size: vh.TreeSize(root)}
	ctx := &transformctx.Ctx{ExternalProperties: r.run.ext}
	func() {
		defer func() {
			if p := recover(); p != nil {
				ro.On = fmt.Sprintf("!panic %v", p)
			}
		}()
		ro.On = canonJSON(transform.NewParseCtx(ctx, allFuncs, nil).ParseNode(n, r.cap.decl))
	}()
	func() {
		defer func() {
			if p := recover(); p != nil {
				ro.Off = fmt.Sprintf("!panic %v", p)
			}
		}()
		pc := transform.NewParseCtx(ctx, allFuncs, nil)
		pc.VerifSetDisableTransformCache(true)
		ro.Off = canonJSON(pc.ParseNode(n, r.cap.decl))
	}()
	ro.Direct = directExpectations(r.cap.fo, n, r.run.ext)
	r.run.recs = append(r.run.recs, ro)
	return n, err
}
func (r *capReader) Release(n *idr.Node)               { r.inner.Release(n) }
func (r *capReader) IsContinuableError(err error) bool { return r.inner.IsContinuableError(err) }
func (r *capReader) FmtErr(format string, args ...interface{}) error {
	return r.inner.FmtErr(format, args...)
}

// ---- one run: schema text + input -> what the implementation did -------------------------------

type runOut struct {
	Rejected  bool // NewSchema refused the schema
	RejectMsg string
	Decl      *transform.Decl
	Recs      []*recObs
	Fatal     string // a non-continuable error other than EOF ended the run
	Panic     string
	Clobbered string // bytes returned by an earlier Read changed while later records were read
}

func runSchema(schema, input string, fo *GDecl) *runOut {
	return runSchemaN(schema, []string{input}, []map[string]string{externals}, fo, false)[0]
}

// runSchemaN: ONE omniparser.Schema, one transform per (input, externals) pair - read one after
// the other, or interleaved record by record.
func runSchemaN(schema string, inputs []string, exts []map[string]string, fo *GDecl, interleave bool) (outs []*runOut) {
	outs = make([]*runOut, len(inputs))
	for i := range outs {
		outs[i] = &runOut{}
	}
	cp := &capture{fo: fo}
	defer func() {
		if p := recover(); p != nil {
			for _, o := range outs {
				o.Panic = fmt.Sprint(p)
			}
		}
	}()
	ext := omniparser.Extension{
		CreateSchemaHandler: func(ctx *schemahandler.CreateCtx) (schemahandler.SchemaHandler, error) {
			c2 := *ctx
			c2.CreateParams = &omniv21.CreateParams{CustomFileFormats: []fileformat.FileFormat{
				&capFormat{inner: csv.NewCSVFileFormat(ctx.Name), cap: cp},
				&capFormat{inner: fixedlength.NewFixedLengthFileFormat(ctx.Name), cap: cp},
				&capFormat{inner: fjson.NewJSONFileFormat(ctx.Name), cap: cp},
				&capFormat{inner: fxml.NewXMLFileFormat(ctx.Name), cap: cp},
			}}
			return omniv21.CreateSchemaHandler(&c2)
		},
		CustomFuncs: allFuncs,
	}
	s, err := omniparser.NewSchema("c02", strings.NewReader(schema), ext)
	if err != nil {
		for _, o := range outs {
			o.Rejected, o.RejectMsg = true, err.Error()
		}
		return outs
	}
	type live struct {
		t    omniparser.Transform
		run  *runCap
		done bool
		n    int
	}
	ts := make([]*live, len(inputs))
	start := func(i int) {
		outs[i].Decl = cp.decl
		run := &runCap{ext: exts[i]}
		cp.cur = run
		t, err := s.NewTransform("in", strings.NewReader(inputs[i]), &transformctx.Ctx{ExternalProperties: exts[i]})
		cp.cur = nil
		ts[i] = &live{t: t, run: run}
		if err != nil {
			outs[i].Fatal = "NewTransform: " + err.Error()
			ts[i].done = true
		}
	}
	// one Read; false = this transform is finished
	step := func(i int) bool {
		l, out := ts[i], outs[i]
		if l.done || l.n >= 64 {
			return false
		}
		l.n++
		before := len(l.run.recs)
		b, err := l.t.Read()
		if err == io.EOF {
			l.done = true
			return false
		}
		if err != nil && !errs.IsErrTransformFailed(err) {
			out.Fatal = err.Error()
			l.done = true
			return false
		}
		if len(l.run.recs) != before+1 {
			if err != nil {
				// a per-record failure raised by the reader itself (no node was delivered)
				return true
			}
			out.Fatal = "Read returned a record the reader wrapper did not see"
			l.done = true
			return false
		}
		ro := l.run.recs[len(l.run.recs)-1]
		if err != nil {
			ro.Read, ro.ReadObs = "!err", "OFailed"
			return true
		}
		ro.Read = canonBytes(b)
		ro.retained = b // the slice itself, not a copy: re-validated when the run is over
		dec := json.NewDecoder(bytes.NewReader(b))
		dec.UseNumber()
		var v interface{}
		_ = dec.Decode(&v)
		ro.ReadObs = "(OOk " + obsTerm(v) + ")"
		return true
	}
	if interleave {
		for i := range inputs {
			start(i)
		}
		for more := true; more; {
			more = false
			for i := range inputs {
				if step(i) {
					more = true
				}
			}
		}
	} else {
		for i := range inputs {
			start(i)
			for step(i) {
			}
		}
	}
	for i, l := range ts {
		out := outs[i]
		for j, ro := range l.run.recs {
			if ro.retained != nil && canonBytes(ro.retained) != ro.Read {
				out.Clobbered = fmt.Sprintf("record %d: was %s, is now %s", j, ro.Read, string(ro.retained))
				break
			}
		}
		// records the reader produced but Read never reported (run ended early) are dropped
		for _, ro := range l.run.recs {
			if ro.Read != "" {
				out.Recs = append(out.Recs, ro)
			}
		}
	}
	return outs
}

// ---- dumping the validated declaration tree as a Model.Decl.vdecl term ----------------------------

type declMeta struct {
	FQDN   string `json:"fqdn"`
	Kind   string `json:"kind"`
	Parent string `json:"parent"`
}

func metaOf(d *transform.Decl) declMeta {
	c := *d
	c.Object, c.Array, c.CustomFunc, c.XPathDynamic = nil, nil, nil, nil
	b, _ := json.Marshal(c)
	var m declMeta
	_ = json.Unmarshal(b, &m)
	return m
}

var kindCoq = map[string]string{"const": "KConst", "external": "KExternal", "field": "KField", "object": "KObject",
	"array": "KArray", "custom_func": "KCustomFunc", "custom_parse": "KCustomParse", "template": "KTemplate"}

type dumper struct {
	kinds   map[string]string // fqdn -> kind
	classes map[string]int
	order   []int // hash class per declaration, preorder
	problem string
	nodes   int
	dupHash bool // two declarations share a hash class
}

func kidsOf(d *transform.Decl) []*transform.Decl {
	if d.CustomFunc != nil && transform.VerifDeclKind(d) == "custom_func" {
		return d.CustomFunc.Args
	}
	return transform.VerifDeclChildren(d)
}

func (du *dumper) collect(d *transform.Decl) {
	m := metaOf(d)
	du.kinds[m.FQDN] = m.Kind
	if d.XPathDynamic != nil {
		du.collect(d.XPathDynamic)
	}
	for _, k := range kidsOf(d) {
		du.collect(k)
	}
}

func (du *dumper) term(d *transform.Decl, depth int) string {
	if depth > 60 {
		du.problem = "declaration tree deeper than 60"
		return "(VD (mkI (mkP KField None None None None false None None None false false) [] PD0 None) None [])"
	}
	du.nodes++
	m := metaOf(d)
	h := transform.VerifDeclHash(d)
	cls, ok := du.classes[h]
	if !ok {
		cls = len(du.classes) + 1
		du.classes[h] = cls
	} else {
		du.dupHash = true
	}
	du.order = append(du.order, cls)
	var fq []string
	for _, nl := range strs.SplitWithEsc(m.FQDN, ".", "%") {
		fq = append(fq, vh.CoqHex([]byte(nl)))
	}
	parent := "None"
	if m.Parent != "(nil)" && m.Parent != "" {
		pk, ok := du.kinds[m.Parent]
		if !ok {
			du.problem = "parent " + m.Parent + " of " + m.FQDN + " is not a declaration of the tree"
		}
		parent = "(Some " + kindCoq[pk] + ")"
	}
	fname, ignore := "None", "false"
	if d.CustomFunc != nil {
		fname = "(Some " + vh.CoqHex([]byte(d.CustomFunc.Name)) + ")"
		ignore = vh.CoqBool(d.CustomFunc.IgnoreError)
	}
	rt := "None"
	if d.ResultType != nil {
		rt = "(Some " + rtypeCoq[string(*d.ResultType)] + ")"
	}
	kc, ok := kindCoq[m.Kind]
	if !ok {
		du.problem = "unknown kind " + m.Kind
		kc = "KField"
	}
	var sb strings.Builder
	sb.WriteString("(VD (mkI (mkP " + kc + " " + coqOptStr(d.Const) + " " + coqOptStr(d.External) + " " + coqOptStr(d.XPath) + " " +
		fname + " " + ignore + " " + coqOptStr(d.CustomParse) + " " + coqOptStr(d.Template) + " " + rt + " " +
		vh.CoqBool(d.NoTrim) + " " + vh.CoqBool(d.KeepEmptyOrNull) + ") " + vh.CoqList(fq) + " PD0 " + parent + ") ")
	if d.XPathDynamic != nil {
		sb.WriteString("(Some " + du.term(d.XPathDynamic, depth+1) + ") ")
	} else {
		sb.WriteString("None ")
	}
	var ks []string
	for _, k := range kidsOf(d) {
		ks = append(ks, du.term(k, depth+1))
	}
	sb.WriteString(vh.CoqList(ks) + ")")
	// Go-side consistency of the computed fields the model abstracts
	if m.Kind == "object" {
		for _, k := range transform.VerifDeclChildren(d) {
			km := metaOf(k)
			key := strs.LastNameletOfFQDNWithEsc(km.FQDN)
			if d.Object[key] != k {
				du.problem = "object child " + km.FQDN + " is not Object[" + key + "]"
			}
		}
		if len(transform.VerifDeclChildren(d)) != len(d.Object) {
			du.problem = "object " + m.FQDN + ": children and Object differ in size"
		}
	}
	return sb.String()
}

func dumpDecl(d *transform.Decl) (term string, classes []int, du *dumper) {
	du = &dumper{kinds: map[string]string{}, classes: map[string]int{}}
	du.collect(d)
	term = du.term(d, 0)
	return term, du.order, du
}

// ---- an independent reading of the XML input (encoding/xml), for the name-test oracle -----------

type xnode struct {
	Local, Space string // Space = namespace URL of the prefix ("" = no prefix: no default namespace is declared)
	Text         string // character data (text nodes only)
	IsText       bool
	Kids         []*xnode
}

func parseXML(input string) *xnode {
	dec := xml.NewDecoder(strings.NewReader(input))
	root := &xnode{}
	stack := []*xnode{root}
	for {
		tok, err := dec.Token()
		if err != nil {
			break
		}
		switch t := tok.(type) {
		case xml.StartElement:
			n := &xnode{Local: t.Name.Local, Space: t.Name.Space}
			top := stack[len(stack)-1]
			top.Kids = append(top.Kids, n)
			stack = append(stack, n)
		case xml.EndElement:
			if len(stack) > 1 {
				stack = stack[:len(stack)-1]
			}
		case xml.CharData:
			top := stack[len(stack)-1]
			top.Kids = append(top.Kids, &xnode{IsText: true, Text: string(t)})
		}
	}
	return root
}

func (x *xnode) innerText() string {
	if x.IsText {
		return x.Text
	}
	var sb strings.Builder
	for _, k := range x.Kids {
		sb.WriteString(k.innerText())
	}
	return sb.String()
}

func bareName(s string) bool {
	if s == "" {
		return false
	}
	for _, c := range s {
		if !(c >= 'a' && c <= 'z') {
			return false
		}
	}
	return true
}

// selector = a one-step child xpath the independent XML reading understands:
//
//	NAME | * , optionally followed by [k] | [last()] | [position()<last()]
type selector struct {
	name string // "*" = any element child
	pred string // "", "last", "beforelast", "k"
	k    int
}

var selRe = regexp.MustCompile(`^(\*|[a-z]+)(\[(last\(\)|position\(\) ?< ?last\(\)|[0-9]+)\])?$`)

func parseSelector(xp string) (selector, bool) {
	m := selRe.FindStringSubmatch(xp)
	if m == nil {
		return selector{}, false
	}
	sl := selector{name: m[1]}
	switch {
	case m[3] == "":
	case m[3] == "last()":
		sl.pred = "last"
	case strings.HasPrefix(m[3], "position()"):
		sl.pred = "beforelast"
	default:
		sl.pred = "k"
		sl.k, _ = strconv.Atoi(m[3])
	}
	return sl, true
}

// apply: the element children with that local name and NO prefix (any element child for *), in
// document order, then the positional predicate among them
func (sl selector) apply(rec *xnode) []*xnode {
	var m []*xnode
	for _, k := range rec.Kids {
		if k.IsText {
			continue
		}
		if sl.name == "*" || (k.Local == sl.name && k.Space == "") {
			m = append(m, k)
		}
	}
	switch sl.pred {
	case "last":
		if len(m) > 0 {
			m = m[len(m)-1:]
		}
	case "beforelast":
		if len(m) > 0 {
			m = m[:len(m)-1]
		}
	case "k":
		if sl.k >= 1 && sl.k <= len(m) {
			m = m[sl.k-1 : sl.k]
		} else {
			m = nil
		}
	}
	return m
}

// xmlDirect: for every record (child element n of the document element, in order) what the
// members `{xpath: SEL}`, `{array: [{xpath: SEL}]}` and `{xpath: SEL, object: {t: {xpath: "."}}}`
// of FINAL_OUTPUT must be, from an independent reading of the input.
func xmlDirect(input string, fo *GDecl) [][]memberExp {
	if fo == nil || !fo.HasObject {
		return nil
	}
	doc := parseXML(input)
	if len(doc.Kids) == 0 {
		return nil
	}
	var recs []*xnode
	for _, k := range doc.Kids[0].Kids {
		if !k.IsText && k.Local == "n" && k.Space == "" {
			recs = append(recs, k)
		}
	}
	plainField := func(e *GDecl) (selector, bool) {
		if e.Const != nil || e.External != nil || e.Func != nil || e.Template != nil || e.HasObject || e.HasArray ||
			e.XDyn != nil || e.XPath == nil {
			return selector{}, false
		}
		return parseSelector(*e.XPath)
	}
	selfField := func(e *GDecl) bool {
		return e.Const == nil && e.External == nil && e.Func == nil && e.Template == nil && !e.HasObject && !e.HasArray &&
			e.XDyn == nil && e.XPath != nil && *e.XPath == "."
	}
	var out [][]memberExp
	for _, rec := range recs {
		var exps []memberExp
		for _, kv := range fo.Object {
			d := kv.D
			me := memberExp{Key: kv.Key}
			put := func(val interface{}) {
				b, _ := json.Marshal(map[string]interface{}{kv.Key: val})
				me.Val = canonBytes(b)
			}
			if sl, ok := plainField(d); ok {
				m := sl.apply(rec)
				var val interface{}
				switch {
				case len(m) == 0:
					me.State = "absent"
					if d.Keep {
						me.State = "present"
					}
				case len(m) > 1:
					me.State = "fail"
				default:
					me.State, val = expectNorm(d, m[0].innerText())
				}
				if me.State == "present" {
					put(val)
				}
				exps = append(exps, me)
				continue
			}
			if d.HasArray && len(d.Array) == 1 && d.XPath == nil && d.XDyn == nil {
				if e := d.Array[0]; e.Func != nil && e.Func.Name == "verif_echo" && len(e.Func.Args) == 1 && selfField(e.Func.Args[0]) &&
					!e.Func.Args[0].NoTrim && !e.Func.Args[0].Keep && e.Func.Args[0].Type == nil &&
					e.XPath != nil && e.XDyn == nil && e.Type == nil && e.Const == nil && !e.HasObject && !e.HasArray {
					// an element that echoes the text of every selected node, null where it is empty:
					// with keep_empty_or_null the nulls stay in the array
					if sl, ok := parseSelector(*e.XPath); ok {
						me.State = "present"
						vals := []interface{}{}
						for _, x := range sl.apply(rec) {
							t := strings.TrimSpace(x.innerText())
							switch {
							case t != "":
								vals = append(vals, t)
							case e.Keep:
								vals = append(vals, nil)
							}
						}
						switch {
						case len(vals) > 0:
							put(vals)
						case d.Keep:
							put(nil)
						default:
							me.State = "absent"
						}
						exps = append(exps, me)
						continue
					}
				}
				if sl, ok := plainField(d.Array[0]); ok {
					e := d.Array[0]
					me.State = "present"
					vals := []interface{}{}
					for _, x := range sl.apply(rec) {
						st, v := expectNorm(e, x.innerText())
						switch st {
						case "fail":
							me.State = "fail"
						case "present":
							vals = append(vals, v)
						}
					}
					if me.State == "present" {
						switch {
						case len(vals) > 0:
							put(vals)
						case d.Keep:
							put(nil)
						default:
							me.State = "absent"
						}
					}
					exps = append(exps, me)
					continue
				}
			}
			if d.HasObject && d.XPath != nil && d.XDyn == nil && len(d.Object) == 1 && selfField(d.Object[0].D) &&
				d.Const == nil && d.External == nil && d.Func == nil {
				sl, ok := parseSelector(*d.XPath)
				if !ok {
					continue
				}
				m := sl.apply(rec)
				switch {
				case len(m) == 0:
					me.State = "absent"
					if d.Keep {
						me.State = "present"
						put(nil)
					}
				case len(m) > 1:
					me.State = "fail"
				default:
					st, v := expectNorm(d.Object[0].D, m[0].innerText())
					switch st {
					case "fail":
						me.State = "fail"
					case "present":
						me.State = "present"
						put(map[string]interface{}{d.Object[0].Key: v})
					default:
						me.State = "absent"
						if d.Keep {
							me.State = "present"
							put(map[string]interface{}{})
						}
					}
				}
				exps = append(exps, me)
			}
		}
		out = append(out, exps)
	}
	return out
}

// constPaths: every constant reachable from FINAL_OUTPUT through un-anchored objects must appear
// in the output under exactly its declared names.
type constPath struct {
	Path []string
	Val  string
}

func constPaths(d *GDecl, prefix []string, out *[]constPath) {
	if d == nil || !d.HasObject || (len(prefix) > 0 && d.isXPathSet()) {
		return
	}
	for _, kv := range d.Object {
		p := append(append([]string{}, prefix...), kv.Key)
		c := kv.D
		switch {
		case c.Const != nil && c.Type == nil && strings.TrimSpace(*c.Const) != "":
			v := *c.Const
			if !c.NoTrim {
				v = strings.TrimSpace(v)
			}
			*out = append(*out, constPath{p, v})
		case c.HasObject:
			constPaths(c, p, out)
		}
	}
}

func lookupPath(v interface{}, path []string) (interface{}, bool) {
	for _, k := range path {
		m, ok := v.(map[string]interface{})
		if !ok {
			return nil, false
		}
		v, ok = m[k]
		if !ok {
			return nil, false
		}
	}
	return v, true
}
